"""C16/C07 correspondence: the real CLI (subprocess `python -m nix_manipulator`, stdin and -f FILE) against the
GENERATED arm table interpreted by Cli.CliIR, fed with what the library computes in-process for the same input
(edit result or exception, contains_error, rebuild).  Also states C16 directly against the observations (oracle).
usage: cli_corr.py SEED N OUTDIR PREFIX"""
import json, os, random, subprocess, sys, tempfile, shutil
from concurrent.futures import ThreadPoolExecutor
from common import write_shards, summary
seed, N, outdir, prefix = int(sys.argv[1]), int(sys.argv[2]), sys.argv[3], sys.argv[4]
REPO = os.environ.get('NIMA_REPO', '/repo')
from nix_manipulator import parse
from nix_manipulator.parser import parse_to_ast
from nix_manipulator.cli.manipulations import set_value, remove_value
R = random.Random(seed)
def q(s): return '"' + s.replace('"', '""') + '"'

CANON = ['{\n  a = 1;\n}\n', '{ a = 1; }\n', '{ pkgs }:\n{\n  a = 1;\n  b = {\n    c = "x";\n  };\n}\n', 'let\n  v = 1;\nin\n{\n  a = v;\n}\n',
         '# header\n{\n  a = [\n    1\n    2\n  ];\n  # note\n  b.c = true;\n}\n', '{ }\n', '{\n  a = 1;\n}', '{ a = 1; }', '{\n  a = 1;\n}\n\n',
         '{ a.b.c = 1; }\n', '{\n  a.b.c.d = 1;\n}\n', 'let\n  x.y.z = 1;\nin\n{ a = 1; }\n', '{\n  a.b.c = 1;\n  a.b.d = 2;\n}\n',
         '{\n  a = {\n    n = {\n      b.c = 1;\n      k = 3;\n    };\n    m = 1;\n  };\n}\n',       # [13] twelfth round: an attrpath family two explicit sets down
         'let\n  a = 1;\nin\nlet\n  b = 2;\n  d = 3;\nin\n\n{ c = a + b; }\n', '{ pkgs }:\nlet\n  a = 1;\nin\nlet\n  b = 2;\n  d = 3;\nin\n# body\n{ c = a + b; }\n# end\n']        # tenth round: removing the only leaf of a long attrpath
NONCANON = ['\ufeff{ a = 1; }\n', '\ufeff{\n  a = 1;\n}\n', '{ a = 1; }\r\n', '{\r\n  a = 1;\r\n}\r\n', '{ a = "é→"; }\n', '{a=1;}', '{ a   =  1 ; }\n', '{\n\ta = 1;\n}\n', '\n{ a = 1; }\n', '{ a = 1; }   ', '{\n  a = 1;\n\n\n  b = 2;\n}\n', '[ 1 2 ]\n', 'x: x\n', '1\n']
BROKEN = ['{ a = 1 }', '{\n  a = 1;\n  b = 2\n}\n', '{ a = [ 1 2; }', 'a.${b', '{ a, , b }: { a = 1; }\n', '{ a = 1;', '{ a = ; }\n', '{ a = 1; }}\n', 'let in', '{ a = 1 }\n', ')(', '{ a = "x; }\n', '\n\n{ a = 1; \n', '  { a = [ 1; }  \n', '']
PATHS = ['with.x', 'a.in', 'meta.rec.enable', 'if', 'b.then.c', 'z.let', 'a.n.b.c', 'a.n.b.d', 'a.n.b', 'a.n.k', 'a.n.fresh', '@@a', '@b', '@d', 'a.b.c', 'a.b.c.d', '@x.y.z', 'a.b.d', '"a${"', '"${"', 'b."x${"', '"$"', '"a$"', '"\\${"', 'a', 'b', 'b.c', 'z', 'a.b', '"a"', 'a..b', '', '@v', '@w', '@@v', '"q', 'x.y.z', 'é', '"é"', 'b\n', 'a\n', 'a.b\n', '@b\n', ' b', 'b ', 'b\t', 'b\r']
VALUES = ['2', '"s"', '[ 1 2 ]', '{ k = 1; }', '1 +', '', '1 2', 'x: x', '# c', '"é"']
# twelfth round: VALUES whose only damage is a character at either end that Python calls white space and Nix does not (the library refuses them; an
# argument parser that strips them turns a refused value into an accepted one), next to values padded with real blanks
EDGE_VALUES = ['3\u00a0', '\u00a03', '[ 1 2 ]\u2028', '\u30003', '\x1f{ c = 4; }\x1c', '3\x0c', '3\u0085', '\ufeff3', ' 3 ', '\t3\n', '3\u00a0\n', '\x0b3']
VALUES += EDGE_VALUES
def text():
    r = R.random()
    if r < 0.45: return R.choice(CANON), 'canonical'
    if r < 0.7: return R.choice(NONCANON), 'noncanonical'
    return R.choice(BROKEN), 'erroneous'
cases = []
# deterministic core: every canonical / non-canonical text under test, set and rm of an existing key (every final-newline situation on both channels)
for t in CANON: cases += [{'cmd': cm, 'text': t, 'kind': 'canonical', 'npath': 'a', 'value': '2'} for cm in ('test', 'set', 'rm')]
for t in NONCANON: cases += [{'cmd': cm, 'text': t, 'kind': 'noncanonical', 'npath': 'a', 'value': '2'} for cm in ('test', 'set')]
# … and every path spelling under test as a set and an rm on two canonical documents (ninth round: a spelling met only by chance is a spelling missed)
for t in (CANON[0], CANON[2], CANON[9], CANON[10], CANON[11], CANON[12], CANON[13], CANON[14], CANON[15]):
    for pth in PATHS: cases += [{'cmd': 'set', 'text': t, 'kind': 'canonical', 'npath': pth, 'value': '2'}, {'cmd': 'rm', 'text': t, 'kind': 'canonical', 'npath': pth, 'value': '2'}]
for t in (CANON[0], CANON[3]):
    for v in EDGE_VALUES: cases.append({'cmd': 'set', 'text': t, 'kind': 'canonical', 'npath': 'a', 'value': v})
for _ in range(N):
    t, kind = text()
    cmd = R.choice(['test', 'test', 'set', 'set', 'set', 'rm', 'rm', 'bogus'])
    cases.append({'cmd': cmd, 'text': t, 'kind': kind, 'npath': R.choice(PATHS), 'value': R.choice(VALUES)})
tmp = tempfile.mkdtemp(prefix='nima-cli-')
env = dict(os.environ, PYTHONPATH=REPO, PYTHONIOENCODING='utf-8', LANG='C.UTF-8', PYTHONHASHSEED='0', PYTHONDONTWRITEBYTECODE='1')
def argv(c, file=None):
    a = ['/venv/bin/python', '-W', 'ignore', '-m', 'nix_manipulator']
    if c['cmd'] == 'bogus': return a            # no sub-command: the `case _` arm
    a.append(c['cmd'])
    if file: a += ['-f', file]
    if c['cmd'] in ('set', 'rm'): a += ['--', c['npath']]
    if c['cmd'] == 'set': a.append(c['value'])
    return a
def run_cli(ic):
    i, c = ic
    p1 = subprocess.run(argv(c), input=c['text'].encode(), stdout=subprocess.PIPE, stderr=subprocess.PIPE, env=env, cwd=tmp, timeout=120)
    f = os.path.join(tmp, 'in%d.nix' % i); open(f, 'wb').write(c['text'].encode())
    p2 = subprocess.run(argv(c, f), stdin=subprocess.DEVNULL, stdout=subprocess.PIPE, stderr=subprocess.PIPE, env=env, cwd=tmp, timeout=120)
    return (p1.returncode, p1.stdout, bool(p1.stderr)), (p2.returncode, p2.stdout, bool(p2.stderr))
try:
    with ThreadPoolExecutor(16) as ex: obs = list(ex.map(run_cli, enumerate(cases)))
finally:
    shutil.rmtree(tmp, ignore_errors=True)
viol, rows, keys, known = [], [], {}, {}
for c, (o1, o2) in zip(cases, obs):
    # what the library computes for this input
    lib = {'set': None, 'rm': None, 'err': False, 'rebuild': ''}
    exc = None
    try:
        d = parse(c['text']); lib['err'] = bool(d.contains_error); lib['rebuild'] = d.rebuild()
    except Exception as e: exc = e
    for op in ('set', 'rm'):
        try:
            d2 = parse(c['text'])
            lib[op] = set_value(source=d2, npath=c['npath'], value=c['value']) if op == 'set' else remove_value(source=d2, npath=c['npath'])
        except Exception as e: lib[op] = None
    k = '%s/%s/%s' % (c['cmd'], c['kind'], 'ok' if (lib.get(c['cmd']) is not None if c['cmd'] in ('set', 'rm') else True) else 'raises')
    keys[k] = keys.get(k, 0) + 1
    rc, out, err = o1
    try: outs = out.decode('utf8')
    except Exception: outs = out.decode('latin1')
    # ---- the property, stated directly (oracle) ----
    what = None
    if o1[:2] != o2[:2] and '\r' in c['text']:
        known['F-28'] = known.get('F-28', 0) + 1      # listed finding: -f FILE reads with universal newlines, stdin does not
    elif o1[:2] != o2[:2]: what = 'stdin and -f FILE give different results: %r vs %r' % (o1[:2], o2[:2])
    elif c['cmd'] == 'test':
        ts_err = parse_to_ast(c['text']).has_error          # "free of syntax errors" is tree-sitter's verdict (ERROR and MISSING nodes), not the library's flag
        good = exc is None and not ts_err and not lib['err'] and lib['rebuild'] == c['text']
        if (outs, rc) != (('OK\n', 0) if good else ('Fail\n', 1)): what = 'test printed %r status %d, expected %s' % (outs, rc, 'OK/0' if good else 'Fail/1')
    elif c['cmd'] in ('set', 'rm'):
        r = lib[c['cmd']]
        if parse_to_ast(c['text']).has_error and (outs != '' or rc == 0): what = 'input has a syntax error but the CLI wrote %r with status %d' % (outs[:80], rc)
        elif r is None:
            if outs != '' or rc == 0: what = 'library refused the edit but the CLI wrote %r with status %d' % (outs[:80], rc)
        else:
            want = r if r.endswith('\n') else r + '\n'
            if outs != want or rc != 0: what = 'CLI wrote %r (status %d), library result terminated is %r' % (outs[-40:], rc, want[-40:])
            elif c['kind'] == 'canonical':
                # what a successful edit of a canonical file emits is itself accepted by `nima test` (no syntax error, rebuilds to itself)
                try: again = parse(outs); ok_again = (not parse_to_ast(outs).has_error) and again.rebuild() == outs
                except Exception: ok_again = False
                if not ok_again: what = 'the text emitted by a successful %s on a canonical input is rejected by `nima test`' % c['cmd']
                elif c['text'].endswith('\n') and not c['text'].endswith('\n\n') and not (outs.endswith('\n') and not outs.endswith('\n\n')):
                    what = 'a canonical input ending in exactly one newline comes back from a successful %s ending in %r' % (c['cmd'], outs[-3:])       # eleventh round: the clause was only checked through `nima test`, which accepts a trailing blank line
                elif c['cmd'] == 'rm' and outs == (c['text'] if c['text'].endswith('\n') else c['text'] + '\n'):
                    what = 'exit status 0 for an rm that removed nothing: the emitted text is the input'          # twelfth round: "exit 0 only on success" judged from outside the library
                elif c['cmd'] == 'set' and outs == (c['text'] if c['text'].endswith('\n') else c['text'] + '\n') and c['value'].strip() not in c['text']:
                    what = 'exit status 0 for a set that wrote nothing: the emitted text is the input and does not contain the value'
    if what: viol.append({'what': what, 'cmd': c['cmd'], 'text': c['text'], 'npath': c['npath'], 'value': c['value']})
    if exc is None and c['text'].isascii() and outs.isascii() and c['npath'].isascii() and c['value'].isascii() and '\r' not in outs:
        lr = lib['set'] if lib['set'] is None or lib['set'].isascii() else None
        rows.append('(%s, %s, %s, %s, %s, %s, %s, %s, (%s, %s, %d))' % (
            q(c['cmd']), q(c['text']), q(c['npath']), q(c['value']),
            'Some ' + q(lib['set']) if lib['set'] is not None else 'None', 'Some ' + q(lib['rm']) if lib['rm'] is not None else 'None',
            'true' if lib['err'] else 'false', q(lib['rebuild']), q(outs), 'true' if err else 'false', rc))
HDR = ('From Coq Require Import List String Bool Arith. Import ListNotations. Open Scope string_scope.\n'
       'From Cli Require Import CliIR.\nFrom Dyn Require Import CliGen.\n'
       'Definition T : Type := (string * string * string * string * option string * option string * bool * string * (string * bool * nat))%type.\n')
OK = ("Definition ok (t : T) : bool :=\n  let '(cmd, txt, np, vl, ls, lr, le, lb, (o, e, rc)) := t in\n"
      "  match main unit (fun _ => tt) (fun _ _ _ => ls) (fun _ _ => lr) (fun _ => le) (fun _ => lb) arms cmd {| stdin_text := txt; a_npath := np; a_value := vl |} with\n"
      "  | Done o' e' rc' => String.eqb o o' && Bool.eqb e e' && Nat.eqb rc rc'\n  | Unsupported => false end.\n")
write_shards(outdir, prefix, HDR, 'T', OK, rows, 8)
json.dump({'stats': {'cli_invocations': 2 * len(cases), 'cases_compared_in_coq': len(rows), 'distribution': keys},
           'keys': sorted(keys), 'distinct_count': len({json.dumps(c, sort_keys=True) for c in cases}),
           'rule': 'seeded (command, input text, path, value) over canonical / non-canonical / erroneous / empty texts, both channels; distinct = distinct argument tuples',
           'samples': [cases[0], cases[len(cases) // 2]], 'violations': viol[:5], 'n_violations': len(viol), 'known_hits': known},
          open(os.path.join(outdir, prefix + '_summary.json'), 'w'))
print(len(rows), len(viol))

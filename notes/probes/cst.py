import sys
sys.path.insert(0,'/repo')
from nix_manipulator.parser import parse_to_ast
def dump(n, src, d=0):
    t = n.text.decode() if n.child_count==0 else ''
    print('  '*d + f"{n.type}{'' if n.is_named else ' (anon)'} [{n.start_byte},{n.end_byte}) {t!r}" + (' ERROR' if n.has_error else '') + (' MISSING' if n.is_missing else ''))
    for i,c in enumerate(n.children):
        fn = n.field_name_for_child(i)
        if fn: print('  '*(d+1)+f'<{fn}>')
        dump(c, src, d+1)
for s in sys.argv[1:]:
    s = s.encode().decode('unicode_escape')
    print(repr(s)); dump(parse_to_ast(s), s)

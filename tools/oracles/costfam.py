"""the nesting families of the cost check (C20): one wrapper applied n times around a leaf"""
FAM = {
 'set':     lambda b: '{ a = %s; }' % b,
 'setml':   lambda b: '{\n  a = %s;\n}' % b.replace('\n', '\n  '),
 'list':    lambda b: '[ %s ]' % b,
 'listml':  lambda b: '[\n  %s\n]' % b.replace('\n', '\n  '),
 'with':    lambda b: 'with a; %s' % b,
 'lam':     lambda b: 'a: %s' % b,
 'formals': lambda b: '{ a }: %s' % b,
 'let':     lambda b: 'let a = 1; in %s' % b,
 'paren':   lambda b: '(%s)' % b,
 'if':      lambda b: 'if c then %s else y' % b,
 'assert':  lambda b: 'assert c; %s' % b,
 'binop':   lambda b: '(%s) + y' % b,
 'update':  lambda b: '(%s) // y' % b,
 'call':    lambda b: 'f (%s)' % b,
 'not':     lambda b: '!(%s)' % b,
 'select':  lambda b: '(%s).a' % b,
 'inherit': lambda b: '{ inherit (%s) a; }' % b,
 # third round of seeds: calls written without whitespace, other argument shapes, operator chains with the line break on
 # either side of the operator, the remaining operand positions, multi-line heads
 'call_tight': lambda b: 'f(%s)' % b, 'call_set_tight': lambda b: 'f{a=%s;}' % b, 'call_list_tight': lambda b: 'f[%s]' % b,
 'call_set': lambda b: 'f { a = %s; }' % b, 'call_list': lambda b: 'f [ %s ]' % b,
 'concat_nl': lambda b: 'a ++\n(%s)' % b, 'concat_chain_r': lambda b: 'a ++\n%s' % b, 'update_chain_r': lambda b: 'a //\n%s' % b, 'impl_chain_r': lambda b: 'a ->\n%s' % b,
 'concat_chain': lambda b: 'a ++ %s' % b, 'binop_chain_l': lambda b: '%s + y' % b, 'concat_nl_before': lambda b: 'a\n++ %s' % b,
 'if_else': lambda b: 'if c then y else %s' % b, 'if_cond': lambda b: 'if %s then x else y' % b, 'let_bind': lambda b: 'let a = %s; in a' % b,
 'with_env': lambda b: 'with %s; x' % b, 'formal_default': lambda b: '{ a ? %s }: a' % b, 'select_default': lambda b: 'x.a or (%s)' % b,
 'attr_interp': lambda b: '{ ${"k"} = %s; }' % b, 'neg': lambda b: '-(%s)' % b, 'has': lambda b: '(%s) ? a' % b,
 'import_paren': lambda b: 'import (%s)' % b, 'import_call': lambda b: 'import ./x.nix (%s)' % b, 'import_set': lambda b: 'import ./x.nix { a = %s; }' % b,
 'lam_nl': lambda b: 'a:\n%s' % b, 'with_nl': lambda b: 'with a;\n%s' % b, 'let_ml': lambda b: 'let\n  a = 1;\nin\n%s' % b,
}
LEAVES = {'atom': 'x', 'mlset': '{\n  a = 1;\n}'}

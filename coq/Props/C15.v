(* C15 — rebuilding is pure and deterministic, independent of threads and history.
   Purity: the effect discipline over the mutation sites REGENERATED from /repo on this run (Dyn.EffectsGen), with the
   frame theorem of Small.Effects.  History: the chain-construction state machine (C.ChainInv) and the identity-keyed
   registry (Small.Registry). *)
From Coq Require Import List String Bool Arith Lia. Import ListNotations.
From Small Require Import Effects Registry.
From C Require Import ChainModel ChainProps ChainInv.
From Dyn Require Import EffectsGen EffectsProps.
Close Scope string_scope.

(* every mutation site reachable from a rebuild / rebuild_scoped / __str__ method writes only to objects created during
   the call (or is on the justified allow list: O-1, O-3) *)
Theorem C15_sites_disciplined : forallb disciplined sites = true.
Proof. exact all_sites_disciplined. Qed.
Print Assumptions C15_sites_disciplined.

(* frame theorem: a run whose writes all target objects allocated during the run leaves every pre-existing object
   exactly as it was — for all heaps and all runs *)
Theorem C15_frame : forall ps h, forallb (site_ok (nxt h)) ps = true -> forall o, o < nxt h -> Effects.get (Effects.run h ps) o = Effects.get h o.
Proof. exact frame_fresh_writes. Qed.
Print Assumptions C15_frame.

(* hence the render path, as summarised from the source, modifies no field of the tree it is given *)
Theorem C15_rebuild_pure : forall h o, o < nxt h -> Effects.get (Effects.run h (summary (nxt h))) o = Effects.get h o.
Proof. exact render_path_frame. Qed.
Print Assumptions C15_rebuild_pure.

(* the classic aliasing slip (mutating a list reached through a shallow copy) IS rejected by the discipline *)
Example C15_alias_slip_rejected :
  let h0 := {| cells := [(1, ORec [(7, VRef 0)]); (0, OList [VInt 1])]; nxt := 2 |} in
  let ps := [Copy 1; Append 0 (VInt 2)] in
  forallb (site_ok (nxt h0)) ps = false /\ Effects.get (Effects.run h0 ps) 0 = Some (OList [VInt 1; VInt 2]).
Proof. exact alias_slip. Qed.
Print Assumptions C15_alias_slip_rejected.

(* independence of history: after any history of accesses to the same document every answer is that of the
   history-free traversal (rec-free documents) *)
Theorem C15_history_independent : forall t top p, wf t top p -> forall h, answers t top [] h = map (access_pure t top) h.
Proof. exact C10_C15_history_independent. Qed.
Print Assumptions C15_history_independent.

(* independence of which other documents were processed: the shared registry never serves another object's context *)
Theorem C15_registry_isolation : forall (ctx : Type) (addr : nat -> nat) (h : list (Registry.op ctx)) o c,
  alive_ok ctx [] h -> ~ In o (deads ctx h) ->
  Registry.get ctx addr (Registry.run ctx addr (init ctx) h) o = Some c -> g ctx (Registry.run ctx addr (init ctx) h) o = Some c.
Proof. exact registry_sound. Qed.
Print Assumptions C15_registry_isolation.

import sys, os, subprocess, tempfile, pathlib
sys.path.insert(0,'/repo')
from nix_manipulator import parse, parse_file
from nix_manipulator.expressions import *
from nix_manipulator.expressions.list import NixList
from nix_manipulator.exceptions import ResolutionError
def val(s, *keys):
    try:
        x = parse(s)
        for k in keys: x = x[k]
        v = x.value if isinstance(x, Identifier) else x
        return v.rebuild() if hasattr(v,'rebuild') else repr(v)
    except Exception as e:
        return f"EXC {type(e).__name__}: {e}"
print("== C10 resolution")
for s,keys,nix in [
 ("let a = 1; in with { a = 2; }; { x = a; }", ['x'], '1'),
 ("with { a = 2; }; let a = 1; in { x = a; }", ['x'], '1'),
 ("let a = 1; in rec { a = 2; x = a; }", ['x'], '2'),
 ("let a = 1; in { a = 2; x = a; }", ['x'], '1'),
 ("rec { a = 1; b = { a = 2; x = a; }; }", ['b','x'], '1'),
 ("rec { a = 1; b = rec { a = 2; x = a; }; }", ['b','x'], '2'),
 ("let a = 1; in let a = 2; in { x = a; }", ['x'], '2'),
 ("let a = b; b = a; in { x = a; }", ['x'], 'cycle'),
 ("{ x = a; }", ['x'], 'unbound'),
 ("let s = { a = 5; }; in { inherit (s) a; x = a; }", ['a'], '5'),
 ("let a = 7; in { inherit a; }", ['a'], '7'),
 ("({ a ? 3, b }: { x = a; y = b; }) { b = 4; }", ['x'], '3'),
 ("let a = 1; in with { b = 2; }; { x = b; }", ['x'], '2'),
 ("with { a = 1; }; with { a = 2; }; { x = a; }", ['x'], '2'),
 ("let a = 1; in { b = { x = a; }; }", ['b','x'], '1'),
 ("let a = 1; in { x = let a = 2; in a; }", ['x'], '2'),
]:
    print(repr(s), keys, 'nix:',nix, 'got:', val(s,*keys))
print("== C14 mapping")
def m(s, f):
    src = parse(s)
    try: f(src)
    except Exception as e: return f"EXC {type(e).__name__}: {e}"
    return src.rebuild()
print(m("{ a.b = 1; c = 2; }", lambda s: s.__delitem__('a')))
print(m("{ a.b = 1; c = 2; }", lambda s: s.__setitem__('a',5)))
print(m("{ a.b = 1; c = 2; }", lambda s: s['a'].__setitem__('z',5)))
print(m("{ a = 1; }", lambda s: s.__setitem__('b',{'x':[1,2]})))
print(m("{ a = 1; }", lambda s: s['a'].__setitem__('b',1)))
print(m("let x = 1; in { a = 1; }", lambda s: s.expr.scope.__setitem__('y',2)))
print(m("let x.y = 1; in { a = 1; }", lambda s: s.expr.scope.__delitem__('x')))
print("== C13 generation")
for v in [{'a':[1,-2,3]}, {'a':-1}, {'a':1e-7}, {'a':1e16}, {'a':2.5}, {'a':"x\ry\0z"}, {'a':[[1],[2,[3]]]}, {'a':{'b':{}}}, {'a':[]}, {'a':'$' + '{x}'}, {'if': 1}, {'a': [True, None, "s"]}]:
    try:
        t = AttributeSet.from_dict(v).rebuild()
        err = parse(t).contains_error
    except Exception as e:
        t = f"EXC {type(e).__name__}: {e}"; err=None
    print(v, '->', repr(t), 'parse_error=',err)
print("== C16 CLI")
def cli(args, inp):
    p = subprocess.run(['/venv/bin/python','-m','nix_manipulator']+args, input=inp, capture_output=True, text=True, cwd='/repo')
    return (p.returncode, p.stdout, p.stderr[-80:])
print(cli(['set','a','2'], '{ a = 1; }\n'))
print(cli(['set','a','2'], '{ a = 1; }'))
print(cli(['rm','zz'], '{ a = 1; }\n'))
print(cli(['test'], '{ a = 1; }\n'))
print(cli(['test'], ''))
print(cli(['test'], '{ a = ; }'))
print(cli(['test'], '{ a = 1; }\n\n'))

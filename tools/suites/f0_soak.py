"""Prototype: convert real tree-sitter CSTs (fragment F0) to the typed Coq concrete syntax and
emit correspondence shards (source, cfile, implementation output); comparison happens inside Coq."""
import sys, random, re
import os; sys.path.insert(0, os.environ.get('NIMA_REPO','/repo'))
from nix_manipulator import parse
from nix_manipulator.parser import parse_to_ast
class Unsupported(Exception): pass
ATOMS={'variable_expression','integer_expression','float_expression','string_expression','indented_string_expression','path_expression','hpath_expression','spath_expression','select_expression'}
def q(s):
    return '(s "' + s.replace('"','""') + '")'
class Conv:
    def __init__(self, src): self.b=src.encode()
    def gap(self,a,b): 
        g=self.b[a:b].decode()
        if g.strip(' \t\n'): raise Unsupported('non-ws gap %r'%g)
        return g
    def node(self,n):
        t=n.type
        if t=='comment':
            txt=n.text.decode()
            if '\n' in txt or txt=='/**/': raise Unsupported('ml comment')
            return 'CCmt %s'%q(txt)
        if t in ATOMS:
            if t=='select_expression':
                if any(c.type=='comment' for c in n.children) or n.child_by_field_name('default') is not None or re.search(r'\s', n.text.decode()): raise Unsupported('select')
                if n.child_by_field_name('expression').type!='variable_expression': raise Unsupported('select base')
            return 'CAtom %s %s'%('true' if t=='integer_expression' else 'false', q(n.text.decode()))
        if t=='binding':
            ch=n.children
            if [c.type for c in ch][:2]!=['attrpath','='] or len(ch)!=4 or ch[3].type!=';' or ch[2].type=='comment': raise Unsupported('binding shape')
            name=ch[0].text.decode()
            if re.search(r'\s|#|/\*', re.sub(r'"[^"]*"','Q',name)): raise Unsupported('attrpath ws')
            return 'CBind %s %s %s (%s) %s'%(q(name), q(self.gap(ch[0].end_byte,ch[1].start_byte)), q(self.gap(ch[1].end_byte,ch[2].start_byte)), self.node(ch[2]), q(self.gap(ch[2].end_byte,ch[3].start_byte)))
        if t in ('attrset_expression','rec_attrset_expression','list_expression'):
            is_set = t!='list_expression'
            op,cl=('{','}') if is_set else ('[',']')
            ch=n.children
            opening=[c for c in ch if c.type==op][0]; closing=[c for c in ch if c.type==cl][-1]
            grec='""'
            if t=='rec_attrset_expression':
                rec=[c for c in ch if c.type=='rec'][0]
                if any(c.type=='comment' and c.start_byte<opening.start_byte for c in ch): raise Unsupported('rec comment')
                grec=q(self.gap(rec.end_byte, opening.start_byte))
            content=[]
            for c in ch:
                if c.type in (op,cl,'rec'): continue
                if c.type=='binding_set': content.extend(c.children)
                else: content.append(c)
            items=[]; prev_end=opening.end_byte
            for c in content:
                if is_set and c.type not in ('binding','comment'): raise Unsupported(c.type)
                items.append('(%s, %s)'%(q(self.gap(prev_end,c.start_byte)), self.node(c))); prev_end=c.end_byte
            body='['+'; '.join(items)+']'
            cg=q(self.gap(prev_end, closing.start_byte))
            if is_set: return 'CSet %s %s %s %s'%('true' if t=='rec_attrset_expression' else 'false', grec if grec!='""' else '(s "")', body, cg)
            return 'CList %s %s'%(body,cg)
        raise Unsupported(t)
    def file(self, root):
        if root.has_error: raise Unsupported('error')
        if root.start_byte!=0: raise Unsupported('leading ws')
        items=[]; prev_end=root.start_byte
        for c in root.children:
            items.append('(%s, %s)'%(q(self.gap(prev_end,c.start_byte)), self.node(c))); prev_end=c.end_byte
        return '{| f_children := [%s]; f_tail := %s |}'%('; '.join(items), q(self.gap(prev_end, root.end_byte)))
def convert(src):
    root=parse_to_ast(src)
    return Conv(src).file(root)
if __name__=='__main__':
    seed=int(sys.argv[1]); N=int(sys.argv[2]); out=sys.argv[3]
    sys.argv=[sys.argv[0], str(seed), '0']
    exec(open('/verif/notes/probes/gen_canon2.py').read().split('bad=0')[0])
    R2=random.Random(seed+1000)
    src_spec=open('/verif/notes/probes/spec_f0.py').read()
    # reuse the perturbation of spec_f0.py
    OPAQ=('string_expression','indented_string_expression','comment','path_expression','spath_expression','hpath_expression','select_expression','attrpath')
    def leaves(n,o):
        if n.type in OPAQ or n.child_count==0:
            if n.end_byte>n.start_byte: o.append(n)
            return
        for c in n.children: leaves(c,o)
    WS=[' ','  ','\t',' \t ','\n','\n\n','\n  ','\n      ',' \n ','\n\n\n   ','   \n\t\n ','\n\t']
    def perturb(s):
        root=parse_to_ast(s); o=[]; leaves(root,o); b=s.encode(); res=''; pos=0
        for i,n in enumerate(o):
            g=b[pos:n.start_byte].decode()
            if i>0:
                if o[i-1].type=='comment' and o[i-1].text.startswith(b'#'): g=R2.choice(['\n','\n\n','\n   ','\n\n\n\t'])
                elif n.type=='comment': g = g if R2.random()<0.5 else (R2.choice(WS) if '\n' in g else R2.choice([' ','   ','\t']))
                elif R2.random()<0.5: g = R2.choice(WS) if g else R2.choice(['',' ','\n'])
            res+=g+n.text.decode(); pos=n.end_byte
        return res+b[pos:].decode()
    cases=[]; skipped=0
    while len(cases)<N:
        d=doc(); p=perturb(d) if R2.random()<0.8 else d
        if parse_to_ast(p).has_error or len(p)>900: continue
        try: c=convert(p)
        except Unsupported as e: skipped+=1; continue
        cases.append((p, c, parse(p).rebuild()))
    with open(out,'w') as f:
        f.write('From Coq Require Import List Ascii String Bool. Import ListNotations.\nFrom F0 Require Import F0s Specs Canon Canonize P18.\nOpen Scope string_scope.\n')
        f.write('Definition cases : list (str * cfile * str) := [\n')
        f.write(';\n'.join('(%s, %s, %s)'%(q(p),c,q(r)) for p,c,r in cases))
        f.write('\n].\n')
        f.write('Definition eqs (a b : str) : bool := if list_eq_dec ascii_dec a b then true else false.\n')
        f.write('Definition row (c : str * cfile * str) : bool * bool * bool * bool * bool * bool :=\n  let \'(src, f, expected) := c in\n  (eqs (ftext f) src, eqs (roundtrip f) expected, eqs (spec_file f) expected, eqs (ftext (canon_file f)) expected, canonical_file (canon_file f), wf_fileb f).\n')
        f.write('Definition cnt (p : bool * bool * bool * bool * bool * bool -> bool) : nat := List.length (filter p (map row cases)).\n')
        f.write('Open Scope bool_scope.\nEval vm_compute in (List.length cases, cnt (fun r => match r with (a,b,c,d,e,_) => a && b && c && d && e end), cnt (fun r => snd r), cnt (fun r => match r with (a,b,c,d,e,w) => w && negb (a && b && c && d && e) end)).\n')
    print('cases', len(cases), 'skipped', skipped)

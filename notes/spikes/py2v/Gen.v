From Coq Require Import List Ascii Bool Arith.
Import ListNotations.
Notation str := (list ascii).
Definition c (n : nat) : ascii := ascii_of_nat n.
Notation "a =c b" := (Ascii.eqb a b) (at level 70).
Definition at_ (k : nat) (l : str) : ascii := nth k l (c 0).
Definition has_at (k : nat) (l : str) : bool := k <? List.length l.
Definition isnil (l : str) : bool := match l with [] => true | _ => false end.
(* Python str.strip() on ASCII: characters for which str.isspace() holds *)
Definition py_space (x : ascii) : bool := let n := nat_of_ascii x in ((9 <=? n) && (n <=? 13)) || ((28 <=? n) && (n <=? 32)).
Fixpoint py_lstrip (l : str) : str := match l with x :: r => if py_space x then py_lstrip r else l | [] => [] end.
Definition py_strip (l : str) : str := rev (py_lstrip (rev (py_lstrip l))).
Fixpoint streq (a b : str) : bool := match a, b with [], [] => true | x :: a', y :: b' => (x =c y) && streq a' b' | _, _ => false end.
Inductive res (A : Type) := Ok (a : A) | Err (site : nat).
Arguments Ok {A} a. Arguments Err {A} site.

(* GENERATED from /repo/nix_manipulator/expressions/primitive.py:_escape_nix_string *)
Fixpoint _escape_nix_string_loop (fuel : nat) (escape_interpolation : bool) (rest : str) (escaped : str) : str :=
  match fuel with O => escaped | S fuel' =>
  if has_at 0 rest then
(let ch_1 := (at_ 0 rest) in
(if (ch_1 =c (c 92))
 then (let escaped_2 := escaped ++ [(c 92); (c 92)] in
_escape_nix_string_loop fuel' escape_interpolation (skipn 1 rest) escaped_2)
 else (if (ch_1 =c (c 34))
 then (let escaped_3 := escaped ++ [(c 92); (c 34)] in
_escape_nix_string_loop fuel' escape_interpolation (skipn 1 rest) escaped_3)
 else (if (ch_1 =c (c 10))
 then (let escaped_4 := escaped ++ [(c 92); (c 110)] in
_escape_nix_string_loop fuel' escape_interpolation (skipn 1 rest) escaped_4)
 else (if (ch_1 =c (c 13))
 then (let escaped_5 := escaped ++ [(c 92); (c 114)] in
_escape_nix_string_loop fuel' escape_interpolation (skipn 1 rest) escaped_5)
 else (if (ch_1 =c (c 9))
 then (let escaped_6 := escaped ++ [(c 92); (c 116)] in
_escape_nix_string_loop fuel' escape_interpolation (skipn 1 rest) escaped_6)
 else (if (escape_interpolation && (ch_1 =c (c 36)) && (has_at 1 rest) && ((at_ 1 rest) =c (c 123)))
 then (let escaped_7 := escaped ++ [(c 92); (c 36); (c 123)] in
_escape_nix_string_loop fuel' escape_interpolation (skipn 2 rest) escaped_7)
 else (let escaped_8 := escaped ++ [ch_1] in
_escape_nix_string_loop fuel' escape_interpolation (skipn 1 rest) escaped_8))))))))
  else escaped end.
Definition _escape_nix_string (escape_interpolation : bool) (value : str) : str :=
  _escape_nix_string_loop (List.length value) escape_interpolation value [].

(* GENERATED from _NPATH_IDENTIFIER_RE = re.compile("^[A-Za-z_][A-Za-z0-9_']*$") *)
Fixpoint re_npath_ident_tail (l : str) : bool :=
  match l with
  | [] => true
  | [x] => (fun x => ((65 <=? nat_of_ascii x) && (nat_of_ascii x <=? 90)) || ((97 <=? nat_of_ascii x) && (nat_of_ascii x <=? 122)) || ((48 <=? nat_of_ascii x) && (nat_of_ascii x <=? 57)) || (x =c c 95) || (x =c c 39)) x || (x =c c 10)
  | x :: l' => (fun x => ((65 <=? nat_of_ascii x) && (nat_of_ascii x <=? 90)) || ((97 <=? nat_of_ascii x) && (nat_of_ascii x <=? 122)) || ((48 <=? nat_of_ascii x) && (nat_of_ascii x <=? 57)) || (x =c c 95) || (x =c c 39)) x && re_npath_ident_tail l'
  end.
Definition re_npath_ident (l : str) : bool := match l with x :: l' => (fun x => ((65 <=? nat_of_ascii x) && (nat_of_ascii x <=? 90)) || ((97 <=? nat_of_ascii x) && (nat_of_ascii x <=? 122)) || (x =c c 95)) x && re_npath_ident_tail l' | [] => false end.

(* GENERATED from cli/manipulations.py:_parse_npath (idiom A) *)
Definition STATE__parse_npath : Type := (list (str * bool) * str * bool * bool * bool)%type.
Definition _parse_npath_step (st : STATE__parse_npath) (ch : ascii) : res STATE__parse_npath :=
  let '(segments, buffer, in_quotes, quoted_segment, escape) := st in
(if in_quotes
 then (if escape
 then (if (ch =c (c 110))
 then (let buffer_6 := buffer ++ [(c 10)] in
(let escape_7 := false in
Ok (segments, buffer_6, in_quotes, quoted_segment, escape_7)))
 else (if (ch =c (c 114))
 then (let buffer_8 := buffer ++ [(c 13)] in
(let escape_9 := false in
Ok (segments, buffer_8, in_quotes, quoted_segment, escape_9)))
 else (if (ch =c (c 116))
 then (let buffer_10 := buffer ++ [(c 9)] in
(let escape_11 := false in
Ok (segments, buffer_10, in_quotes, quoted_segment, escape_11)))
 else (if ((ch =c (c 34)) || (ch =c (c 92)))
 then (let buffer_12 := buffer ++ [ch] in
(let escape_13 := false in
Ok (segments, buffer_12, in_quotes, quoted_segment, escape_13)))
 else (let buffer_14 := buffer ++ ([(c 92)] ++ [ch]) in
(let escape_15 := false in
Ok (segments, buffer_14, in_quotes, quoted_segment, escape_15)))))))
 else (if (ch =c (c 92))
 then (let escape_16 := true in
Ok (segments, buffer, in_quotes, quoted_segment, escape_16))
 else (if (ch =c (c 34))
 then (let in_quotes_17 := false in
(let quoted_segment_18 := true in
Ok (segments, buffer, in_quotes_17, quoted_segment_18, escape)))
 else (let buffer_19 := buffer ++ [ch] in
Ok (segments, buffer_19, in_quotes, quoted_segment, escape)))))
 else (if (ch =c (c 46))
 then (let name_20 := buffer in
(if ((negb quoted_segment) && (streq name_20 []))
 then Err 15
 else (if ((negb quoted_segment) && (negb (isnil name_20)) && (negb (re_npath_ident name_20)))
 then Err 17
 else (let segments_21 := segments ++ [(name_20, quoted_segment)] in
(let buffer_22 : str := [] in
(let quoted_segment_23 := false in
Ok (segments_21, buffer_22, in_quotes, quoted_segment_23, escape)))))))
 else (if (ch =c (c 34))
 then (if (negb (isnil buffer))
 then Err 52
 else (let in_quotes_24 := true in
Ok (segments, buffer, in_quotes_24, quoted_segment, escape)))
 else (let buffer_25 := buffer ++ [ch] in
Ok (segments, buffer_25, in_quotes, quoted_segment, escape))))).
Fixpoint _parse_npath_loop (st : STATE__parse_npath) (s : str) : res STATE__parse_npath :=
  match s with [] => Ok st | ch :: r => match _parse_npath_step st ch with Ok st' => _parse_npath_loop st' r | Err e => Err e end end.
Definition _parse_npath (npath : str) : res (list (str * bool)) :=
(if (negb (negb (isnil npath)))
 then Err 3
 else (let segments_1 : list (str * bool) := [] in
(let buffer_2 : str := [] in
(let in_quotes_3 := false in
(let quoted_segment_4 := false in
(let escape_5 := false in
(match _parse_npath_loop (segments_1, buffer_2, in_quotes_3, quoted_segment_4, escape_5) npath with
 | Err e => Err e
 | Ok st => let '(segments', buffer', in_quotes', quoted_segment', escape') := st in
(if escape'
 then Err 60
 else (if in_quotes'
 then Err 62
 else (let name_26 := buffer' in
(if ((negb quoted_segment') && (streq name_26 []))
 then Err 15
 else (if ((negb quoted_segment') && (negb (isnil name_26)) && (negb (re_npath_ident name_26)))
 then Err 17
 else (let segments_27 := segments' ++ [(name_26, quoted_segment')] in
(let buffer_28 : str := [] in
(let quoted_segment_29 := false in
Ok segments_27)))))))) end))))))).

(* raise sites: 8 *)
(* GENERATED from cli/manipulations.py:_split_scope_npath (idiom A with break) *)
Definition STATE__split_scope_npath : Type := nat.
Definition _split_scope_npath_step (st : STATE__split_scope_npath) (ch : ascii) : res (bool * STATE__split_scope_npath) :=
  let depth := st in
(if (negb (ch =c (c 64)))
 then Ok (false, depth)
 else (let depth_2 := S depth in
Ok (true, depth_2))).
Fixpoint _split_scope_npath_loop (st : STATE__split_scope_npath) (s : str) : res STATE__split_scope_npath :=
  match s with [] => Ok st | ch :: r => match _split_scope_npath_step st ch with Ok (true, st') => _split_scope_npath_loop st' r | Ok (false, st') => Ok st' | Err e => Err e end end.
Definition _split_scope_npath (npath : str) : res (option (nat * str)) :=
(let depth_1 := 0 in
(match _split_scope_npath_loop depth_1 npath with
 | Err e => Err e
 | Ok st => let depth' := st in
(if (Nat.eqb depth' 0)
 then Ok None
 else (let remainder_3 := (skipn depth' npath) in
(if (negb (negb (isnil remainder_3)))
 then Err 11
 else Ok (Some (depth', remainder_3))))) end)).

(* raise sites: 1 *)
(* GENERATED from expressions/binding.py:_split_attrpath (idiom B over a state tuple) *)
Definition STATE__split_attrpath : Type := (list str * str * bool * bool * nat * bool * bool)%type.
Fixpoint _split_attrpath_loop (fuel : nat) (rest : str) (st : STATE__split_attrpath) : res STATE__split_attrpath :=
  match fuel with O => (if has_at 0 rest then Err 0 else Ok st) | S fuel' =>
  if has_at 0 rest then
  let '(segments, buffer, in_quotes, escape, interp_depth, interp_in_quotes, interp_escape) := st in
(let ch_8 := (at_ 0 rest) in
(if (0 <? interp_depth)
 then (let buffer_9 := buffer ++ [ch_8] in
(if interp_in_quotes
 then (if interp_escape
 then (let interp_escape_10 := false in
_split_attrpath_loop fuel' (skipn 1 rest) (segments, buffer_9, in_quotes, escape, interp_depth, interp_in_quotes, interp_escape_10))
 else (if (ch_8 =c (c 92))
 then (let interp_escape_11 := true in
_split_attrpath_loop fuel' (skipn 1 rest) (segments, buffer_9, in_quotes, escape, interp_depth, interp_in_quotes, interp_escape_11))
 else (if (ch_8 =c (c 34))
 then (let interp_in_quotes_12 := false in
_split_attrpath_loop fuel' (skipn 1 rest) (segments, buffer_9, in_quotes, escape, interp_depth, interp_in_quotes_12, interp_escape))
 else _split_attrpath_loop fuel' (skipn 1 rest) (segments, buffer_9, in_quotes, escape, interp_depth, interp_in_quotes, interp_escape))))
 else (if (ch_8 =c (c 34))
 then (let interp_in_quotes_13 := true in
_split_attrpath_loop fuel' (skipn 1 rest) (segments, buffer_9, in_quotes, escape, interp_depth, interp_in_quotes_13, interp_escape))
 else (if (ch_8 =c (c 123))
 then (let interp_depth_14 := S interp_depth in
_split_attrpath_loop fuel' (skipn 1 rest) (segments, buffer_9, in_quotes, escape, interp_depth_14, interp_in_quotes, interp_escape))
 else (if (ch_8 =c (c 125))
 then (let interp_depth_15 := Nat.pred interp_depth in
_split_attrpath_loop fuel' (skipn 1 rest) (segments, buffer_9, in_quotes, escape, interp_depth_15, interp_in_quotes, interp_escape))
 else _split_attrpath_loop fuel' (skipn 1 rest) (segments, buffer_9, in_quotes, escape, interp_depth, interp_in_quotes, interp_escape))))))
 else (if in_quotes
 then (if ((negb escape) && (ch_8 =c (c 36)) && (has_at 1 rest))
 then (if ((at_ 1 rest) =c (c 123))
 then (let buffer_16 := buffer ++ [ch_8] in
(let buffer_17 := buffer_16 ++ [(c 123)] in
(let interp_depth_18 := 1 in
_split_attrpath_loop fuel' (skipn 2 rest) (segments, buffer_17, in_quotes, escape, interp_depth_18, interp_in_quotes, interp_escape))))
 else (let buffer_19 := buffer ++ [ch_8] in
(if escape
 then (let escape_20 := false in
_split_attrpath_loop fuel' (skipn 1 rest) (segments, buffer_19, in_quotes, escape_20, interp_depth, interp_in_quotes, interp_escape))
 else (if (ch_8 =c (c 92))
 then (let escape_21 := true in
_split_attrpath_loop fuel' (skipn 1 rest) (segments, buffer_19, in_quotes, escape_21, interp_depth, interp_in_quotes, interp_escape))
 else (if (ch_8 =c (c 34))
 then (let in_quotes_22 := false in
_split_attrpath_loop fuel' (skipn 1 rest) (segments, buffer_19, in_quotes_22, escape, interp_depth, interp_in_quotes, interp_escape))
 else _split_attrpath_loop fuel' (skipn 1 rest) (segments, buffer_19, in_quotes, escape, interp_depth, interp_in_quotes, interp_escape))))))
 else (let buffer_23 := buffer ++ [ch_8] in
(if escape
 then (let escape_24 := false in
_split_attrpath_loop fuel' (skipn 1 rest) (segments, buffer_23, in_quotes, escape_24, interp_depth, interp_in_quotes, interp_escape))
 else (if (ch_8 =c (c 92))
 then (let escape_25 := true in
_split_attrpath_loop fuel' (skipn 1 rest) (segments, buffer_23, in_quotes, escape_25, interp_depth, interp_in_quotes, interp_escape))
 else (if (ch_8 =c (c 34))
 then (let in_quotes_26 := false in
_split_attrpath_loop fuel' (skipn 1 rest) (segments, buffer_23, in_quotes_26, escape, interp_depth, interp_in_quotes, interp_escape))
 else _split_attrpath_loop fuel' (skipn 1 rest) (segments, buffer_23, in_quotes, escape, interp_depth, interp_in_quotes, interp_escape))))))
 else (if (ch_8 =c (c 34))
 then (let in_quotes_27 := true in
(let buffer_28 := buffer ++ [ch_8] in
_split_attrpath_loop fuel' (skipn 1 rest) (segments, buffer_28, in_quotes_27, escape, interp_depth, interp_in_quotes, interp_escape)))
 else (if ((ch_8 =c (c 36)) && (has_at 1 rest) && ((at_ 1 rest) =c (c 123)))
 then (let buffer_29 := buffer ++ [ch_8] in
(let buffer_30 := buffer_29 ++ [(c 123)] in
(let interp_depth_31 := 1 in
_split_attrpath_loop fuel' (skipn 2 rest) (segments, buffer_30, in_quotes, escape, interp_depth_31, interp_in_quotes, interp_escape))))
 else (if (ch_8 =c (c 46))
 then (let segment_32 := (py_strip buffer) in
(if (negb (negb (isnil segment_32)))
 then Err 64
 else (let segments_33 := segments ++ [segment_32] in
(let buffer_34 : str := [] in
_split_attrpath_loop fuel' (skipn 1 rest) (segments_33, buffer_34, in_quotes, escape, interp_depth, interp_in_quotes, interp_escape)))))
 else (let buffer_35 := buffer ++ [ch_8] in
_split_attrpath_loop fuel' (skipn 1 rest) (segments, buffer_35, in_quotes, escape, interp_depth, interp_in_quotes, interp_escape))))))))
  else Ok st end.
Definition _split_attrpath (text : str) : res (list str) :=
(let segments_1 : list str := [] in
(let buffer_2 : str := [] in
(let in_quotes_3 := false in
(let escape_4 := false in
(let interp_depth_5 := 0 in
(let interp_in_quotes_6 := false in
(let interp_escape_7 := false in
(match _split_attrpath_loop (List.length text) text (segments_1, buffer_2, in_quotes_3, escape_4, interp_depth_5, interp_in_quotes_6, interp_escape_7) with
 | Err e => Err e
 | Ok st => let '(segments', buffer', in_quotes', escape', interp_depth', interp_in_quotes', interp_escape') := st in
(if (0 <? interp_depth')
 then Err 73
 else (if in_quotes'
 then Err 75
 else (let segment_36 := (py_strip buffer') in
(if (negb (negb (isnil segment_36)))
 then Err 79
 else (let segments_37 := segments' ++ [segment_36] in
Ok segments_37))))) end)))))))).

(* raise sites: 4 *)

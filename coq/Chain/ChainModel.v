(* Design spike for C10 (chain construction half): the registry state machine of notes/probes/chain_model.py in
   Gallina — scopes_for_owner, attach_resolution_context, the __getitem__ traversal and Identifier.value with the
   context stores of _resolve_binding — over a flat table of sets.  Histories of accesses thread the registry. *)
From Coq Require Import List Ascii String Bool Arith.
Import ListNotations.
Notation str := (list ascii).
Fixpoint streq (a b : str) : bool :=
  match a, b with [], [] => true | x :: a', y :: b' => Ascii.eqb x y && streq a' b' | _, _ => false end.

Inductive vref := RInt (id n : nat) | RRef (id : nat) (name : str) | RSet (id : nat).
Record setinfo := { s_rec : bool; s_layers : list (list (str * vref)); s_vals : list (str * vref) }.
Definition table := list (nat * setinfo).
Inductive sref := SLayer (sid idx : nat) | SVals (sid : nat).
Notation chain := (list sref).
Definition registry := list (nat * chain).                 (* latest store first *)

Fixpoint tget (t : table) (i : nat) : option setinfo :=
  match t with [] => None | (k, s) :: r => if k =? i then Some s else tget r i end.
Fixpoint rget (r : registry) (i : nat) : option chain :=
  match r with [] => None | (k, c) :: t => if k =? i then Some c else rget t i end.
Definition rstore (r : registry) (i : nat) (c : chain) : registry := match c with [] => r | _ => (i, c) :: r end.
Definition vid (v : vref) : nat := match v with RInt i _ | RRef i _ | RSet i => i end.
Definition isnil {A} (l : list A) : bool := match l with [] => true | _ => false end.

Definition scope_items (t : table) (sc : sref) : list (str * vref) :=
  match sc with
  | SVals sid => match tget t sid with Some s => s_vals s | None => [] end
  | SLayer sid k => match tget t sid with Some s => nth k (s_layers s) [] | None => [] end
  end.

(* resolution.scopes_for_owner for an attribute set *)
Definition own_layers (sid : nat) (s : setinfo) : chain :=
  map (fun k => SLayer sid k) (filter (fun k => negb (isnil (nth k (s_layers s) []))) (seq 0 (List.length (s_layers s)))).
Definition scopes_for_owner (t : table) (r : registry) (sid : nat) : registry * chain :=
  match tget t sid with
  | None => (r, [])
  | Some s =>
      let inherited := match rget r sid with Some c => c | None => [] end in
      let scopes := inherited ++ own_layers sid s in
      if s_rec s then (rstore r sid scopes, scopes ++ [SVals sid]) else (r, scopes)
  end.
Definition attach (t : table) (r : registry) (v : vref) (owner : nat) : registry :=
  let '(r1, scopes) := scopes_for_owner t r owner in rstore r1 (vid v) scopes.
Fixpoint find_name (items : list (str * vref)) (name : str) (pos : nat) : option (nat * vref) :=
  match items with [] => None | (n, v) :: rest => if streq n name then Some (pos, v) else find_name rest name (S pos) end.
Definition set_getitem (t : table) (r : registry) (sid : nat) (key : str) : registry * option vref :=
  match tget t sid with
  | None => (r, None)
  | Some s => match find_name (s_vals s) key 0 with
              | Some (_, v) => (attach t r v sid, Some v)
              | None => (r, None) end
  end.

Inductive outcome := OInt (n : nat) | OSet | OUnbound | OCyclic | ONoContext | OKeyError | OFuel.
Definition sref_eqb (a b : sref) : bool :=
  match a, b with SLayer s k, SLayer s2 k2 => (s =? s2) && (k =? k2) | SVals s, SVals s2 => s =? s2 | _, _ => false end.
Definition bid_mem (sc : sref) (pos : nat) (vis : list (sref * nat)) : bool :=
  existsb (fun b => sref_eqb (fst b) sc && (snd b =? pos)) vis.

(* identifier.py:_resolve_identifier; [scopes] outermost first; returns the registry because _resolve_binding stores contexts *)
Fixpoint resolve (fuel : nat) (t : table) (r : registry) (name : str) (scopes : chain) (vis : list (sref * nat)) : registry * outcome :=
  match fuel with
  | O => (r, OFuel)
  | S f =>
    (fix scan (rev_prefixes : list (sref * chain)) : registry * outcome :=
       match rev_prefixes with
       | [] => (r, OUnbound)
       | (sc, chain_here) :: more =>
           match find_name (scope_items t sc) name 0 with
           | Some (pos, bv) =>
               if bid_mem sc pos vis then (r, OCyclic)
               else
                 let r1 := rstore r (vid bv) chain_here in
                 match bv with
                 | RRef _ n2 => resolve f t r1 n2 chain_here ((sc, pos) :: vis)
                 | RInt _ n => (r1, OInt n)
                 | RSet _ => (r1, OSet)
                 end
           | None => scan more
           end
       end)
      ((fix prefixes (pre : chain) (rest : chain) (acc : list (sref * chain)) : list (sref * chain) :=
          match rest with [] => acc | sc :: rest' => prefixes (pre ++ [sc]) rest' ((sc, pre ++ [sc]) :: acc) end) [] scopes [])
  end.
Definition ident_value (t : table) (r : registry) (id : nat) (name : str) : registry * outcome :=
  match rget r id with
  | None => (r, ONoContext)
  | Some ctx => resolve 200 t r name ctx []
  end.

(* one access  src[k1][k2]...  followed by .value when the result is an identifier *)
Fixpoint walk (t : table) (r : registry) (sid : nat) (path : list str) : registry * outcome :=
  match path with
  | [] => (r, OSet)
  | k :: rest =>
      match set_getitem t r sid k with
      | (r1, None) => (r1, OKeyError)
      | (r1, Some v) =>
          match rest, v with
          | [], RInt _ n => (r1, OInt n)
          | [], RRef id name => ident_value t r1 id name
          | [], RSet _ => (r1, OSet)
          | _ :: _, RSet sid' => walk t r1 sid' rest
          | _ :: _, _ => (r1, OKeyError)
          end
      end
  end.
Definition access (t : table) (top : nat) (r : registry) (path : list str) : registry * outcome :=
  let '(r0, _) := scopes_for_owner t r top in walk t r0 top path.   (* NixSourceCode._resolve_target_set, then the traversal *)

Definition outcome_eqb (a b : outcome) : bool :=
  match a, b with OInt n, OInt m => n =? m | OSet, OSet | OUnbound, OUnbound | OCyclic, OCyclic | ONoContext, ONoContext | OKeyError, OKeyError => true | _, _ => false end.
(* run a history; index of the first access whose outcome differs from the expected one *)
Fixpoint run_hist (t : table) (top : nat) (r : registry) (h : list (list str * outcome)) (i : nat) : option nat :=
  match h with
  | [] => None
  | (p, e) :: rest => let '(r1, o) := access t top r p in if outcome_eqb o e then run_hist t top r1 rest (S i) else Some i
  end.
Fixpoint bad (i : nat) (cs : list (table * nat * list (list str * outcome))) : list (nat * nat) :=
  match cs with [] => [] | (t, top, h) :: rest => match run_hist t top [] h 0 with None => bad (S i) rest | Some k => (i, k) :: bad (S i) rest end end.

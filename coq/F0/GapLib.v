(* Python primitives used by the whitespace-gap helpers of expressions/trivia.py, with the semantics the translator tools/gap2v.py
   assumes for them (trusted: the meaning of str.count, `in`, rsplit, endswith, re.search on a literal-class*-literal pattern,
   bytes.find and bytes indexing on non-negative in-range offsets).  The generated file Dyn/GapGen.v is written over these. *)
From Coq Require Import List Ascii Bool Arith Lia ZArith.
Import ListNotations.
From F0 Require Import F0s.

Definition c (n : nat) : ascii := ascii_of_nat n.

(* x in s  (x one character) *)
Fixpoint py_in (x : ascii) (l : str) : bool := match l with [] => false | y :: r => (y =c x) || py_in x r end.
(* s.count(x) *)
Fixpoint py_count (x : ascii) (l : str) : nat := match l with [] => 0 | y :: r => (if y =c x then 1 else 0) + py_count x r end.
(* s.rsplit(x, 1)[-1]: the text after the last x; all of s when x does not occur *)
Fixpoint py_rsplit1_last (x : ascii) (l : str) : str :=
  match l with [] => [] | y :: r => if py_in x r then py_rsplit1_last x r else if y =c x then r else y :: r end.
(* s.endswith(x) *)
Definition py_endswith1 (x : ascii) (l : str) : bool := match rev l with y :: _ => y =c x | [] => false end.
(* " " * n *)
Definition py_times (x : ascii) (n : nat) : str := repeat x n.
(* truthiness of an int *)
Definition py_truthy (n : nat) : bool := negb (Nat.eqb n 0).

(* re.compile(a cls* b).search(s) is not None *)
Fixpoint re_cls_then (cls : ascii -> bool) (b : ascii) (l : str) : bool :=
  match l with [] => false | x :: r => (x =c b) || (cls x && re_cls_then cls b r) end.
Fixpoint re_search_lcl (a : ascii) (cls : ascii -> bool) (b : ascii) (l : str) : bool :=
  match l with [] => false | x :: r => ((x =c a) && re_cls_then cls b r) || re_search_lcl a cls b r end.

(* the Layout dataclass *)
Record Layout := mkLayout { on_newline : bool; blank_line : bool; indent_ : option nat }.
Definition opt0 (o : option nat) : nat := match o with Some n => n | None => 0 end.
Definition opt_truthy (o : option nat) : bool := match o with Some n => py_truthy n | None => false end.

(* ---- byte offsets (non-negative, in range) ---- *)
Open Scope Z_scope.
Definition byte_at (l : str) (i : Z) : nat := nat_of_ascii (nth (Z.to_nat i) l (c 0)).
(* bytes.find(x, a, b) for 0 <= a: the first index i with a <= i < min b (len s) and s[i] = x, else -1 *)
Fixpoint find_nat (x : ascii) (l : str) (i : nat) (a b : nat) : option nat :=
  match l with
  | [] => None
  | y :: r => if (a <=? i)%nat && (i <? b)%nat && (y =c x) then Some i else find_nat x r (S i) a b
  end.
Definition py_find (x : ascii) (l : str) (a b : Z) : Z :=
  match find_nat x l 0 (Z.to_nat a) (Z.to_nat b) with Some i => Z.of_nat i | None => -1 end.
(* bytes.rfind(x, a, b) *)
Fixpoint rfind_nat (x : ascii) (l : str) (i : nat) (a b : nat) : option nat :=
  match l with
  | [] => None
  | y :: r => match rfind_nat x r (S i) a b with Some j => Some j | None => if (a <=? i)%nat && (i <? b)%nat && (y =c x) then Some i else None end
  end.
Definition py_rfind (x : ascii) (l : str) (a b : Z) : Z :=
  match rfind_nat x l 0 (Z.to_nat a) (Z.to_nat b) with Some i => Z.of_nat i | None => -1 end.
(* bytes.count(x, a, b) *)
Fixpoint count_nat (x : ascii) (l : str) (i : nat) (a b : nat) : nat :=
  match l with [] => 0%nat | y :: r => ((if (a <=? i)%nat && (i <? b)%nat && (y =c x) then 1 else 0) + count_nat x r (S i) a b)%nat end.
Definition py_count_range (x : ascii) (l : str) (a b : Z) : Z := Z.of_nat (count_nat x l 0 (Z.to_nat a) (Z.to_nat b)).
Fixpoint nat_in (n : nat) (l : list nat) : bool := match l with [] => false | m :: r => Nat.eqb n m || nat_in n r end.

(* result of a translated loop or function body: a `return`, or falling through with the loop state *)
Inductive flow (R S : Type) := Ret (r : R) | Fall (s : S).
Arguments Ret {R S} r. Arguments Fall {R S} s.
Close Scope Z_scope.

"""Fail-closed translator: resolution.py:_collect_scopes_from_layers and the part of scopes_for_owner that builds the chain of an attribute-set
owner (inherited chain, the owner's own let layers, the rec self-scope) -> Gallina over abstract scope objects (Dyn/ScopesGen.v).  The chain
ORDER is what `_resolve_identifier` searches from the end, so it decides which binding shadows which.

Accepted shape of scopes_for_owner (anything else -> UNTRANSLATABLE):
  inherited = _get_context(owner); inherited_scopes = (); scopes = []
  if inherited is not None: inherited_scopes = inherited.scopes; scopes.extend(inherited_scopes)
  owner_scopes = []; owner_state = getattr(owner, "scope_state", None)
  if getattr(owner, "scope", None) is not None and owner.scope: … owner_scopes.append(<as_scope(owner.scope)>)
  if owner_state is not None and owner_state.stack: for layer_scope in _collect_scopes_from_layers([layer for layer in owner_state.stack if layer.get("scope")], owner=owner): owner_scopes.append(layer_scope)
  if owner_scopes: scopes.extend(owner_scopes)
  [nested def / imports]
  if isinstance(owner, AttributeSet) and owner.recursive: scopes.append(_scope_from_attrset(owner, base=tuple(scopes)))
  [imports]  if isinstance(owner, <another class>): …   (arms for other owner kinds: not taken by an attribute set, not translated)
  return tuple(scopes)
Statements are translated one by one into a state of three lists (scopes, owner_scopes, inherited_scopes); `x.extend(y)` is `x ++ y`,
`x.append(e)` is `x ++ [e]`, `_as_scope(v, owner=…)` is the scope object itself.      usage: scopes2v.py REPO"""
import ast, sys, os
sys.path.insert(0, os.path.dirname(os.path.abspath(__file__)))
from gap2v import Untranslatable, U, guarded, find_fn

def gen_collect(tree):
    f = find_fn(tree, '_collect_scopes_from_layers')
    body = [s for s in f.body if not (isinstance(s, ast.Expr) and isinstance(s.value, ast.Constant))]
    if [a.arg for a in f.args.args] != ['layers'] or [a.arg for a in f.args.kwonlyargs] != ['owner']: U('signature')
    if not (len(body) == 3 and isinstance(body[0], ast.AnnAssign) and ast.unparse(body[0].target) == 'collected' and ast.unparse(body[0].value) == '[]'
            and isinstance(body[1], ast.For) and ast.unparse(body[1].target) == 'layer' and ast.unparse(body[1].iter) == 'layers' and not body[1].orelse
            and ast.unparse(body[2]) == 'return collected'): U('frame of _collect_scopes_from_layers')
    env = {}; acc = 'collected'
    steps = []
    for s in body[1].body:
        if isinstance(s, ast.Assign) and len(s.targets) == 1 and isinstance(s.targets[0], ast.Name) and ast.unparse(s.value) in ("layer.get('scope', [])", "layer['scope']"):
            env[s.targets[0].id] = '(layer_scope layer)'; continue
        if isinstance(s, ast.Expr) and isinstance(s.value, ast.Call) and ast.unparse(s.value.func) == 'collected.append' and len(s.value.args) == 1:
            a = s.value.args[0]
            if isinstance(a, ast.Call) and ast.unparse(a.func) == '_as_scope' and len(a.args) == 1 and isinstance(a.args[0], ast.Name) and a.args[0].id in env \
               and [k.arg for k in a.keywords] in ([], ['owner']):
                steps.append(env[a.args[0].id]); continue
        U('loop statement', s)
    if len(steps) != 1: U('the loop must append exactly one scope per layer')
    return ('Definition collect_scopes_from_layers (layers : list layer) : list S :=\n  fold_left (fun collected layer => collected ++ [%s]) layers [].\n' % steps[0])

def gen_owner(tree):
    f = find_fn(tree, 'scopes_for_owner')
    if [a.arg for a in f.args.args] != ['owner']: U('signature')
    body = [s for s in f.body if not (isinstance(s, ast.Expr) and isinstance(s.value, ast.Constant))]
    st = {'scopes': None, 'owner_scopes': None, 'inherited_scopes': None}       # current Coq expression of each list variable
    out = []
    def setv(x, e): st[x] = e
    i = 0
    def expect(cond, what):
        if not cond: U(what)
    # prologue
    expect(ast.unparse(body[0]) == 'inherited = _get_context(owner)', 'inherited = _get_context(owner)'); i = 1
    while i < len(body):
        s = body[i]; u = ast.unparse(s)
        if isinstance(s, (ast.ImportFrom, ast.FunctionDef)): i += 1; continue
        if isinstance(s, ast.AnnAssign) and ast.unparse(s.target) in st and ast.unparse(s.value) in ('()', '[]'): setv(ast.unparse(s.target), '[]'); i += 1; continue
        if u == "owner_state = getattr(owner, 'scope_state', None)": i += 1; continue
        if isinstance(s, ast.If) and ast.unparse(s.test) == 'inherited is not None' and not s.orelse:
            for t in s.body:
                tu = ast.unparse(t)
                if tu == 'inherited_scopes = inherited.scopes': setv('inherited_scopes', '(opt_list (o_inherited o))')
                elif tu == 'scopes.extend(inherited_scopes)': setv('scopes', '(%s ++ %s)' % (st['scopes'], st['inherited_scopes']))
                else: U('inherited arm', t)
            # when inherited is None both stay as they were: opt_list None = [] makes the arm unconditional
            i += 1; continue
        if isinstance(s, ast.If) and ast.unparse(s.test) == "getattr(owner, 'scope', None) is not None and owner.scope" and not s.orelse:
            env = {}
            for t in s.body:
                if isinstance(t, ast.Assign) and isinstance(t.value, ast.Call) and ast.unparse(t.value.func) == '_as_scope' and ast.unparse(t.value.args[0]) == 'owner.scope': env[ast.unparse(t.targets[0])] = True; continue
                if isinstance(t, ast.Expr) and isinstance(t.value, ast.Call) and ast.unparse(t.value.func) == 'owner_scopes.append' and len(t.value.args) == 1 and ast.unparse(t.value.args[0]) in env:
                    setv('owner_scopes', '(%s ++ opt_one (o_scope o))' % st['owner_scopes']); continue
                U('owner.scope arm', t)
            i += 1; continue
        if isinstance(s, ast.If) and ast.unparse(s.test) == 'owner_state is not None and owner_state.stack' and not s.orelse:
            if not (len(s.body) == 1 and isinstance(s.body[0], ast.For) and ast.unparse(s.body[0].target) == 'layer_scope' and ast.unparse(s.body[0].body[0]) == 'owner_scopes.append(layer_scope)' and len(s.body[0].body) == 1): U('stack arm')
            it = s.body[0].iter
            if not (isinstance(it, ast.Call) and ast.unparse(it.func) == '_collect_scopes_from_layers' and len(it.args) == 1 and [k.arg for k in it.keywords] == ['owner']): U('stack arm call')
            comp = it.args[0]
            if not (isinstance(comp, ast.ListComp) and ast.unparse(comp.elt) == 'layer' and len(comp.generators) == 1 and ast.unparse(comp.generators[0].iter) == 'owner_state.stack'
                    and [ast.unparse(c) for c in comp.generators[0].ifs] == ["layer.get('scope')"]): U('stack comprehension')
            setv('owner_scopes', '(%s ++ collect_scopes_from_layers (filter layer_nonempty (o_stack o)))' % st['owner_scopes'])
            i += 1; continue
        if isinstance(s, ast.If) and ast.unparse(s.test) == 'owner_scopes' and not s.orelse and [ast.unparse(t) for t in s.body] == ['scopes.extend(owner_scopes)']:
            setv('scopes', '(%s ++ %s)' % (st['scopes'], st['owner_scopes'])); i += 1; continue      # extending by an empty list changes nothing: unconditional
        if isinstance(s, ast.If) and ast.unparse(s.test) == 'isinstance(owner, AttributeSet) and owner.recursive' and not s.orelse \
           and [ast.unparse(t) for t in s.body] == ['scopes.append(_scope_from_attrset(owner, base=tuple(scopes)))']:
            setv('scopes', '(%s ++ (if o_recursive o then [o_self o] else []))' % st['scopes']); i += 1; continue
        if isinstance(s, ast.If) and isinstance(s.test, ast.Call) and ast.unparse(s.test.func) == 'isinstance' and ast.unparse(s.test.args[0]) == 'owner' and ast.unparse(s.test.args[1]) in ('WithStatement', 'FunctionCall') and not s.orelse:
            i += 1; continue        # arms of other owner kinds (not an attribute set): outside this translation
        if u == 'return tuple(scopes)':
            if i != len(body) - 1: U('statements after return')
            return 'Definition scopes_for_owner_set (o : owner) : list S :=\n  %s.\n' % st['scopes']
        U('statement of scopes_for_owner', s)
    U('no return')

def main(repo):
    tree = ast.parse(open(repo + '/nix_manipulator/resolution.py').read())
    out = ['From Coq Require Import List Bool Arith.\nImport ListNotations.\n',
           'Section Scopes.\nVariable S : Type.                       (* scope objects *)\n'
           'Record layer := { layer_scope : S; layer_nonempty : bool }.        (* layer["scope"] and its truth value *)\n'
           'Record owner := { o_inherited : option (list S);   (* the stored context, if any *)\n                  o_scope : option S;             (* owner.scope when it is not None and not empty *)\n'
           '                  o_stack : list layer;           (* owner.scope_state.stack *)\n                  o_recursive : bool; o_self : S }.  (* a rec attribute set and the scope of its own values *)\n'
           'Definition opt_list (o : option (list S)) : list S := match o with Some l => l | None => [] end.\n'
           'Definition opt_one (o : option S) : list S := match o with Some x => [x] | None => [] end.\n']
    out.append('(* GENERATED from resolution.py:_collect_scopes_from_layers *)\n' + guarded('_collect_scopes_from_layers', lambda: gen_collect(tree)))
    out.append('(* GENERATED from resolution.py:scopes_for_owner (attribute-set owners) *)\n' + guarded('scopes_for_owner', lambda: gen_owner(tree)))
    out.append('End Scopes.\n')
    return '\n'.join(out)
if __name__ == '__main__': print(main(sys.argv[1]))

(* C17 — imports resolve relative to the importing file, whatever the working directory.
   Model: Small/PathRes.v (pathlib-like path algebra, NixPath.resolved_path, physical lookup in a directory tree
   without symlinks) and Small/PathFS.v (import chains).  The file system is abstract: the theorems hold for every
   directory tree, working directory and spelling. *)
From Coq Require Import List Ascii String Bool Arith.
Import ListNotations.
From Small Require Import PathRes PathFS.

Section C17.
  Variable dir : Type.
  Variables (root : dir) (up : dir -> dir) (child : dir -> str -> option dir).

  (* a relative literal is looked up from the directory that contains the importing file *)
  Theorem C17_relative (file : dir -> str -> option str) cwd sp lit d :
    absolute lit = false -> dir_of dir root up child cwd sp = Some d ->
    locate_dir dir root up child cwd (resolved_path sp lit) = walk dir up child d (removelast (parts lit)) /\
    last (parts (resolved_path sp lit)) Up = last (parts lit) Up \/ parts lit = [].
  Proof. exact (PathRes.C17_relative dir root up child cwd sp lit d). Qed.

  (* two (cwd, spelling) pairs that denote the same directory open the same file *)
  Theorem C17_cwd_independent (file : dir -> str -> option str) cwd1 sp1 cwd2 sp2 lit d :
    absolute lit = false -> parts lit <> [] ->
    dir_of dir root up child cwd1 sp1 = Some d -> dir_of dir root up child cwd2 sp2 = Some d ->
    open_ dir root up child file cwd1 (resolved_path sp1 lit) = open_ dir root up child file cwd2 (resolved_path sp2 lit).
  Proof. exact (PathRes.C17_cwd_independent dir root up child file cwd1 sp1 cwd2 sp2 lit d). Qed.

  Theorem C17_absolute (file : dir -> str -> option str) cwd1 sp1 cwd2 sp2 lit :
    absolute lit = true ->
    open_ dir root up child file cwd1 (resolved_path sp1 lit) = open_ dir root up child file cwd2 (resolved_path sp2 lit).
  Proof. exact (PathRes.C17_absolute dir root up child file cwd1 sp1 cwd2 sp2 lit). Qed.

  (* chains of any length depend only on which file the entry path denotes *)
  Theorem C17_chain (file : dir -> str -> option (nat * arg)) :
    (forall d n id lit, file d n = Some (id, ALit lit) -> parts (parse_path lit) <> []) ->
    forall k cwd1 sp1 cwd2 sp2, same_file dir root up child cwd1 sp1 cwd2 sp2 ->
    follow dir root up child file k cwd1 sp1 = follow dir root up child file k cwd2 sp2.
  Proof. exact (PathFS.C17_chain dir root up child file). Qed.

  (* non-path argument: TypeError; angle-bracket path: ValueError; missing file: an OS error, never another file *)
  Theorem C17_errors (file : dir -> str -> option (nat * arg)) cwd sp id a k :
    open_f dir root up child file cwd sp = Some (id, a) ->
    match a with
    | AAngle => follow dir root up child file (S k) cwd sp = ValueError
    | ANonPath => follow dir root up child file (S k) cwd sp = TypeError
    | ALit lit => open_f dir root up child file cwd (resolved_path sp (parse_path lit)) = None ->
                  follow dir root up child file (S k) cwd sp = OSError
    end.
  Proof. exact (PathFS.C17_errors dir root up child file cwd sp id a k). Qed.
End C17.
Print Assumptions C17_relative.
Print Assumptions C17_cwd_independent.
Print Assumptions C17_absolute.
Print Assumptions C17_chain.
Print Assumptions C17_errors.

Open Scope string_scope.
(* non-vacuity: a concrete tree in which a two-hop chain through a parent directory reaches its target from two
   different working directories and spellings *)
Definition demo_fs : fsys :=
  let s := list_ascii_of_string in
  {| dirs := [[]; [s "r"]; [s "r"; s "a"]];
     files := [([s "r"], s "f0.nix", (0, ALit (s "./a/f1.nix"))); ([s "r"; s "a"], s "f1.nix", (1, ALit (s "../f2.nix")));
               ([s "r"], s "f2.nix", (2, AAngle))] |}.
Example C17_demo :
  c_follow demo_fs 2 [list_ascii_of_string "r"; list_ascii_of_string "a"] (list_ascii_of_string "../f0.nix") = Reached 2 /\
  c_follow demo_fs 2 [] (list_ascii_of_string "/r/a/../f0.nix") = Reached 2 /\
  c_follow demo_fs 3 [] (list_ascii_of_string "r/f0.nix") = ValueError.
Proof. vm_compute. repeat split. Qed.
Print Assumptions C17_demo.

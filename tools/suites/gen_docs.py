"""Seeded generators of canonical (RFC-0166 style) documents of fragment F0 used by several suites."""
import random
IDS = ['a', 'b', 'foo', 'bar_1', "x'", 'pname', 'version', 'meta', 'lib']
class DocGen:
    def __init__(self, R, refs=True, families=0.25):
        self.R, self.refs, self.families = R, refs, families
    def ident(self): return self.R.choice(IDS)
    def atom(self):
        R = self.R
        k = R.randrange(7)
        if k == 2 and not self.refs: k = 0           # bare identifiers as values trigger reference redirection (C11)
        return [lambda: str(R.randrange(1000)), lambda: '"s%d"' % R.randrange(9), self.ident, lambda: 'true', lambda: 'null',
                lambda: './p/%s.nix' % self.ident().replace("'", ''), lambda: 'pkgs.' + self.ident()][k]()
    def comment(self, ind): return ' ' * ind + '# ' + self.R.choice(['note', 'TODO: x', 'c c c'])
    def value(self, ind, depth):
        R = self.R; k = R.randrange(10)
        if depth <= 0 or k < 4: return self.atom()
        if k < 6: return self.mset(ind, depth - 1)
        if k < 8: return self.mlist(ind, depth - 1)
        if k == 8: return '{ %s = %s; }' % (self.ident(), self.atom())
        return '[ %s ]' % self.atom() if R.random() < 0.5 else '[ ]' if R.random() < 0.5 else '{ }'
    def bindings(self, ind, depth, n):
        R = self.R; lines = []; names = set()
        top = not getattr(self, 'attrpath_top_only', False) or ind == 2
        fam = R.random() < self.families and top
        for i in range(n):
            if i > 0 and R.random() < 0.2: lines.append('')
            if R.random() < 0.25: lines.append(self.comment(ind))
            nm = self.ident()
            while nm in names: nm = nm + '_'
            names.add(nm)
            if R.random() < 0.15 and top: nm = nm + '.' + self.ident()
            l = ' ' * ind + nm + ' = ' + self.value(ind, depth) + ';'
            if R.random() < 0.2: l += ' # eol'
            lines.append(l)
        if fam:      # an attrpath family with equal leaves and values, as in NixOS modules
            root = R.choice(['services', 'programs']); mids = R.sample(['nginx', 'openssh', 'git', 'zsh'], R.randint(2, 3))
            if root not in names:
                for m in mids: lines.append(' ' * ind + '%s.%s.enable = true;' % (root, m))
        if R.random() < 0.15: lines.append(self.comment(ind))
        return lines
    def mset(self, ind, depth):
        return '{\n' + '\n'.join(self.bindings(ind + 2, depth, self.R.randrange(1, 4))) + '\n' + ' ' * ind + '}'
    def mlist(self, ind, depth):
        R = self.R; lines = []
        for i in range(R.randrange(1, 4)):
            if i > 0 and R.random() < 0.15: lines.append('')
            if R.random() < 0.2: lines.append(self.comment(ind + 2))
            k = R.randrange(6)
            if depth > 0 and k == 0: v = self.mset(ind + 2, depth - 1)
            elif depth > 0 and k == 1: v = self.mlist(ind + 2, depth - 1)
            else: v = self.atom()
            l = ' ' * (ind + 2) + v
            if R.random() < 0.15: l += ' # eol'
            lines.append(l)
        return '[\n' + '\n'.join(lines) + '\n' + ' ' * ind + ']'
    def doc(self):
        s = ''
        if self.R.random() < 0.3: s += '# header\n' + ('\n' if self.R.random() < 0.5 else '')
        return s + self.mset(0, 3) + '\n'

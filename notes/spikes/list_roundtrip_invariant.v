From Coq Require Import List Ascii String Bool Arith Lia.
Import ListNotations.
Open Scope char_scope.
Definition str := list ascii.
Definition nl : ascii := "010".
Definition sp (n : nat) : str := repeat " " n.

Inductive triv := EmptyLine | Linebreak | Cmt (text : str).
Definition cmt_rebuild (indent : nat) (t : str) : str := sp indent ++ "#" :: " " :: t.
Fixpoint format_trivia (l : list triv) (indent : nat) : str :=
  match l with
  | [] => []
  | EmptyLine :: r => nl :: format_trivia r indent
  | Linebreak :: r => format_trivia r indent
  | Cmt t :: r => cmt_rebuild indent t ++ nl :: format_trivia r indent
  end.

Fixpoint has_nl (g : str) : bool := match g with [] => false | c :: r => Ascii.eqb c nl || has_nl r end.
Fixpoint blank_after (g : str) : bool :=
  match g with
  | [] => false
  | c :: r => if Ascii.eqb c nl then true else if Ascii.eqb c " " || Ascii.eqb c "009" then blank_after r else false
  end.
Fixpoint has_empty_line (g : str) : bool :=
  match g with [] => false | c :: r => (Ascii.eqb c nl && blank_after r) || has_empty_line r end.
Definition gap_trivia (g : str) : list triv :=
  if has_empty_line g then [EmptyLine] else if has_nl g then [Linebreak] else [].

(* canonical gaps *)
Inductive cgap (m : nat) : str -> Prop :=
| cg1 : cgap m (nl :: sp m)
| cg2 : cgap m (nl :: nl :: sp m).

Lemma has_nl_sp m : has_nl (sp m) = false.
Proof. induction m; simpl; auto. Qed.
Lemma blank_after_sp m : blank_after (sp m) = false.
Proof. induction m; simpl; auto. Qed.
Lemma has_empty_line_sp m : has_empty_line (sp m) = false.
Proof. induction m; simpl; auto. Qed.

(* the key "reader then printer is identity on canonical gaps" lemma *)
Lemma gap_roundtrip m g : cgap m g -> nl :: format_trivia (gap_trivia g) m ++ sp m = g.
Proof.
  intros [|]; unfold gap_trivia; cbn [has_empty_line has_nl blank_after Ascii.eqb].
  - change (Ascii.eqb nl nl) with true. cbn. rewrite blank_after_sp, has_empty_line_sp. reflexivity.
  - change (Ascii.eqb nl nl) with true. cbn. reflexivity.
Qed.

(* content: (gap, node) ; structural-recursive reader *)
Inductive node := Atom (t : str) | LC (t : str).
Definition node_text (n : node) := match n with Atom t => t | LC t => "#" :: " " :: t end.
Record item := { it_text : str; it_before : list triv }.

Fixpoint reader (before : list triv) (content : list (str * node)) : list item * list triv :=
  match content with
  | [] => ([], before)
  | (g, LC t) :: rest => reader (before ++ gap_trivia g ++ [Cmt t]) rest
  | (g, Atom t) :: rest =>
      let '(items, lft) := reader [] rest in
      ({| it_text := t; it_before := before ++ gap_trivia g |} :: items, lft)
  end.

Definition item_rebuild (m : nat) (i : item) : str := format_trivia (it_before i) m ++ sp m ++ it_text i.

(* printer for the "lines" part: every item preceded by nl *)
Fixpoint lines (m : nat) (items : list item) : str :=
  match items with [] => [] | i :: r => nl :: item_rebuild m i ++ lines m r end.

Fixpoint ctext (content : list (str * node)) : str :=
  match content with [] => [] | (g, n) :: r => g ++ node_text n ++ ctext r end.

Definition canon (m : nat) (content : list (str * node)) := Forall (fun '(g, _) => cgap m g) content.

Lemma format_trivia_app a b m : format_trivia (a ++ b) m = format_trivia a m ++ format_trivia b m.
Proof. induction a as [|[| |t] a IH]; simpl; rewrite ?IH; auto. unfold cmt_rebuild. rewrite <- ?app_assoc. simpl. rewrite <- ?app_assoc. reflexivity. Qed.


Definition chunk (m : nat) (c : str * node) : str :=
  let '(g, n) := c in tl g ++ node_text n ++ [nl].
Fixpoint lines' (m : nat) (items : list item) : str :=
  match items with [] => [] | i :: r => item_rebuild m i ++ nl :: lines' m r end.

Lemma gap_roundtrip' m g : cgap m g -> tl g = format_trivia (gap_trivia g) m ++ sp m.
Proof. intros H. rewrite <- (gap_roundtrip m g H) at 1. reflexivity. Qed.

Lemma reader_inv m : forall content before,
  canon m content ->
  format_trivia before m ++ flat_map (chunk m) content
  = lines' m (fst (reader before content)) ++ format_trivia (snd (reader before content)) m.
Proof.
  induction content as [|[g n] rest IH]; intros before Hc.
  - cbn. rewrite app_nil_r. reflexivity.
  - inversion Hc as [|? ? Hg Hrest]; subst.
    destruct n as [t|t]; cbn [reader flat_map chunk node_text].
    + specialize (IH [] Hrest). cbn [format_trivia app] in IH.
      destruct (reader [] rest) as [items lft] eqn:E. cbn [fst snd] in *.
      cbn [lines']. unfold item_rebuild; cbn [it_before it_text].
      rewrite format_trivia_app, (gap_roundtrip' m g Hg).
      rewrite <- ?app_assoc. cbn [app]. rewrite <- IH. reflexivity.
    + rewrite <- (IH _ Hrest). rewrite !format_trivia_app. cbn [format_trivia].
      rewrite (gap_roundtrip' m g Hg). unfold cmt_rebuild.
      rewrite <- ?app_assoc. cbn [app]. rewrite ?app_nil_r. rewrite <- ?app_assoc. reflexivity.
Qed.
Print Assumptions reader_inv.

(* Proof spike, part 9: expression-level theorem for all of fragment F0. *)
From Coq Require Import List Ascii String Bool Arith Lia.
Import ListNotations.
From F0 Require Import F0s Specs P1 P2 P3g P5 P6 P7 P8.
Open Scope char_scope.

Definition goodF := good.   (* same statement as in P7 *)

Lemma trail_nil c i : trail c [] i = [].
Proof. unfold trail. destruct (is_bind c); reflexivity. Qed.
Lemma lead_nil i : lead [] i true = [].
Proof. reflexivity. Qed.

(* inline items render as their spec *)
Lemma inline_items (f : cnode -> nat) body :
  Forall (fun gn => is_cmt (snd gn) = false /\
                    forall ind B X inline, rebuild (mk (from_cst (snd gn)) B X) None ind inline
                                           = lead B ind inline ++ spec (snd gn) ind ++ trail (snd gn) X ind) body ->
  forall i, map (fun v => rebuild v None i true) (map (fun k : kid => mk (snd k) [] []) (conv body))
            = map (fun gn => spec (snd gn) i) body.
Proof.
  intros H i. induction body as [|[g n] t IH]; [reflexivity|].
  inversion H as [|? ? H1 H2]; subst. cbn [conv map snd]. fold (conv t). rewrite IH by exact H2.
  destruct H1 as [_ HR]. cbn [snd] in HR. rewrite HR. rewrite lead_nil, trail_nil, app_nil_r. reflexivity.
Qed.

Lemma inner_str_ends (S A B : str) :
  LF :: S = A ++ LF :: B -> (B = [] \/ B = [LF]) -> A <> [] -> S <> [] /\ ends_nl S = true.
Proof.
  intros E HB HA. destruct A as [|a A']; [congruence|]. cbn [app] in E. inversion E; subst.
  split; [apply app_nonempty_r; discriminate|].
  destruct HB as [->| ->].
  - apply ends_nl_snoc.
  - change (LF :: [LF]) with ([LF] ++ [LF]). rewrite app_assoc. apply ends_nl_snoc.
Qed.
Lemma blank_cases g : blank g = [] \/ blank g = [LF].
Proof. unfold blank. destruct (has_empty_line g); auto. Qed.
Lemma seq_lines_nonempty core inb ind l p sn : l <> [] -> seq_lines core inb ind l p sn <> [].
Proof.
  destruct l as [|[g n] t]; [congruence|]. intros _. cbn [seq_lines].
  destruct (is_cmt n); [|discriminate].
  match goal with |- context [if ?b then _ else _] => destruct b end; discriminate.
Qed.

Theorem rebuild_spec_F : forall c, wfF c -> good c.
Proof.
  induction c as [isint t|raw|n g1 g2 v g3 IHv|r gr body cg IHb|body cg IHb] using cnode_ind'; intros Hwf Hnc ind.
  - (* atom *)
    cbn [wfF] in Hwf. destruct Hwf as [Hne Hend]. cbn [spec from_cst mk set_before set_after trail is_bind]. split; [split; assumption|].
    intros B X inline. cbn [rebuild a_after]. unfold add_trivia. rewrite apply_trailing_T. unfold lead.
    repeat rewrite <- app_assoc. reflexivity.
  - discriminate.
  - (* binding *)
    cbn [wfF] in Hwf. destruct Hwf as (Hwv & Hvb & Hvc).
    specialize (IHv Hwv Hvc). destruct (from_cst_triv v) as [Hbv Hav].
    cbn [spec trail is_bind].
    assert (Hval : forall vi inl,
              rstrip_nl (rebuild (mk (from_cst v) (gap_trivia g2) []) (Some []) vi inl)
              = lead (gap_trivia g2) vi inl ++ spec v vi).
    { intros vi inl. rewrite rebuild_override, mk_set_after.
      destruct (IHv vi) as [[Hne Hend] HR]. rewrite HR. unfold trail. rewrite Hvb. cbn [T apply_trailing]. rewrite app_nil_r.
      apply rstrip_nl_id. rewrite ends_nl_app by exact Hne. exact Hend. }
    split.
    { split.
      - destruct (has_nl g2); apply nonempty_mid; discriminate.
      - destruct (has_nl g2); [apply ends1|apply ends2]. }
    intros B X inline. cbn [from_cst]. rewrite mk_fresh by assumption.
    cbn [mk set_before set_after].
    rewrite rebuild_bind.
    2:{ apply mk_after. }
    2:{ rewrite mk_before. apply has_comment_gap. }
    rewrite Hval. f_equal. f_equal.
    destruct (has_nl g2) eqn:Eg.
    + unfold lead. cbn [negb]. rewrite format_trivia_gap. repeat rewrite <- app_assoc. reflexivity.
    + unfold lead. cbn [negb]. rewrite gap_trivia_no_nl by exact Eg. cbn [format_trivia app].
      repeat rewrite <- app_assoc. reflexivity.
  - (* set *)
    cbn [wfF] in Hwf. destruct Hwf as (Hall & Hnd & Hinl). cbn [trail is_bind].
    assert (Hkids : Forall (fun gn => wfF (snd gn) /\ (is_bind (snd gn) = true \/ is_cmt (snd gn) = true)) body).
    { clear -Hall. induction body as [|[g n] t IH]; constructor; [apply Hall|apply IH, Hall]. }
    clear Hall.
    destruct body as [|b0 body'].
    { (* empty *)
      cbn [spec from_cst parse_seq pds app mk set_before set_after].
      destruct (has_empty_line cg) eqn:Ecg.
      - split. { split; [apply app_nonempty_r; discriminate|]. rewrite ends_nl_app by discriminate.
                 change ("{" :: LF :: LF :: sp ind ++ ["}"]) with (["{"; LF; LF] ++ sp ind ++ ["}"]). rewrite !app_assoc. apply ends_nl_snoc. }
        intros B X inline. cbn [rebuild a_after format_trivia]. rewrite apply_trailing_T. unfold closing_sep. cbn [ends_nl rev app].
        change (LF =c LF) with true. cbn iota. cbn [app]. repeat rewrite <- app_assoc. reflexivity.
      - split. { split; [apply app_nonempty_r; discriminate|]. rewrite ends_nl_app by discriminate. reflexivity. }
        intros B X inline. cbn [rebuild a_after]. unfold add_trivia. rewrite apply_trailing_T. unfold lead.
        repeat rewrite <- app_assoc. reflexivity. }
    set (body := b0 :: body') in *.
    assert (Hb : body <> []) by discriminate.
    assert (Hconv : conv body <> []) by discriminate.
    clearbody body.
    destruct (has_nl (ctext (CSet r gr body cg))) eqn:Hnl.
    2:{ (* inline *)
      destruct (Hinl eq_refl) as [Hcg Hin].
      rewrite (spec_set_inline r gr body cg ind Hb Hnl Hin).
      split. { split; [apply app_nonempty_r; discriminate|]. rewrite !app_assoc. rewrite ends_nl_app by discriminate. reflexivity. }
      intros B X inline. cbn [from_cst]. rewrite conv_fix.
      rewrite (parse_seq_inline true (conv body) cg (inl_conv body Hin) Hcg). rewrite Hnl.
      cbn [mk set_before set_after].
      match goal with |- context [map ?f (conv body)] => destruct (map f (conv body)) as [|v0 vs] eqn:Ev end.
      { destruct (conv body); [congruence|discriminate]. }
      cbn [rebuild a_after]. rewrite <- Ev.
      rewrite (inline_items (fun _ => 0) body).
      + unfold add_trivia. rewrite apply_trailing_T. unfold lead. repeat rewrite <- app_assoc. reflexivity.
      + clear -IHb Hkids Hin. induction body as [|[g n] t IH]; [constructor|].
        inversion IHb as [|? ? Hn Ht]; subst. inversion Hkids as [|? ? Hk1 Hk2]; subst. destruct Hin as (Hc & _ & Hin').
        constructor; [|apply IH; assumption]. cbn [snd] in *. split; [exact Hc|].
        intros i B X inl. destruct Hk1 as [Hw _]. destruct (Hn Hw Hc i) as [_ HR]. apply HR. }
    assert (Hk : Forall (kid_ok (ind + 2) (fun n => spec n (ind + 2)) (fun a => rebuild a None (ind + 2) false) TB) (conv body)).
    { clear -IHb Hkids. induction body as [|[g n] t IHt]; [constructor|].
      inversion IHb as [|? ? Hn Ht]; subst. inversion Hkids as [|? ? [Hwn Hkind] Hk2]; subst.
      cbn [conv map]. constructor; [|apply IHt; assumption].
      cbn [kid_ok snd] in *. destruct (is_cmt n) eqn:En.
      - destruct n; try discriminate. cbn [craw]. exact Hwn.
      - destruct Hkind as [Hbn|Hcn]; [|congruence].
        destruct (from_cst_triv n) as [Hbf Haf]. specialize (Hn Hwn En (ind + 2)). destruct Hn as [[Hne Hend] HR].
        repeat split; try assumption. intros B0 X0. rewrite (HR B0 X0 false). unfold lead, trail. rewrite Hbn.
        repeat rewrite <- app_assoc. reflexivity. }
    rewrite (spec_set_multiline r gr body cg ind Hb Hnl).
    split.
    { split; [apply app_nonempty_r; discriminate|].
      rewrite ends_nl_app by discriminate. apply ends_nl_close. }
    intros B X inline. cbn [from_cst]. rewrite conv_fix.
    destruct (has_item_b body) eqn:Hitem.
    + (* at least one binding *)
      pose proof (seq_body (ind + 2) (fun n => spec n (ind + 2)) (fun a => rebuild a None (ind + 2) false)
                    true TB Q1set (TB_a0 (ind + 2)) (TB_end (ind + 2)) cg (conv body)
                    Hk (no_double_conv None body Hnd)) as HB.
      rewrite has_item_conv, strip_conv, (q1_start_spec body Hnd) in HB. specialize (HB Hitem).
      destruct (parse_seq true (conv body) (Some cg) true []) as [values inner] eqn:Eps.
      cbn [fst] in HB.
      assert (Hv : values <> []).
      { pose proof (parse_seq_has_item true (conv body) cg) as Hh. rewrite has_item_conv, Eps in Hh. exact (Hh Hitem). }
      cbn [mk set_before set_after]. rewrite Hnl.
      destruct values as [|v0 vs]; [congruence|].
      cbn [rebuild a_after]. rewrite apply_trailing_T.
      unfold BT in HB.
      set (J := join [LF] (map (fun a : ast => rebuild a None (ind + 2) false) (v0 :: vs))) in *.
      set (CS := closing_sep J) in *.
      repeat rewrite <- app_assoc. f_equal. f_equal. cbn [app]. f_equal. repeat rewrite <- app_assoc.
      rewrite (bt_shape J CS). rewrite HB. cbn [app]. repeat rewrite <- app_assoc. reflexivity.
    + (* comments only *)
      pose proof (conv_cmts body Hitem) as Hc.
      assert (Hq : spec_q1 body = false).
      { rewrite spec_q1_gval, no_item_gap by exact Hitem. reflexivity. }
      rewrite Hq.
      destruct (conv body) as [|[[g0 c0] a0] rest] eqn:Econv; [congruence|].
      inversion Hc as [|? ? Hc0 Hcr]; subst. unfold cmt_kid in Hc0. cbn [fst snd] in Hc0.
      destruct (comments_body true (ind + 2) (fun n => spec n (ind + 2)) g0 c0 a0 rest cg Hc0 Hcr) as (Hv & Hinn & Heq).
      rewrite <- Econv in Heq. rewrite strip_conv in Heq. rewrite Econv in Heq.
      destruct (parse_seq true ((g0, c0, a0) :: rest) (Some cg) true []) as [values inner] eqn:Eps.
      cbn [fst snd] in *. subst values.
      cbn [mk set_before set_after]. rewrite Hnl.
      destruct inner as [|i0 inner']; [congruence|].
      cbn [rebuild a_after]. rewrite apply_trailing_T.
      set (IS := format_trivia (i0 :: inner') (ind + 2)) in *.
      destruct (inner_str_ends IS _ _ Heq (blank_cases cg)) as [Hne Hends].
      { apply seq_lines_nonempty. exact Hb. }
      destruct IS as [|is0 IS'] eqn:EIS; [congruence|]. rewrite <- EIS in *.
      unfold closing_sep. rewrite Hends.
      cbn [app]. repeat rewrite <- app_assoc. f_equal. f_equal. cbn [app]. f_equal.
      rewrite <- app_assoc. rewrite app_comm_cons.
      rewrite Heq. repeat rewrite <- app_assoc. cbn [app]. repeat rewrite <- app_assoc. reflexivity.
  - (* list *)
    cbn [wfF] in Hwf. destruct Hwf as (Hall & Hnd & Hinl). cbn [trail is_bind].
    assert (Hkids : Forall (fun gn => wfF (snd gn) /\ is_bind (snd gn) = false) body).
    { clear -Hall. induction body as [|[g n] t IH]; constructor; [apply Hall|apply IH, Hall]. }
    clear Hall.
    destruct body as [|b0 body'].
    { (* empty *)
      cbn [spec from_cst parse_seq pds app mk set_before set_after].
      destruct (has_empty_line cg) eqn:Ecg.
      - split. { split; [discriminate|].
                 change ("[" :: LF :: LF :: sp ind ++ ["]"]) with (["["; LF; LF] ++ sp ind ++ ["]"]). rewrite !app_assoc. apply ends_nl_snoc. }
        intros B X inline. cbn [rebuild a_after format_trivia]. rewrite apply_trailing_T. unfold closing_sep. cbn [ends_nl rev app].
        change (LF =c LF) with true. cbn iota. cbn [app]. repeat rewrite <- app_assoc. cbn [app]. repeat rewrite <- app_assoc. reflexivity.
      - split. { split; [discriminate|reflexivity]. }
        intros B X inline. cbn [rebuild a_after]. rewrite apply_trailing_T. unfold lead.
        repeat rewrite <- app_assoc. reflexivity. }
    set (body := b0 :: body') in *.
    assert (Hb : body <> []) by discriminate.
    assert (Hconv : conv body <> []) by discriminate.
    clearbody body.
    destruct (has_nl (ctext (CList body cg))) eqn:Hnl.
    2:{ (* inline *)
      destruct (Hinl eq_refl) as [Hcg Hin].
      rewrite (spec_list_inline body cg ind Hb Hnl Hin).
      split. { split; [discriminate|]. rewrite !app_assoc. rewrite ends_nl_app by discriminate. reflexivity. }
      intros B X inline. cbn [from_cst]. rewrite conv_fix.
      rewrite (parse_seq_inline false (conv body) cg (inl_conv body Hin) Hcg). rewrite Hnl.
      cbn [mk set_before set_after].
      match goal with |- context [map ?f (conv body)] => destruct (map f (conv body)) as [|v0 vs] eqn:Ev end.
      { destruct (conv body); [congruence|discriminate]. }
      cbn [rebuild a_after]. rewrite <- Ev.
      rewrite (inline_items (fun _ => 0) body).
      + rewrite apply_trailing_T. unfold lead. repeat rewrite <- app_assoc. reflexivity.
      + clear -IHb Hkids Hin. induction body as [|[g n] t IH]; [constructor|].
        inversion IHb as [|? ? Hn Ht]; subst. inversion Hkids as [|? ? Hk1 Hk2]; subst. destruct Hin as (Hc & _ & Hin').
        constructor; [|apply IH; assumption]. cbn [snd] in *. split; [exact Hc|].
        intros i B X inl. destruct Hk1 as [Hw _]. destruct (Hn Hw Hc i) as [_ HR]. apply HR. }
    assert (Hk : Forall (kid_ok (ind + 2) (fun n => spec n (ind + 2)) (fun a => rebuild a None (ind + 2) false) T) (conv body)).
    { clear -IHb Hkids. induction body as [|[g n] t IHt]; [constructor|].
      inversion IHb as [|? ? Hn Ht]; subst. inversion Hkids as [|? ? [Hwn Hkind] Hk2]; subst.
      cbn [conv map]. constructor; [|apply IHt; assumption].
      cbn [kid_ok snd] in *. destruct (is_cmt n) eqn:En.
      - destruct n; try discriminate. cbn [craw]. exact Hwn.
      - destruct (from_cst_triv n) as [Hbf Haf]. specialize (Hn Hwn En (ind + 2)). destruct Hn as [[Hne Hend] HR].
        repeat split; try assumption. intros B0 X0. rewrite (HR B0 X0 false). unfold lead, trail. rewrite Hkind.
        repeat rewrite <- app_assoc. reflexivity. }
    rewrite (spec_list_multiline body cg ind Hb Hnl).
    split.
    { split; [discriminate|]. apply ends_nl_close. }
    intros B X inline. cbn [from_cst]. rewrite conv_fix.
    destruct (has_item_b body) eqn:Hitem.
    + (* at least one item *)
      pose proof (seq_body (ind + 2) (fun n => spec n (ind + 2)) (fun a => rebuild a None (ind + 2) false)
                    false T Q1list (T_a0 (ind + 2)) (T_end (ind + 2)) cg (conv body)
                    Hk (no_double_conv None body Hnd)) as HB.
      rewrite has_item_conv, strip_conv in HB. specialize (HB Hitem).
      assert (Hq : q1_start false Q1list (conv body) = false).
      { clear. assert (Ho : forall l A0 P p, q1_of false Q1list l A0 P p = false).
        { induction l as [|[[g c] a] t IH]; intros; [reflexivity|]. cbn [q1_of].
          destruct (is_cmt c); [destruct (can_inl false p g)|]; apply IH. }
        induction (conv body) as [|[[g c] a] t IH]; [reflexivity|]. cbn [q1_start]. destruct (is_cmt c); [exact IH|apply Ho]. }
      rewrite Hq in HB.
      destruct (parse_seq false (conv body) (Some cg) true []) as [values inner] eqn:Eps.
      cbn [fst] in HB.
      assert (Hv : values <> []).
      { pose proof (parse_seq_has_item false (conv body) cg) as Hh. rewrite has_item_conv, Eps in Hh. exact (Hh Hitem). }
      cbn [mk set_before set_after]. rewrite Hnl.
      destruct values as [|v0 vs]; [congruence|].
      cbn [rebuild a_after]. rewrite apply_trailing_T.
      unfold BT in HB.
      set (J := join [LF] (map (fun a : ast => rebuild a None (ind + 2) false) (v0 :: vs))) in *.
      set (CS := closing_sep J) in *.
      repeat rewrite <- app_assoc. f_equal. cbn [app]. f_equal. repeat rewrite <- app_assoc.
      rewrite (bt_shape J CS). rewrite HB. cbn [app]. repeat rewrite <- app_assoc. reflexivity.
    + (* comments only *)
      pose proof (conv_cmts body Hitem) as Hc.
      destruct (conv body) as [|[[g0 c0] a0] rest] eqn:Econv; [congruence|].
      inversion Hc as [|? ? Hc0 Hcr]; subst. unfold cmt_kid in Hc0. cbn [fst snd] in Hc0.
      destruct (comments_body false (ind + 2) (fun n => spec n (ind + 2)) g0 c0 a0 rest cg Hc0 Hcr) as (Hv & Hinn & Heq).
      rewrite <- Econv in Heq. rewrite strip_conv in Heq. rewrite Econv in Heq.
      destruct (parse_seq false ((g0, c0, a0) :: rest) (Some cg) true []) as [values inner] eqn:Eps.
      cbn [fst snd] in *. subst values.
      cbn [mk set_before set_after]. rewrite Hnl.
      destruct inner as [|i0 inner']; [congruence|].
      cbn [rebuild a_after]. rewrite apply_trailing_T.
      set (IS := format_trivia (i0 :: inner') (ind + 2)) in *.
      destruct (inner_str_ends IS _ _ Heq (blank_cases cg)) as [Hne Hends].
      { apply seq_lines_nonempty. exact Hb. }
      destruct IS as [|is0 IS'] eqn:EIS; [congruence|]. rewrite <- EIS in *.
      unfold closing_sep. rewrite Hends.
      cbn [app]. repeat rewrite <- app_assoc. f_equal. cbn [app]. f_equal.
      rewrite <- app_assoc. rewrite app_comm_cons.
      rewrite Heq. repeat rewrite <- app_assoc. cbn [app]. repeat rewrite <- app_assoc. reflexivity.
Qed.
Print Assumptions rebuild_spec_F.

import sys
sys.path.insert(0,'/repo')
from nix_manipulator import parse
from nix_manipulator.cli.manipulations import set_value, remove_value
def rt(s):
    try:
        r = parse(s).rebuild()
    except Exception as e:
        return f"EXC {type(e).__name__}: {e}"
    return r
tests = [
 "\n{ a = 1; }",
 "a\n++ b ++ # c\nc",
 "a.b or /* c */ d",
 "args # c\n@{ }: 1",
 "assert c; body\n# end",
 "let a = 1; in b\n# end",
 "{ a = let x = 1; in x; }",
 "{\n  a = 1;\n  /* c */\n  b = 2;\n}",
 "{ a = 007; }",
 "let in 1",
]
for t in tests:
    r = rt(t)
    print(repr(t), '->', repr(r))
    if not r.startswith('EXC'):
        print('   again ->', repr(rt(r)))

import sys
sys.path.insert(0,'/repo')
from nix_manipulator import parse
from nix_manipulator.parser import parse_to_ast
for s in ["\n\n\n{\n  a = 1;\n  b = 2;\n}\n", "   {\n  a = 1;\n\n\n  b = 2;\n}\n", "\n\n[\n  1\n  2 # c\n  # d\n\n  3\n]", "  # c\n{ }", "\n\n\n\n{ a = [ 1 2 ]; b = x: y; }"]:
    r = parse_to_ast(s)
    print(repr(s), 'root', r.start_byte, r.end_byte, len(s.encode()))
    print('   ->', repr(parse(s).rebuild()))
    print('   stripped ->', repr(parse(s.lstrip()).rebuild()))

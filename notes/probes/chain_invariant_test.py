"""Test (not a proof) of the invariant conjectured for the build-phase theorem: in documents without `rec` sets,
after ANY history of accesses, every context stored for a value of a set's `values` list is the positional chain
(let layers of the enclosing sets, outermost first), in the model AND — read back from _CONTEXTS — in the implementation."""
import sys; seed, NCASES = sys.argv[1], int(sys.argv[2]); sys.argv = ['x', seed, '0']
exec(open('/verif/notes/probes/chain_model.py').read().split('# ---------- harness ----------')[0])
from nix_manipulator.resolution import get_resolution_context
def positional(top):
    pos = {}
    def go(s, inh):
        own = inh + tuple(('layer', s.id, i) for i, l in enumerate(s.layers) if l)
        for n, v in s.values:
            pos[v.id] = own
            if isinstance(v, MSet): go(v, own)
    go(top, ()); return pos
def norec(v):
    if isinstance(v, MSet):
        v.rec = False
        for l in v.layers:
            for _, x in l: norec(x)
        for _, x in v.values: norec(x)
bad = 0; checked = 0; answers_history_dependent = 0
for case in range(NCASES):
    top = gen_set(2); norec(top); text = show(top) + '\n'; sets = {}; collect(top, sets)
    src = parse(text); pos = positional(top); reg = {}; first_answer = {}
    for step in range(R.randrange(2, 9)):
        path = []; cur = top
        while True:
            k, v = R.choice(cur.values); path.append(k)
            if isinstance(v, MSet) and R.random() < 0.7: cur = v; continue
            break
        scopes_for_owner(reg, top); mv = top
        for k in path: mv = set_getitem(reg, mv, k)
        ans = outcome(ident_value(reg, sets, mv)) if isinstance(mv, MRef) else outcome(mv)
        if first_answer.setdefault(tuple(path), ans) != ans: answers_history_dependent += 1
        x = src
        for k in path: x = x[k]
        # model side: every stored entry for a values-position id is positional
        for oid, chain in reg.items():
            if oid in pos:
                checked += 1
                if tuple(chain) != pos[oid]: bad += 1
        # implementation side: the context of the object just reached has as many scopes as the positional chain
        ctx = get_resolution_context(x)
        n_impl = len(ctx.scopes) if ctx is not None else 0
        if n_impl != len(pos[mv.id]): bad += 1
print({'registry entries checked': checked, 'violations': bad, 'answers that changed with history': answers_history_dependent})

"""Pilot for C11: which binding does `set_value` rewrite when the addressed binding's value is a reference?
Documents: let <bindings> in { <bindings> } (plain or rec set). Model: assign-through via the resolver core
(chain = let layer [+ the set itself when rec]), then the let_bindings fallback, then a sibling, then overwrite."""
import sys, random, re, collections, os, json
from common import write_shards
from nix_manipulator import parse
from nix_manipulator.cli.manipulations import set_value
R = random.Random(int(sys.argv[1])); N = int(sys.argv[2]); outdir, prefix = sys.argv[3], sys.argv[4]
NAMES = ['a', 'b', 'c', 'd']
def gen_scope(k):
    names = R.sample(NAMES, k); out = []
    for n in names:
        out.append((n, R.choice(NAMES + ['e']) if R.random() < 0.55 else str(R.randrange(10, 99))))
    return out
def show(let, rec, body):
    s = ''
    if let: s += 'let ' + ' '.join('%s = %s;' % b for b in let) + ' in '
    return s + ('rec ' if rec else '') + '{ ' + ' '.join('%s = %s;' % b for b in body) + ' }\n'
def is_id(v): return not v.isdigit()
def resolve(name, rchain, vis):
    # rchain: innermost first; each scope: list of (scope_tag, index, name, value)
    for si, sc in enumerate(rchain):
        for ent in sc:
            if ent[2] == name:
                if (ent[0], ent[1]) in vis: return ('cyc',)
                vis = vis | {(ent[0], ent[1])}
                if is_id(ent[3]): return resolve(ent[3], rchain[si:], vis)
                return ('found', ent[0], ent[1])
    return ('unbound',)
def model(let, rec, body, key):
    idx = next(i for i, b in enumerate(body) if b[0] == key); v = body[idx][1]
    if not is_id(v): KIND.append('plain'); return ('body', idx)
    letsc = [('let', i, n, val) for i, (n, val) in enumerate(let)]
    bodysc = [('body', i, n, val) for i, (n, val) in enumerate(body)]
    chain = ([bodysc] if rec else []) + ([letsc] if let else [])      # innermost first
    if chain:
        r = resolve(v, chain, frozenset())
        if r[0] == 'found': KIND.append('resolver'); return (r[1], r[2])
        KIND.append('resolver-' + r[0])
    for i, (n, val) in enumerate(let):
        if n == v: KIND.append('let-fallback'); return ('let', i)
    for i, (n, val) in enumerate(body):
        if n == v: KIND.append('sibling-fallback'); return ('body', i)
    KIND.append('overwrite'); return ('body', idx)
def changed(let, rec, body, out):
    out = ' '.join(out.split()) + '\n'
    m = re.fullmatch(r'(?:let (.*?) in )?(rec )?\{ (.*) \}\n', out, re.S)
    if not m: return None
    def bl(t): return [tuple(x.strip().split(' = ')) for x in t.split(';') if x.strip()] if t else []
    nl, nb = bl(m.group(1)), bl(m.group(3))
    if [n for n, _ in nl] != [n for n, _ in let] or [n for n, _ in nb] != [n for n, _ in body]: return None
    ch = [('let', i) for i, (a, b) in enumerate(zip(let, nl)) if a[1] != b[1]] + [('body', i) for i, (a, b) in enumerate(zip(body, nb)) if a[1] != b[1]]
    return ch

def q(t): return '(s "%s")' % t
def val(v): return 'VId %s' % q(v) if is_id(v) else 'VOther %s' % v
def scope(sc, base): return '[' + '; '.join('EBind %d %s (%s)' % (base + i, q(n), val(v)) for i, (n, v) in enumerate(sc)) + ']'
KIND = []
cases = []; dist = collections.Counter()
while len(cases) < N:
    let = gen_scope(R.randrange(0, 4)); rec = R.random() < 0.4; body = gen_scope(R.randrange(1, 4))
    key = R.choice([n for n, _ in body]); text = show(let, rec, body)
    try: out = set_value(parse(text), key, '777')
    except Exception: continue
    ch = changed(let, rec, body, out)
    if ch is None or len(ch) != 1: continue
    kind, i = ch[0]; exp = (100 + i) if kind == 'let' else (200 + i)
    idx = next(j for j, b in enumerate(body) if b[0] == key)
    dist['direct' if exp == 200 + idx else 'elsewhere'] += 1
    cases.append('(%s, %s, %s, %d, %s, %d)' % (scope(let, 100), scope(body, 200), 'true' if rec else 'false', 200 + idx, val(body[idx][1]), exp))
HDR = 'From Coq Require Import List Ascii String Arith Bool. Import ListNotations.\nFrom R Require Import ResolveCore AssignThrough.\nOpen Scope string_scope.\nDefinition s (x : string) : str := list_ascii_of_string x.\n'
OK = "Definition ok (c : list entry * list entry * bool * nat * value * nat) : bool := match c with (l, b, r, self, v, e) => Nat.eqb (assign_target l b r self v) e end.\n"
write_shards(outdir, prefix, HDR, 'list entry * list entry * bool * nat * value * nat', OK, cases, 8)
json.dump({'stats': {'rewritten': dict(dist), 'model_paths': dict(collections.Counter(KIND))}, 'keys': sorted(set(KIND)), 'distinct_count': len(set(cases)),
           'rule': 'documents let <bindings> in [rec] { <bindings> } with reference chains, shadowing, cycles and dangling names; set KEY 777 on a key whose value may be a reference; which binding changed in the output is compared with assign_target',
           'samples': [cases[0][:300]]}, open(os.path.join(outdir, prefix + '_summary.json'), 'w'))
print(len(cases))

"""Seeded render search (labelled test): property oracles of C01/C02/C03/C06/C18 on generated documents inside the
believed-good domain — F0 documents with every gap rewritten arbitrarily, and canonical package-idiom files (lambda
heads, let, call, inherit, with/if values, indented strings).   usage: render_search.py PROP SEED N"""
import json, random, sys, os
sys.path.insert(0, os.path.join(os.path.dirname(os.path.abspath(__file__)), '..', 'suites'))
from render_oracles import *
from gen_docs import DocGen2, PkgGen, perturb
from nix_manipulator import parse
from nix_manipulator.parser import parse_to_ast
prop, seed, N = sys.argv[1], int(sys.argv[2]), int(sys.argv[3])
R = random.Random(seed * 101 + sum(map(ord, prop))); G0 = DocGen2(R); GP = PkgGen(R)
import re
viol, dist, samples, seen, known = [], {}, [], set(), {}
def rebuild(t): return parse(t).rebuild()
for i in range(N):
    k = R.random()
    if k < 0.5: d = G0.doc(); p = perturb(R, d, parse_to_ast) if (prop != 'C02' and R.random() < 0.8) else d; kind = 'F0-perturbed' if p != d else 'F0-canonical'
    else: d = GP.doc(); p = d; kind = 'package-canonical'
    if parse_to_ast(p).has_error or p in seen: continue
    seen.add(p)
    if prop == 'C02' and (kind == 'F0-perturbed' or "''\n" in p): continue      # an indented string inside an inline container is not canonical layout
    if prop == 'C02' and re.search(r'(?<![\w."])0\d', p): known['F-33'] = known.get('F-33', 0) + 1; continue      # listed: zero-padded integers are respelled
    dist[kind] = dist.get(kind, 0) + 1
    try: r = rebuild(p)
    except Exception as e:
        viol.append({'what': 'parse/rebuild raises %s on valid input' % type(e).__name__, 'input': p}); continue
    v = judge(prop, p, r, rebuild)
    if v: viol.append({'what': v, 'input': p, 'output': r, 'kind': kind})
    if len(samples) < 2: samples.append({'kind': kind, 'input': p[:400]})
print(json.dumps({'evaluations': sum(dist.values()), 'distinct': len(seen), 'distribution': dist, 'violations': viol[:5], 'n_violations': len(viol), 'samples': samples, 'known_hits': known}))

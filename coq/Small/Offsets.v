(* Design spike for section 3.1 (offsets versus gaps, finding F-01): reading a gap by absolute byte offsets gives
   the gap of the tiling exactly when the buffer the offsets index starts at offset 0 of the text they were
   computed for; with a buffer that starts [d] bytes later (root.text when the file begins with whitespace) every
   read is shifted by [d]. *)
From Coq Require Import List Ascii Arith Lia.
Import ListNotations.
Notation str := (list ascii).

Definition slice (buf : str) (a b : nat) : str := firstn (b - a) (skipn a buf).
(* a flat tiling: tokens with the gap before each, and a final gap *)
Fixpoint text (items : list (str * str)) (tail : str) : str :=
  match items with [] => tail | (g, t) :: r => g ++ t ++ text r tail end.
(* absolute (start, end) of every token, as tree-sitter reports them *)
Fixpoint spans (base : nat) (items : list (str * str)) : list (nat * nat) :=
  match items with
  | [] => []
  | (g, t) :: r => let s := base + length g in (s, s + length t) :: spans (s + length t) r
  end.

Lemma slice_app_mid (pre mid post : str) : slice (pre ++ mid ++ post) (length pre) (length pre + length mid) = mid.
Proof.
  unfold slice. rewrite skipn_app, skipn_all, Nat.sub_diag. cbn [app skipn].
  replace (length pre + length mid - length pre) with (length mid) by lia.
  rewrite firstn_app, firstn_all, Nat.sub_diag. cbn [firstn]. apply app_nil_r.
Qed.

(* the gap before token k+1 is what lies between end(k) and start(k+1) — in the buffer the spans were computed for *)
Theorem gap_by_offsets : forall pre items tail g t e,
  let buf := pre ++ text ((g, t) :: items) tail in
  e = length pre ->
  match spans e ((g, t) :: items) with
  | (s1, _) :: _ => slice buf e s1 = g
  | [] => False end.
Proof.
  intros pre items tail g t e buf He. cbn [spans]. subst e buf. cbn [text].
  replace (pre ++ g ++ t ++ text items tail) with (pre ++ g ++ (t ++ text items tail)) by reflexivity.
  apply slice_app_mid.
Qed.

Lemma skipn_skipn' {A} (x y : nat) (l : list A) : skipn x (skipn y l) = skipn (x + y) l.
Proof.
  revert l. induction y as [|y IH]; intros l; [now rewrite Nat.add_0_r|]. destruct l as [|a l]; [now rewrite !skipn_nil|].
  rewrite Nat.add_succ_r. cbn [skipn]. apply IH.
Qed.
(* F-01: the same offsets read from a buffer that starts d bytes into the text *)
Lemma slice_shift buf d a b : a <= b -> slice (skipn d buf) a b = slice buf (a + d) (b + d).
Proof.
  intros H. unfold slice. rewrite skipn_skipn'. replace (b + d - (a + d)) with (b - a) by lia. reflexivity.
Qed.

Definition sp : ascii := " "%char.
Definition LF : ascii := ascii_of_nat 10.
Definition ch (n : nat) : ascii := ascii_of_nat n.
(* "\n{ a = 1; }": root.start_byte = 1, root.text starts at "{" *)
Example F01_witness :
  let full := [LF; ch 123; sp; ch 97; sp; ch 61; sp; ch 49; ch 59; sp; ch 125] in
  let root_text := skipn 1 full in
  (* token "a" spans [3,4), "=" spans [5,6): the gap between them is one space ... *)
  slice full 4 5 = [sp] /\
  (* ... but read from root.text with the same absolute offsets it is "=" *)
  slice root_text 4 5 = [ch 61].
Proof. split; reflexivity. Qed.
Print Assumptions gap_by_offsets.

"""Fail-closed translator: the whitespace-gap helpers of expressions/trivia.py -> Gallina (Dyn/GapGen.v), over the primitives of
coq/F0/GapLib.v.  Translated: _EMPTY_LINE_RE, _GAP_WHITESPACE_BYTES, gap_has_empty_line, indent_from_gap, Layout.from_gap,
layout_from_gap, separator_from_layout, separator_from_layout_with_comments, append_gap_trivia (text helpers, ints are nat) and the
byte-offset twins _gap_has_empty_line_offsets and the body of _gap_line_info_from_offsets after its span lookup (ints are Z, loops
become fuelled Fixpoints whose out-of-fuel result None is excluded by the theorems of Dyn/GapGenProps.v).

Statements are translated with the rest of the block duplicated into both arms of every `if` (always sound; these functions are
short).  `if X is None` on an optional becomes a match that rebinds X.  Anything outside the small vocabulary below raises
Untranslatable, which leaves a marker and no definition.      usage: gap2v.py REPO"""
import ast, sys, sre_parse, sre_constants as SC
class Untranslatable(Exception): pass
def U(msg, node=None): raise Untranslatable(msg + (': ' + ast.unparse(node)[:70] if node is not None else ''))

def ch(c): return '(c %d)' % (c if isinstance(c, int) else ord(c))
def strlit(s): return '[' + '; '.join(ch(x) for x in s) + ']' if s else '[]'
def safe(x): return x + '_' if x in ('end', 'in', 'at', 'as', 'fix', 'fun', 'let', 'match', 'with', 'return', 'then', 'else', 'if', 'forall', 'Type', 'Prop', 'Set') else x
def one_char(e):
    if isinstance(e, ast.Constant) and isinstance(e.value, (str, bytes)) and len(e.value) == 1: return ch(e.value[0])
    return None

COQTY = {'str': 'str', 'bytes': 'str', 'nat': 'nat', 'Z': 'Z', 'bool': 'bool', 'optnat': 'option nat', 'optZ': 'option Z', 'layout': 'Layout', 'trivia': 'list triv'}

class Tr:
    def __init__(self, mode, consts, funcs, regexes):
        self.mode = mode            # 'nat' | 'Z': the type of Python ints in this function
        self.consts, self.funcs, self.regexes = consts, funcs, regexes
        self.loops = []             # generated loop Fixpoints (text), innermost first
        self.fname = None; self.nloop = 0; self.has_loop = False
    def num(self, n): return '%d%%Z' % n if self.mode == 'Z' else '%d' % n
    # ---------- expressions: return (text, type) ----------
    def ex(self, e, env):
        if isinstance(e, ast.Name):
            if e.id in env: return env[e.id][0], env[e.id][1]
            if e.id in self.consts: return e.id, self.consts[e.id]
            U('unknown name', e)
        if isinstance(e, ast.Constant):
            v = e.value
            if v is None: return 'None', 'none'
            if isinstance(v, bool): return ('true' if v else 'false'), 'bool'
            if isinstance(v, int): return '(%s)' % self.num(v), self.mode
            if isinstance(v, str): return strlit(v), 'str'
            U('constant', e)
        if isinstance(e, ast.UnaryOp) and isinstance(e.op, ast.USub) and isinstance(e.operand, ast.Constant) and isinstance(e.operand.value, int) and self.mode == 'Z':
            return '(-%d)%%Z' % e.operand.value, 'Z'
        if isinstance(e, ast.UnaryOp) and isinstance(e.op, ast.Not): return '(negb %s)' % self.cond(e.operand, env), 'bool'
        if isinstance(e, ast.BoolOp):
            op = ' && ' if isinstance(e.op, ast.And) else ' || '
            return '(' + op.join(self.cond(v, env) for v in e.values) + ')', 'bool'
        if isinstance(e, ast.Attribute) and isinstance(e.value, ast.Name) and env.get(e.value.id, (None, None))[1] == 'layout':
            proj = {'on_newline': ('on_newline', 'bool'), 'blank_line': ('blank_line', 'bool'), 'indent': ('indent_', 'optnat')}.get(e.attr)
            if proj is None: U('Layout field', e)
            key = ast.dump(e)
            if key in env.get('#narrow', {}): return env['#narrow'][key], 'nat'
            return '(%s %s)' % (proj[0], env[e.value.id][0]), proj[1]
        if isinstance(e, ast.IfExp):
            t = e.test
            if isinstance(t, ast.Compare) and len(t.ops) == 1 and isinstance(t.ops[0], (ast.IsNot, ast.Is)) and isinstance(t.comparators[0], ast.Constant) and t.comparators[0].value is None:
                x, xt = self.ex(t.left, env)
                if xt not in ('optnat', 'optZ'): U('is None on a non-optional', t)
                base = xt[3:]; env2 = dict(env); nar = dict(env.get('#narrow', {})); nar[ast.dump(t.left)] = 'v__'; env2['#narrow'] = nar
                if isinstance(t.left, ast.Name): env2[t.left.id] = ('v__', base)
                some, none = (e.body, e.orelse) if isinstance(t.ops[0], ast.IsNot) else (e.orelse, e.body)
                a, ta = self.ex(some, env2); b, tb = self.ex(none, env)
                if ta != tb: U('conditional arms of different types', e)
                return '(match %s with Some v__ => %s | None => %s end)' % (x, a, b), ta
            a, ta = self.ex(e.body, env); b, tb = self.ex(e.orelse, env)
            if ta != tb: U('conditional arms of different types', e)
            return '(if %s then %s else %s)' % (self.cond(t, env), a, b), ta
        if isinstance(e, ast.Compare) and len(e.ops) == 1:
            l, r, op = e.left, e.comparators[0], e.ops[0]
            if isinstance(op, (ast.In, ast.NotIn)):
                x = one_char(l)
                if x is not None:
                    s, ts = self.ex(r, env)
                    if ts != 'str': U('`in` on a non-string', e)
                    t = '(py_in %s %s)' % (x, s)
                    return (t if isinstance(op, ast.In) else '(negb %s)' % t), 'bool'
                a, ta = self.ex(l, env)
                if ta == 'byte' and isinstance(r, ast.Name) and self.consts.get(r.id) == 'bytelist' and isinstance(op, ast.In): return '(nat_in %s %s)' % (a, r.id), 'bool'
                U('membership', e)
            if isinstance(op, (ast.Is, ast.IsNot)) and isinstance(r, ast.Constant) and r.value is None:
                if isinstance(l, ast.Call) and isinstance(l.func, ast.Attribute) and l.func.attr == 'search' and isinstance(l.func.value, ast.Name) and l.func.value.id in self.regexes and len(l.args) == 1 and not l.keywords:
                    s, ts = self.ex(l.args[0], env)
                    if ts != 'str': U('search on a non-string', e)
                    t = '(%s_search %s)' % (l.func.value.id, s)
                    return (t if isinstance(op, ast.IsNot) else '(negb %s)' % t), 'bool'
                x, xt = self.ex(l, env)
                if xt not in ('optnat', 'optZ'): U('is None on a non-optional', e)
                t = '(match %s with Some _ => false | None => true end)' % x
                return (t if isinstance(op, ast.Is) else '(negb %s)' % t), 'bool'
            a, ta = self.ex(l, env); b, tb = self.ex(r, env)
            if ta == 'byte' and tb in ('nat', 'Z') and isinstance(r, ast.Constant): b, tb = '%d' % r.value, 'byte'
            if ta != tb or ta not in ('nat', 'Z', 'byte'): U('comparison of %s and %s' % (ta, tb), e)
            ns = 'Z' if ta == 'Z' else 'Nat'
            if isinstance(op, ast.Lt): return '(%s.ltb %s %s)' % (ns, a, b), 'bool'
            if isinstance(op, ast.Eq): return '(%s.eqb %s %s)' % (ns, a, b), 'bool'
            if isinstance(op, ast.NotEq): return '(negb (%s.eqb %s %s))' % (ns, a, b), 'bool'
            U('comparison operator', e)
        if isinstance(e, ast.Subscript):
            # x.rsplit("\n", 1)[-1]
            v = e.value
            if isinstance(e.slice, ast.UnaryOp) and ast.unparse(e.slice) == '-1' and isinstance(v, ast.Call) and isinstance(v.func, ast.Attribute) and v.func.attr == 'rsplit' \
               and len(v.args) == 2 and not v.keywords and one_char(v.args[0]) and isinstance(v.args[1], ast.Constant) and v.args[1].value == 1:
                s, ts = self.ex(v.func.value, env)
                if ts != 'str': U('rsplit on a non-string', e)
                return '(py_rsplit1_last %s %s)' % (one_char(v.args[0]), s), 'str'
            s, ts = self.ex(v, env)
            if ts == 'bytes' and self.mode == 'Z':
                i, ti = self.ex(e.slice, env)
                if ti != 'Z': U('index type', e)
                return '(byte_at %s %s)' % (s, i), 'byte'
            U('subscript', e)
        if isinstance(e, ast.BinOp):
            if isinstance(e.op, ast.Mult) and one_char(e.left):
                n, tn = self.ex(e.right, env)
                if tn != 'nat': U('repetition count must be a proven int (guard it with a truthiness or `is not None` test)', e)
                return '(py_times %s %s)' % (one_char(e.left), n), 'str'
            a, ta = self.ex(e.left, env); b, tb = self.ex(e.right, env)
            if ta != tb: U('operand types %s %s' % (ta, tb), e)
            if isinstance(e.op, ast.Add) and ta == 'str': return '(%s ++ %s)' % (a, b), 'str'
            if isinstance(e.op, ast.Add) and ta in ('nat', 'Z'): return '(%s + %s)%s' % (a, b, '%Z' if ta == 'Z' else ''), ta
            if isinstance(e.op, ast.Sub) and ta == 'Z': return '(%s - %s)%%Z' % (a, b), 'Z'
            U('binary operator', e)
        if isinstance(e, ast.Tuple):
            parts = [self.ex(x, env) for x in e.elts]
            return '(' + ', '.join(p[0] for p in parts) + ')', 'tuple:' + ','.join(p[1] for p in parts)
        if isinstance(e, ast.Call):
            f = e.func
            if isinstance(f, ast.Name) and f.id == 'len' and len(e.args) == 1 and not e.keywords and self.mode == 'nat':
                s, ts = self.ex(e.args[0], env)
                if ts != 'str': U('len of a non-string', e)
                return '(List.length %s)' % s, 'nat'
            if isinstance(f, ast.Name) and f.id in ('cls', 'Layout') and not e.args:
                kw = {k.arg: k.value for k in e.keywords}
                if set(kw) != {'on_newline', 'blank_line', 'indent'}: U('Layout constructor fields', e)
                a, ta = self.ex(kw['on_newline'], env); b, tb = self.ex(kw['blank_line'], env); c_, tc = self.ex(kw['indent'], env)
                if ta != 'bool' or tb != 'bool': U('Layout constructor field types', e)
                if tc == 'nat': c_ = '(Some %s)' % c_
                elif tc not in ('none', 'optnat'): U('Layout indent type', e)
                return '(mkLayout %s %s %s)' % (a, b, c_), 'layout'
            if isinstance(f, ast.Name) and f.id in self.funcs:
                sig = self.funcs[f.id]
                if e.keywords or len(e.args) != len(sig['args']): U('call shape', e)
                out = []
                for a, want in zip(e.args, sig['args']):
                    t, ty = self.ex(a, env)
                    if ty != want: U('argument type %s, expected %s' % (ty, want), e)
                    out.append(t)
                return '(%s %s)' % (sig.get('coq', f.id), ' '.join(out)), sig['ret']
            if isinstance(f, ast.Attribute) and isinstance(f.value, ast.Name) and f.value.id == 'Layout' and f.attr == 'from_gap' and len(e.args) == 1 and 'from_gap' in self.funcs:
                t, ty = self.ex(e.args[0], env)
                if ty != 'str': U('argument type', e)
                return '(from_gap %s)' % t, 'layout'
            if isinstance(f, ast.Attribute) and not e.keywords:
                s, ts = self.ex(f.value, env)
                if f.attr == 'count' and ts == 'str' and len(e.args) == 1 and one_char(e.args[0]) and self.mode == 'nat': return '(py_count %s %s)' % (one_char(e.args[0]), s), 'nat'
                if f.attr in ('find', 'rfind', 'count') and ts == 'bytes' and len(e.args) == 3 and one_char(e.args[0]) and self.mode == 'Z':
                    a, ta = self.ex(e.args[1], env); b, tb = self.ex(e.args[2], env)
                    if ta != 'Z' or tb != 'Z': U('offset types', e)
                    return '(%s %s %s %s %s)' % ({'find': 'py_find', 'rfind': 'py_rfind', 'count': 'py_count_range'}[f.attr], one_char(e.args[0]), s, a, b), 'Z'
                if f.attr == 'endswith' and ts == 'str' and len(e.args) == 1:
                    if one_char(e.args[0]): return '(py_endswith1 %s %s)' % (one_char(e.args[0]), s), 'bool'
                    if isinstance(e.args[0], ast.Tuple) and e.args[0].elts and all(one_char(x) for x in e.args[0].elts):
                        return '(' + ' || '.join('py_endswith1 %s %s' % (one_char(x), s) for x in e.args[0].elts) + ')', 'bool'
            U('call', e)
        U('expression', e)
    def cond(self, e, env):
        """a condition: Python truthiness of bool / int / optional int / str"""
        t, ty = self.ex(e, env)
        if ty == 'bool': return t
        if ty == 'nat': return '(py_truthy %s)' % t
        if ty == 'optnat': return '(opt_truthy %s)' % t
        if ty == 'str': return '(negb (match %s with [] => true | _ => false end))' % t
        U('truthiness of %s' % ty, e)
    def narrow_truthy(self, test, env):
        """inside `if … and X.indent:` an optional int that was tested for truthiness is an int: (opt0 X) stands for it"""
        env2 = dict(env); nar = dict(env.get('#narrow', {}))
        for v in (test.values if isinstance(test, ast.BoolOp) and isinstance(test.op, ast.And) else [test]):
            try: t, ty = self.ex(v, env)
            except Untranslatable: continue
            if ty == 'optnat': nar[ast.dump(v)] = '(opt0 %s)' % t
        env2['#narrow'] = nar
        return env2
    # ---------- statements ----------
    def block(self, stmts, env, ret, fall):
        """ret(text, type) wraps a returned value; fall(env) gives the text for running off the end of the block"""
        if not stmts: return fall(env)
        s, rest = stmts[0], stmts[1:]
        if isinstance(s, ast.Expr) and isinstance(s.value, ast.Constant) and isinstance(s.value.value, str): return self.block(rest, env, ret, fall)
        if isinstance(s, ast.Return):
            if s.value is None: U('bare return', s)
            if self.ret_py.startswith('tuple:') and isinstance(s.value, ast.Tuple):
                want = self.ret_py[6:].split(',')
                if len(want) != len(s.value.elts): U('tuple arity', s)
                parts = []
                for el, w in zip(s.value.elts, want):
                    t, ty = self.ex(el, env)
                    if ty == w: parts.append(t)
                    elif w.startswith('opt') and ty == 'none': parts.append('None')
                    elif w.startswith('opt') and ty == w[3:]: parts.append('(Some %s)' % t)
                    else: U('tuple component of type %s, expected %s' % (ty, w), s)
                return ret('(' + ', '.join(parts) + ')', self.ret_py)
            return ret(*self.ex(s.value, env))
        if isinstance(s, ast.Assign) and len(s.targets) == 1 and isinstance(s.targets[0], ast.Name):
            x = s.targets[0].id; t, ty = self.ex(s.value, env)
            if ty.startswith('tuple') or ty == 'none': U('assignment of %s' % ty, s)
            env2 = dict(env); env2[x] = (safe(x), ty)
            return 'let %s := %s in\n%s' % (safe(x), t, self.block(rest, env2, ret, fall))
        if isinstance(s, ast.Assign) and len(s.targets) == 1 and isinstance(s.targets[0], ast.Tuple) and all(isinstance(x, ast.Name) for x in s.targets[0].elts) \
           and isinstance(s.value, ast.Name) and env.get(s.value.id, (None, ''))[1].startswith('tuple:'):
            tys = env[s.value.id][1][6:].split(','); names = [x.id for x in s.targets[0].elts]
            if len(tys) != len(names): U('tuple arity', s)
            env2 = dict(env)
            for n, ty in zip(names, tys): env2[n] = (safe(n), ty)
            return "let '(%s) := %s in\n%s" % (', '.join(safe(n) for n in names), env[s.value.id][0], self.block(rest, env2, ret, fall))
        if isinstance(s, ast.AugAssign) and isinstance(s.target, ast.Name) and isinstance(s.op, ast.Add):
            x = s.target.id
            if x not in env: U('augmented assignment to an unknown name', s)
            t, ty = self.ex(ast.BinOp(left=ast.Name(id=x, ctx=ast.Load()), op=ast.Add(), right=s.value), env)
            env2 = dict(env); env2[x] = (safe(x), ty)
            return 'let %s := %s in\n%s' % (safe(x), t, self.block(rest, env2, ret, fall))
        if isinstance(s, ast.Expr) and isinstance(s.value, ast.Call) and isinstance(s.value.func, ast.Attribute) and s.value.func.attr == 'append' \
           and isinstance(s.value.func.value, ast.Name) and env.get(s.value.func.value.id, (None, None))[1] == 'trivia' and len(s.value.args) == 1 \
           and isinstance(s.value.args[0], ast.Name) and s.value.args[0].id in ('empty_line', 'linebreak'):
            x = s.value.func.value.id; item = {'empty_line': 'EmptyLine', 'linebreak': 'Linebreak'}[s.value.args[0].id]
            return 'let %s := %s ++ [%s] in\n%s' % (safe(x), env[x][0], item, self.block(rest, env, ret, fall))
        if isinstance(s, ast.If):
            t = s.test
            if isinstance(t, ast.Compare) and len(t.ops) == 1 and isinstance(t.ops[0], (ast.Is, ast.IsNot)) and isinstance(t.comparators[0], ast.Constant) and t.comparators[0].value is None \
               and isinstance(t.left, ast.Name) and env.get(t.left.id, (None, ''))[1] in ('optnat', 'optZ'):
                x = t.left.id; base = env[x][1][3:]; envs = dict(env); envs[x] = (safe(x), base)
                none_b, some_b = (s.body, s.orelse) if isinstance(t.ops[0], ast.Is) else (s.orelse, s.body)
                return '(match %s with\n | None => %s\n | Some %s => %s\n end)' % (env[x][0], self.block(list(none_b) + rest, env, ret, fall), safe(x), self.block(list(some_b) + rest, envs, ret, fall))
            c_ = self.cond(t, env)
            return '(if %s\n then %s\n else %s)' % (c_, self.block(list(s.body) + rest, self.narrow_truthy(t, env), ret, fall), self.block(list(s.orelse) + rest, env, ret, fall))
        if isinstance(s, ast.While) and not s.orelse and self.mode == 'Z':
            return self.loop(s, rest, env, ret, fall)
        U('statement', s)
    def loop(self, s, rest, env, ret, fall):
        self.has_loop = True
        assigned = []
        for n in ast.walk(ast.Module(body=s.body, type_ignores=[])):
            if isinstance(n, (ast.Assign, ast.AugAssign)):
                for tg in (n.targets if isinstance(n, ast.Assign) else [n.target]):
                    if isinstance(tg, ast.Name) and tg.id not in assigned: assigned.append(tg.id)
                    elif not isinstance(tg, ast.Name): U('loop assignment target', n)
        state = [x for x in assigned if x in env]
        if not state: U('loop without state', s)
        used = {n.id for n in ast.walk(s) if isinstance(n, ast.Name)}
        free = [x for x in env if not x.startswith('#') and x in used and x not in state]
        self.nloop += 1; name = '%s_loop%d' % (self.fname, self.nloop)
        sty = ' * '.join(COQTY[env[x][1]] for x in state); spat = ', '.join(safe(x) for x in state)
        rty = self.ret_ty
        lenv = {x: (safe(x), env[x][1]) for x in free + state}
        call = lambda e2, fuel: '%s %s %s %s' % (name, fuel, ' '.join(e2[x][0] for x in free), ' '.join('%s' % e2[x][0] for x in state))
        body = self.block(list(s.body), lenv, lambda t, ty: self.check_ret(ty) or 'Some (Ret %s)' % t, lambda e2: call(e2, "fuel'"))
        test = self.cond(s.test, lenv)
        sig = ' '.join('(%s : %s)' % (safe(x), COQTY[env[x][1]]) for x in free + state)
        text = ('Fixpoint %s (fuel : nat) %s {struct fuel} : option (flow %s (%s)) :=\n  match fuel with O => None | S fuel\' =>\n  if %s then\n%s\n  else Some (Fall (%s)) end.\n'
                % (name, sig, rty, sty, test, body, spat))
        key = text.replace(name, '@')
        if key in self.loopkeys:                 # the same loop reached through both arms of an earlier `if`: one definition
            name = self.loopkeys[key]
        else:
            self.loopkeys[key] = name; self.loops.append(text)
        env2 = dict(env)
        for x in state: env2[x] = (safe(x), env[x][1])
        after = self.block(rest, env2, ret, fall)
        bytesvar = next(x for x in env if env[x][1] == 'bytes')
        return "(match %s with\n | None => None\n | Some (Ret r__) => %s\n | Some (Fall (%s)) => %s\n end)" % (call(env, '(S (List.length %s))' % env[bytesvar][0]), ret('r__', self.ret_py), spat, after)
    def check_ret(self, ty):
        if ty != self.ret_py: U('return type %s, expected %s' % (ty, self.ret_py))
        return None
    def function(self, fn, name, params, ret_py, ret_ty, coq_name=None, drop_prefix=0, pre_env=None):
        self.fname = coq_name or name; self.ret_py, self.ret_ty = ret_py, ret_ty; self.loops = []; self.nloop = 0; self.has_loop = False; self.loopkeys = {}
        got = [a.arg for a in fn.args.args] + [a.arg for a in fn.args.kwonlyargs]
        if not pre_env and got != list(params): U('signature of %s: %s' % (name, got))
        env = {p: (safe(p), t) for p, t in (pre_env or params).items()}
        body = list(fn.body)[drop_prefix:]
        # a body with loops returns option (None = out of fuel)
        wrap_some = any(isinstance(n, ast.While) for n in ast.walk(ast.Module(body=body, type_ignores=[])))
        def ret(t, ty):
            self.check_ret(ty)
            return ('Some %s' % t) if wrap_some else t
        text = self.block(body, env, ret, lambda e2: U('%s can fall off its end' % name))
        sig = ' '.join('(%s : %s)' % (safe(p), COQTY[t]) for p, t in (pre_env or params).items())
        return ''.join(self.loops) + 'Definition %s %s : %s :=\n%s.\n' % (self.fname, sig, ('option (%s)' % ret_ty) if wrap_some else ret_ty, text)

def find_fn(tree, name, cls=None):
    scope = tree
    if cls:
        scope = next((n for n in tree.body if isinstance(n, ast.ClassDef) and n.name == cls), None)
        if scope is None: U('class %s not found' % cls)
    f = next((n for n in scope.body if isinstance(n, ast.FunctionDef) and n.name == name), None)
    if f is None: U('function %s not found' % name)
    return f

def gen_regex(tree, name):
    for n in tree.body:
        if isinstance(n, ast.Assign) and getattr(n.targets[0], 'id', None) == name:
            v = n.value
            if not (isinstance(v, ast.Call) and ast.unparse(v.func) == 're.compile' and len(v.args) == 1 and not v.keywords and isinstance(v.args[0], ast.Constant)): U('%s is not re.compile(literal)' % name)
            p = list(sre_parse.parse(v.args[0].value))
            if len(p) != 3 or p[0][0] != SC.LITERAL or p[2][0] != SC.LITERAL or p[1][0] != SC.MAX_REPEAT: U('pattern shape %r' % v.args[0].value)
            lo, hi, sub = p[1][1]
            if lo != 0 or hi != SC.MAXREPEAT or len(sub) != 1 or sub[0][0] != SC.IN or not all(k == SC.LITERAL for k, _ in sub[0][1]): U('pattern class %r' % v.args[0].value)
            cls = ' || '.join('(x =c %s)' % ch(cv) for _, cv in sub[0][1])
            return ('(* GENERATED from %s = re.compile(%r) *)\nDefinition %s_search (s : str) : bool := re_search_lcl %s (fun x => %s) %s s.\n'
                    % (name, v.args[0].value, name, ch(p[0][1]), cls, ch(p[2][1])))
    U('%s not found' % name)

def gen_bytes(tree, name):
    for n in tree.body:
        if isinstance(n, ast.Assign) and getattr(n.targets[0], 'id', None) == name:
            v = n.value
            if isinstance(v, (ast.Tuple, ast.List)) and all(isinstance(x, ast.Constant) and isinstance(x.value, int) and 0 <= x.value < 256 for x in v.elts):
                return 'Definition %s : list nat := [%s].\n' % (name, '; '.join(str(x.value) for x in v.elts))
            U('%s is not a literal tuple of byte values' % name)
    U('%s not found' % name)

def guarded(label, thunk):
    try: return thunk()
    except Untranslatable as e: return '(* UNTRANSLATABLE: %s: %s *)\n' % (label, str(e).replace('*)', '* )'))
    except Exception as e: return '(* UNTRANSLATABLE: %s: %s %s *)\n' % (label, type(e).__name__, str(e).replace('*)', '* )')[:200])

def main(repo):
    tree = ast.parse(open(repo + '/nix_manipulator/expressions/trivia.py').read())
    out = ['From Coq Require Import List Ascii Bool Arith ZArith.\nImport ListNotations.\nFrom F0 Require Import F0s GapLib.\n']
    out.append(guarded('_EMPTY_LINE_RE', lambda: gen_regex(tree, '_EMPTY_LINE_RE')))
    out.append(guarded('_GAP_WHITESPACE_BYTES', lambda: gen_bytes(tree, '_GAP_WHITESPACE_BYTES')))
    consts = {'_GAP_WHITESPACE_BYTES': 'bytelist'}; regexes = {'_EMPTY_LINE_RE'}
    funcs = {}
    def text_fn(name, params, ret_py, ret_ty, cls=None, coq=None):
        def go():
            t = Tr('nat', consts, funcs, regexes)
            r = t.function(find_fn(tree, name, cls), name, params, ret_py, ret_ty, coq_name=coq)
            funcs[coq or name] = {'args': [v for v in params.values()], 'ret': ret_py}
            return '(* GENERATED from expressions/trivia.py:%s%s *)\n' % ((cls + '.') if cls else '', name) + r
        out.append(guarded(name, go))
    text_fn('gap_has_empty_line', {'gap': 'str'}, 'bool', 'bool')
    text_fn('indent_from_gap', {'gap': 'str'}, 'nat', 'nat', coq='indent_from_gap_gen')
    funcs['indent_from_gap'] = {'args': ['str'], 'ret': 'nat', 'coq': 'indent_from_gap_gen'}
    def from_gap():
        f = find_fn(tree, 'from_gap', 'Layout')
        if [a.arg for a in f.args.args] != ['cls', 'gap'] or not any(ast.unparse(d) == 'classmethod' for d in f.decorator_list): U('Layout.from_gap signature')
        t = Tr('nat', consts, funcs, regexes)
        r = t.function(f, 'from_gap', {'gap': 'str'}, 'layout', 'Layout', pre_env={'gap': 'str'})
        funcs['from_gap'] = {'args': ['str'], 'ret': 'layout'}
        return '(* GENERATED from expressions/trivia.py:Layout.from_gap *)\n' + r
    out.append(guarded('Layout.from_gap', from_gap))
    text_fn('layout_from_gap', {'gap': 'str'}, 'layout', 'Layout')
    text_fn('separator_from_layout', {'layout': 'layout', 'indent': 'nat', 'inline_sep': 'str'}, 'str', 'str')
    text_fn('separator_from_layout_with_comments', {'layout': 'layout', 'comment_str': 'str', 'inline_sep': 'str', 'include_indent': 'bool'}, 'str', 'str')
    def agt():
        # append_gap_trivia mutates its list argument: the translation returns the new list
        f = find_fn(tree, 'append_gap_trivia'); f2 = ast.parse(ast.unparse(f)).body[0]
        f2.body.append(ast.Return(value=ast.Name(id='trivia', ctx=ast.Load())))
        t = Tr('nat', consts, funcs, regexes)
        return '(* GENERATED from expressions/trivia.py:append_gap_trivia (the mutated list is returned) *)\n' + t.function(f2, 'append_gap_trivia', {'trivia': 'trivia', 'gap': 'str', 'include_linebreak': 'bool'}, 'trivia', 'list triv')
    out.append(guarded('append_gap_trivia', agt))
    def offs():
        t = Tr('Z', consts, {}, regexes)
        return '(* GENERATED from expressions/trivia.py:_gap_has_empty_line_offsets (ints are Z; None = out of fuel) *)\n' + \
            t.function(find_fn(tree, '_gap_has_empty_line_offsets'), '_gap_has_empty_line_offsets', {'source_bytes': 'bytes', 'start': 'Z', 'end': 'Z', 'first_newline': 'optZ'}, 'bool', 'bool')
    out.append(guarded('_gap_has_empty_line_offsets', offs))
    def info():
        # _gap_line_info_from_offsets: span = _gap_span(...); if span is None: return 0, None; source_bytes, start, end = span; <translated>
        f = find_fn(tree, '_gap_line_info_from_offsets')
        b = [s for s in f.body if not (isinstance(s, ast.Expr) and isinstance(s.value, ast.Constant))]
        if not (len(b) >= 4 and ast.unparse(b[0]) == 'span = _gap_span(parent, start_byte, end_byte)' and ast.unparse(b[1]) == 'if span is None:\n    return (0, None)'
                and ast.unparse(b[2]) == 'source_bytes, start, end = span'): U('_gap_line_info_from_offsets prologue')
        f2 = ast.parse(ast.unparse(f)).body[0]; f2.body = b[3:]
        t = Tr('Z', consts, {}, regexes)
        return '(* GENERATED from expressions/trivia.py:_gap_line_info_from_offsets, the part after the span lookup *)\n' + \
            t.function(f2, '_gap_line_info_from_offsets', None, 'tuple:Z,optZ', 'Z * option Z', coq_name='gap_line_info_offsets', pre_env={'source_bytes': 'bytes', 'start': 'Z', 'end': 'Z'})
    out.append(guarded('_gap_line_info_from_offsets', info))
    return '\n'.join(out)

if __name__ == '__main__':
    print(main(sys.argv[1]))

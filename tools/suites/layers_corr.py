"""C09 correspondence: documents with 0-3 let layers (adjacent duplicates included) directly around an attribute set
under a bare / lambda / parenthesised wrapper; sequences of scoped set/rm with 1-4 leading @.  After every operation
the let chain decoded from the emitted text by tree-sitter (or the error class) is compared inside Coq with
L.LayerModel.sset / srm; the body of the set must keep its text.   usage: layers_corr.py SEED N OUTDIR PREFIX"""
import json, os, random, sys
sys.path.insert(0, os.path.join(os.path.dirname(os.path.abspath(__file__)), '..', 'oracles'))
from common import write_shards
from edit_lib import gen_layers, let_text, read_layers, body_text, apply, LAYER_NAMES
from nix_manipulator import parse
seed, N, outdir, prefix = int(sys.argv[1]), int(sys.argv[2]), sys.argv[3], sys.argv[4]
R = random.Random(seed)
def q(s): return '(list_ascii_of_string "%s")' % s.replace('"', '""')
def coq_layers(ls): return '[' + '; '.join('[' + '; '.join('(%s, %s)' % (q(k), q(v)) for k, v in L.items()) + ']' for L in reversed(ls)) + ']'     # innermost first
rows, stats, samples, viol = [], {}, [], []
BODIES = ['{\n  x = 1;\n  y = [\n    1\n  ];\n}', '{\n  x = 1;\n  v = 0;\n  a = "body";\n}']
while len(rows) < N:
    body = R.choice(BODIES); body_keys = ('v', 'a') if 'v = 0' in body else ()
    shape = R.choice(['bare', 'lambda_formals', 'lambda_id', 'paren'])
    layers = gen_layers(R, R.randrange(0, 4)); inner = let_text(layers, body)
    text = {'bare': inner, 'lambda_formals': '{ pkgs }:\n' + inner, 'lambda_id': 'pkgs:\n' + inner, 'paren': '(' + inner + ')'}[shape] + '\n'
    src = parse(text); ops = []; plain = []; cur = layers
    for step in range(R.randint(1, 5)):
        d = R.choice([1, 1, 2, 2, 3, 4]); name = R.choice(LAYER_NAMES + ['z'])
        if d <= len(cur) and R.random() < 0.7: name = R.choice(sorted(cur[len(cur) - d]))
        if R.random() < 0.55: op = ('set', '@' * d + name, str(R.randrange(70, 80))); cop = 'OSet %d %s %s' % (d, q(name), q(op[2]))
        else: op = ('rm', '@' * d + name); cop = 'ORm %d %s' % (d, q(name))
        if not cur and d == 1 and op[0] == 'set' and name in body_keys: break           # listed finding F-37: without a let, @NAME of a body key edits the body
        res = apply(src, op); plain.append(list(op))
        key = '%s/%s/d%d/n%d/%s' % (shape, op[0], d, len(cur), res[0] if res[0] == 'ok' else res[1]); stats[key] = stats.get(key, 0) + 1
        if res[0] == 'ok':
            chain = read_layers(res[1])
            if chain is None: viol.append({'what': 'output of a scoped edit does not parse', 'doc': text, 'ops': plain, 'out': res[1]}); break
            if body_text(res[1]) != body: viol.append({'what': 'attribute set body changed by a scoped edit', 'doc': text, 'ops': plain, 'out': res[1]})
            ops.append('(%s, XOk %s)' % (cop, coq_layers(chain))); cur = chain
        else:
            ops.append('(%s, %s)' % (cop, 'XKey' if res[1] == 'KeyError' else 'XVal' if res[1] == 'ValueError' else 'XOther'))
    if not ops: continue
    rows.append('(%s, [%s])' % (coq_layers(layers), '; '.join(ops)))
    if len(samples) < 3: samples.append({'doc': text, 'ops': plain})
HDR = ('From Coq Require Import List Ascii String Bool Arith. Import ListNotations. Open Scope string_scope.\nFrom L Require Import LayerModel.\n'
       'Inductive xres := XOk (ls : list layer) | XKey | XVal | XOther.\n'
       'Definition layer_eqb (a b : layer) : bool := (fix go (a b : layer) : bool := match a, b with [], [] => true | (k, v) :: a\', (k2, v2) :: b\' => streq k k2 && streq v v2 && go a\' b\' | _, _ => false end) a b.\n'
       'Fixpoint layers_eqb (a b : list layer) : bool := match a, b with [], [] => true | x :: a\', y :: b\' => layer_eqb x y && layers_eqb a\' b\' | _, _ => false end.\n'
       'Fixpoint run (ls : list layer) (ops : list (sop * xres)) : bool :=\n  match ops with [] => true | (o, e) :: rest =>\n'
       '    match (match o with OSet d k v => sset ls d k v | ORm d k => srm ls d k end), e with\n'
       '    | Ok ls\', XOk want => layers_eqb ls\' want && run ls\' rest\n    | Err KeyErr, XKey => run ls rest\n    | Err ValErr, XVal => run ls rest\n    | _, _ => false end end.\n')
OK = 'Definition ok (c : list layer * list (sop * xres)) : bool := run (fst c) (snd c).\n'
write_shards(outdir, prefix, HDR, 'list layer * list (sop * xres)', OK, rows, 8)
json.dump({'stats': {'operations': sum(stats.values()), 'distribution': stats}, 'keys': sorted(stats), 'distinct_count': len(set(rows)),
           'rule': '0-3 let layers (30% adjacent duplicates) x wrapper shape x 1-5 scoped operations with depth 1-4, names mostly taken from the addressed layer',
           'samples': samples, 'violations': viol[:5], 'n_violations': len(viol)}, open(os.path.join(outdir, prefix + '_summary.json'), 'w'))
print(len(rows), len(viol))

"""helpers shared by the edit and mapping correspondences"""
from nix_manipulator.parser import parse_to_ast
def q(t): return '(s "%s")' % t.replace('"', '""')
def qs(l): return '[' + '; '.join(q(x) for x in l) + ']'
def idoc(node):
    items = []
    for c in node.children:
        if c.type != 'binding_set': continue
        for b in c.children:
            if b.type != 'binding': continue
            ap = b.child_by_field_name('attrpath'); val = b.child_by_field_name('expression')
            segs = [a.text.decode() for a in ap.children if a.type != '.']
            v = idoc(val) if val.type in ('attrset_expression', 'rec_attrset_expression') else 'IAtom %s' % q(' '.join(val.text.decode().split()))
            items.append('(%s, %s)' % (qs(segs), v))
    return '(ISet %s [%s])' % ('true' if b'\n' in node.text else 'false', '; '.join(items))
def impl_view(text):
    root = parse_to_ast(text); top = [c for c in root.children if c.type != 'comment'][0]
    def vs(node):
        out = []
        for c in node.children:
            if c.type != 'binding_set': continue
            for b in c.children:
                if b.type != 'binding': continue
                ap = b.child_by_field_name('attrpath'); val = b.child_by_field_name('expression')
                out.append((ap.text.decode(), vs(val) if val.type in ('attrset_expression', 'rec_attrset_expression') else ' '.join(val.text.decode().split())))
        return out
    return vs(top)
def tree(view):
    return 'TS [' + '; '.join('(%s, %s)' % (q(n), tree(v) if isinstance(v, list) else 'TA %s' % q(v)) for n, v in view) + ']'

(* C07: the syntax-error gate.  tree-sitter decides WHETHER a text has an error (trusted, observed by the suite);
   everything that follows from that decision is modelled here:
   parse: an erroneous text becomes ONE raw expression holding the whole input (parser.parse hands the full source to
   NixSourceCode.from_cst); rebuild of a raw document returns that text; set_value / remove_value resolve the edit
   target first and refuse a raw top-level expression before touching anything; a VALUE is accepted only when its own
   parse has no error and exactly one expression. *)
From Coq Require Import List Ascii Bool Arith.
Import ListNotations.
Notation str := (list ascii).

Inductive doc (T : Type) := Raw (text : str) | Tree (t : T).
Arguments Raw {T} text. Arguments Tree {T} t.
Inductive err := KeyErr | ValErr.
Inductive res (A : Type) := Ok (a : A) | Err (e : err).
Arguments Ok {A} a. Arguments Err {A} e.

Section Gate.
  Variable T : Type.
  Variable ts_has_error : str -> bool.            (* tree-sitter's verdict *)
  Variable read : str -> T.                       (* the error-free reader *)
  Variable print : T -> str.                      (* the printer *)
  Variable edit_set : T -> str -> T -> res T.     (* the library edit on an error-free document: path, value tree *)
  Variable edit_rm : T -> str -> res T.
  Variable value_count : str -> nat.              (* number of top-level expressions of a VALUE text *)

  Definition parse (src : str) : doc T := if ts_has_error src then Raw src else Tree (read src).
  Definition rebuild (d : doc T) : str := match d with Raw t => t | Tree t => print t end.
  Definition contains_error (d : doc T) : bool := match d with Raw _ => true | Tree _ => false end.
  Definition value_ok (v : str) : bool := negb (ts_has_error v) && (value_count v =? 1).
  (* returns the document after the call (also when it raises) and the result *)
  Definition set_value (d : doc T) (path v : str) : doc T * res str :=
    match d with
    | Raw _ => (d, Err ValErr)
    | Tree t => if value_ok v then match edit_set t path (read v) with Ok t' => (Tree t', Ok (print t')) | Err e => (d, Err e) end
                else (d, Err ValErr)
    end.
  Definition remove_value (d : doc T) (path : str) : doc T * res str :=
    match d with
    | Raw _ => (d, Err ValErr)
    | Tree t => match edit_rm t path with Ok t' => (Tree t', Ok (print t')) | Err e => (d, Err e) end
    end.

  Theorem passthrough src : ts_has_error src = true -> rebuild (parse src) = src /\ contains_error (parse src) = true.
  Proof. intros H. unfold parse. rewrite H. split; reflexivity. Qed.
  Theorem no_edit src path v : ts_has_error src = true ->
    set_value (parse src) path v = (parse src, Err ValErr) /\ remove_value (parse src) path = (parse src, Err ValErr).
  Proof. intros H. unfold parse. rewrite H. split; reflexivity. Qed.
  Theorem no_edit_keeps_text src path v : ts_has_error src = true ->
    rebuild (fst (set_value (parse src) path v)) = src /\ rebuild (fst (remove_value (parse src) path)) = src.
  Proof. intros H. destruct (no_edit src path v H) as [H1 H2]. rewrite H1, H2. cbn [fst]. split; apply passthrough, H. Qed.
  Theorem bad_value_refused d path v : value_ok v = false -> set_value d path v = (d, Err ValErr).
  Proof. intros H. destruct d as [t|t]; [reflexivity|]. cbn [set_value]. rewrite H. reflexivity. Qed.
End Gate.
Print Assumptions passthrough.
Print Assumptions no_edit.
Print Assumptions bad_value_refused.

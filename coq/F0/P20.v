(* End-to-end statements of C01 / C02 / C06 for fragment F0 in terms of the external parser.
   tree-sitter is not modelled: it enters as a section variable with the two hypotheses of DESIGN.md 4.3.  After the
   section closes they are ordinary premises of the theorems — nothing is declared as an axiom.  Both hypotheses are
   validated by the render correspondence on every run: ts_tiling on every converted CST (ftext f = source), ts_stable
   by re-parsing the implementation's output and comparing the converted tree with canon_file f (cfile_eqb below). *)
From Coq Require Import List Ascii String Bool Arith Lia.
Import ListNotations.
From F0 Require Import F0s Specs P1 P2 P3g P5 P6 P7 P8 P9 P10 P11 Canon P12 P13 Canonize P14 P15 P16a P16 P17 P18 P19.

Section Parser.
  Variable ts_parse : str -> option cfile.          (* error-free parse, converted to the typed concrete syntax *)
  Hypothesis ts_tiling : forall src f, ts_parse src = Some f -> ftext f = src.
  (* stated for the trees the parser itself produces (not for every cfile value: CAtom false "1" and CAtom true "1" print
     alike, so a statement over all values would be contradictory and the theorems below vacuous) *)
  Hypothesis ts_stable : forall src f, ts_parse src = Some f -> wf_file f ->
    ts_parse (ftext (canon_file f)) = Some (canon_file f).

  (* C02: a canonical source is reproduced byte for byte *)
  Theorem C02_source : forall src f, ts_parse src = Some f -> wf_file f -> canonical_file f = true -> roundtrip f = src.
  Proof. intros src f Hp Hwf Hc. rewrite (C02_F0 f Hwf Hc). apply ts_tiling, Hp. Qed.

  (* C01: the rebuilt text parses, to a tree with the same code tokens (integers modulo leading zeros) *)
  Theorem C01_source : forall src f, ts_parse src = Some f -> wf_file f ->
    exists f', ts_parse (roundtrip f) = Some f' /\ filter is_tok (flexseq f') = map nrm (filter is_tok (flexseq f)).
  Proof.
    intros src f Hp Hwf. exists (canon_file f). split.
    - rewrite (output_text f Hwf). apply (ts_stable src f Hp Hwf).
    - apply code_tokens_canon.
  Qed.

  (* C03: ... and with the same comments in the same places *)
  Theorem C03_source : forall src f, ts_parse src = Some f -> wf_file f ->
    exists f', ts_parse (roundtrip f) = Some f' /\ flexseq f' = map nrm (flexseq f).
  Proof.
    intros src f Hp Hwf. exists (canon_file f). split.
    - rewrite (output_text f Hwf). apply (ts_stable src f Hp Hwf).
    - apply flexseq_canon.
  Qed.

  (* C06: the rebuilt text is a fixed point of parse-then-rebuild *)
  Theorem C06_source : forall src f, ts_parse src = Some f -> wf_file f ->
    exists f', ts_parse (roundtrip f) = Some f' /\ roundtrip f' = roundtrip f.
  Proof.
    intros src f Hp Hwf. destruct (C06_F0 f Hwf) as [H1 H2]. exists (canon_file f). split.
    - rewrite H1. apply (ts_stable src f Hp Hwf).
    - rewrite H2, H1. reflexivity.
  Qed.

  (* C18: the tree the rebuilt text parses to is in the layout normal form *)
  Theorem C18_source : forall src f, ts_parse src = Some f -> wf_file f ->
    exists f', ts_parse (roundtrip f) = Some f' /\ canonical_file f' = true.
  Proof.
    intros src f Hp Hwf. exists (canon_file f). split.
    - rewrite (output_text f Hwf). apply (ts_stable src f Hp Hwf).
    - apply C18_F0, Hwf.
  Qed.
End Parser.
Print Assumptions C01_source.
Print Assumptions C06_source.

(* the two hypotheses are jointly satisfiable by a parser that accepts something: the one-document parser for the
   canonical form of P18.demo *)
Definition toy_parse (src : str) : option cfile :=
  if list_eq_dec ascii_dec src (ftext (canon_file demo)) then Some (canon_file demo) else None.
Lemma toy_tiling : forall src f, toy_parse src = Some f -> ftext f = src.
Proof. intros src f. unfold toy_parse. destruct (list_eq_dec ascii_dec src (ftext (canon_file demo))) as [E|E]; [|discriminate].
  intros H. injection H as <-. symmetry. exact E. Qed.
Lemma toy_stable : forall src f, toy_parse src = Some f -> wf_file f -> toy_parse (ftext (canon_file f)) = Some (canon_file f).
Proof. intros src f. unfold toy_parse at 1. destruct (list_eq_dec ascii_dec src (ftext (canon_file demo))) as [E|E]; [|discriminate].
  intros H _. injection H as <-. vm_compute. reflexivity. Qed.
Lemma toy_accepts : toy_parse (ftext (canon_file demo)) = Some (canon_file demo) /\ wf_file (canon_file demo).
Proof. split; [vm_compute; reflexivity|apply wf_fileb_sound; vm_compute; reflexivity]. Qed.

(* decidable equality of converted trees, used by the suite to validate ts_stable on every case *)
Fixpoint streqb (a b : str) : bool :=
  match a, b with [], [] => true | x :: a', y :: b' => Ascii.eqb x y && streqb a' b' | _, _ => false end.
Fixpoint cnode_eqb (a b : cnode) {struct a} : bool :=
  match a, b with
  | CAtom i t, CAtom j u => Bool.eqb i j && streqb t u
  | CCmt r, CCmt r' => streqb r r'
  | CBind n g1 g2 v g3, CBind n' h1 h2 v' h3 => streqb n n' && streqb g1 h1 && streqb g2 h2 && cnode_eqb v v' && streqb g3 h3
  | CSet r gr body cg, CSet r' gr' body' cg' =>
      Bool.eqb r r' && streqb gr gr' && streqb cg cg' &&
      (fix go (l l' : list (str * cnode)) : bool :=
         match l, l' with [], [] => true | (g, n) :: t, (g', n') :: t' => streqb g g' && cnode_eqb n n' && go t t' | _, _ => false end) body body'
  | CList body cg, CList body' cg' =>
      streqb cg cg' &&
      (fix go (l l' : list (str * cnode)) : bool :=
         match l, l' with [], [] => true | (g, n) :: t, (g', n') :: t' => streqb g g' && cnode_eqb n n' && go t t' | _, _ => false end) body body'
  | _, _ => false
  end.
Definition cfile_eqb (a b : cfile) : bool :=
  streqb (f_tail a) (f_tail b) &&
  (fix go (l l' : list (str * cnode)) : bool :=
     match l, l' with [], [] => true | (g, n) :: t, (g', n') :: t' => streqb g g' && cnode_eqb n n' && go t t' | _, _ => false end) (f_children a) (f_children b).

(* Proofs over the REGENERATED gap helpers of expressions/trivia.py (Dyn/GapGen.v, produced by tools/gap2v.py on every run):
   the generated text helpers are, for every string, the helpers the F0 model and its theorems are written with (F0.F0s), the
   separator functions emit only spacing in normal form, and the byte-offset twin of the blank-line test agrees with the regex one. *)
From Coq Require Import List Ascii Bool Arith Lia ZArith.
Import ListNotations.
From F0 Require Import F0s GapLib.
From Dyn Require Import GapGen.
Set Default Timeout 120.

Lemma c10 : c 10 = LF. Proof. reflexivity. Qed.
Lemma c32 : c 32 = " "%char. Proof. reflexivity. Qed.
Lemma c9 : c 9 = TAB. Proof. reflexivity. Qed.

Lemma py_in_has_nl g : py_in (c 10) g = has_nl g.
Proof. induction g as [|x r IH]; cbn [py_in has_nl]; [reflexivity|]. rewrite IH, c10. reflexivity. Qed.

Lemma cls_then_blank_after l : re_cls_then (fun x => (x =c c 32) || (x =c c 9)) (c 10) l = blank_after l.
Proof.
  induction l as [|x r IH]; cbn [re_cls_then blank_after]; [reflexivity|].
  rewrite IH, c10, c32, c9. destruct (x =c LF); [reflexivity|]. cbn [orb]. destruct ((x =c " "%char) || (x =c TAB)); reflexivity.
Qed.

Theorem re_search_is_has_empty_line s : _EMPTY_LINE_RE_search s = has_empty_line s.
Proof.
  unfold _EMPTY_LINE_RE_search. induction s as [|x r IH]; cbn [re_search_lcl has_empty_line]; [reflexivity|].
  rewrite IH, cls_then_blank_after, c10. reflexivity.
Qed.

Lemma blank_after_has_nl r : blank_after r = true -> has_nl r = true.
Proof.
  induction r as [|x r IH]; cbn [blank_after has_nl]; [discriminate|].
  destruct (x =c LF); [reflexivity|]. cbn [orb]. destruct ((x =c " "%char) || (x =c TAB)); [exact IH|discriminate].
Qed.
Lemma has_nl_count r : has_nl r = true -> 1 <= py_count LF r.
Proof.
  induction r as [|x r IH]; cbn [has_nl py_count]; [discriminate|].
  destruct (x =c LF); cbn [orb]; cbv iota; intros H; [lia|]. specialize (IH H). lia.
Qed.
Lemma empty_line_count g : has_empty_line g = true -> 2 <= py_count LF g.
Proof.
  induction g as [|x r IH]; cbn [has_empty_line py_count]; [discriminate|].
  destruct (x =c LF); cbn [andb orb]; cbv iota.
  - destruct (blank_after r) eqn:E; cbn [orb].
    + intros _. pose proof (has_nl_count r (blank_after_has_nl r E)). lia.
    + intros H. specialize (IH H). lia.
  - intros H. specialize (IH H). lia.
Qed.
Lemma empty_line_has_nl g : has_empty_line g = true -> has_nl g = true.
Proof.
  intros H. pose proof (empty_line_count g H) as Hc. destruct (has_nl g) eqn:E; [reflexivity|].
  exfalso. clear H. induction g as [|x r IH]; cbn [py_count has_nl] in *; [lia|].
  destruct (x =c LF); cbn [orb] in E; cbv iota in Hc; [discriminate|]. apply IH; [lia|exact E].
Qed.

Theorem gap_has_empty_line_eq g : gap_has_empty_line g = has_empty_line g.
Proof.
  unfold gap_has_empty_line. rewrite py_in_has_nl, re_search_is_has_empty_line.
  destruct (has_empty_line g) eqn:E.
  - rewrite (empty_line_has_nl g E). cbn [negb]. pose proof (empty_line_count g E) as Hc.
    change (c 10) with LF. destruct (Nat.ltb_spec (py_count LF g) 2); [lia|reflexivity].
  - destruct (negb (has_nl g)); [reflexivity|]. destruct (Nat.ltb _ _); reflexivity.
Qed.

Lemma after_last_nl_spec g acc :
  after_last_nl g acc = if has_nl g then List.length (py_rsplit1_last (c 10) g) else acc + List.length g.
Proof.
  revert acc. induction g as [|x r IH]; intros acc; cbn [after_last_nl has_nl py_rsplit1_last List.length]; [lia|].
  rewrite py_in_has_nl, c10. destruct (x =c LF) eqn:E; cbn [orb].
  - rewrite IH. destruct (has_nl r); [reflexivity|]. cbn. reflexivity.
  - rewrite IH. destruct (has_nl r); [reflexivity|]. lia.
Qed.

Theorem indent_from_gap_eq g : indent_from_gap_gen g = indent_from_gap g.
Proof.
  unfold indent_from_gap_gen, indent_from_gap. rewrite py_in_has_nl, after_last_nl_spec.
  destruct (has_nl g); reflexivity.
Qed.

Theorem from_gap_spec g :
  from_gap g = mkLayout (has_nl g) (has_empty_line g) (if has_nl g then Some (indent_from_gap g) else None).
Proof.
  unfold from_gap. rewrite py_in_has_nl, gap_has_empty_line_eq, indent_from_gap_eq.
  destruct (has_nl g) eqn:E; cbn [negb]; [reflexivity|].
  destruct (has_empty_line g) eqn:E2; [|reflexivity]. rewrite (empty_line_has_nl g E2) in E. discriminate.
Qed.

(* what a gap becomes when it is re-emitted through separator_from_layout: the caller's inline separator when the gap has no line
   break; otherwise one line break, or two when the gap held a blank line, followed by spaces only *)
Theorem separator_from_gap g ind isep :
  separator_from_layout (layout_from_gap g) ind isep =
  if has_nl g then (if has_empty_line g then [LF; LF] else [LF]) ++ sp (indent_from_gap g) else isep.
Proof.
  unfold layout_from_gap. rewrite from_gap_spec. unfold separator_from_layout. cbn [on_newline blank_line indent_].
  destruct (has_nl g); cbn [negb]; [|reflexivity].
  unfold py_truthy, py_times, sp. rewrite c10, c32.
  destruct (indent_from_gap g) as [|n]; cbn [Nat.eqb negb]; [|reflexivity].
  cbn [repeat]. rewrite app_nil_r. reflexivity.
Qed.

Theorem separator_with_comments_from_gap g cs isep inc :
  separator_from_layout_with_comments (layout_from_gap g) cs isep inc =
  if has_nl g then
    (if py_endswith1 LF cs then [] else [LF]) ++ (if has_empty_line g then [LF] else []) ++ (if inc then sp (indent_from_gap g) else [])
  else match cs with [] => isep | _ => if py_endswith1 " " cs || py_endswith1 LF cs then [] else isep end.
Proof.
  unfold layout_from_gap. rewrite from_gap_spec. unfold separator_from_layout_with_comments. cbn [on_newline blank_line indent_].
  rewrite !c10, !c32. destruct (has_nl g).
  - unfold opt_truthy, opt0, py_truthy, py_times, sp.
    destruct (has_empty_line g); destruct inc; cbn [andb];
      destruct (indent_from_gap g) as [|n]; cbn [Nat.eqb negb repeat]; rewrite ?app_nil_r, <- ?app_assoc; reflexivity.
  - destruct cs; reflexivity.
Qed.

(* spacing normal form of every separator: no tab, no carriage return, nothing but line breaks followed by spaces, at most two line breaks *)
Fixpoint all_sp (l : str) : bool := match l with [] => true | x :: r => (x =c " "%char) && all_sp r end.
Definition sep_nf (l : str) : bool :=
  match l with
  | x :: y :: r => (x =c LF) && (((y =c LF) && all_sp r) || all_sp (y :: r))
  | [x] => x =c LF
  | [] => false
  end.
Lemma all_sp_sp n : all_sp (sp n) = true.
Proof. induction n as [|n IH]; [reflexivity|]. cbn [sp repeat all_sp]. exact IH. Qed.
Theorem separator_normal_form g ind isep :
  has_nl g = true -> sep_nf (separator_from_layout (layout_from_gap g) ind isep) = true.
Proof.
  intros H. rewrite separator_from_gap, H. pose proof (all_sp_sp (indent_from_gap g)) as Hs.
  destruct (has_empty_line g); cbn [app sep_nf].
  - change (LF =c LF) with true. cbn [andb]. rewrite Hs. reflexivity.
  - destruct (sp (indent_from_gap g)) as [|y r] eqn:E; [reflexivity|].
    change (LF =c LF) with true. cbn [andb]. rewrite Hs. apply orb_true_r.
Qed.

Theorem append_gap_trivia_eq t g :
  append_gap_trivia t g true = t ++ gap_trivia g /\
  append_gap_trivia t g false = t ++ (if has_empty_line g then [EmptyLine] else []).
Proof.
  unfold append_gap_trivia, gap_trivia. rewrite gap_has_empty_line_eq, py_in_has_nl.
  destruct (has_empty_line g); cbn [andb]; [split; reflexivity|].
  destruct (has_nl g); split; rewrite ?app_nil_r; reflexivity.
Qed.

(* ---------- the byte-offset twin: _gap_has_empty_line_offsets on the span [start, end) of a larger buffer ---------- *)
Open Scope Z_scope.
Ltac lnorm := repeat first [rewrite <- app_assoc | progress cbn [app]].
Ltac leq := lnorm; reflexivity.
Definition ws (x : ascii) : bool := nat_in (nat_of_ascii x) _GAP_WHITESPACE_BYTES.
Lemma ws_eq x : ws x = ((x =c " "%char) || (x =c TAB)).
Proof. destruct x as [[] [] [] [] [] [] [] []]; reflexivity. Qed.
Lemma lf_eq x : Nat.eqb (nat_of_ascii x) 10 = (x =c LF).
Proof. destruct x as [[] [] [] [] [] [] [] []]; reflexivity. Qed.
Fixpoint lead (l : str) : nat := match l with x :: r => if ws x then S (lead r) else 0%nat | [] => 0%nat end.
Fixpoint idx (l : str) : option nat := match l with [] => None | x :: r => if x =c LF then Some 0%nat else option_map S (idx r) end.

Lemma byte_at_mid pre x r : byte_at (pre ++ x :: r) (Z.of_nat (List.length pre)) = nat_of_ascii x.
Proof. unfold byte_at. rewrite Nat2Z.id, nth_middle. reflexivity. Qed.

Lemma find_nat_skip x pre rest i b :
  find_nat x (pre ++ rest) i (i + List.length pre)%nat b = find_nat x rest (i + List.length pre)%nat (i + List.length pre)%nat b.
Proof.
  revert i. induction pre as [|y pre IH]; intros i; cbn [app List.length find_nat].
  - rewrite Nat.add_0_r. reflexivity.
  - destruct (Nat.leb_spec (i + S (List.length pre)) i) as [H|H]; [lia|]. cbn [andb].
    replace (i + S (List.length pre))%nat with (S i + List.length pre)%nat by lia. apply IH.
Qed.
Lemma find_nat_past x post j a b : (b <= j)%nat -> find_nat x post j a b = None.
Proof.
  revert j. induction post as [|y post IH]; intros j H; cbn [find_nat]; [reflexivity|].
  destruct (Nat.ltb_spec j b) as [H1|H1]; [lia|]. rewrite andb_false_r. cbn [andb]. apply IH. lia.
Qed.
Lemma find_nat_in l post i a :
  (a <= i)%nat -> find_nat LF (l ++ post) i a (i + List.length l)%nat = option_map (fun k => (i + k)%nat) (idx l).
Proof.
  revert i. induction l as [|y l IH]; intros i H; cbn [app List.length find_nat idx].
  - rewrite Nat.add_0_r. apply find_nat_past. lia.
  - destruct (Nat.leb_spec a i) as [_|H1]; [|lia]. destruct (Nat.ltb_spec i (i + S (List.length l))) as [_|H1]; [|lia]. cbn [andb].
    destruct (y =c LF); cbn [option_map]; [f_equal; lia|].
    replace (i + S (List.length l))%nat with (S i + List.length l)%nat by lia. rewrite IH by lia.
    destruct (idx l); cbn [option_map]; [f_equal; lia|reflexivity].
Qed.
Lemma py_find_mid pre l post :
  py_find (c 10) (pre ++ l ++ post) (Z.of_nat (List.length pre)) (Z.of_nat (List.length pre + List.length l)) =
  match idx l with Some k => Z.of_nat (List.length pre + k) | None => -1 end.
Proof.
  unfold py_find. rewrite !Nat2Z.id. change (c 10) with LF.
  pose proof (find_nat_skip LF pre (l ++ post) 0 (List.length pre + List.length l)) as H. cbn [Nat.add] in H. rewrite H.
  rewrite find_nat_in by lia. destruct (idx l); reflexivity.
Qed.

(* the inner loop skips the leading blanks of the remaining span *)
Lemma inner_loop fuel pre l post :
  (List.length l < fuel)%nat ->
  _gap_has_empty_line_offsets_loop2 fuel (pre ++ l ++ post) (Z.of_nat (List.length pre + List.length l)) (Z.of_nat (List.length pre))
  = Some (Fall (Z.of_nat (List.length pre + lead l))).
Proof.
  revert pre l. induction fuel as [|fuel IH]; intros pre l Hf; [lia|].
  cbn [_gap_has_empty_line_offsets_loop2]. destruct l as [|x r].
  - cbn [List.length lead]. rewrite Nat.add_0_r. rewrite Z.ltb_irrefl. cbn [andb]. reflexivity.
  - cbn [List.length lead] in *. destruct (Z.ltb_spec (Z.of_nat (List.length pre)) (Z.of_nat (List.length pre + S (List.length r)))) as [_|H]; [|lia].
    cbn [andb app]. rewrite byte_at_mid. fold (ws x). destruct (ws x).
    + replace (Z.of_nat (List.length pre) + 1) with (Z.of_nat (List.length (pre ++ [x]))) by (rewrite app_length; cbn [List.length]; lia).
      replace (pre ++ x :: r ++ post) with ((pre ++ [x]) ++ r ++ post) by leq.
      replace (List.length pre + S (List.length r))%nat with (List.length (pre ++ [x]) + List.length r)%nat by (rewrite app_length; cbn [List.length]; lia).
      rewrite IH by lia. rewrite app_length. cbn [List.length]. do 2 f_equal. lia.
    + rewrite Nat.add_0_r. reflexivity.
Qed.

Lemma blank_after_lead l : blank_after l = match skipn (lead l) l with x :: _ => x =c LF | [] => false end.
Proof.
  induction l as [|x r IH]; cbn [blank_after lead]; [reflexivity|]. rewrite ws_eq.
  destruct (x =c LF) eqn:E.
  - destruct ((x =c " "%char) || (x =c TAB)) eqn:E2; cbn [skipn]; [|exact (eq_sym E)].
    exfalso. apply Ascii.eqb_eq in E. subst x. discriminate.
  - destruct ((x =c " "%char) || (x =c TAB)); cbn [skipn]; [exact IH|exact (eq_sym E)].
Qed.
Lemma lead_le l : (lead l <= List.length l)%nat.
Proof. induction l as [|x r IH]; cbn [lead List.length]; [lia|]. destruct (ws x); lia. Qed.
Lemma ws_not_lf x : ws x = true -> (x =c LF) = false.
Proof. rewrite ws_eq. destruct (x =c LF) eqn:E; [|reflexivity]. apply Ascii.eqb_eq in E. subst x. discriminate. Qed.
Lemma hel_skip_lead l : has_empty_line l = has_empty_line (skipn (lead l) l).
Proof.
  induction l as [|x r IH]; cbn [lead]; [reflexivity|]. destruct (ws x) eqn:E; cbn [skipn]; [|reflexivity].
  cbn [has_empty_line]. rewrite (ws_not_lf x E). cbn [andb orb]. exact IH.
Qed.
Lemma idx_none_hel l : idx l = None -> has_empty_line l = false /\ blank_after l = false.
Proof.
  induction l as [|x r IH]; cbn [idx has_empty_line blank_after]; [split; reflexivity|].
  destruct (x =c LF); [discriminate|]. destruct (idx r); [discriminate|]. intros _. destruct (IH eq_refl) as [H1 H2].
  cbn [andb orb]. split; [exact H1|]. destruct ((x =c " "%char) || (x =c TAB)); [exact H2|reflexivity].
Qed.
Lemma idx_some_split l k : idx l = Some k -> exists m r, l = m ++ LF :: r /\ List.length m = k /\ has_empty_line l = has_empty_line (LF :: r).
Proof.
  revert k. induction l as [|x l IH]; intros k; cbn [idx]; [discriminate|].
  destruct (x =c LF) eqn:E.
  - intros H. injection H as <-. apply Ascii.eqb_eq in E. subst x. exists [], l. repeat split.
  - destruct (idx l) as [j|]; [|discriminate]. cbn [option_map]. intros H. injection H as <-.
    destruct (IH j eq_refl) as (m & r & -> & Hm & Hh). exists (x :: m), r. repeat split; [cbn [List.length]; lia|].
    cbn [has_empty_line app]. rewrite E. cbn [andb orb]. exact Hh.
Qed.

(* the outer loop, started on a line break at |pre| with the span ending after l, decides has_empty_line of that rest *)
Lemma lead_split l : exists w l', l = w ++ l' /\ lead l = List.length w /\
  blank_after l = match l' with x :: _ => x =c LF | [] => false end /\ has_empty_line l = has_empty_line l'.
Proof.
  exists (firstn (lead l) l), (skipn (lead l) l). pose proof (lead_le l).
  repeat split; [symmetry; apply firstn_skipn | rewrite firstn_length; lia | apply blank_after_lead | apply hel_skip_lead].
Qed.

Lemma outer_loop n : forall fuel pre l post,
  (List.length l < n)%nat -> (S (List.length l) < fuel)%nat ->
  _gap_has_empty_line_offsets_loop1 fuel (pre ++ (LF :: l) ++ post) (Z.of_nat (List.length pre + S (List.length l))) (Z.of_nat (List.length pre))
  = Some (if has_empty_line (LF :: l) then Ret true else Fall (-1)).
Proof.
  induction n as [|n IH]; intros fuel pre l post Hn Hf; [lia|].
  destruct fuel as [|fuel]; [lia|]. cbn [_gap_has_empty_line_offsets_loop1].
  destruct (Z.eqb_spec (Z.of_nat (List.length pre)) (-1)) as [H|_]; [lia|]. cbn [negb].
  cbn [has_empty_line]. change (LF =c LF) with true. cbn [andb].
  destruct (lead_split l) as (w & l' & -> & Hw & Hb & Hh). rewrite Hb, Hh. clear Hb Hh.
  replace (pre ++ (LF :: w ++ l') ++ post) with ((pre ++ [LF]) ++ (w ++ l') ++ post) by leq.
  replace (Z.of_nat (List.length pre) + 1) with (Z.of_nat (List.length (pre ++ [LF]))) by (rewrite app_length; cbn [List.length]; lia).
  replace (List.length pre + S (List.length (w ++ l')))%nat with (List.length (pre ++ [LF]) + List.length (w ++ l'))%nat by (rewrite !app_length; cbn [List.length]; lia).
  rewrite inner_loop by (rewrite !app_length; cbn [List.length]; lia). rewrite Hw.
  replace ((pre ++ [LF]) ++ (w ++ l') ++ post) with ((pre ++ [LF] ++ w) ++ l' ++ post) by leq.
  replace (List.length (pre ++ [LF]) + List.length w)%nat with (List.length (pre ++ [LF] ++ w)) by (rewrite !app_length; lia).
  replace (List.length (pre ++ [LF]) + List.length (w ++ l'))%nat with (List.length (pre ++ [LF] ++ w) + List.length l')%nat by (rewrite !app_length; lia).
  rewrite !app_length in Hn, Hf.
  destruct l' as [|y r'].
  - (* nothing after the blanks *)
    cbn [List.length]. rewrite Nat.add_0_r, Z.ltb_irrefl. cbn [andb orb has_empty_line].
    pose proof (py_find_mid (pre ++ [LF] ++ w) [] post) as Hf0. cbn [List.length idx] in Hf0. rewrite Nat.add_0_r in Hf0. rewrite Hf0.
    destruct fuel as [|fuel]; [lia|]. cbn [_gap_has_empty_line_offsets_loop1]. reflexivity.
  - destruct (Z.ltb_spec (Z.of_nat (List.length (pre ++ [LF] ++ w))) (Z.of_nat (List.length (pre ++ [LF] ++ w) + List.length (y :: r')))) as [_|H]; [|cbn [List.length] in H; lia].
    cbn [andb]. pose proof (byte_at_mid (pre ++ [LF] ++ w) y (r' ++ post)) as Hby. change (y :: r' ++ post) with ((y :: r') ++ post) in Hby.
    rewrite Hby, lf_eq. clear Hby. destruct (y =c LF) eqn:Ey; cbn [orb]; [reflexivity|].
    rewrite py_find_mid.
    destruct (idx (y :: r')) as [k|] eqn:Ei.
    + destruct (idx_some_split _ _ Ei) as (m & r & Hl' & Hm & Hhel). rewrite Hhel. rewrite Hl'. cbn [List.length] in Hn, Hf.
      assert (Hlen : List.length (y :: r') = (List.length m + S (List.length r))%nat) by (rewrite Hl', app_length; reflexivity).
      cbn [List.length] in Hlen.
      replace ((pre ++ [LF] ++ w) ++ (m ++ LF :: r) ++ post) with ((pre ++ [LF] ++ w ++ m) ++ (LF :: r) ++ post) by leq.
      replace (Z.of_nat (List.length (pre ++ [LF] ++ w) + k)) with (Z.of_nat (List.length (pre ++ [LF] ++ w ++ m))) by (rewrite !app_length, Hm; lia).
      replace (List.length (pre ++ [LF] ++ w) + List.length (m ++ LF :: r))%nat with (List.length (pre ++ [LF] ++ w ++ m) + S (List.length r))%nat
        by (rewrite !app_length; cbn [List.length]; lia).
      apply IH; lia.
    + destruct (idx_none_hel _ Ei) as [-> _].
      destruct fuel as [|fuel]; [cbn [List.length] in Hf; lia|]. cbn [_gap_has_empty_line_offsets_loop1]. reflexivity.
Qed.

Theorem offsets_twin_agrees pre g post :
  _gap_has_empty_line_offsets (pre ++ g ++ post) (Z.of_nat (List.length pre)) (Z.of_nat (List.length pre + List.length g)) None
  = Some (gap_has_empty_line g).
Proof.
  rewrite gap_has_empty_line_eq. unfold _gap_has_empty_line_offsets. rewrite py_find_mid.
  destruct (idx g) as [k|] eqn:Ei.
  - destruct (Z.eqb_spec (Z.of_nat (List.length pre + k)) (-1)) as [H|_]; [lia|].
    destruct (idx_some_split _ _ Ei) as (m & r & -> & Hm & Hhel). rewrite Hhel.
    replace (pre ++ (m ++ LF :: r) ++ post) with ((pre ++ m ++ [LF]) ++ r ++ post) by leq.
    replace (Z.of_nat (List.length pre + k) + 1) with (Z.of_nat (List.length (pre ++ m ++ [LF]))) by (rewrite !app_length, Hm; cbn [List.length]; lia).
    replace (List.length pre + List.length (m ++ LF :: r))%nat with (List.length (pre ++ m ++ [LF]) + List.length r)%nat by (rewrite !app_length; cbn [List.length]; lia).
    rewrite py_find_mid. destruct (idx r) as [j|] eqn:Ej.
    + destruct (Z.eqb_spec (Z.of_nat (List.length (pre ++ m ++ [LF]) + j)) (-1)) as [H|_]; [lia|].
      replace ((pre ++ m ++ [LF]) ++ r ++ post) with ((pre ++ m) ++ (LF :: r) ++ post) by leq.
      replace (Z.of_nat (List.length pre + k)) with (Z.of_nat (List.length (pre ++ m))) by (rewrite app_length, Hm; reflexivity).
      replace (List.length (pre ++ m ++ [LF]) + List.length r)%nat with (List.length (pre ++ m) + S (List.length r))%nat by (rewrite !app_length; cbn [List.length]; lia).
      rewrite (outer_loop (S (List.length r))) by (rewrite ?app_length; cbn [List.length]; lia).
      destruct (has_empty_line (LF :: r)); reflexivity.
    + change (-1 =? -1) with true. cbv iota. destruct (idx_none_hel _ Ej) as [H1 H2].
      cbn [has_empty_line]. rewrite H1, H2. reflexivity.
  - change (-1 =? -1) with true. cbv iota. destruct (idx_none_hel _ Ei) as [-> _]. reflexivity.
Qed.
Close Scope Z_scope.

(* ---------- _gap_line_info_from_offsets (after its span lookup): newline count and trailing indent of the span ---------- *)
Open Scope Z_scope.
Fixpoint ridx (l : str) : option nat :=
  match l with [] => None | x :: r => match ridx r with Some j => Some (S j) | None => if x =c LF then Some 0%nat else None end end.
Lemma ridx_spec l :
  match ridx l with
  | Some k => has_nl l = true /\ (k + 1 + List.length (py_rsplit1_last LF l) = List.length l)%nat
  | None => has_nl l = false
  end.
Proof.
  induction l as [|x r IH]; cbn [ridx has_nl py_rsplit1_last List.length]; [reflexivity|].
  change (py_in LF r) with (py_in (c 10) r). rewrite py_in_has_nl.
  destruct (ridx r) as [j|].
  - destruct IH as [H1 H2]. rewrite H1, orb_true_r. split; [reflexivity|lia].
  - rewrite IH, orb_false_r. destruct (x =c LF); [split; [reflexivity|lia]|reflexivity].
Qed.
Lemma count_nat_skip x pre rest i b :
  count_nat x (pre ++ rest) i (i + List.length pre)%nat b = count_nat x rest (i + List.length pre)%nat (i + List.length pre)%nat b.
Proof.
  revert i. induction pre as [|y pre IH]; intros i; cbn [app List.length count_nat].
  - rewrite Nat.add_0_r. reflexivity.
  - destruct (Nat.leb_spec (i + S (List.length pre)) i) as [H|H]; [lia|]. cbn [andb]. cbv iota.
    replace (i + S (List.length pre))%nat with (S i + List.length pre)%nat by lia. rewrite IH. reflexivity.
Qed.
Lemma count_nat_past x post j a b : (b <= j)%nat -> count_nat x post j a b = 0%nat.
Proof.
  revert j. induction post as [|y post IH]; intros j H; cbn [count_nat]; [reflexivity|].
  destruct (Nat.ltb_spec j b) as [H1|H1]; [lia|]. rewrite andb_false_r. cbn [andb]. cbv iota. rewrite IH by lia. reflexivity.
Qed.
Lemma count_nat_in l post i a :
  (a <= i)%nat -> count_nat LF (l ++ post) i a (i + List.length l)%nat = py_count LF l.
Proof.
  revert i. induction l as [|y l IH]; intros i H; cbn [app List.length count_nat py_count].
  - rewrite Nat.add_0_r. apply count_nat_past. lia.
  - destruct (Nat.leb_spec a i) as [_|H1]; [|lia]. destruct (Nat.ltb_spec i (i + S (List.length l))) as [_|H1]; [|lia]. cbn [andb].
    replace (i + S (List.length l))%nat with (S i + List.length l)%nat by lia. rewrite IH by lia. reflexivity.
Qed.
Lemma rfind_nat_skip x pre rest i b :
  rfind_nat x (pre ++ rest) i (i + List.length pre)%nat b = rfind_nat x rest (i + List.length pre)%nat (i + List.length pre)%nat b.
Proof.
  revert i. induction pre as [|y pre IH]; intros i; cbn [app List.length rfind_nat].
  - rewrite Nat.add_0_r. reflexivity.
  - destruct (Nat.leb_spec (i + S (List.length pre)) i) as [H|H]; [lia|]. cbn [andb].
    replace (i + S (List.length pre))%nat with (S i + List.length pre)%nat by lia. rewrite IH.
    destruct (rfind_nat x rest _ _ b); reflexivity.
Qed.
Lemma rfind_nat_past x post j a b : (b <= j)%nat -> rfind_nat x post j a b = None.
Proof.
  revert j. induction post as [|y post IH]; intros j H; cbn [rfind_nat]; [reflexivity|].
  rewrite IH by lia. destruct (Nat.ltb_spec j b) as [H1|H1]; [lia|]. rewrite andb_false_r. reflexivity.
Qed.
Lemma rfind_nat_in l post i a :
  (a <= i)%nat -> rfind_nat LF (l ++ post) i a (i + List.length l)%nat = option_map (fun k => (i + k)%nat) (ridx l).
Proof.
  revert i. induction l as [|y l IH]; intros i H; cbn [app List.length rfind_nat ridx].
  - rewrite Nat.add_0_r. apply rfind_nat_past. lia.
  - replace (i + S (List.length l))%nat with (S i + List.length l)%nat by lia. rewrite IH by lia.
    destruct (ridx l) as [j|]; cbn [option_map]; [f_equal; lia|].
    destruct (Nat.leb_spec a i) as [_|H1]; [|lia]. destruct (Nat.ltb_spec i (S i + List.length l)) as [_|H1]; [|lia]. cbn [andb].
    destruct (y =c LF); cbn [option_map]; [f_equal; lia|reflexivity].
Qed.
Lemma has_nl_count0 g : has_nl g = negb (Nat.eqb (py_count LF g) 0).
Proof.
  induction g as [|x r IH]; cbn [has_nl py_count]; [reflexivity|]. destruct (x =c LF); cbn [orb]; cbv iota; [reflexivity|exact IH].
Qed.

Theorem line_info_offsets pre g post :
  gap_line_info_offsets (pre ++ g ++ post) (Z.of_nat (List.length pre)) (Z.of_nat (List.length pre + List.length g)) =
  if has_nl g then (Z.of_nat (py_count LF g), Some (Z.of_nat (indent_from_gap g))) else (0, None).
Proof.
  unfold gap_line_info_offsets, py_count_range, py_rfind. rewrite !Nat2Z.id. change (c 10) with LF.
  pose proof (count_nat_skip LF pre (g ++ post) 0 (List.length pre + List.length g)) as Hc. cbn [Nat.add] in Hc. rewrite Hc. clear Hc.
  pose proof (rfind_nat_skip LF pre (g ++ post) 0 (List.length pre + List.length g)) as Hr. cbn [Nat.add] in Hr. rewrite Hr. clear Hr.
  rewrite count_nat_in, rfind_nat_in by lia. rewrite has_nl_count0.
  destruct (Nat.eqb_spec (py_count LF g) 0) as [E|E].
  - rewrite E. reflexivity.
  - destruct (Z.eqb_spec (Z.of_nat (py_count LF g)) 0) as [H|_]; [lia|]. cbn [negb].
    pose proof (ridx_spec g) as Hs. rewrite <- indent_from_gap_eq. unfold indent_from_gap_gen. rewrite py_in_has_nl.
    destruct (ridx g) as [k|]; cbn [option_map].
    + destruct Hs as [H1 H2]. rewrite H1. cbn [negb]. change (c 10) with LF. do 3 f_equal. lia.
    + exfalso. rewrite has_nl_count0 in Hs. destruct (Nat.eqb_spec (py_count LF g) 0); [lia|discriminate].
Qed.
Close Scope Z_scope.

(* ---------- re-reading an emitted separator gives the layout it was emitted from (the fixed point at the level of one gap) ---------- *)
Lemma blank_after_sp k : blank_after (sp k) = false.
Proof. induction k as [|k IH]; [reflexivity|]. cbn [sp repeat blank_after]. change (" "%char =c LF) with false. cbv iota. cbn [orb]. exact IH. Qed.
Lemma has_empty_line_sp k : has_empty_line (sp k) = false.
Proof. induction k as [|k IH]; [reflexivity|]. cbn [sp repeat has_empty_line]. change (" "%char =c LF) with false. cbn [andb orb]. exact IH. Qed.
Lemma after_last_nl_sp k acc : after_last_nl (sp k) acc = acc + k.
Proof. revert acc. induction k as [|k IH]; intros acc; [cbn; lia|]. cbn [sp repeat after_last_nl]. change (" "%char =c LF) with false. cbv iota. fold (sp k). rewrite IH. lia. Qed.

Theorem layout_fixed_point g ind isep :
  has_nl g = true ->
  layout_from_gap (separator_from_layout (layout_from_gap g) ind isep) = layout_from_gap g.
Proof.
  intros H. rewrite separator_from_gap, H. unfold layout_from_gap. rewrite !from_gap_spec, H.
  destruct (has_empty_line g); cbn [app].
  - cbn [has_nl has_empty_line blank_after]. change (LF =c LF) with true. cbn [orb andb].
    unfold indent_from_gap at 1. cbn [has_nl after_last_nl]. change (LF =c LF) with true. cbn [orb]. cbv iota.
    rewrite after_last_nl_sp. reflexivity.
  - cbn [has_nl has_empty_line]. change (LF =c LF) with true. cbn [orb andb]. rewrite blank_after_sp, has_empty_line_sp. cbn [orb].
    unfold indent_from_gap at 1. cbn [has_nl after_last_nl]. change (LF =c LF) with true. cbn [orb]. cbv iota.
    rewrite after_last_nl_sp. reflexivity.
Qed.

"""Property oracles over the tree-sitter token stream (shared by the slot matrix and the seeded render search)."""
import re
from nixread import ts
OPAQUE = ('string_expression', 'indented_string_expression', 'comment', 'path_expression', 'spath_expression', 'hpath_expression', 'uri_expression')
DELIMS = {';', ',', '=', ':', '@', '.', '(', ')', '[', ']', '{', '}', '${', '...'}
def leaves(n, out):
    if n.type in OPAQUE or n.child_count == 0:
        if n.end_byte > n.start_byte: out.append(n)
        return
    for c in n.children: leaves(c, out)
def lex(s, allow_formals_comma=False):
    root = ts(s)
    if root.has_error:
        if not allow_formals_comma: return None
        s2 = re.sub(r',(\s*)\}', r'\1}', s)           # C01 allows a trailing comma in multi-line formals; the installed grammar rejects it
        if s2 == s: return None
        r = lex(s2)
        return r
    out = []; leaves(root, out); b = s.encode(); toks = []; pos = 0
    for n in out:
        toks.append((b[pos:n.start_byte].decode(), n.type, n.text.decode())); pos = n.end_byte
    return toks, b[pos:].decode()
def normint(t): return re.sub(r'^0+(?=\d)', '', t[2]) if t[1] == 'integer_expression' else t[2]
def code(toks): return [(t[1], normint(t)) for t in toks if t[1] != 'comment']
def drop_empty_let(seq, is_tok, text):
    """a binding-less `let in` wrapper may be elided (C01): remove `let` … `in` pairs with no code token between them"""
    out = list(seq); changed = True
    while changed:
        changed = False
        for i, x in enumerate(out):
            if is_tok(x) and text(x) == 'let':
                j = i + 1
                while j < len(out) and not is_tok(out[j]): j += 1
                if j < len(out) and text(out[j]) == 'in':
                    out = out[:i] + out[i + 1:j] + out[j + 1:]; changed = True; break
    return out
def code_nocomma(toks):
    c = code(toks)
    c = [x for i, x in enumerate(c) if not (x[1] == ',' and i + 1 < len(c) and c[i + 1][1] == '}')]
    return drop_empty_let(c, lambda x: True, lambda x: x[1])
def normc(text):
    t = text.strip()
    if t.startswith('#'): return '#' + ' '.join(t[1:].split())
    if t.startswith('/**'): return '/**' + ' '.join(t[3:-2].split()) + '*/'
    return '/*' + ' '.join(t[2:-2].split()) + '*/'
def interleave(toks):
    out = []
    for t in toks:
        if t[1] == 'comment': out.append(('C', normc(t[2])))
        elif t[2] not in DELIMS: out.append(('T', normint(t)))
    return drop_empty_let(out, lambda x: x[0] == 'T', lambda x: x[1])
def nf_errors(r):
    lx = lex(r, True)
    if lx is None: return ['output does not parse']
    toks, tail = lx; errs = []
    for i, (g, ty, tx) in enumerate(toks):
        if '\t' in g: errs.append('tab')
        if re.search(r'[ \t]+\n', g): errs.append('trailing whitespace')
        if g.count('\n') > 2: errs.append('more than one blank line')
        if '\n' not in g and len(g) > 1: errs.append('more than one space')
        if i == 0 and g != '': errs.append('whitespace before the first token')
        if tx in (';', ':') and g != '' and '\n' not in g: errs.append('space before %s' % tx)
    if re.search(r'[ \t]+\n', tail) or tail.count('\n') > 2: errs.append('trailing whitespace at end')
    # last clause of C18: own-line comments and closing delimiters are indented with the structure they belong to —
    # a closing delimiter that starts a line stands at the indentation of the line that holds its opener; an own-line comment
    # stands at the indentation of the code line it precedes (two further in when what follows is the closing delimiter)
    text = ''; info = []
    for g, ty, tx in toks:
        text += g; start = len(text); ls = text.rfind('\n') + 1
        first = text[ls:start].strip(' ') == ''
        line = text[ls:] if not first else None
        info.append((first, len(text[ls:start]) if first else len(line) - len(line.lstrip(' ')))); text += tx
    stack = []
    for (g, ty, tx), (first, ind) in zip(toks, info):
        if ty == 'comment': continue
        if tx in ('{', '[', '('): stack.append(ind)
        elif tx == '${': stack.append(None)
        elif tx in ('}', ']', ')') and stack:
            o = stack.pop()
            if first and o is not None and ind != o: errs.append('closing delimiter not at the indentation of its opener\'s line')
    n = len(toks)
    for i, ((g, ty, tx), (first, ind)) in enumerate(zip(toks, info)):
        if ty != 'comment' or not first: continue
        j = i + 1
        while j < n and toks[j][1] == 'comment' and info[j][0]: j += 1
        if j >= n or not info[j][0] or toks[j][1] == 'comment': continue
        nxt = toks[j][2]
        if nxt in ('in', 'then', 'else'): continue
        exp = info[j][1] + 2 if nxt in ('}', ']', ')') else info[j][1]
        if ind != exp: errs.append('own-line comment not indented with what follows it')
    return errs

def judge(prop, p, r, rebuild, line_level=True):
    """verdict of property `prop` on input text p with implementation output r; None when it holds"""
    lp = lex(p)
    if prop == 'C01':
        lr = lex(r, True)
        if lr is None: return 'output does not parse'
        if code_nocomma(lr[0]) != code_nocomma(lp[0]): return 'code tokens changed'
    elif prop == 'C03':
        lr = lex(r, True)
        if lr is None:
            # the output does not parse (C01's clause); C03 still judges what tree-sitter's error recovery shows of the
            # comments: a comment that is worded differently — typically because it swallowed the code after it — or a
            # missing / extra comment is "a comment absorbs code / is lost"
            def raw_comments(t):
                acc = []
                def w(n):
                    if n.type == 'comment': acc.append(normc(n.text.decode()))
                    for c in n.children: w(c)
                w(ts(t)); return acc
            if raw_comments(r) != [c[1] for c in interleave(lp[0]) if c[0] == 'C']: return 'comment lost, duplicated or reworded (a comment absorbed code): the output does not parse'
            return None
        if interleave(lr[0]) != interleave(lp[0]): return 'comment lost, duplicated, reworded or moved across a token'
    elif prop == 'C06':
        if not line_level: return None
        try: r2 = rebuild(r)
        except Exception as e: return 'second pass raises %s' % type(e).__name__
        if r2 != r: return 'rebuilt text is not a fixed point'
    elif prop == 'C18':
        nf = nf_errors(r)
        if nf and nf != ['output does not parse']: return 'not in spacing normal form: ' + ', '.join(sorted(set(nf)))
    elif prop == 'C02':
        if r != p: return 'canonical input not reproduced byte for byte'
    return None

import sys, os
sys.path.insert(0,'/repo')
from nix_manipulator import parse, parse_file
from nix_manipulator.cli.manipulations import set_value, remove_value
base='/tmp/scratch/imp'
for cwd, entry in [(base,'a/entry.nix'),(base+'/a','entry.nix'),(base+'/a','./entry.nix'),('/',base+'/a/entry.nix'),(base+'/c','../a/entry.nix'),(base+'/a/b','../entry.nix')]:
    os.chdir(cwd)
    try:
        s = parse_file(entry)
        print(cwd, entry, '->', s['x']['z']['v'], s['y']['v'], s['x']['w'])
    except Exception as e:
        print(cwd, entry, 'EXC', type(e).__name__, e)
print("== C19")
def sv(t,p,v): return set_value(parse(t),p,v)
def rv(t,p): return remove_value(parse(t),p)
d = "{\n  a = 1;\n  # c\n  b = {\n    c = 2;\n  };\n}\n"
print(sv(sv(d,'a','5'),'a','5')==sv(d,'a','5'), rv(sv(d,'z','9'),'z')==d, rv(sv(d,'@z','9'),'@z')==d, sv(sv(d,'a','5'),'b.c','6')==sv(sv(d,'b.c','6'),'a','5'))
print(repr(rv(sv(d,'@z','9'),'@z')))
print(repr(rv(sv(d,'q.r','9'),'q.r')))
d2 = "# hdr\n{ pkgs }:\n{\n  a = 1;\n}\n"
print(repr(sv(d2,'@z','9'))); print(repr(rv(sv(d2,'@z','9'),'@z')))
print("== C09")
d3 = "let\n  a = 1;\nin\nlet\n  a = 2;\n  b = 3;\nin\n{ x = a; }\n"
for op in [('set','@a','9'),('set','@@a','9'),('set','@@@a','9'),('rm','@a'),('rm','@@a'),('rm','@b'),('set','@c','1')]:
    try: r = sv(d3,*op[1:]) if op[0]=='set' else rv(d3,op[1])
    except Exception as e: r = f"EXC {type(e).__name__}: {e}"
    print(op, repr(r))
print("== C07")
for bad in ["{ a = ; }", "\n\n{ a = 1; \n", "{ a = 1; }}", "x: y: {", "  {a=1;} extra tokens )", "{ a = 1 }"]:
    s = parse(bad); print(repr(bad), s.contains_error, s.rebuild()==bad)

(* C18 — rebuilt text is in the formatter's spacing normal form (fragment F0, model level): the output is the text
   of a tree satisfying canonical_file, which forces every gap to be "", one space, or LF [LF] followed by exactly the
   structural indentation: no tab, no trailing space, at most one blank line, single spaces, nothing before the first
   token, = and ; attached, own-line comments and closers at the structural indent. *)
From Coq Require Import List Ascii String Bool Arith.
Import ListNotations.
From F0 Require Import F0s Specs P1 P2 P3g P5 P6 P7 P8 P9 P10 P11 Canon P12 P13 Canonize P14 P15 P16a P16 P17 P18 P19 P20.

Theorem C18_normal_form : forall f, wf_file f -> canonical_file (canon_file f) = true.
Proof. exact C18_F0. Qed.
Print Assumptions C18_normal_form.

Theorem C18_output : forall f, wf_file f -> roundtrip f = ftext (canon_file f).
Proof. exact output_text. Qed.
Print Assumptions C18_output.

(* every gap the canonicaliser writes is one of the normal-form gaps *)
Theorem C18_gap_shape : forall g k, cgap g k = LF :: blank g ++ sp k.
Proof. intros g k. reflexivity. Qed.
Print Assumptions C18_gap_shape.

(* end to end over the external parser: the tree the rebuilt text parses to is in the layout normal form *)
Theorem C18_source : forall ts_parse : str -> option cfile,
  (forall src f, ts_parse src = Some f -> ftext f = src) ->
  (forall src f, ts_parse src = Some f -> wf_file f -> ts_parse (ftext (canon_file f)) = Some (canon_file f)) ->
  forall src f, ts_parse src = Some f -> wf_file f ->
  exists f', ts_parse (roundtrip f) = Some f' /\ canonical_file f' = true.
Proof. exact (fun ts _ Hstable => P20.C18_source ts Hstable). Qed.
Print Assumptions C18_source.

From Coq Require Import ZArith.
From F0 Require Import GapLib.
From Dyn Require Import GapGen GapGenProps.

(* over the REGENERATED gap helpers of expressions/trivia.py (tools/gap2v.py, Dyn/GapGenProps.v): whatever gap with a line break is
   re-emitted through separator_from_layout comes out as one line break, or two when the gap held a blank line, followed by spaces
   only — no tab, no carriage return, never more than one blank line — for every gap, indent and inline separator *)
Theorem C18_separators_normal_form : forall g ind isep,
  has_nl g = true -> sep_nf (separator_from_layout (layout_from_gap g) ind isep) = true.
Proof. exact separator_normal_form. Qed.
Print Assumptions C18_separators_normal_form.

Theorem C18_separator_shape : forall g ind isep,
  separator_from_layout (layout_from_gap g) ind isep =
  if has_nl g then (if has_empty_line g then [LF; LF] else [LF]) ++ sp (indent_from_gap g) else isep.
Proof. exact separator_from_gap. Qed.
Print Assumptions C18_separator_shape.

(* the two implementations of "this gap holds a blank line" (regex on the text, scan over byte offsets of the whole buffer) agree on
   every span of every buffer, and both are the model's has_empty_line *)
Theorem C18_blank_line_detectors_agree : forall pre g post,
  _gap_has_empty_line_offsets (pre ++ g ++ post) (Z.of_nat (List.length pre)) (Z.of_nat (List.length pre + List.length g)) None
  = Some (gap_has_empty_line g) /\ gap_has_empty_line g = has_empty_line g.
Proof. intros pre g post. split; [apply offsets_twin_agrees | apply gap_has_empty_line_eq]. Qed.
Print Assumptions C18_blank_line_detectors_agree.

From F0 Require Import FmtLib.
From Dyn Require Import FmtGen FmtGenProps.

(* the repaired layout of a second trailing comment (F-54), over the regenerated format_trivia: it starts its own line at the structural indent *)
Theorem C18_late_comment_own_line : forall l indent,
  format_trivia_gen (map of_triv l) indent = Some (format_trivia (demote l false) indent).
Proof. exact format_trivia_gen_spec. Qed.
Print Assumptions C18_late_comment_own_line.

(* Design spike: gap canonicalisation as a syntax-to-syntax function.
   canon c ind rewrites only gaps, comment spelling and integer spelling. *)
From Coq Require Import List Ascii String Bool Arith Lia.
Import ListNotations.
From F0 Require Import F0s Specs P1 P2 P3g P5 P6 P7 P8 P9 P10 P11 Canon P12 P13.
Open Scope char_scope.

Definition cgap (g : str) (k : nat) : str := LF :: blank g ++ sp k.       (* own line at indent k *)
Definition ccmt (raw : str) : cnode := CCmt (spec_comment_inline raw).

Section CLines.
  Variable canon_child : cnode -> cnode.
  Variables (need_bind : bool) (ind : nat).
  Fixpoint canon_lines (l : list (str * cnode)) (prev : option cnode) (seen : bool) : list (str * cnode) :=
    match l with
    | [] => []
    | (g, n) :: rest =>
        (if is_cmt n then
           let inline_ok := match prev with
                            | Some p => (if need_bind then is_bind p else true) && negb (has_nl g) && seen
                            | None => false end in
           ((if inline_ok then [" "] else cgap g (ind)), ccmt (craw n))
         else (cgap g ind, canon_child n))
        :: canon_lines rest (Some n) (if is_cmt n then seen else true)
    end.
  Fixpoint canon_inline (l : list (str * cnode)) : list (str * cnode) :=
    match l with [] => [] | (g, n) :: rest => ([" "], canon_child n) :: canon_inline rest end.
End CLines.

Definition grc (r : bool) : str := if r then [" "] else [].
Fixpoint canon (c : cnode) (ind : nat) : cnode :=
  match c with
  | CAtom isint t => CAtom isint (if isint then strip_zeros t else t)
  | CCmt raw => ccmt raw
  | CBind name g1 g2 v g3 =>
      if has_nl g2 then CBind name [" "] (cgap g2 (indent_from_gap g2)) (canon v (indent_from_gap g2)) []
      else CBind name [" "] [" "] (canon v ind) []
  | CSet r gr body cg =>
      match body with
      | [] => CSet r (grc r) [] (if has_empty_line cg then LF :: LF :: sp ind else [" "])
      | _ =>
        if negb (has_nl (ctext c)) then
          CSet r (grc r)
            ((fix go (l : list (str * cnode)) : list (str * cnode) :=
                match l with [] => [] | (g, n) :: t => ([" "], canon n (ind + 2)) :: go t end) body) [" "]
        else
          CSet r (grc r)
            ((fix go (l : list (str * cnode)) (prev : option cnode) (seen : bool) : list (str * cnode) :=
                match l with
                | [] => []
                | (g, n) :: rest =>
                    (if is_cmt n then
                       let inline_ok := match prev with
                                        | Some p => is_bind p && negb (has_nl g) && seen
                                        | None => false end in
                       ((if inline_ok then [" "] else cgap g (ind + 2)), ccmt (craw n))
                     else (cgap g (ind + 2), canon n (ind + 2)))
                    :: go rest (Some n) (if is_cmt n then seen else true)
                end) body None false)
            (LF :: (if spec_q1 body then [] else blank cg) ++ sp ind)
      end
  | CList body cg =>
      match body with
      | [] => CList [] (if has_empty_line cg then LF :: LF :: sp ind else [" "])
      | _ =>
        if negb (has_nl (ctext c)) then
          CList
            ((fix go (l : list (str * cnode)) : list (str * cnode) :=
                match l with [] => [] | (g, n) :: t => ([" "], canon n ind) :: go t end) body) [" "]
        else
          CList
            ((fix go (l : list (str * cnode)) (prev : option cnode) (seen : bool) : list (str * cnode) :=
                match l with
                | [] => []
                | (g, n) :: rest =>
                    (if is_cmt n then
                       let inline_ok := match prev with
                                        | Some p => negb (has_nl g) && seen
                                        | None => false end in
                       ((if inline_ok then [" "] else cgap g (ind + 2)), ccmt (craw n))
                     else (cgap g (ind + 2), canon n (ind + 2)))
                    :: go rest (Some n) (if is_cmt n then seen else true)
                end) body None false)
            (LF :: blank cg ++ sp ind)
      end
  end.

Definition canon_file (f : cfile) : cfile :=
  match f_children f with
  | [] => {| f_children := []; f_tail := [] |}
  | (g0, c0) :: rest =>
      {| f_children :=
           ([], if is_cmt c0 then ccmt (craw c0) else canon c0 0) ::
           (fix go (l : list (str * cnode)) (seen : bool) : list (str * cnode) :=
              match l with
              | [] => []
              | (g, n) :: t =>
                  (if is_cmt n then ((if negb (has_nl g) && seen then [" "] else cgap g 0), ccmt (craw n))
                   else (cgap g 0, canon n 0))
                  :: go t (seen || negb (is_cmt n))
              end) rest (negb (is_cmt c0));
         f_tail := if has_empty_line (f_tail f) then [LF; LF] else if has_nl (f_tail f) then [LF] else [] |}
  end.

(* Correspondence runner for the mapping API on the top-level set (C14): get / set / del by key, compared with the
   implementation after every call (lookup result, error class, printed view). *)
From Coq Require Import List Ascii String Bool Arith. Import ListNotations.
From E Require Import EditModel EditRun EditProofs EditLaws.

Inductive mop := MGet (k : str) | MSet (k : str) (t : str) | MDel (k : str)
  | MSetIn (outers : list str) (k : str) (t : str)   (* src[o1]...[on][k] = t : assignment through nested (explicit or attrpath-derived) sets *)
  | MGetIn (outers : list str) (k : str).
(* expectation: for MGet the atom text / "is a set" / missing; for MSet nothing; for MDel ok or KeyError; plus the view *)
Inductive mexp := XAtom (t : str) | XSet | XMissing | XOk | XKeyErr.
(* follow set-valued bindings by name *)
Fixpoint nav (st0 : st) (r : sref) (outers : list str) : option sref :=
  match outers with
  | [] => Some r
  | o :: rest => match find_by_name st0 (vals_of st0 r) o with
                 | Some i => match val_of st0 i with VSet _ _ _ => nav st0 (SOwn i) rest | VAt _ => None end
                 | None => None end
  end.
Definition step (st0 : st) (o : mop) : st * mexp :=
  match o with
  | MGet k => (st0, match getitem st0 SRoot k with Some (VAt t) => XAtom t | Some (VSet _ _ _) => XSet | None => XMissing end)
  | MSet k t => (set_setitem st0 SRoot k (VAt t), XOk)
  | MDel k => let '(s1, r) := set_delitem st0 SRoot k in (s1, match r with Ok _ => XOk | Err _ => XKeyErr end)
  | MSetIn outers k t =>
      match nav st0 SRoot outers with
      | Some r => (set_setitem st0 r k (VAt t), XOk)
      | None => (st0, XMissing) end
  | MGetIn outers k =>
      match nav st0 SRoot outers with
      | Some r => (st0, match getitem st0 r k with Some (VAt t) => XAtom t | Some (VSet _ _ _) => XSet | None => XMissing end)
      | None => (st0, XMissing) end
  end.
Definition mexp_eqb (a b : mexp) : bool :=
  match a, b with XAtom x, XAtom y => streq x y | XSet, XSet | XMissing, XMissing | XOk, XOk | XKeyErr, XKeyErr => true | _, _ => false end.
Fixpoint mrun (st0 : st) (ops : list (mop * mexp * tree)) (i : nat) : option nat :=
  match ops with
  | [] => None
  | (o, e, v) :: rest =>
      let '(st1, r) := step st0 o in
      if mexp_eqb r e && tree_eqb 1000 (view st1) v then mrun st1 rest (S i) else Some i
  end.
Definition mcheck (c : idoc * tree * list (mop * mexp * tree)) : option nat :=
  let '(d, v0, ops) := c in
  match parse_doc d with
  | Err _ => Some 9999
  | Ok st0 => if tree_eqb 1000 (view st0) v0 then mrun st0 ops 0 else Some 9998
  end.

(* finding F-17 inside the model: { a.b = 1; c = 2; }, del m["a"] succeeds, the mapping no longer has `a`, and the
   printed document is unchanged *)
Definition d17 : idoc := ISet false [([s "a"; s "b"], IAtom (s "1")); ([s "c"], IAtom (s "2"))].
Example F17_witness :
  match parse_doc d17 with
  | Ok st0 => let '(st1, r) := set_delitem st0 SRoot (s "a") in
              r = Ok tt /\ getitem st1 SRoot (s "a") = None /\ tree_eqb 100 (view st1) (view st0) = true
  | Err _ => False end.
Proof. vm_compute. repeat split; reflexivity. Qed.

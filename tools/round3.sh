#!/bin/sh
# usage: tools/round2.sh Cxx [checks...] — confirm the third-round seed of Cxx from /tmp/wt3 and run the given checks (default: Cxx) against it
id="$1"; shift; checks="${*:-$id}"
timeout 900 /verif/tools/confirm_seed.sh "$id" "/tmp/wt3/$id" "$id-3" 2>&1 | grep -v "WARNING conda" | head -2
[ -f /verif/seeded/$id-3/patch.diff ] || exit 1
TAIL=${TAIL:-4} timeout 1500 /verif/tools/try_patch.sh /verif/seeded/$id-3/patch.diff $checks 2>/dev/null | cut -c1-230

import sys, random
sys.path.insert(0,'/repo')
from nix_manipulator.parser import parse_to_ast
def leaves(n, out, path):
    if n.child_count==0:
        if n.end_byte>n.start_byte or n.is_missing: out.append((n,path))
        return
    for i,c in enumerate(n.children): leaves(c,out,path+[n])
def check(s):
    root=parse_to_ast(s)
    if root.has_error: return None
    out=[]; leaves(root,out,[])
    bad=[]
    for idx,(n,path) in enumerate(out):
        if n.type!='comment': continue
        parent=path[-1]
        # previous / next non-comment leaves
        p=idx-1
        while p>=0 and out[p][0].type=='comment': p-=1
        q=idx+1
        while q<len(out) and out[q][0].type=='comment': q+=1
        if p<0 or q>=len(out):
            exp=root
        else:
            pa=out[p][1]; qa=out[q][1]
            k=0
            while k<len(pa) and k<len(qa) and pa[k]==qa[k]: k+=1
            exp=pa[k-1]
        if exp!=parent: bad.append((n.text, parent.type, exp.type))
    return bad
samples = [
 "let /*a*/ x /*b*/ = /*c*/ 1 /*d*/ ; /*e*/ in /*f*/ x /*g*/",
 "{ /*a*/ a /*b*/ . /*c*/ b /*d*/ = /*e*/ [ /*f*/ 1 /*g*/ 2 /*h*/ ] /*i*/ ; /*j*/ }",
 "/*0*/ { /*a*/ x /*b*/ , /*c*/ y /*d*/ ? /*e*/ 1 /*f*/ , /*g*/ ... /*h*/ } /*i*/ @ /*j*/ args /*k*/ : /*l*/ f /*m*/ x /*n*/ y /*o*/",
 "if /*a*/ c /*b*/ then /*c*/ t /*d*/ else /*e*/ e /*f*/",
 "with /*a*/ p /*b*/ ; /*c*/ assert /*d*/ c /*e*/ ; /*f*/ a /*g*/ . /*h*/ b /*i*/ or /*j*/ d /*k*/ + /*l*/ ! /*m*/ x /*n*/ ? /*o*/ y /*p*/",
 "{ inherit /*a*/ ( /*b*/ p /*c*/ ) /*d*/ x /*e*/ y /*f*/ ; /*g*/ inherit /*h*/ z /*i*/ ; }",
 "( /*a*/ x /*b*/ ) /*c*/",
 "rec /*a*/ { /*b*/ }",
 "f /*a*/ rec /*b*/ { /*c*/ a = ''s'' /*d*/ ; }",
 "{\n  a = 1; # c\n  # own\n\n  b = x;\n}\n# trailing\n",
]
for s in samples:
    print(check(s), '<-', s[:60].replace('\n','\\n'))

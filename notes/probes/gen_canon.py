import sys, random
sys.path.insert(0,'/repo')
from nix_manipulator import parse
R = random.Random(int(sys.argv[1]) if len(sys.argv)>1 else 0)
IDS = ['a','b','foo','bar_1',"x'",'pname','version','meta','lib']
def ident(): return R.choice(IDS)
def atom():
    k = R.randrange(7)
    return [lambda: str(R.randrange(1000)), lambda: '"s%d"'%R.randrange(9), ident, lambda:'true', lambda:'null',
            lambda:'./p/%s.nix'%ident().replace("'",''), lambda: 'pkgs.'+ident()][k]()
def comment(ind): return ' '*ind + '# ' + R.choice(['note','TODO: x','c c c'])
def value(ind, depth):
    """returns text of value starting at current column (first line not indented), multi-line parts indented by ind"""
    k = R.randrange(10)
    if depth<=0 or k<4: return atom()
    if k<6: return mset(ind, depth-1)
    if k<8: return mlist(ind, depth-1)
    if k==8: return '{ %s = %s; }' % (ident(), atom())
    return '[ %s ]' % atom() if R.random()<0.5 else '[ ]' if R.random()<0.5 else '{ }'
def bindings(ind, depth, n):
    lines=[]
    names=set()
    for i in range(n):
        if i>0 and R.random()<0.2: lines.append('')
        if R.random()<0.25: lines.append(comment(ind))
        nm = ident()
        while nm in names: nm = nm+'_'
        names.add(nm)
        if R.random()<0.15:
            nm = nm + '.' + ident()
        l = ' '*ind + nm + ' = ' + value(ind, depth) + ';'
        if R.random()<0.2: l += ' # eol'
        lines.append(l)
    if R.random()<0.15: lines.append(comment(ind))
    return lines
def mset(ind, depth):
    n = R.randrange(1,4)
    return '{\n' + '\n'.join(bindings(ind+2, depth, n)) + '\n' + ' '*ind + '}'
def mlist(ind, depth):
    n = R.randrange(1,4)
    lines=[]
    for i in range(n):
        if i>0 and R.random()<0.15: lines.append('')
        if R.random()<0.2: lines.append(comment(ind+2))
        k=R.randrange(6)
        if depth>0 and k==0: v = mset(ind+2, depth-1)
        elif depth>0 and k==1: v = mlist(ind+2, depth-1)
        else: v = atom()
        l=' '*(ind+2)+v
        if R.random()<0.15: l += ' # eol'
        lines.append(l)
    return '[\n' + '\n'.join(lines) + '\n' + ' '*ind + ']'
def doc():
    s=''
    if R.random()<0.3: s += '# header\n' + ('\n' if R.random()<0.5 else '')
    s += mset(0, 3) + '\n'
    return s
bad=0
N=int(sys.argv[2]) if len(sys.argv)>2 else 2000
for i in range(N):
    d = doc()
    src = parse(d)
    assert not src.contains_error, d
    r = src.rebuild()
    if r != d:
        bad+=1
        if bad<=5:
            print('--- MISMATCH'); print(d); print('--- got'); print(r)
print('bad', bad, 'of', N)

(* Design spike for C10: the core of expressions/identifier.py:_resolve_identifier over an explicit scope chain
   (bindings, quoted-name fallback, `inherit x;` without source, both visited sets), hand-written in the code's
   order of attempts; correspondence harness res_corr.py; termination theorem in ResolveProofs.v. *)
From Coq Require Import List Ascii String Bool Arith Lia.
Import ListNotations.
Notation str := (list ascii).
Fixpoint streq (a b : str) : bool :=
  match a, b with [], [] => true | x :: a', y :: b' => Ascii.eqb x y && streq a' b' | _, _ => false end.

Inductive value := VId (name : str) | VOther (tag : nat).
Inductive entry := EBind (bid : nat) (name : str) (v : value) | EInh (iid : nat) (names : list str).
Notation scope := (list entry).
Inductive rerr := Unbound | CyclicRef | CyclicInh | OutOfFuel.
Inductive rres := Found (tag : nat) (bid : nat) | RErr (e : rerr).

(* Python: name.strip of the double-quote character *)
Definition dq : ascii := """"%char.
Fixpoint lstrip_q (x : str) : str := match x with c :: r => if Ascii.eqb c dq then lstrip_q r else x | [] => [] end.
Definition strip_q (x : str) : str := rev (lstrip_q (rev (lstrip_q x))).

Fixpoint find_bind (sc : scope) (name : str) : option (nat * value) :=
  match sc with
  | [] => None
  | EBind b n v :: t => if streq n name then Some (b, v) else find_bind t name
  | _ :: t => find_bind t name end.
Fixpoint find_quoted (sc : scope) (name : str) : option (nat * value) :=
  match sc with
  | [] => None
  | EBind b n v :: t => if streq (strip_q n) name then Some (b, v) else find_quoted t name
  | _ :: t => find_quoted t name end.
Fixpoint find_inh (sc : scope) (name : str) : option nat :=
  match sc with
  | [] => None
  | EInh i names :: t => if existsb (fun n => streq n name) names then Some i else find_inh t name
  | _ :: t => find_inh t name end.
Definition mem (x : nat) (l : list nat) : bool := existsb (Nat.eqb x) l.

(* rchain: innermost scope first.  The scope chain handed to a recursive call is the suffix starting at the scope
   where the name was found (Python: scopes[: n - index]); `inherit` continues in the strictly outer suffix. *)
Fixpoint resolve (fuel : nat) (name : str) (rchain : list scope) (vis ivis : list nat) : rres :=
  match fuel with
  | O => RErr OutOfFuel
  | S f =>
    (fix scan (rc : list scope) : rres :=
       match rc with
       | [] => RErr Unbound
       | sc :: outer =>
           match (match find_bind sc name with Some x => Some x | None => find_quoted sc name end) with
           | Some (bid, v) =>
               if mem bid vis then RErr CyclicRef
               else match v with
                    | VId n2 => resolve f n2 (sc :: outer) (bid :: vis) ivis
                    | VOther tag => Found tag bid end
           | None =>
               match find_inh sc name with
               | Some iid =>
                   if mem iid ivis then RErr CyclicInh
                   else match outer with [] => RErr Unbound | _ => resolve f name outer vis (iid :: ivis) end
               | None => scan outer
               end
           end
       end) rchain
  end.

Definition entries (rc : list scope) : nat := List.length (List.concat rc).
Definition resolve_top (name : str) (rchain : list scope) : rres := resolve (S (entries rchain)) name rchain [] [].

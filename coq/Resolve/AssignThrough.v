(* Design spike for C11: which binding `set KEY v` rewrites when the addressed binding's value is a reference —
   cli/manipulations.py:_set_value_in_attrset's order of attempts over the resolver core.
   Document shape of the pilot: let <layer> in { <body> } (plain or rec).  Bindings are identified by ids. *)
From Coq Require Import List Ascii String Bool Arith Lia.
Import ListNotations.
From R Require Import ResolveCore.

(* first binding of that name in a scope (plain name match, as _find_binding / `outer.name == target_name`) *)
Fixpoint first_named (sc : scope) (name : str) : option nat :=
  match sc with
  | [] => None
  | EBind b n _ :: t => if streq n name then Some b else first_named t name
  | _ :: t => first_named t name end.

(* [letsc]: the let layer (may be empty = no let); [body]: the set's bindings; [self]: the addressed binding's id;
   [v]: its value.  Result: id of the binding whose value is overwritten. *)
Definition assign_target (letsc body : scope) (isrec : bool) (self : nat) (v : value) : nat :=
  match v with
  | VOther _ => self
  | VId name =>
      let chain : list (list entry) := (if isrec then [body] else []) ++ (match letsc with [] => [] | _ => [letsc] end) in   (* innermost first *)
      match (match chain with [] => RErr Unbound | _ => resolve_top name chain end) with
      | Found _ bid => bid                                   (* assign-through: the end of the reference chain *)
      | RErr _ =>
          match first_named letsc name with
          | Some b => b                                      (* let_bindings fallback: the let binding NAMED like the reference *)
          | None => match first_named body name with
                    | Some b => b                            (* sibling of that name *)
                    | None => self end                       (* overwrite the addressed binding *)
          end
      end
  end.

(* C11, positive half: whenever the reference resolves, the rewritten binding is the one the resolver designates *)
Theorem C11_target (letsc body : list entry) (isrec : bool) (self : nat) (name : str) (tag bid : nat) :
  let chain : list (list entry) := (if isrec then [body] else []) ++ (match letsc with [] => [] | _ => [letsc] end) in
  chain <> [] -> resolve_top name chain = Found tag bid ->
  assign_target letsc body isrec self (VId name) = bid.
Proof.
  cbv zeta. intros Hne H. unfold assign_target.
  destruct ((if isrec then [body] else []) ++ match letsc with [] => [] | _ :: _ => [letsc] end) as [|c0 cs] eqn:E; [congruence|].
  rewrite H. reflexivity.
Qed.
(* and a value that is not a reference is overwritten in place *)
Theorem C11_plain (letsc body : list entry) (isrec : bool) (self tag : nat) : assign_target letsc body isrec self (VOther tag) = self.
Proof. reflexivity. Qed.
Print Assumptions C11_target.

"""Shared pieces of the edit-property searches (labelled tests, never proofs): document generator with wrappers and
let layers, independent readers (attribute tree, let chain, comments) over the tree-sitter CST, reference semantics
of set/rm on the flattened attribute tree, deep snapshots of the object graph."""
import dataclasses, os, random, re, sys
sys.path.insert(0, os.path.join(os.path.dirname(os.path.abspath(__file__)), '..', 'suites'))
from nixread import ts, set_node, attr_tree, bindings
from gen_docs import DocGen, IDS
from nix_manipulator import parse
from nix_manipulator.cli.manipulations import set_value, remove_value

IDENT = re.compile(r"[A-Za-z_][A-Za-z0-9_']*\Z")
KEYWORDS = {'assert', 'else', 'if', 'in', 'inherit', 'let', 'rec', 'then', 'with', 'or'}

# ------------------------------------------------------------------ documents
WRAPPERS = {          # name -> (prefix, suffix, allows_scoped_ops)
    'bare': ('', '', True),
    'lambda_formals': ('{ pkgs, lib }:\n', '', True),
    'lambda_id': ('pkgs:\n', '', True),
    'lambda_id_inline': ('pkgs: ', '', True),               # body starts on the colon line (third round of seeds)
    'lambda2_inline': ('final: prev: ', '', True),
    'lambda_formals_inline': ('{ pkgs }: ', '', True),
    'with': ('with pkgs;\n', '', False),
    'assert': ('assert cond;\n', '', False),
    'call': ('stdenv.mkDerivation ', '', False),
    'lambda_call': ('{ stdenv }:\nstdenv.mkDerivation ', '', False),
    # coverage probe (cli/manipulations.py:_resolve_target_set_from_expr): the remaining ways the edited set is reached
    'paren': ('(', ')', False), 'call_paren_arg': ('mk (', ')', False), 'call_curried': ('mk extra ', '', False), 'call_nested': ('outer (inner ', ')', False),
    'with_assert': ('with pkgs;\nassert cond;\n', '', False), 'lambda_with': ('{ pkgs }:\nwith pkgs;\n', '', False),
    # tenth round: parenthesised callees below a curried application, attribute selection as callee, curried three deep
    'call_paren_head': ('(f x) y ', '', False), 'call_paren_head2': ('((f x) y) ', '', False), 'lambda_call_paren_head': ('{ pkgs }:\n(pkgs.lib.makeOverridable mk) pkgs ', '', False),
    'call_curried3': ('mk a b c ', '', False), 'with_assert_call_paren': ('with pkgs;\nassert true;\n(callPackage ./generic.nix) extra ', '', False),
    'let_ident': ('let\n  cfg = ', ';\nin\ncfg', False), 'let_call_ident': ('let\n  cfg = ', ';\nin\nmk cfg', False),
}
INDENTED_BODY = ('let_ident', 'let_call_ident')
LAYER_NAMES = ['v', 'w', 'src', 'a']
def gen_layers(R, n):
    ls = [{k: R.choice(['1', '"s"', '[ 1 2 ]', './p.nix']) for k in R.sample(LAYER_NAMES, R.randint(1, 3))} for _ in range(n)]
    for i in range(1, n):
        if R.random() < 0.3: ls[i] = dict(ls[i - 1])        # the same names and values in adjacent layers
    return ls
def let_text(layers, body, joints=None):
    """joints[i] = comment text placed between the `in` of layer i and what follows (the next `let` or the body)"""
    t = body
    for i, L in reversed(list(enumerate(layers))):
        j = joints[i] if joints else ''
        t = 'let\n' + ''.join('  %s = %s;\n' % kv for kv in L.items()) + 'in\n' + j + t
    return t
TINY = ['{ a.b.c = 1; }', '{\n  a.b.c = 1;\n}', 'rec { a.b.c = 1; }', '{ a.b = 1; }', '{ x = 1; }', '{ a.b.c = 1; a.b.d = 2; }', '{\n  a.b.c.d = 1;\n}']
def gen_doc(R, scoped=False, maxlayers=3, quoted=0.0, tiny=0.0, joints=0.0, attrpath_nested=False, layer_refs=0.0, inherits=0.0):
    """canonical document: wrapper + 0..n let layers directly around a canonical F0 set; returns (text, meta)"""
    G = DocGen(R, refs=False, families=0.2)
    G.attrpath_top_only = not attrpath_nested
    G.quoted_names = quoted
    body = G.mset(0, 2)
    is_tiny = R.random() < tiny
    if is_tiny: body = R.choice(TINY)
    elif R.random() < 0.25: body = 'rec ' + body
    commented = R.random() < 0.3 and not is_tiny
    if commented: body = R.choice(['# about this set\n', '# pinned\n# by tooling\n', '/* note */\n']) + body
    shapes = [k for k, v in WRAPPERS.items() if v[2] or not scoped]
    shape = R.choice(shapes)
    nl = R.choice([0, 0, 1, 1, 2, 3][:maxlayers + 3]) if WRAPPERS[shape][2] else 0
    layers = gen_layers(R, nl)
    pre, suf, _ = WRAPPERS[shape]
    inherited = []
    if not is_tiny and R.random() < inherits and body.rstrip().endswith('\n}'):
        # inherit clauses: the names they bring in are attributes of the set whose values are not sets
        line = R.choice(['  inherit inh1 inh2;\n', '  inherit (pkgs) inh1;\n', '  inherit inh1;\n  inherit (lib) inh2;\n'])
        inherited = re.findall(r'inh\d', line); body = body.rstrip()[:-1] + line + '}'
    refs = []
    if layers and not is_tiny and R.random() < layer_refs and body.rstrip().endswith('\n}'):
        # bindings of the body whose value is a name bound in a let layer: an edit of them goes through the reference
        for nm in R.sample(sorted({k for L in layers for k in L}), 1):
            refs.append('ref_' + nm); body = body.rstrip()[:-1] + '  ref_%s = %s;\n}' % (nm, nm)
    jt = [R.choice(['# joint %d\n' % i, '', '/* j%d */\n' % i, '# a\n# b\n']) if R.random() < joints else '' for i in range(nl)]
    if shape in INDENTED_BODY: text = pre + body.replace('\n', '\n  ') + suf + '\n'
    elif shape in ('call', 'lambda_call') or not WRAPPERS[shape][2]: text = pre + body + suf + '\n'
    else:
        if layers and pre.endswith(' '): pre = pre[:-1] + '\n'          # a let under an inline lambda head starts on its own line
        text = pre + let_text(layers, body, jt) + suf + '\n'
    return text, {'shape': shape, 'layers': layers, 'commented': commented, 'joints': jt, 'tiny': is_tiny, 'refs': refs, 'inherited': inherited}

# ------------------------------------------------------------------ readers over the CST
def read_layers(text):
    """let layers (outermost first) on the spine from the root to the edited set; None when the text has an error"""
    root = ts(text)
    if root.has_error: return None
    layers, n = [], root
    while n is not None:
        t = n.type
        if t == 'source_code':
            ks = [c for c in n.children if c.type != 'comment']
            n = ks[0] if len(ks) == 1 else None
        elif t == 'let_expression':
            L = {}
            for c in n.children:
                if c.type == 'binding_set':
                    for b in c.children:
                        if b.type == 'binding':
                            k_ = b.child_by_field_name('attrpath').text.decode()
                            while k_ in L: k_ += ' (defined again)'                 # thirteenth round: a second definition of one path must not hide behind the first
                            L[k_] = ' '.join(b.child_by_field_name('expression').text.decode().split())
            layers.append(L); n = n.child_by_field_name('body')
        elif t in ('function_expression', 'with_expression', 'assert_expression'): n = n.child_by_field_name('body')
        elif t == 'parenthesized_expression': n = n.child_by_field_name('expression')
        elif t == 'apply_expression': n = n.child_by_field_name('argument')
        else: break
    return layers
def read_tree(text):
    root = ts(text)
    if root.has_error: return None
    s = set_node(root)
    if s is None: return None
    return attr_tree(s)
def body_text(text):
    s = set_node(ts(text))
    return None if s is None else s.text.decode()
def comments_of(text):
    out = []
    def w(n):
        if n.type == 'comment': out.append(n.text.decode().strip())
        for c in n.children: w(c)
    w(ts(text)); return out
def order_of(text):
    """leaf paths in textual order"""
    t = read_tree(text)
    return None if t is None else list(t[0].keys())

def mixed_shape(text, p):
    """the path runs through an attrpath binding whose value is an explicit set (`a.b = { c = 1; }` and path a.b.c):
    the library refuses such edits ('Mixed explicit binding inside attrpath' / KeyError); not judged"""
    from nixread import attr_names
    s = set_node(ts(text))
    def walk(sn, prefix):
        for b in bindings(sn):
            if b.type != 'binding': continue
            names = attr_names(b.child_by_field_name('attrpath')); val = b.child_by_field_name('expression')
            if names is None: continue
            full = prefix + tuple(names)
            isset = val.type in ('attrset_expression', 'rec_attrset_expression')
            if len(names) > 1 and isset and len(p) > len(full) and p[:len(full)] == full: return True
            if isset and p[:len(full)] == full and walk(val, full): return True
        return False
    return s is not None and walk(s, ())

# ------------------------------------------------------------------ reference semantics on the flattened tree
def norm(v): return ' '.join(v.split())
def value_leaves(v):
    """flatten a VALUE text: {(): text} for non-sets / empty sets, nested leaves for a non-empty set literal"""
    root = ts('{ x = %s; }' % v)
    if root.has_error: return None
    t, d = attr_tree(set_node(root))
    return {k[1:]: val for k, val in t.items()}
def is_setlike(val): return val.startswith('{') or val.startswith('rec {')
def ref_set(tree, p, v):
    """expected tree after a successful `set p v`; or ('refuse', reason) when the reference says it must be refused"""
    for k in range(1, len(p)):
        anc = tree.get(p[:k])
        if anc is not None and not is_setlike(anc): return ('refuse', 'non-set on the path')
    vl = value_leaves(v)
    if vl is None: return ('refuse', 'invalid value')
    new = {k: val for k, val in tree.items() if k[:len(p)] != p and not (k == p[:len(k)] and len(k) < len(p))}
    for k, val in vl.items(): new[p + k] = val
    return new
def ref_rm(tree, p):
    hit = [k for k in tree if k[:len(p)] == p]
    if not hit: return ('refuse', 'missing key')
    return {k: val for k, val in tree.items() if k[:len(p)] != p}
def tree_matches(got, exp, p):
    """got == exp up to empty-set leaves at ancestors of p (a set emptied by rm is kept as `{ }`, an attrpath parent is pruned)"""
    g = dict(got); e = dict(exp)
    for k in range(0, len(p)):
        for d in (g, e):
            if d.get(p[:k]) in ('{ }', '{}'): del d[p[:k]]
    return g == e

# ------------------------------------------------------------------ deep snapshot of the object graph
def snapshot(obj, _depth=0, _seen=None):
    """structural dump: dataclass fields, lists, dicts; tree-sitter nodes and the Scope.owner back-pointer are skipped"""
    _seen = _seen if _seen is not None else set()
    if obj is None or isinstance(obj, (str, int, float, bool, bytes)): return obj
    if id(obj) in _seen: return '<cycle>'
    if _depth > 60: return '<deep>'
    tn = type(obj).__name__
    if tn in ('Node', 'Tree'): return '<cst>'
    _seen = _seen | {id(obj)}
    if isinstance(obj, dict): return ('dict', tuple((snapshot(k, _depth + 1, _seen), snapshot(v, _depth + 1, _seen)) for k, v in obj.items()))
    extra = ()
    if isinstance(obj, (list, tuple)): extra = tuple(snapshot(x, _depth + 1, _seen) for x in obj)
    fields = ()
    if dataclasses.is_dataclass(obj):
        fields = tuple((f.name, snapshot(getattr(obj, f.name, None), _depth + 1, _seen)) for f in dataclasses.fields(obj) if f.name not in ('owner', 'node', 'source_path'))
    elif hasattr(obj, '__dict__') and not isinstance(obj, (list, tuple)):
        fields = tuple((k, snapshot(v, _depth + 1, _seen)) for k, v in sorted(vars(obj).items()) if k not in ('owner', 'node', 'source_path'))
    elif not isinstance(obj, (list, tuple)):
        return '<%s>' % tn
    return (tn, extra, fields)

# ------------------------------------------------------------------ running operations
def apply(src, op):
    """op = ('set', path, value) | ('rm', path); returns ('ok', text) or ('err', class name, message)"""
    try:
        if op[0] == 'set': return ('ok', set_value(source=src, npath=op[1], value=op[2]))
        return ('ok', remove_value(source=src, npath=op[1]))
    except Exception as e:
        return ('err', type(e).__name__, str(e)[:120])

def existing_paths(text):
    t = read_tree(text)
    if t is None: return []
    out = set()
    for k in t[0]:
        if any(s.startswith('<inherit') for s in k): continue
        for i in range(1, len(k) + 1): out.add(k[:i])
    return sorted(out)
def seg(n): return n if IDENT.match(n) and n not in KEYWORDS else '"' + n.replace('\\', '\\\\').replace('"', '\\"') + '"'
def pstr(p): return '.'.join(seg(x) for x in p)
VALUES = ['7', '"new"', './n.nix', 'true', '[ 1 2 ]', '{ k = 1; }', '{ }', '"a b"', 'null', '12']
BADVALUES = ['1 +', '', '{ a = ; }', '# c', '"x', ')', 'a = 1;', '1; 2', '1 /* c']
BADPATHS = ['', 'a..b', '"x', 'a."b', '.', '@', '@@', 'a.', '1a', '@x@', '@@v@', '@a.b@@', 'x@', 'a@b', '@ x', '@x ', '@.x', '@x.', 'a\n', 'x.y\n', '@v\n', 'a\n.b', 'a\t', ' a']

(* Design spike: the shape py2v would emit for _escape_nix_string (idiom B: index scan ->
   suffix recursion with fuel) and _parse_npath (idiom A: for ch in s -> fold with state),
   the hand-written Nix string reading spec, and the all-strings round-trip theorems. *)
From Coq Require Import List Ascii String Bool Arith Lia.
Import ListNotations.
Open Scope char_scope.
Definition str := list ascii.
Definition LF : ascii := "010". Definition CR : ascii := "013". Definition TAB : ascii := "009".
Definition BS : ascii := "\". Definition DQ : ascii := """".
Notation "a =c b" := (Ascii.eqb a b) (at level 70).

(* ---- GENERATED SHAPE: primitive.py:_escape_nix_string ---- *)
Fixpoint esc_loop (fuel : nat) (interp : bool) (rest : str) (escaped : str) : str :=
  match fuel with
  | O => escaped
  | S fuel' =>
    match rest with
    | [] => escaped
    | ch :: rest1 =>
      if ch =c BS then esc_loop fuel' interp rest1 (escaped ++ [BS; BS])
      else if ch =c DQ then esc_loop fuel' interp rest1 (escaped ++ [BS; DQ])
      else if ch =c LF then esc_loop fuel' interp rest1 (escaped ++ [BS; "n"])
      else if ch =c CR then esc_loop fuel' interp rest1 (escaped ++ [BS; "r"])
      else if ch =c TAB then esc_loop fuel' interp rest1 (escaped ++ [BS; "t"])
      else if interp && (ch =c "$") && (match rest1 with c2 :: _ => c2 =c "{" | [] => false end)
           then esc_loop fuel' interp (skipn 2 rest) (escaped ++ [BS; "$"; "{"])
      else esc_loop fuel' interp rest1 (escaped ++ [ch])
    end
  end.
Definition escape_nix_string (interp : bool) (value : str) : str := esc_loop (List.length value) interp value [].

(* ---- HAND-WRITTEN SPEC: how Nix reads the body of a "..." string without interpolation ----
   flex rules: ([^\$\"\\] | \$[^\{\"\\] | \\{ANY} | \$\\{ANY})*  then unescapeStr. *)
Definition unesc (c : ascii) : ascii :=
  if c =c "n" then LF else if c =c "r" then CR else if c =c "t" then TAB else c.
Fixpoint nix_read (fuel : nat) (s : str) : option str :=
  match fuel with
  | O => match s with [] => Some [] | _ => None end
  | S f =>
    match s with
    | [] => Some []
    | c :: r =>
      if c =c BS then
        match r with
        | [] => None
        | e :: r' => option_map (cons (unesc e)) (nix_read f r')
        end
      else if c =c DQ then None
      else if c =c "$" then
        match r with
        | [] => Some ["$"]
        | d :: r' =>
          if d =c "{" then None                      (* interpolation *)
          else if d =c DQ then None                  (* closing quote inside body *)
          else if d =c BS then
            match r' with
            | [] => None
            | e :: r'' => option_map (fun x => "$" :: unesc e :: x) (nix_read f r'')
            end
          else option_map (fun x => "$" :: d :: x) (nix_read f r')
        end
      else option_map (cons c) (nix_read f r)
    end
  end.
Definition nix_string_read (s : str) := nix_read (List.length s) s.

Eval vm_compute in option_map string_of_list_ascii
  (nix_string_read (escape_nix_string true (list_ascii_of_string "a$${b}\$""x${y}"))).

(* generalised loop lemma: accumulator is a prefix *)
Lemma esc_loop_acc fuel interp rest acc :
  esc_loop fuel interp rest acc = acc ++ esc_loop fuel interp rest [].
Proof.
  revert rest acc. induction fuel as [|f IH]; intros rest acc; cbn [esc_loop].
  - now rewrite app_nil_r.
  - destruct rest as [|ch rest1]; [now rewrite app_nil_r|].
    repeat match goal with
    | |- context [if ?b then _ else _] => destruct b
    end; cbn [app]; rewrite IH; symmetry; rewrite IH; rewrite ?app_assoc; reflexivity.
Qed.

(* clean structural spec of the escaper (hand-written), and refinement of the generated loop *)
Fixpoint escape_spec (interp : bool) (s : str) : str :=
  match s with
  | [] => []
  | ch :: rest1 =>
    if ch =c BS then BS :: BS :: escape_spec interp rest1
    else if ch =c DQ then BS :: DQ :: escape_spec interp rest1
    else if ch =c LF then BS :: "n" :: escape_spec interp rest1
    else if ch =c CR then BS :: "r" :: escape_spec interp rest1
    else if ch =c TAB then BS :: "t" :: escape_spec interp rest1
    else match rest1 with
         | c2 :: r2 => if interp && (ch =c "$") && (c2 =c "{")
                       then BS :: "$" :: "{" :: escape_spec interp r2
                       else ch :: escape_spec interp rest1
         | [] => ch :: escape_spec interp rest1
         end
  end.

Lemma esc_loop_spec interp : forall f rest, List.length rest <= f ->
  esc_loop f interp rest [] = escape_spec interp rest.
Proof.
  induction f as [|f IH]; intros rest Hle.
  - destruct rest; [reflexivity|cbn in Hle; lia].
  - destruct rest as [|ch rest1]; [reflexivity|].
    cbn [List.length] in Hle. cbn [esc_loop escape_spec app].
    destruct (ch =c BS); [rewrite esc_loop_acc, IH by lia; reflexivity|].
    destruct (ch =c DQ); [rewrite esc_loop_acc, IH by lia; reflexivity|].
    destruct (ch =c LF); [rewrite esc_loop_acc, IH by lia; reflexivity|].
    destruct (ch =c CR); [rewrite esc_loop_acc, IH by lia; reflexivity|].
    destruct (ch =c TAB); [rewrite esc_loop_acc, IH by lia; reflexivity|].
    destruct rest1 as [|c2 r2].
    + rewrite andb_false_r. rewrite esc_loop_acc, IH by (cbn; lia). reflexivity.
    + cbn [List.length] in Hle.
      destruct (interp && (ch =c "$") && (c2 =c "{")).
      * cbn [skipn]. rewrite esc_loop_acc, IH by lia. reflexivity.
      * rewrite esc_loop_acc, IH by (cbn [List.length]; lia). reflexivity.
Qed.

Theorem escape_refines interp value : escape_nix_string interp value = escape_spec interp value.
Proof. apply esc_loop_spec. lia. Qed.
Print Assumptions escape_refines.

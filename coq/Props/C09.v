(* C09 — scope selectors address exactly the intended let layer.
   Selector syntax over the GENERATED _split_scope_npath (Dyn.Gen, regenerated from cli/manipulations.py on this run);
   layer choice over the outermost-first layer list. *)
From Coq Require Import List Ascii Bool Arith Lia.
Import ListNotations.
From Dyn Require Import Gen ScopeSel.

(* k leading @ give depth k and the rest of the path; none gives "no selector"; only @ signs is the documented error *)
Theorem C09_selector_syntax : forall k rest, head_not_at rest ->
  _split_scope_npath (repeat AT k ++ rest) =
  match k with
  | O => Ok None
  | S _ => if isnil rest then Err 11 else Ok (Some (k, rest)) end.
Proof. exact split_scope_spec. Qed.
Print Assumptions C09_selector_syntax.

(* `layers[-depth]` on the outermost-first list is the depth-th layer counted from the innermost, for every number
   of layers and every depth that exists *)
Theorem C09_pick_innermost_first : forall (L : Type) (layers : list L) k, 1 <= k <= List.length layers ->
  pick layers k = nth_error (rev layers) (k - 1).
Proof. exact @pick_innermost_first. Qed.
Print Assumptions C09_pick_innermost_first.

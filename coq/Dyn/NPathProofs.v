(* Design spike: a property theorem proved directly over the GENERATED model of cli/manipulations.py:_parse_npath
   (idiom A of the translator).  C12_addressable: every list of attribute names, whatever characters they
   contain, is addressed by the NPath that quotes each name (escaping backslash and double quote). *)
From Coq Require Import List Ascii Bool Arith Lia.
Import ListNotations.
From Dyn Require Import Gen.

Definition bs : ascii := c 92.  Definition dq : ascii := c 34.  Definition dot : ascii := c 46.
Definition enc (name : str) : str := flat_map (fun ch => if (ch =c bs) || (ch =c dq) then [bs; ch] else [ch]) name.
Definition quote (name : str) : str := dq :: enc name ++ [dq].
Fixpoint quote_path (names : list str) : str :=
  match names with [] => [] | [n] => quote n | n :: rest => quote n ++ dot :: quote_path rest end.

Lemma loop_cons st ch r : _parse_npath_loop st (ch :: r) =
  match _parse_npath_step st ch with Ok st' => _parse_npath_loop st' r | Err e => Err e end.
Proof. reflexivity. Qed.

(* inside quotes: the encoded name is decoded into the buffer *)
Lemma in_quotes_decodes : forall name segs buf qs rest,
  _parse_npath_loop (segs, buf, true, qs, false) (enc name ++ rest) =
  _parse_npath_loop (segs, buf ++ name, true, qs, false) rest.
Proof.
  induction name as [|ch name IH]; intros segs buf qs rest; [now rewrite app_nil_r|].
  cbn [enc flat_map]. fold (enc name).
  destruct ((ch =c bs) || (ch =c dq)) eqn:E.
  - (* escaped: backslash, then the character itself *)
    cbn [app]. rewrite loop_cons. unfold _parse_npath_step at 1. cbv iota beta.
    change (bs =c c 92) with true. cbv iota.
    rewrite loop_cons. unfold _parse_npath_step at 1. cbv iota beta.
    assert (Hn : (ch =c c 110) = false /\ (ch =c c 114) = false /\ (ch =c c 116) = false).
    { apply orb_prop in E. destruct E as [E|E]; apply Ascii.eqb_eq in E; subst ch; repeat split; reflexivity. }
    destruct Hn as (H1 & H2 & H3). rewrite H1, H2, H3.
    assert (H4 : (ch =c c 34) || (ch =c c 92) = true) by (rewrite orb_comm; exact E). rewrite H4.
    rewrite IH. rewrite <- app_assoc. reflexivity.
  - apply orb_false_iff in E. destruct E as [E1 E2].
    cbn [app]. rewrite loop_cons. unfold _parse_npath_step at 1. cbv iota beta.
    change (c 92) with bs. change (c 34) with dq. rewrite E1, E2.
    rewrite IH. rewrite <- app_assoc. reflexivity.
Qed.

Lemma quoted_segment_read segs name rest :
  _parse_npath_loop (segs, [], false, false, false) (quote name ++ rest) =
  _parse_npath_loop (segs, name, false, true, false) rest.
Proof.
  unfold quote. cbn [app]. rewrite loop_cons. unfold _parse_npath_step at 1. cbv iota beta.
  change (dq =c c 46) with false. change (dq =c c 34) with true. cbn [isnil negb]. cbv iota.
  rewrite <- app_assoc. rewrite in_quotes_decodes. cbn [app].
  rewrite loop_cons. unfold _parse_npath_step at 1. cbv iota beta.
  change (dq =c c 92) with false. change (dq =c c 34) with true. cbv iota. reflexivity.
Qed.

Lemma dot_finalizes segs name rest :
  _parse_npath_loop (segs, name, false, true, false) (dot :: rest) =
  _parse_npath_loop (segs ++ [(name, true)], [], false, false, false) rest.
Proof.
  rewrite loop_cons. unfold _parse_npath_step at 1. cbv iota beta.
  change (dot =c c 46) with true. cbn [negb andb]. cbv iota. reflexivity.
Qed.

Lemma path_read : forall names segs, names <> [] ->
  _parse_npath_loop (segs, [], false, false, false) (quote_path names) =
  Ok (segs ++ map (fun n => (n, true)) (removelast names), last names [], false, true, false).
Proof.
  induction names as [|n ns IH]; intros segs Hne; [congruence|].
  destruct ns as [|n2 ns'].
  - cbn [quote_path removelast last map]. rewrite <- (app_nil_r (quote n)), quoted_segment_read, app_nil_r. reflexivity.
  - change (quote_path (n :: n2 :: ns')) with (quote n ++ dot :: quote_path (n2 :: ns')).
    rewrite quoted_segment_read, dot_finalizes. rewrite IH by discriminate.
    change (removelast (n :: n2 :: ns')) with (n :: removelast (n2 :: ns')).
    change (last (n :: n2 :: ns') []) with (last (n2 :: ns') []).
    cbn [map]. rewrite <- app_assoc. reflexivity.
Qed.

Lemma quote_path_nonempty names : names <> [] -> isnil (quote_path names) = false.
Proof. destruct names as [|n [|n2 ns]]; [congruence|reflexivity|reflexivity]. Qed.

Theorem C12_addressable : forall names, names <> [] ->
  _parse_npath (quote_path names) = Ok (map (fun n => (n, true)) names).
Proof.
  intros names Hne. unfold _parse_npath. rewrite (quote_path_nonempty names Hne). cbn [negb]. cbv iota zeta.
  rewrite (path_read names [] Hne). cbv iota beta. cbn [negb andb app]. cbv iota.
  f_equal. rewrite (app_removelast_last [] Hne) at 3. rewrite map_app. reflexivity.
Qed.
Print Assumptions C12_addressable.

(* C14 — dictionary laws of the mapping API on the edit heap model (top-level set), and the text/mapping
   disagreement of finding F-17/F-23 as the refutation witness of the coherence clause. *)
From Coq Require Import List Ascii String Bool Arith.
Import ListNotations.
From E Require Import EditModel EditRun EditProofs EditLaws EditFindings.

(* after m[k] = v a lookup of k returns v — overwrite and append branch alike *)
Theorem C14_get_after_set : forall s k v, heap_ok s -> vals_ok s -> getitem (set_setitem s SRoot k v) SRoot k = Some v.
Proof. exact EditLaws.get_after_set. Qed.
Print Assumptions C14_get_after_set.

(* every other key reads as before *)
Theorem C14_get_other_after_set : forall s k v, heap_ok s -> vals_ok s ->
  forall k', streq k' k = false -> getitem (set_setitem s SRoot k v) SRoot k' = getitem s SRoot k'.
Proof. exact EditLaws.get_other_after_set. Qed.
Print Assumptions C14_get_other_after_set.

(* FULL coherence clause "the rebuilt text shows exactly the bindings the mapping reports": REFUTED on the faithful
   model (finding F-17): on { a.b = 1; c = 2; } `del m["a"]` succeeds, the mapping no longer has `a`, and the printed
   document is unchanged — text and mapping disagree *)
From E Require Import MapRun.
Definition C14_coherent_full : Prop :=
  forall d st0 k, parse_doc d = Ok st0 -> snd (set_delitem st0 SRoot k) = Ok tt ->
  tree_eqb 100 (view (fst (set_delitem st0 SRoot k))) (view st0) = false.
Theorem C14_coherent_full_refuted : ~ C14_coherent_full.
Proof.
  intros H. destruct (parse_doc d17) as [st0|e] eqn:E; [|vm_compute in E; discriminate].
  specialize (H d17 st0 (s "a") E). vm_compute in E. injection E as <-. vm_compute in H. specialize (H eq_refl). discriminate.
Qed.
Print Assumptions C14_coherent_full_refuted.

(* ---- the mapping API refines an association list, over whole histories ----
   abs reads (name, value) pairs off the top-level set; a_get / a_set / a_del are the three-line specification
   (first binding of that name; replace it or append; remove it or KeyError).  For every state satisfying the
   invariant map_inv (evaluated as map_invb on the parsed state of every correspondence case) and EVERY sequence of
   lookups, assignments and deletions, the implementation model returns what the specification returns and ends in a
   state whose abstraction is the specification's final map. *)
From E Require Import EditMapSpec.
Theorem C14_refines_assoc_list : forall ops s, map_inv s ->
  map_inv (fst (crun s ops)) /\ abs (fst (crun s ops)) = fst (arun (abs s) ops) /\ snd (crun s ops) = snd (arun (abs s) ops).
Proof. exact EditMapSpec.run_refines. Qed.
Print Assumptions C14_refines_assoc_list.

(* deletion laws *)
Theorem C14_get_other_after_del : forall s k k', streq k' k = false ->
  getitem (fst (set_delitem s SRoot k)) SRoot k' = getitem s SRoot k'.
Proof. exact EditMapSpec.get_other_after_del. Qed.
Print Assumptions C14_get_other_after_del.
Theorem C14_get_after_del : forall s k, uniq_names (abs s) -> snd (set_delitem s SRoot k) = Ok tt ->
  getitem (fst (set_delitem s SRoot k)) SRoot k = None.
Proof. exact EditMapSpec.get_after_del. Qed.
Print Assumptions C14_get_after_del.
(* a missing key is a KeyError and changes nothing; a present key can always be deleted *)
Theorem C14_del_missing : forall s k, getitem s SRoot k = None -> set_delitem s SRoot k = (s, Err KeyErr).
Proof. exact EditMapSpec.del_missing. Qed.
Print Assumptions C14_del_missing.
Theorem C14_del_present : forall s k v, getitem s SRoot k = Some v -> snd (set_delitem s SRoot k) = Ok tt.
Proof. exact EditMapSpec.del_present. Qed.
Print Assumptions C14_del_present.
(* non-vacuity: the parsed state of the F-17 document satisfies the invariant and has unique names *)
Example C14_inv_nonvacuous :
  match parse_doc d17 with Ok st0 => map_invb st0 = true /\ uniq_names (abs st0) | Err _ => False end.
Proof. vm_compute. split; [reflexivity|]. repeat constructor; cbn; intuition discriminate. Qed.
Print Assumptions C14_inv_nonvacuous.

(* the model's binding look-ups are the source's: find_by_name / find_named / find_root of the edit heap model equal
   _find_binding / _find_named_binding / _find_attrpath_root REGENERATED from cli/manipulations.py on every run *)
From Dyn Require Import FindGen FindProps.
Theorem C14_lookup_is_source_lookup : forall s ids key nested,
  _find_binding nat (fun _ => true) (name_of s) ids key = find_by_name s ids key /\
  _find_named_binding nat (fun _ => true) (name_of s) (nested_of s) ids key nested = find_named s ids key nested /\
  _find_attrpath_root nat (fun _ => true) (name_of s) (nested_of s) ids key = find_root s ids key.
Proof. exact (fun s ids key nested => conj (find_binding_refines s ids key) (conj (find_named_refines s ids key nested) (find_root_refines s ids key))). Qed.
Print Assumptions C14_lookup_is_source_lookup.

(* which set the mapping operates on: the model of NixSourceCode._resolve_target_set (frame matched literally, tools/maptarget2v.py; table-world
   correspondence `mapping-target`) returns an attribute set, and through any stack of assert / let / parenthesis wrappers it is the SAME set the
   CLI's traversal (regenerated, tools/target2v.py) finds — text edits and mapping edits address one set *)
From Dyn Require Import TargetGen TargetProps MapTargetGen MapTargetProps.
Close Scope string_scope. Open Scope list_scope.
Theorem C14_map_target_is_a_set : forall (w : world) fuel es s r s', map_target_top w fuel es s = (RVal r, s') -> w_cls w r = CSet.
Proof. exact map_target_is_a_set. Qed.
Print Assumptions C14_map_target_is_a_set.
Theorem C14_targets_agree_on_wrappers : forall (w : world) ws r sc v st,
  linked (wN w) (w_cls w) (w_body w) (w_value w) ws r -> w_cls w r = CSet -> NoDup (ws ++ [r]) -> (forall x, In x (ws ++ [r]) -> ~ In x v) ->
  (forall x, In x (ws ++ [r]) -> scopes_ok (wN w) (wSC w) (w_store w) (w_scopes w) x sc st) ->
  map_target w (S (List.length ws)) (hd r ws) sc (v, st) = target w (S (List.length ws)) (hd r ws) sc (v, st).
Proof. exact targets_agree_on_wrappers. Qed.
Print Assumptions C14_targets_agree_on_wrappers.
(* the package idiom: under a lambda head, around any stack of assert / let / parenthesis wrappers (none included), both walks return the set *)
Theorem C14_targets_agree_under_lambda : forall (w : world) t ws r sc v st,
  w_cls w t = CFunDef -> w_output w t = Some (hd r ws) ->
  linked (wN w) (w_cls w) (w_body w) (w_value w) ws r -> w_cls w r = CSet -> NoDup (t :: ws ++ [r]) -> (forall x, In x (t :: ws ++ [r]) -> ~ In x v) ->
  (forall x, In x (t :: ws ++ [r]) -> scopes_ok (wN w) (wSC w) (w_store w) (w_scopes w) x sc st) ->
  fst (map_target w (S (S (List.length ws))) t sc (v, st)) = RVal r /\ fst (target w (S (S (List.length ws))) t sc (v, st)) = RVal r.
Proof. exact targets_agree_under_lambda. Qed.
Print Assumptions C14_targets_agree_under_lambda.
(* … and through stacks that also hold `with` wrappers: the same set, the same nodes entered, the same contexts left behind, whatever chain either
   walk was handed (the chain look-ups of the wrappers are assumed not to raise) *)
Theorem C14_targets_agree_on_stacks : forall (w : world) ws r sc sc' v st,
  linked2 w ws r -> w_cls w r = CSet -> NoDup (ws ++ [r]) -> (forall x, In x (ws ++ [r]) -> ~ In x v) -> lookups_total w (ws ++ [r]) ->
  map_target w (S (List.length ws)) (hd r ws) sc (v, st) = target w (S (List.length ws)) (hd r ws) sc' (v, st).
Proof. exact targets_agree_on_stacks. Qed.
Print Assumptions C14_targets_agree_on_stacks.
(* … and through let-bound NAMES (`let cfg = { … }; in cfg`, `… in mk`-less): with non-empty chains both walks give the name its context, read its value
   and continue there; they find the same set and enter the same nodes (the stores differ: the chains written into the contexts do) *)
Theorem C14_targets_agree_through_names : forall (w : world) ws r sc sc' v st,
  linked3 w ws r -> w_cls w r = CSet -> NoDup (ws ++ [r]) -> (forall x, In x (ws ++ [r]) -> ~ In x v) -> lookups_truthy w (ws ++ [r]) -> chain_ok w sc -> chain_ok w sc' ->
  let a := map_target w (S (List.length ws)) (hd r ws) sc (v, st) in let b := target w (S (List.length ws)) (hd r ws) sc' (v, st) in
  fst a = RVal r /\ fst b = RVal r /\ fst (snd a) = fst (snd b).
Proof. exact targets_agree_through_names. Qed.
Print Assumptions C14_targets_agree_through_names.
(* calls: `mk { … }` — for a callee the CLI accepts both walks return the argument; for a callee it refuses (`"s" { … }`) the CLI raises ValueError
   and the mapping still returns the set: the one place where the two copies of the walk differ on purpose, stated rather than left to be found *)
Theorem C14_targets_agree_on_supported_call : forall (w : world) f t a sc v st,
  w_cls w t = CCall -> w_argument w t = Some a -> w_cls w (w_strip w a) = CSet -> existsb (w_eqb w t) v = false ->
  scopes_ok (wN w) (wSC w) (w_store w) (w_scopes w) t sc st -> w_supports w t = true ->
  map_target w (S f) t sc (v, st) = target w (S f) t sc (v, st).
Proof. exact targets_agree_on_supported_call. Qed.
Print Assumptions C14_targets_agree_on_supported_call.
Theorem C14_targets_differ_on_refused_callee : forall (w : world) f t a sc v st,
  w_cls w t = CCall -> w_argument w t = Some a -> w_cls w (w_strip w a) = CSet -> existsb (w_eqb w t) v = false ->
  scopes_ok (wN w) (wSC w) (w_store w) (w_scopes w) t sc st -> w_supports w t = false ->
  fst (target w (S f) t sc (v, st)) = RErrV /\ fst (map_target w (S f) t sc (v, st)) = RVal (w_strip w a).
Proof. exact targets_differ_on_refused_callee. Qed.
Print Assumptions C14_targets_differ_on_refused_callee.

(* C10 / C15 on the chain-construction state machine: for tables without `rec` sets, every answer of an access is
   the answer of the pure, registry-free traversal that hands the lookup the positional chain (the `let` layers of
   the enclosing sets, outermost first) — after ANY history of earlier accesses.  Well-formedness is a decidable
   certificate: a map P from ids to positional chains, checked locally by wfP. *)
From Coq Require Import List Ascii String Bool Arith Lia.
Import ListNotations.
From C Require Import ChainModel ChainProps.
Close Scope string_scope. Open Scope list_scope.

Definition is_layer (sc : sref) : bool := match sc with SLayer _ _ => true | SVals _ => false end.
Definition chain_eqb (a b : chain) : bool :=
  (fix go (a b : chain) : bool := match a, b with [], [] => true | x :: a', y :: b' => sref_eqb x y && go a' b' | _, _ => false end) a b.
Definition pmap := list (nat * chain).
Definition P (p : pmap) (i : nat) : option chain := rget p i.

(* ---------- the registry-free traversal ---------- *)
Fixpoint walk_pure (t : table) (sid : nat) (inh : chain) (path : list str) : outcome :=
  match path with
  | [] => OSet
  | k :: rest =>
      match tget t sid with
      | None => OKeyError
      | Some si =>
          match find_name (s_vals si) k 0 with
          | None => OKeyError
          | Some (_, v) =>
              let scopes := inh ++ own_layers sid si in
              match rest, v with
              | [], RInt _ n => OInt n
              | [], RRef _ name => if isnil scopes then ONoContext else snd (resolve 200 t [] name scopes [])
              | [], RSet _ => OSet
              | _ :: _, RSet sid' => walk_pure t sid' scopes rest
              | _ :: _, _ => OKeyError
              end
          end
      end
  end.
Definition access_pure (t : table) (top : nat) (path : list str) : outcome := walk_pure t top [] path.

(* ---------- well-formedness certificate ---------- *)
Definition wf (t : table) (top : nat) (p : pmap) : Prop :=
  P p top = Some [] /\
  (forall sid si, tget t sid = Some si -> s_rec si = false) /\
  (forall sid si inh k v, tget t sid = Some si -> P p sid = Some inh -> In (k, v) (s_vals si) ->
     P p (vid v) = Some (inh ++ own_layers sid si)) /\
  (forall sid si layer k v, tget t sid = Some si -> In layer (s_layers si) -> In (k, v) layer -> P p (vid v) = None) /\
  (forall i c, P p i = Some c -> forallb is_layer c = true).

(* registry invariant: stored chains are non-empty, and positional wherever P knows the id *)
Definition Inv (p : pmap) (r : registry) : Prop :=
  forall i c, rget r i = Some c -> c <> [] /\ (forall c', P p i = Some c' -> c = c').

Lemma rget_rstore_same r i c : c <> [] -> rget (rstore r i c) i = Some c.
Proof. intros H. destruct c; [congruence|]. cbn [rstore rget]. now rewrite Nat.eqb_refl. Qed.
Lemma rget_rstore_other r i j c : i <> j -> rget (rstore r i c) j = rget r j.
Proof. intros H. destruct c; [reflexivity|]. cbn [rstore rget]. destruct (i =? j) eqn:E; [apply Nat.eqb_eq in E; congruence|reflexivity]. Qed.
Lemma Inv_store p r i c : Inv p r -> (forall c', P p i = Some c' -> c = c') -> Inv p (rstore r i c).
Proof.
  intros HI Hc j d Hj. destruct c as [|x c']; [exact (HI j d Hj)|].
  destruct (Nat.eq_dec i j) as [->|Hn].
  - rewrite rget_rstore_same in Hj by discriminate. inversion Hj; subst. split; [discriminate|exact Hc].
  - rewrite rget_rstore_other in Hj by exact Hn. exact (HI j d Hj).
Qed.
Lemma Inv_none p r i : Inv p r -> P p i = Some [] -> rget r i = None.
Proof. intros HI HP. destruct (rget r i) as [c|] eqn:E; [|reflexivity]. destruct (HI i c E) as [Hne Hc]. specialize (Hc [] HP). congruence. Qed.

Lemma find_name_in items name : forall pos p v, find_name items name pos = Some (p, v) -> exists n, In (n, v) items.
Proof.
  induction items as [|[n w] rest IH]; intros pos p v H; [discriminate|]. cbn [find_name] in H.
  destruct (streq n name); [inversion H; subst; exists n; now left|]. destruct (IH _ _ _ H) as [n' Hn']. exists n'. now right.
Qed.

(* ---------- named twins of the inline fixes of [resolve] ---------- *)
Fixpoint prefixes_of (pre rest : chain) (acc : list (sref * chain)) : list (sref * chain) :=
  match rest with [] => acc | sc :: rest' => prefixes_of (pre ++ [sc]) rest' ((sc, pre ++ [sc]) :: acc) end.
Fixpoint scan_with (rec : registry -> str -> chain -> list (sref * nat) -> registry * outcome)
                   (t : table) (r : registry) (name : str) (vis : list (sref * nat)) (l : list (sref * chain)) : registry * outcome :=
  match l with
  | [] => (r, OUnbound)
  | (sc, chain_here) :: more =>
      match find_name (scope_items t sc) name 0 with
      | Some (pos, bv) =>
          if bid_mem sc pos vis then (r, OCyclic)
          else
            let r1 := rstore r (vid bv) chain_here in
            match bv with
            | RRef _ n2 => rec r1 n2 chain_here ((sc, pos) :: vis)
            | RInt _ n => (r1, OInt n)
            | RSet _ => (r1, OSet)
            end
      | None => scan_with rec t r name vis more
      end
  end.
Lemma resolve_unfold f t r name scopes vis :
  resolve (S f) t r name scopes vis = scan_with (resolve f t) t r name vis (prefixes_of [] scopes []).
Proof.
  cbn [resolve]. change (fix prefixes (pre rest : chain) (acc : list (sref * chain)) {struct rest} : list (sref * chain) :=
            match rest with [] => acc | sc :: rest' => prefixes (pre ++ [sc]) rest' ((sc, pre ++ [sc]) :: acc) end) with prefixes_of.
  generalize (prefixes_of [] scopes []). intros l.
  induction l as [|[sc ch] more IH]; [reflexivity|]. cbn [scan_with].
  destruct (find_name (scope_items t sc) name 0) as [[pos bv]|]; [|exact IH].
  destruct (bid_mem sc pos vis); [reflexivity|]. destruct bv; reflexivity.
Qed.

Definition pref_ok (l : list (sref * chain)) : Prop :=
  Forall (fun sc_ch => is_layer (fst sc_ch) = true /\ forallb is_layer (snd sc_ch) = true) l.
Lemma prefixes_ok : forall rest pre acc, forallb is_layer pre = true -> forallb is_layer rest = true -> pref_ok acc ->
  pref_ok (prefixes_of pre rest acc).
Proof.
  induction rest as [|sc rest IH]; intros pre acc Hp Hr Ha; [exact Ha|]. cbn [prefixes_of].
  cbn [forallb] in Hr. apply andb_prop in Hr. destruct Hr as [Hs Hr].
  assert (Hps : forallb is_layer (pre ++ [sc]) = true) by (rewrite forallb_app, Hp; cbn; now rewrite Hs).
  apply IH; [exact Hps|exact Hr|]. constructor; [split; assumption|exact Ha].
Qed.

Section WithWf.
  Variables (t : table) (top : nat) (p : pmap).
  Hypothesis Hwf : wf t top p.

  Lemma layer_value_unknown sc n bv : is_layer sc = true -> In (n, bv) (scope_items t sc) -> P p (vid bv) = None.
  Proof.
    destruct Hwf as (_ & _ & _ & Hlayers & _).
    destruct sc as [sid k|sid]; [|discriminate]. intros _ Hin. cbn [scope_items] in Hin.
    destruct (tget t sid) as [si|] eqn:Et; [|destruct Hin].
    destruct (Nat.lt_ge_cases k (List.length (s_layers si))) as [Hlt|Hge].
    - apply (Hlayers sid si (nth k (s_layers si) []) n bv Et); [apply nth_In, Hlt|exact Hin].
    - rewrite nth_overflow in Hin by exact Hge. destruct Hin.
  Qed.

  Lemma scan_inv (rec : registry -> str -> chain -> list (sref * nat) -> registry * outcome) name vis :
    (forall r n c v, Inv p r -> forallb is_layer c = true -> Inv p (fst (rec r n c v))) ->
    forall l r, Inv p r -> pref_ok l -> Inv p (fst (scan_with rec t r name vis l)).
  Proof.
    intros Hrec. induction l as [|[sc ch] more IH]; intros r HI Hl; [exact HI|].
    inversion Hl as [|? ? [Hsc Hch] Hmore]; subst. cbn [fst snd] in Hsc, Hch. cbn [scan_with].
    destruct (find_name (scope_items t sc) name 0) as [[pos bv]|] eqn:Ef; [|apply IH; assumption].
    destruct (bid_mem sc pos vis); [exact HI|].
    destruct (find_name_in _ _ _ _ _ Ef) as [n Hin].
    pose proof (layer_value_unknown sc n bv Hsc Hin) as HP.
    assert (HI1 : Inv p (rstore r (vid bv) ch)) by (apply Inv_store; [exact HI|intros c' Hc'; congruence]).
    destruct bv as [i m|i n2|i]; [exact HI1|apply Hrec; assumption|exact HI1].
  Qed.

  Lemma resolve_inv : forall fuel r name scopes vis, Inv p r -> forallb is_layer scopes = true ->
    Inv p (fst (resolve fuel t r name scopes vis)).
  Proof.
    induction fuel as [|f IH]; intros r name scopes vis HI Hs; [exact HI|].
    rewrite resolve_unfold. apply scan_inv; [intros r0 n c v H1 H2; apply IH; assumption|exact HI|].
    apply prefixes_ok; [reflexivity|exact Hs|constructor].
  Qed.
End WithWf.

Section Main.
  Variables (t : table) (top : nat) (p : pmap).
  Hypothesis Hwf : wf t top p.

  Definition reg_at (r : registry) (sid : nat) (inh : chain) : Prop :=
    match rget r sid with Some c => c = inh | None => inh = [] end.

  Lemma scopes_nonrec r sid si inh : tget t sid = Some si -> reg_at r sid inh ->
    scopes_for_owner t r sid = (r, inh ++ own_layers sid si).
  Proof.
    intros Et Hat. destruct Hwf as (_ & Hnr & _). unfold scopes_for_owner. rewrite Et, (Hnr sid si Et).
    unfold reg_at in Hat. destruct (rget r sid) as [c|]; subst; reflexivity.
  Qed.

  Lemma reg_at_after_store r i c : Inv p r -> P p i = Some c -> reg_at (rstore r i c) i c.
  Proof.
    intros HI HP. unfold reg_at. destruct c as [|x c'].
    - cbn [rstore]. now rewrite (Inv_none p r i HI HP).
    - rewrite rget_rstore_same by discriminate. reflexivity.
  Qed.

  Lemma walk_sound : forall path sid inh r, Inv p r -> P p sid = Some inh -> reg_at r sid inh ->
    Inv p (fst (walk t r sid path)) /\ snd (walk t r sid path) = walk_pure t sid inh path.
  Proof.
    induction path as [|k rest IH]; intros sid inh r HI HP Hat; [split; [exact HI|reflexivity]|].
    cbn [walk walk_pure]. unfold set_getitem.
    destruct (tget t sid) as [si|] eqn:Et; [|split; [exact HI|reflexivity]].
    destruct (find_name (s_vals si) k 0) as [[pos v]|] eqn:Ef; [|split; [exact HI|reflexivity]].
    unfold attach. rewrite (scopes_nonrec r sid si inh Et Hat).
    set (scopes := inh ++ own_layers sid si).
    destruct (find_name_in _ _ _ _ _ Ef) as [n Hin].
    assert (HPv : P p (vid v) = Some scopes) by (destruct Hwf as (_ & _ & Hv & _); exact (Hv sid si inh n v Et HP Hin)).
    assert (Hlay : forallb is_layer scopes = true) by (destruct Hwf as (_ & _ & _ & _ & Hl); exact (Hl _ _ HPv)).
    assert (HI1 : Inv p (rstore r (vid v) scopes)) by (apply Inv_store; [exact HI|intros c' Hc'; congruence]).
    destruct rest as [|k2 rest'].
    - destruct v as [i m|i name|i]; cbn [fst snd]; try (split; [exact HI1|reflexivity]).
      cbn [vid] in *. unfold ident_value. destruct scopes as [|x sc'] eqn:Es.
      + cbn [rstore isnil]. rewrite (Inv_none p r i HI HPv). split; [exact HI|reflexivity].
      + rewrite rget_rstore_same by discriminate. cbn [isnil]. split.
        * apply (resolve_inv t top p Hwf); [exact HI1|exact Hlay].
        * apply resolve_reg_irrelevant.
    - destruct v as [i m|i name|i]; cbn [fst snd]; try (split; [exact HI1|reflexivity]).
      cbn [vid] in *. apply IH; [exact HI1|exact HPv|apply reg_at_after_store; assumption].
  Qed.

  Theorem access_sound r path : Inv p r ->
    Inv p (fst (access t top r path)) /\ snd (access t top r path) = access_pure t top path.
  Proof.
    intros HI. destruct Hwf as (Htop & Hnr & _). unfold access, access_pure.
    assert (E : fst (scopes_for_owner t r top) = r).
    { unfold scopes_for_owner. destruct (tget t top) as [si|] eqn:Et; [|reflexivity]. rewrite (Hnr top si Et). reflexivity. }
    destruct (scopes_for_owner t r top) as [r0 c0]. cbn [fst] in E. subst r0.
    apply walk_sound; [exact HI|exact Htop|]. unfold reg_at. now rewrite (Inv_none p r top HI Htop).
  Qed.

  (* every answer in every history is the answer of the registry-free, positional traversal *)
  Fixpoint answers (r : registry) (h : list (list str)) : list outcome :=
    match h with [] => [] | path :: rest => let '(r1, o) := access t top r path in o :: answers r1 rest end.
  Theorem C10_C15_history_independent : forall h, answers [] h = map (access_pure t top) h.
  Proof.
    assert (Hgen : forall h r, Inv p r -> answers r h = map (access_pure t top) h).
    { induction h as [|path rest IH]; intros r HI; [reflexivity|]. cbn [answers map].
      destruct (access_sound r path HI) as [HI1 Ho]. destruct (access t top r path) as [r1 o]. cbn [fst snd] in *.
      rewrite Ho, (IH r1 HI1). reflexivity. }
    intros h. apply Hgen. intros i c Hc. discriminate Hc.
  Qed.
End Main.
Print Assumptions C10_C15_history_independent.

(* ---------- the certificate is decidable ---------- *)
Lemma sref_eqb_eq a b : sref_eqb a b = true -> a = b.
Proof.
  destruct a as [s k|s], b as [s2 k2|s2]; cbn [sref_eqb]; try discriminate; intros H.
  - apply andb_prop in H. destruct H as [H1 H2]. apply Nat.eqb_eq in H1, H2. now subst.
  - apply Nat.eqb_eq in H. now subst.
Qed.
Lemma chain_eqb_eq : forall a b, chain_eqb a b = true -> a = b.
Proof.
  unfold chain_eqb. induction a as [|x a IH]; destruct b as [|y b]; try discriminate; [reflexivity|].
  intros H. apply andb_prop in H. destruct H as [H1 H2]. apply sref_eqb_eq in H1. subst. f_equal. apply IH, H2.
Qed.
Definition opt_chain_eqb (a : option chain) (b : chain) : bool := match a with Some c => chain_eqb c b | None => false end.
Definition wfb (t : table) (top : nat) (p : pmap) : bool :=
  opt_chain_eqb (P p top) [] &&
  forallb (fun e => negb (s_rec (snd e))) t &&
  forallb (fun e => let '(sid, si) := e in
             match P p sid with
             | Some inh => forallb (fun kv => opt_chain_eqb (P p (vid (snd kv))) (inh ++ own_layers sid si)) (s_vals si)
             | None => true end) t &&
  forallb (fun e => forallb (fun layer => forallb (fun kv => match P p (vid (snd kv)) with None => true | Some _ => false end) layer) (s_layers (snd e))) t &&
  forallb (fun ic => forallb is_layer (snd ic)) p.

Lemma tget_in t sid si : tget t sid = Some si -> In (sid, si) t.
Proof.
  induction t as [|[k s] r IH]; [discriminate|]. cbn [tget]. destruct (k =? sid) eqn:E.
  - intros H. inversion H; subst. apply Nat.eqb_eq in E. subst. now left.
  - intros H. right. apply IH, H.
Qed.
Lemma rget_in (p : pmap) i c : rget p i = Some c -> In (i, c) p.
Proof.
  induction p as [|[k s] r IH]; [discriminate|]. cbn [rget]. destruct (k =? i) eqn:E.
  - intros H. inversion H; subst. apply Nat.eqb_eq in E. subst. now left.
  - intros H. right. apply IH, H.
Qed.
Lemma opt_chain_eqb_eq a b : opt_chain_eqb a b = true -> a = Some b.
Proof. destruct a as [c|]; [|discriminate]. intros H. apply chain_eqb_eq in H. now subst. Qed.

Theorem wfb_sound t top p : wfb t top p = true -> wf t top p.
Proof.
  unfold wfb. intros H. apply andb_prop in H. destruct H as [H H5]. apply andb_prop in H. destruct H as [H H4].
  apply andb_prop in H. destruct H as [H H3]. apply andb_prop in H. destruct H as [H1 H2].
  rewrite forallb_forall in H2, H3, H4, H5.
  split; [apply opt_chain_eqb_eq, H1|]. split; [|split; [|split]].
  - intros sid si Et. specialize (H2 _ (tget_in _ _ _ Et)). cbn [snd] in H2. now apply negb_true_iff.
  - intros sid si inh k v Et HP Hin. specialize (H3 _ (tget_in _ _ _ Et)). cbn beta iota in H3. rewrite HP in H3.
    rewrite forallb_forall in H3. specialize (H3 _ Hin). cbn [snd] in H3. apply opt_chain_eqb_eq, H3.
  - intros sid si layer k v Et Hl Hin. specialize (H4 _ (tget_in _ _ _ Et)). cbn [snd] in H4.
    rewrite forallb_forall in H4. specialize (H4 _ Hl). rewrite forallb_forall in H4. specialize (H4 _ Hin). cbn [snd] in H4.
    destruct (P p (vid v)); [discriminate|reflexivity].
  - intros i c HP. specialize (H5 _ (rget_in _ _ _ HP)). exact H5.
Qed.

(* packaged: a checked certificate gives history independence *)
Corollary checked_history_independent t top p : wfb t top p = true ->
  forall h, answers t top [] h = map (access_pure t top) h.
Proof. intros H. apply (C10_C15_history_independent t top p (wfb_sound _ _ _ H)). Qed.

(* non-vacuity:  let a = 1; in { x = { y = a; }; z = a; }  *)
Open Scope string_scope.
Definition demo_t : table :=
  [(0, {| s_rec := false; s_layers := [[(s "a", RInt 1 1)]]; s_vals := [(s "x", RSet 2); (s "z", RRef 4 (s "a"))] |});
   (2, {| s_rec := false; s_layers := []; s_vals := [(s "y", RRef 3 (s "a"))] |})].
Definition demo_p : pmap := [(0, []); (2, [SLayer 0 0]); (4, [SLayer 0 0]); (3, [SLayer 0 0])].
Example demo_wf : wfb demo_t 0 demo_p = true. Proof. vm_compute. reflexivity. Qed.
Example demo_answers : answers demo_t 0 [] [[s "x"; s "y"]; [s "z"]; [s "x"; s "y"]; [s "x"]] = [OInt 1; OInt 1; OInt 1; OSet].
Proof. vm_compute. reflexivity. Qed.
(* and the F-26 table is rejected by the certificate check, whatever P is offered for its root *)
Example f26_not_wf : wfb t26 0 [(0, [])] = false. Proof. vm_compute. reflexivity. Qed.
Print Assumptions checked_history_independent.

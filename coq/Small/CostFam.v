(* C20: rebuild-call counts of the nesting families — one wrapper applied n times around a leaf — as recurrences.
   The parameters are those of the pinned implementation; the cost correspondence compares, on every run, the number of
   rebuild invocations the implementation performs (counted by wrapping the classes' rebuild from outside) with
   `cost` for every family, both leaf kinds and depths 1..10, so a new preview render in any family shows as a mismatch. *)
From Coq Require Import List Arith Lia String.
Import ListNotations.
From Small Require Import Cost.

Record fam := { first_own : nat; first_mult : nat; own : nat; mult : nat }.
Fixpoint cost (f : fam) (c0 n : nat) : nat :=
  match n with
  | O => c0
  | S k => match k with O => first_own f + first_mult f * c0 | S _ => own f + mult f * cost f c0 k end
  end.
Definition F a b c d := {| first_own := a; first_mult := b; own := c; mult := d |}.
(* (family, parameters over an atom leaf, parameters over a multi-line set leaf) *)
Definition table : list (string * fam * fam) := [
  ("set", F 2 1 2 1, F 2 1 2 1); ("setml", F 2 1 2 1, F 2 1 2 1); ("list", F 1 1 1 1, F 1 1 1 1); ("listml", F 1 1 1 1, F 1 1 1 1);
  ("with", F 2 1 2 1, F 2 1 2 2); ("lam", F 2 2 2 2, F 2 2 2 2); ("formals", F 2 2 2 2, F 2 2 2 2); ("let", F 4 1 3 1, F 4 1 3 1);
  ("paren", F 1 1 1 1, F 1 1 1 1); ("if", F 3 1 3 1, F 3 1 3 1); ("assert", F 2 1 2 1, F 2 1 2 1); ("binop", F 4 1 4 1, F 4 1 4 1);
  ("update", F 4 1 4 1, F 4 1 4 1); ("call", F 3 1 3 1, F 3 1 3 1); ("not", F 2 1 2 1, F 2 1 2 1); ("select", F 2 1 2 1, F 2 1 2 1);
  ("inherit", F 3 2 3 2, F 3 2 3 2);
  (* calls written without whitespace and other argument shapes; operator chains with the line break after / before the
     operator; remaining operand positions; multi-line heads *)
  ("call_tight", F 3 1 3 1, F 3 1 3 1); ("call_set_tight", F 4 1 4 1, F 4 1 4 1); ("call_list_tight", F 3 1 2 1, F 3 1 2 1);
  ("call_set", F 4 1 4 1, F 4 1 4 1); ("call_list", F 3 1 2 1, F 3 1 2 1);
  ("concat_nl", F 5 2 5 2, F 5 2 5 2); ("concat_chain_r", F 3 2 3 2, F 3 2 3 2); ("update_chain_r", F 3 2 3 2, F 3 2 3 2); ("impl_chain_r", F 3 2 3 2, F 3 2 3 2);
  ("concat_chain", F 3 1 3 1, F 3 1 3 1); ("binop_chain_l", F 3 1 3 1, F 3 1 3 1); ("concat_nl_before", F 3 1 2 1, F 3 1 2 1);
  ("if_else", F 3 1 3 1, F 3 1 3 1); ("if_cond", F 3 1 3 1, F 3 1 3 1); ("let_bind", F 4 1 4 1, F 4 1 4 1); ("with_env", F 2 1 2 1, F 2 1 2 1);
  ("formal_default", F 4 1 4 1, F 4 1 4 1); ("select_default", F 3 1 3 1, F 3 1 3 1); ("attr_interp", F 2 1 2 1, F 2 1 2 1);
  ("neg", F 2 1 2 1, F 2 1 2 1); ("has", F 2 1 2 1, F 2 1 2 1);
  ("import_paren", F 4 1 4 1, F 4 1 4 1); ("import_call", F 6 1 6 1, F 6 1 6 1); ("import_set", F 7 1 7 1, F 7 1 7 1);
  ("lam_nl", F 2 2 2 2, F 2 2 2 2); ("with_nl", F 2 2 2 2, F 2 2 2 2); ("let_ml", F 4 1 3 1, F 4 1 3 1)]%string.
Definition lookup (name : string) (ml : bool) : option fam :=
  match find (fun r => String.eqb (fst (fst r)) name) table with Some (_, a, m) => Some (if ml then m else a) | None => None end.

(* families that render their child once are linear in the depth *)
Theorem linear_family f c0 n : mult f = 1 -> first_mult f = 1 -> cost f c0 n <= c0 + n * (first_own f + own f).
Proof.
  intros Hm Hf. induction n as [|n IH]; [cbn; lia|]. destruct n as [|n'].
  - cbn [cost]. rewrite Hf. lia.
  - change (cost f c0 (S (S n'))) with (own f + mult f * cost f c0 (S n')). rewrite Hm. lia.
Qed.
(* families that render their child twice are exponential in the depth *)
Theorem doubling_family f c0 n : mult f = 2 -> 1 <= cost f c0 1 -> 2 ^ n <= cost f c0 (S n).
Proof.
  intros Hm H1. induction n as [|n IH]; [exact H1|].
  change (cost f c0 (S (S n))) with (own f + mult f * cost f c0 (S n)). rewrite Hm. rewrite Nat.pow_succ_r'. lia.
Qed.

(* the lambda family of this table is the one Cost.v refutes the polynomial bound with *)
Lemma lam_is_cost_model n : cost (F 2 2 2 2) 1 n = calls (nest Lam n).
Proof.
  induction n as [|n IH]; [reflexivity|]. destruct n as [|n']; [reflexivity|].
  change (cost (F 2 2 2 2) 1 (S (S n'))) with (2 + 2 * cost (F 2 2 2 2) 1 (S n')). rewrite IH. cbn [nest calls]. lia.
Qed.
Theorem lam_family_not_polynomial : forall k c, exists n, c * (S n) ^ k < cost (F 2 2 2 2) 1 n.
Proof.
  intros k c. destruct (exp_beats_poly k c) as [n Hn]. exists n. rewrite lam_is_cost_model. pose proof (calls_lam_ge n). lia.
Qed.
(* every family of the table with multiplicity one is linear; the others are listed: lam, formals, inherit (src),
   `with` over a multi-line body or followed by a line break, a lambda colon followed by a line break, and binary
   operators followed by a line break (right-nested chains) *)
Definition doubling (r : string * fam * fam) : bool := Nat.eqb (mult (snd (fst r))) 2 || Nat.eqb (mult (snd r)) 2.
Example doubling_families : map (fun r => fst (fst r)) (filter doubling table) = ["with"; "lam"; "formals"; "inherit"; "concat_nl"; "concat_chain_r"; "update_chain_r"; "impl_chain_r"; "lam_nl"; "with_nl"]%string.
Proof. reflexivity. Qed.
Print Assumptions linear_family.
Print Assumptions lam_family_not_polynomial.

(* Proof spike, part 16a: re-reading a rebuilt comment gives the same comment (up to the fields the printer uses). *)
From Coq Require Import List Ascii String Bool Arith Lia.
Import ListNotations.
From F0 Require Import F0s Specs.
Open Scope char_scope.

Definition isws (c : ascii) : bool := (c =c " ") || (c =c TAB) || (c =c LF).
Definition nows_head (l : str) : Prop := match l with [] => True | c :: _ => isws c = false end.

Lemma lstrip_unfold c r : lstrip_sp (c :: r) = if isws c then lstrip_sp r else c :: r.
Proof. reflexivity. Qed.
Lemma lstrip_head x : nows_head (lstrip_sp x).
Proof.
  induction x as [|c r IH]; [exact I|]. rewrite lstrip_unfold. destruct (isws c) eqn:E; [exact IH|exact E].
Qed.
Lemma lstrip_id l : nows_head l -> lstrip_sp l = l.
Proof. destruct l as [|c r]; [reflexivity|]. cbn [nows_head]. intros H. rewrite lstrip_unfold, H. reflexivity. Qed.
Lemma lstrip_suffix x : exists p, x = p ++ lstrip_sp x.
Proof.
  induction x as [|c r [p IH]]; [exists []; reflexivity|]. rewrite lstrip_unfold. destruct (isws c).
  - exists (c :: p). cbn [app]. now rewrite <- IH.
  - exists []. reflexivity.
Qed.
Lemma strip_heads y : nows_head (strip y) /\ nows_head (rev (strip y)).
Proof.
  unfold strip. set (a := lstrip_sp y). set (b := lstrip_sp (rev a)).
  split.
  - destruct (lstrip_suffix (rev a)) as [p Hp]. fold b in Hp.
    assert (Ha : a = rev b ++ rev p) by (rewrite <- rev_app_distr, <- Hp, rev_involutive; reflexivity).
    pose proof (lstrip_head y) as Hh. fold a in Hh. rewrite Ha in Hh.
    destruct (rev b) as [|c r]; [exact I|exact Hh].
  - rewrite rev_involutive. apply lstrip_head.
Qed.
Lemma strip_pad y : strip (" " :: strip y ++ [" "]) = strip y.
Proof.
  destruct (strip_heads y) as [H1 H2]. set (w := strip y) in *. clearbody w.
  unfold strip at 1. rewrite lstrip_unfold. cbn [isws Ascii.eqb orb]. change (isws " ") with true. cbv iota.
  destruct w as [|c w'].
  - reflexivity.
  - assert (E : lstrip_sp ((c :: w') ++ [" "]) = (c :: w') ++ [" "]) by (apply lstrip_id; exact H1).
    rewrite E. rewrite rev_app_distr. cbn [rev app]. rewrite lstrip_unfold. change (isws " ") with true. cbv iota.
    change (rev w' ++ [c]) with (rev (c :: w')). rewrite (lstrip_id _ H2). apply rev_involutive.
Qed.

Lemma removelast2 (x : str) a b : removelast (removelast (x ++ [a; b])) = x.
Proof.
  change (x ++ [a; b]) with (x ++ [a] ++ [b]). rewrite app_assoc, removelast_last, removelast_last. reflexivity.
Qed.

Definition cfc := comment_from_cst.
Definition rb (c : comment) (inl : bool) (i : nat) : str :=
  comment_rebuild {| ck := ck c; ctxt := ctxt c; cspace := cspace c; cshebang := cshebang c; cinline := inl |} i.

(* the printer only looks at kind, text (block) or comment_str (line) *)
Lemma rb_ext c1 c2 : ck c1 = ck c2 ->
  (ck c2 = KLine -> comment_str c1 = comment_str c2) -> (ck c2 <> KLine -> ctxt c1 = ctxt c2) ->
  forall inl i, rb c1 inl i = rb c2 inl i.
Proof.
  intros Hk Hl Hb inl i. unfold rb, comment_rebuild. cbn [ck cinline ctxt]. rewrite Hk.
  destruct (ck c2) eqn:E.
  - f_equal. specialize (Hl eq_refl). unfold comment_str in *. cbn [cshebang ctxt cspace]. exact Hl.
  - rewrite Hb by discriminate. reflexivity.
  - rewrite Hb by discriminate. reflexivity.
Qed.

Lemma block_reread x : cfc (s "/* " ++ x ++ s " */") =
  {| ck := KBlock; ctxt := strip (" " :: x ++ [" "]); cspace := true; cshebang := false; cinline := false |}.
Proof.
  unfold cfc, comment_from_cst. change (s "/* " ++ x ++ s " */") with ("/" :: "*" :: " " :: x ++ [" "; "*"; "/"]).
  cbn [starts s list_ascii_of_string Ascii.eqb Bool.eqb andb skipn].
  change (" " :: x ++ [" "; "*"; "/"]) with ((" " :: x) ++ [" "] ++ ["*"; "/"]).
  rewrite app_assoc, removelast2. reflexivity.
Qed.
Lemma doc_reread x : cfc (s "/** " ++ x ++ s " */") =
  {| ck := KDoc; ctxt := strip (" " :: x ++ [" "]); cspace := true; cshebang := false; cinline := false |}.
Proof.
  unfold cfc, comment_from_cst. change (s "/** " ++ x ++ s " */") with ("/" :: "*" :: "*" :: " " :: x ++ [" "; "*"; "/"]).
  cbn [starts s list_ascii_of_string Ascii.eqb Bool.eqb andb skipn].
  change (" " :: x ++ [" "; "*"; "/"]) with ((" " :: x) ++ [" "] ++ ["*"; "/"]).
  rewrite app_assoc, removelast2. reflexivity.
Qed.

Definition line_c (t : str) (sp_ : bool) : comment :=
  {| ck := KLine; ctxt := t; cspace := sp_; cshebang := false; cinline := false |}.
Lemma cfc_eq raw : cfc raw =
  if starts (s "/*") raw then
    {| ck := if starts (s "/**") raw then KDoc else KBlock;
       ctxt := strip (removelast (removelast (skipn (if starts (s "/**") raw then 3 else 2) raw)));
       cspace := true; cshebang := false; cinline := false |}
  else if starts (s "#!") raw then
    {| ck := KLine; ctxt := skipn 2 raw; cspace := true; cshebang := true; cinline := false |}
  else match skipn 1 raw with
       | a :: t' => if a =c " " then line_c t' true else line_c (a :: t') false
       | [] => line_c [] false end.
Proof.
  unfold cfc, comment_from_cst. destruct (starts (s "/*") raw); [reflexivity|].
  destruct (starts (s "#!") raw); [reflexivity|].
  destruct (skipn 1 raw) as [|a t']; [reflexivity|].
  destruct a as [[] [] [] [] [] [] [] []]; reflexivity.
Qed.

Ltac fin3 := split; [reflexivity | split; [try discriminate; intros _; reflexivity | let H := fresh in intros H; try reflexivity; exfalso; apply H; reflexivity]].
Lemma sci_stable raw :
  let c := cfc raw in let c' := cfc (spec_comment_inline raw) in
  ck c' = ck c /\ (ck c = KLine -> comment_str c' = comment_str c) /\ (ck c <> KLine -> ctxt c' = ctxt c).
Proof.
  cbv zeta. unfold spec_comment_inline. fold cfc. rewrite (cfc_eq raw).
  destruct (starts (s "/*") raw).
  { destruct (starts (s "/**") raw); unfold mk_inline, comment_rebuild; cbn [ck ctxt cinline]; change (sp 0) with (@nil ascii); cbn [app].
    - rewrite doc_reread. cbn [ck ctxt]. rewrite strip_pad. fin3.
    - rewrite block_reread. cbn [ck ctxt]. rewrite strip_pad. fin3. }
  destruct (starts (s "#!") raw).
  { unfold mk_inline, comment_rebuild, comment_str. cbn [ck ctxt cinline cshebang sp repeat app].
    fin3. }
  destruct (skipn 1 raw) as [|a t'].
  { fin3. }
  destruct (a =c " ") eqn:Ea.
  - unfold mk_inline, comment_rebuild, comment_str, line_c. cbn [ck ctxt cinline cshebang cspace sp repeat app].
    destruct t' as [|b t'']; fin3.
  - unfold mk_inline, comment_rebuild, comment_str, line_c. cbn [ck ctxt cinline cshebang cspace sp repeat app].
    rewrite (cfc_eq ("#" :: a :: t')).
    change (starts (s "/*") ("#" :: a :: t')) with false.
    change (starts (s "#!") ("#" :: a :: t')) with ((a =c "!") && true). rewrite andb_true_r. cbv iota.
    change (skipn 1 ("#" :: a :: t')) with (a :: t'). change (skipn 2 ("#" :: a :: t')) with t'.
    destruct (a =c "!") eqn:Eb.
    + apply Ascii.eqb_eq in Eb. subst a. unfold comment_str. cbn [ck cshebang ctxt]. fin3.
    + rewrite Ea. unfold line_c, comment_str. cbn [ck cshebang ctxt cspace app]. fin3.
Qed.

Lemma cinline_cfc raw : cinline (cfc raw) = false.
Proof.
  rewrite cfc_eq. destruct (starts (s "/*") raw); [reflexivity|]. destruct (starts (s "#!") raw); [reflexivity|].
  destruct (skipn 1 raw) as [|a t']; [reflexivity|]. destruct (a =c " "); reflexivity.
Qed.
Lemma rb_plain raw i : spec_comment raw i = rb (cfc raw) false i.
Proof.
  unfold spec_comment, rb. fold cfc. pose proof (cinline_cfc raw) as H. destruct (cfc raw); cbn in *; subst; reflexivity.
Qed.
Lemma rb_inline raw : spec_comment_inline raw = rb (cfc raw) true 0.
Proof. reflexivity. Qed.

(* corollaries used by the idempotence proof *)
Lemma spec_comment_sci raw i : spec_comment (spec_comment_inline raw) i = spec_comment raw i.
Proof. rewrite !rb_plain. destruct (sci_stable raw) as (H1 & H2 & H3). apply rb_ext; assumption. Qed.
Lemma sci_idem raw : spec_comment_inline (spec_comment_inline raw) = spec_comment_inline raw.
Proof. rewrite (rb_inline (spec_comment_inline raw)), (rb_inline raw). destruct (sci_stable raw) as (H1 & H2 & H3). apply rb_ext; assumption. Qed.
Lemma ck_sci raw : ck (cfc (spec_comment_inline raw)) = ck (cfc raw).
Proof. apply sci_stable. Qed.
Print Assumptions sci_idem.

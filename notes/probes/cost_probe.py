import sys, collections
sys.path.insert(0,'/repo')
import nix_manipulator
from nix_manipulator import parse
from nix_manipulator.expressions.expression import NixExpression
import nix_manipulator.expressions as E
import pkgutil, importlib
for m in pkgutil.walk_packages(E.__path__, E.__name__+'.'):
    importlib.import_module(m.name)
counts = collections.Counter()
def allsubs(c):
    for s in c.__subclasses__():
        yield s; yield from allsubs(s)
seen=set()
for cls in set(allsubs(NixExpression)):
    if 'rebuild' in cls.__dict__:
        orig = cls.__dict__['rebuild']
        def mk(orig, name):
            def w(self, *a, **k):
                counts[name]+=1
                return orig(self, *a, **k)
            return w
        setattr(cls, 'rebuild', mk(orig, cls.__name__))
def run(src):
    counts.clear()
    out = parse(src).rebuild()
    return dict(counts), sum(counts.values())
def nest(w, n, x='x'):
    s = x
    for i in range(n): s = w(s)
    return s
fam = {
 'set':    lambda b: '{ a = %s; }' % b,
 'setml':  lambda b: '{\n a = %s;\n}' % b,
 'list':   lambda b: '[ %s ]' % b,
 'with':   lambda b: 'with a; %s' % b,
 'with_ml':lambda b: 'with a;\n%s' % b,
 'lam':    lambda b: 'a: %s' % b,
 'formals':lambda b: '{ a }: %s' % b,
 'let':    lambda b: 'let a = 1; in %s' % b,
 'paren':  lambda b: '(%s)' % b,
 'if':     lambda b: 'if c then %s else y' % b,
 'assert': lambda b: 'assert c; %s' % b,
 'binop':  lambda b: '%s + y' % b,
 'binopr': lambda b: 'y + (%s)' % b,
 'call':   lambda b: 'f (%s)' % b,
 'not':    lambda b: '!(%s)' % b,
}
for name, w in fam.items():
    for x in ('x', '{\n a = 1;\n}'):
        row=[]
        for n in range(1,9):
            try:
                c, tot = run(nest(w, n, x))
                row.append(tot)
            except Exception as e:
                row.append(type(e).__name__)
        print('%-8s inner=%-6s' % (name, 'atom' if x=='x' else 'mlset'), row)

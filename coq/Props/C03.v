(* C03 — comments survive a round trip exactly once, in order and in place (fragment F0, model level).
   flexseq is the interleaved sequence of code tokens and comments of a file; the canonicalised file (whose text IS
   the output, C01_output_is_canonical_tree) has the same interleaving: same comments, same count, same order, each
   on the same side of every code token; a comment's wording changes only by nrm (delimiter padding). *)
From Coq Require Import List Ascii String Bool Arith.
Import ListNotations.
From F0 Require Import F0s Specs P1 P2 P3g P5 P6 P7 P8 P9 P10 P11 Canon P12 P13 Canonize P14 P15 P16a P16 P17 P18 P19 P20.

Theorem C03_interleaving : forall f, flexseq (canon_file f) = map nrm (flexseq f).
Proof. exact flexseq_canon. Qed.
Print Assumptions C03_interleaving.

Theorem C03_comments : forall f,
  filter (fun x => negb (is_tok x)) (flexseq (canon_file f)) = map nrm (filter (fun x => negb (is_tok x)) (flexseq f)).
Proof. exact comments_canon. Qed.
Print Assumptions C03_comments.

(* a comment never absorbs code: the code tokens are all still there (and the output is that tree's text) *)
Theorem C03_no_absorb : forall f, wf_file f ->
  roundtrip f = ftext (canon_file f) /\ filter is_tok (flexseq (canon_file f)) = map nrm (filter is_tok (flexseq f)).
Proof. intros f H. split; [apply output_text, H|apply code_tokens_canon]. Qed.
Print Assumptions C03_no_absorb.

(* re-reading a rebuilt comment gives the same comment: the re-spelling is idempotent *)
Theorem C03_respelling_idempotent : forall raw, spec_comment_inline (spec_comment_inline raw) = spec_comment_inline raw.
Proof. exact sci_idem. Qed.
Print Assumptions C03_respelling_idempotent.

(* end to end over the external parser: the rebuilt text parses to a tree with the same tokens and comments in order *)
Theorem C03_source : forall ts_parse : str -> option cfile,
  (forall src f, ts_parse src = Some f -> ftext f = src) ->
  (forall src f, ts_parse src = Some f -> wf_file f -> ts_parse (ftext (canon_file f)) = Some (canon_file f)) ->
  forall src f, ts_parse src = Some f -> wf_file f ->
  exists f', ts_parse (roundtrip f) = Some f' /\ flexseq f' = map nrm (flexseq f).
Proof. exact (fun ts _ Hstable => P20.C03_source ts Hstable). Qed.
Print Assumptions C03_source.

From F0 Require Import GapLib FmtLib.
From Dyn Require Import FmtGen FmtGenProps.

(* over the REGENERATED format_trivia of expressions/trivia.py (tools/fmt2v.py, Dyn/FmtGenProps.v): on lists of comments and layout markers the
   loop never fails and renders exactly the model's format_trivia of the list in which every inline comment that follows an emitted line has
   become an own-line comment — every comment once, in order; and where no such comment exists it IS the model's function, for every list *)
Theorem C03_format_trivia_spec : forall l indent,
  format_trivia_gen (map of_triv l) indent = Some (format_trivia (demote l false) indent).
Proof. exact format_trivia_gen_spec. Qed.
Print Assumptions C03_format_trivia_spec.

Theorem C03_format_trivia_is_the_models : forall l indent,
  late_inline_free l false = true -> format_trivia_gen (map of_triv l) indent = Some (format_trivia l indent).
Proof. exact format_trivia_gen_is_model. Qed.
Print Assumptions C03_format_trivia_is_the_models.

Theorem C03_trim_is_the_models : forall l r, trim_trailing_layout_newline_gen (map of_triv l) r = trim_trailing l r.
Proof. exact trim_gen_is_model. Qed.
Print Assumptions C03_trim_is_the_models.

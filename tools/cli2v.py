"""Prototype (design spike): cli/main.py `match args.command` arms -> a small imperative IR in Gallina.
Fails closed on anything outside the IR."""
import ast, sys
class Untranslatable(Exception): pass
def q(s): return '"%s"' % s.replace('"', '""')
def expr(e):
    if isinstance(e, ast.Name): return 'EVar %s' % q(e.id)
    if isinstance(e, ast.Constant) and isinstance(e.value, str): return 'EStr %s' % q(e.value)
    if isinstance(e, ast.Constant) and isinstance(e.value, int): return 'ENum %d' % e.value
    if isinstance(e, ast.Attribute): return 'EAttr (%s) %s' % (expr(e.value), q(e.attr))
    if isinstance(e, ast.Call):
        args = ['(%s, %s)' % (q(''), expr(a)) for a in e.args] + ['(%s, %s)' % (q(k.arg), expr(k.value)) for k in e.keywords]
        if isinstance(e.func, ast.Name): return 'ECall %s [%s]' % (q(e.func.id), '; '.join(args))
        if isinstance(e.func, ast.Attribute): return 'EMeth (%s) %s [%s]' % (expr(e.func.value), q(e.func.attr), '; '.join(args))
    if isinstance(e, ast.Compare) and len(e.ops) == 1 and isinstance(e.ops[0], ast.Eq):
        return 'EEq (%s) (%s)' % (expr(e.left), expr(e.comparators[0]))
    if isinstance(e, ast.Compare) and len(e.ops) == 1 and isinstance(e.ops[0], ast.IsNot):
        return 'EIsNot (%s) (%s)' % (expr(e.left), expr(e.comparators[0]))
    if isinstance(e, ast.IfExp): return 'EIfExp (%s) (%s) (%s)' % (expr(e.test), expr(e.body), expr(e.orelse))
    if isinstance(e, ast.Dict):
        return 'EDict [%s]' % '; '.join('(%s, %s)' % (expr(k), expr(v)) for k, v in zip(e.keys, e.values))
    raise Untranslatable(ast.dump(e)[:80])
def stmts(ss): return '[' + ';\n      '.join(stmt(s) for s in ss) + ']'
def stmt(s):
    if isinstance(s, ast.Assign) and len(s.targets) == 1:
        t = s.targets[0]
        if isinstance(t, ast.Name): return 'SAssign %s (%s)' % (q(t.id), expr(s.value))
        if isinstance(t, ast.Subscript): return 'SSetItem (%s) (%s) (%s)' % (expr(t.value), expr(t.slice), expr(s.value))
    if isinstance(s, ast.AnnAssign) and s.value is None: return 'SSkip'
    if isinstance(s, ast.Expr) and isinstance(s.value, ast.Call):
        c = s.value
        if isinstance(c.func, ast.Name) and c.func.id == 'print':
            if len(c.args) != 1: raise Untranslatable('print arity')
            tgt = [k for k in c.keywords if k.arg == 'file']
            end = [k for k in c.keywords if k.arg == 'end']
            if len(c.keywords) != len(tgt) + len(end) or (tgt and end): raise Untranslatable('print keywords')
            if end: return 'SPrintEnd (%s) (%s)' % (expr(c.args[0]), expr(end[0].value))
            return 'SPrint (%s) %s' % (expr(c.args[0]), 'true' if tgt else 'false')
        return 'SExpr (%s)' % expr(c)
    if isinstance(s, ast.Return) and isinstance(s.value, ast.Constant) and isinstance(s.value.value, int): return 'SReturn %d' % s.value.value
    if isinstance(s, ast.If): return 'SIf (%s) %s %s' % (expr(s.test), stmts(s.body), stmts(s.orelse))
    raise Untranslatable(ast.dump(s)[:80])
def main():
    src = open(sys.argv[1] + '/nix_manipulator/cli/main.py').read()
    fn = next(n for n in ast.walk(ast.parse(src)) if isinstance(n, ast.FunctionDef) and n.name == 'main')
    m = next(n for n in fn.body if isinstance(n, ast.Match))
    if ast.unparse(m.subject) != 'args.command': raise Untranslatable('match subject')
    print('(* GENERATED from cli/main.py:main *)')
    print('From Coq Require Import List String. Import ListNotations. Open Scope string_scope.')
    print('From Cli Require Import CliIR.')
    print('Definition arms : list (option string * list stmt) := [')
    rows = []
    for c in m.cases:
        if isinstance(c.pattern, ast.MatchValue) and isinstance(c.pattern.value, ast.Constant): key = 'Some %s' % q(c.pattern.value.value)
        elif isinstance(c.pattern, ast.MatchAs) and c.pattern.pattern is None: key = 'None'
        else: raise Untranslatable('case pattern')
        rows.append('  (%s,\n     %s)' % (key, stmts(c.body)))
    print(';\n'.join(rows)); print('].')

try:
    main()
except Untranslatable as e:
    print('(* UNTRANSLATABLE: cli/main.py:main: %s *)' % str(e).replace('*)', '* )'))
except Exception as e:
    print('(* UNTRANSLATABLE: cli/main.py:main: %s %s *)' % (type(e).__name__, str(e).replace('*)', '* )')[:200]))

From Coq Require Import List Ascii String Bool Arith. Import ListNotations.
From E Require Import EditModel EditDeep.
Definition s (x : string) : str := list_ascii_of_string x.
Inductive opk := OSet (segs : list str) (v : str) | ORm (segs : list str).
Inductive exp := EOk (view : tree) | EKey (view : tree) | EVal (view : tree).   (* view after the call, also when it raised *)
Fixpoint tree_eqb (fuel : nat) (a b : tree) : bool :=
  match fuel with O => false | S f =>
  match a, b with
  | TA x, TA y => streq x y
  | TS xs, TS ys =>
      (fix go (xs ys : list (str * tree)) : bool :=
         match xs, ys with
         | [], [] => true
         | (n1, t1) :: xs', (n2, t2) :: ys' => streq n1 n2 && tree_eqb f t1 t2 && go xs' ys'
         | _, _ => false end) xs ys
  | _, _ => false
  end end.
(* run a sequence; return the index of the first step that disagrees, if any *)
Fixpoint run (st0 : st) (ops : list (opk * exp)) (i : nat) : option nat :=
  match ops with
  | [] => None
  | (o, e) :: rest =>
      let '(st1, r) := match o with OSet sg v => set_deep st0 sg (VAt v) | ORm sg => rm_deep st0 sg end in
      let ok := match r, e with
                | Ok _, EOk v => tree_eqb 1000 (view st1) v
                | Err KeyErr, EKey v => tree_eqb 1000 (view st1) v
                | Err ValErr, EVal v => tree_eqb 1000 (view st1) v
                | _, _ => false end in
      if ok then run st1 rest (S i) else Some i
  end.
Definition check (c : idoc * tree * list (opk * exp)) : option nat :=
  let '(d, v0, ops) := c in
  match parse_doc d with
  | Err _ => Some 9999
  | Ok st0 => if tree_eqb 1000 (view st0) v0 then run st0 ops 0 else Some 9998
  end.
Fixpoint bad (i : nat) (cs : list (idoc * tree * list (opk * exp))) : list (nat * nat) :=
  match cs with [] => [] | c :: t => match check c with None => bad (S i) t | Some k => (i, k) :: bad (S i) t end end.

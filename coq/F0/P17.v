(* Proof spike, part 17: canon keeps well-formedness; file level; C06 and C18 on fragment F0. *)
From Coq Require Import List Ascii String Bool Arith Lia.
Import ListNotations.
From F0 Require Import F0s Specs P1 P2 P3g P5 P6 P7 P8 P9 P10 P11 Canon P12 P13 Canonize P14 P15 P16a P16.
Open Scope char_scope.

Lemma cmt_ok_sci raw : cmt_ok raw -> cmt_ok (spec_comment_inline raw).
Proof.
  intros (H1 & H2 & H3). unfold cmt_ok. rewrite sci_idem. split; [|split; assumption].
  intros i. rewrite spec_comment_sci. apply H1.
Qed.
Lemma cmt_shape n : is_cmt n = true -> n = CCmt (craw n).
Proof. destruct n; try discriminate; reflexivity. Qed.

Lemma Forall_canon_lines (P : cnode -> Prop) cc nb k : forall l prev seen,
  Forall (fun gn => if is_cmt (snd gn) then P (ccmt (craw (snd gn))) else P (cc (snd gn))) l ->
  Forall (fun gn => P (snd gn)) (canon_lines cc nb k l prev seen).
Proof.
  induction l as [|[g n] t IH]; intros prev seen HF; [constructor|]. inversion HF as [|? ? Hn Ht]; subst. cbn [snd] in Hn.
  rewrite canon_lines_cons. constructor; [|apply IH, Ht]. unfold canon_elem. destruct (is_cmt n); exact Hn.
Qed.
Lemma Forall_canon_inline (P : cnode -> Prop) cc : forall l,
  Forall (fun gn => P (cc (snd gn))) l -> Forall (fun gn => P (snd gn)) (canon_inline cc l).
Proof.
  induction l as [|[g n] t IH]; intros HF; [constructor|]. inversion HF as [|? ? Hn Ht]; subst.
  cbn [canon_inline]. constructor; [exact Hn|apply IH, Ht].
Qed.

Definition prev_rel_c (p p' : option cnode) : Prop :=
  match p, p' with Some a, Some b => is_cmt b = is_cmt a | None, None => True | _, _ => False end.
Lemma no_double_canon cc nb k : forall l prev prev' seen,
  prev_rel_c prev prev' ->
  Forall (fun gn => is_cmt (cc (snd gn)) = is_cmt (snd gn)) l ->
  no_double_b prev l -> no_double_b prev' (canon_lines cc nb k l prev seen).
Proof.
  induction l as [|[g n] t IH]; intros prev prev' seen Hp HF Hnd; [exact I|].
  inversion HF as [|? ? Hn Ht]; subst. cbn [snd] in Hn. destruct Hnd as [Hd Hnd'].
  rewrite canon_lines_cons. unfold canon_elem. destruct (is_cmt n) eqn:En.
  - cbn [no_double_b]. split.
    + intros _. destruct prev as [p|], prev' as [p'|]; cbn [prev_rel_c] in Hp; try contradiction; [|intros _; exact I].
      destruct ((if nb then is_bind p else true) && negb (has_nl g) && seen) eqn:Eio.
      * intros _. apply andb_prop in Eio. destruct Eio as [Eio _]. apply andb_prop in Eio. destruct Eio as [_ Hg].
        apply negb_true_iff in Hg. rewrite Hp. apply (Hd eq_refl Hg).
      * rewrite has_nl_cgap. discriminate.
    + apply IH; [cbn [prev_rel_c ccmt is_cmt]; symmetry; exact En|exact Ht|exact Hnd'].
  - cbn [no_double_b]. split.
    + rewrite Hn. discriminate.
    + apply IH; [cbn [prev_rel_c]; rewrite Hn, En; reflexivity|exact Ht|exact Hnd'].
Qed.
Lemma no_double_nocmt : forall l p, Forall (fun gn => is_cmt (snd gn) = false) l -> no_double_b p l.
Proof.
  induction l as [|[g n] t IH]; intros p HF; [exact I|]. inversion HF as [|? ? Hn Ht]; subst. cbn [snd] in Hn.
  split; [rewrite Hn; discriminate|apply IH, Ht].
Qed.
Lemma inl_ok_canon cc : forall l, Forall (fun gn => is_cmt (cc (snd gn)) = false) l -> inl_ok (canon_inline cc l).
Proof.
  induction l as [|[g n] t IH]; intros HF; [exact I|]. inversion HF as [|? ? Hn Ht]; subst. cbn [snd] in Hn.
  cbn [canon_inline inl_ok]. split; [exact Hn|]. split; [reflexivity|apply IH, Ht].
Qed.

Lemma all_set_intro body :
  Forall (fun gn => wfF (snd gn) /\ (is_bind (snd gn) = true \/ is_cmt (snd gn) = true)) body ->
  (fix all (l : list (str * cnode)) : Prop :=
     match l with [] => True | (_, n) :: t => (wfF n /\ (is_bind n = true \/ is_cmt n = true)) /\ all t end) body.
Proof. induction body as [|[g n] t IH]; intros H; [exact I|]. inversion H; subst. split; [assumption|apply IH; assumption]. Qed.
Lemma all_list_intro body :
  Forall (fun gn => wfF (snd gn) /\ is_bind (snd gn) = false) body ->
  (fix all (l : list (str * cnode)) : Prop :=
     match l with [] => True | (_, n) :: t => (wfF n /\ is_bind n = false) /\ all t end) body.
Proof. induction body as [|[g n] t IH]; intros H; [exact I|]. inversion H; subst. split; [assumption|apply IH; assumption]. Qed.
Lemma wfF_children_list_nb body :
  (fix all (l : list (str * cnode)) : Prop :=
     match l with [] => True | (_, n) :: t => (wfF n /\ is_bind n = false) /\ all t end) body ->
  Forall (fun gn => is_bind (snd gn) = false) body.
Proof. induction body as [|[g n] t IH]; intros H; constructor; [apply H|apply IH, H]. Qed.

Lemma inl_nocmt l : inl_ok l -> Forall (fun gn => is_cmt (snd gn) = false) l.
Proof. induction l as [|[g n] t IH]; intros H; [constructor|]. destruct H as (H1 & _ & H2). constructor; [exact H1|apply IH, H2]. Qed.

Theorem canon_wf : forall c, wfF c -> is_cmt c = false -> forall ind, wfF (canon c ind).
Proof.
  induction c as [isint t|raw|n g1 g2 v g3 IHv|r gr body cg IHb|body cg IHb] using cnode_ind'; intros Hwf Hnc ind.
  - cbn [canon wfF] in *. destruct isint; [rewrite strip_zeros_idem|]; exact Hwf.
  - discriminate.
  - cbn [wfF] in Hwf. destruct Hwf as (Hwv & Hvb & Hvc). cbn [canon].
    destruct (has_nl g2); cbn [wfF]; rewrite is_bind_canon, is_cmt_canon; (split; [apply IHv; [exact Hwv|exact Hvc]|split; [exact Hvb|exact Hvc]]).
  - (* set *)
    cbn [wfF] in Hwf. destruct Hwf as (Hall & Hnd & Hinl). pose proof (wfF_children_set_bc _ Hall) as Hbc.
    apply wfF_children_set in Hall.
    assert (HK : forall k, Forall (fun gn => if is_cmt (snd gn)
                   then wfF (ccmt (craw (snd gn))) /\ (is_bind (ccmt (craw (snd gn))) = true \/ is_cmt (ccmt (craw (snd gn))) = true)
                   else wfF (canon (snd gn) k) /\ (is_bind (canon (snd gn) k) = true \/ is_cmt (canon (snd gn) k) = true)) body).
    { intros k. clear -IHb Hall Hbc. induction body as [|[g n] t IH]; [constructor|].
      inversion IHb as [|? ? Hi Hit]; subst. inversion Hall as [|? ? Hw Hwt]; subst. inversion Hbc as [|? ? Hb' Hbt]; subst.
      constructor; [|apply IH; assumption]. cbn [snd] in *.
      destruct (is_cmt n) eqn:En.
      - split; [|right; reflexivity]. rewrite (cmt_shape n En) in Hw. cbn [wfF] in Hw. cbn [ccmt wfF]. apply cmt_ok_sci, Hw.
      - split; [apply Hi; [exact Hw|reflexivity]|]. rewrite is_bind_canon, is_cmt_canon, En. exact Hb'. }
    assert (Hcm : forall k, Forall (fun gn => is_cmt (canon (snd gn) k) = is_cmt (snd gn)) body).
    { intros k. clear. induction body as [|[g n] t IH]; constructor; [apply is_cmt_canon|exact IH]. }
    destruct body as [|b0 body'].
    { cbn [canon wfF]. split; [exact I|]. split; [exact I|]. intros H. apply set_text_nonl in H. destruct H as [_ H].
      split; [exact H|exact I]. }
    set (body := b0 :: body') in *. assert (Hb : body <> []) by discriminate. clearbody body.
    rewrite (canon_set_eq r gr body cg ind Hb).
    destruct (has_nl (ctext (CSet r gr body cg))) eqn:Hnl; cbn [negb].
    + cbn [wfF]. split; [|split].
      * apply all_set_intro. apply (Forall_canon_lines (fun n => wfF n /\ (is_bind n = true \/ is_cmt n = true))). apply HK.
      * apply no_double_canon; [exact I|apply Hcm|exact Hnd].
      * rewrite set_text_ml. discriminate.
    + destruct (Hinl eq_refl) as [_ Hin]. cbn [wfF]. split; [|split].
      * apply all_set_intro. apply (Forall_canon_inline (fun n => wfF n /\ (is_bind n = true \/ is_cmt n = true))).
        pose proof (inl_nocmt _ Hin) as Hnc'. specialize (HK (ind + 2)).
        clear -HK Hnc'. induction body as [|[g n] t IH]; [constructor|]. inversion HK as [|? ? Hk Hkt]; subst. inversion Hnc' as [|? ? Hc Hct]; subst.
        constructor; [|apply IH; assumption]. cbn [snd] in *. rewrite Hc in Hk. exact Hk.
      * apply no_double_nocmt. apply (Forall_canon_inline (fun n => is_cmt n = false)).
        pose proof (inl_nocmt _ Hin) as Hnc'. clear -Hnc'. induction body as [|[g n] t IH]; [constructor|]. inversion Hnc'; subst.
        constructor; [rewrite is_cmt_canon; assumption|apply IH; assumption].
      * intros _. split; [reflexivity|]. apply inl_ok_canon.
        pose proof (inl_nocmt _ Hin) as Hnc'. clear -Hnc'. induction body as [|[g n] t IH]; [constructor|]. inversion Hnc'; subst.
        constructor; [rewrite is_cmt_canon; assumption|apply IH; assumption].
  - (* list *)
    cbn [wfF] in Hwf. destruct Hwf as (Hall & Hnd & Hinl). pose proof (wfF_children_list_nb _ Hall) as Hbc.
    apply wfF_children_list in Hall.
    assert (HK : forall k, Forall (fun gn => if is_cmt (snd gn)
                   then wfF (ccmt (craw (snd gn))) /\ is_bind (ccmt (craw (snd gn))) = false
                   else wfF (canon (snd gn) k) /\ is_bind (canon (snd gn) k) = false) body).
    { intros k. clear -IHb Hall Hbc. induction body as [|[g n] t IH]; [constructor|].
      inversion IHb as [|? ? Hi Hit]; subst. inversion Hall as [|? ? Hw Hwt]; subst. inversion Hbc as [|? ? Hb' Hbt]; subst.
      constructor; [|apply IH; assumption]. cbn [snd] in *.
      destruct (is_cmt n) eqn:En.
      - split; [|reflexivity]. rewrite (cmt_shape n En) in Hw. cbn [wfF] in Hw. cbn [ccmt wfF]. apply cmt_ok_sci, Hw.
      - split; [apply Hi; [exact Hw|reflexivity]|]. rewrite is_bind_canon. exact Hb'. }
    assert (Hcm : forall k, Forall (fun gn => is_cmt (canon (snd gn) k) = is_cmt (snd gn)) body).
    { intros k. clear. induction body as [|[g n] t IH]; constructor; [apply is_cmt_canon|exact IH]. }
    destruct body as [|b0 body'].
    { cbn [canon wfF]. split; [exact I|]. split; [exact I|]. intros H. apply list_text_nonl in H. destruct H as [_ H].
      split; [exact H|exact I]. }
    set (body := b0 :: body') in *. assert (Hb : body <> []) by discriminate. clearbody body.
    rewrite (canon_list_eq body cg ind Hb).
    destruct (has_nl (ctext (CList body cg))) eqn:Hnl; cbn [negb].
    + cbn [wfF]. split; [|split].
      * apply all_list_intro. apply (Forall_canon_lines (fun n => wfF n /\ is_bind n = false)). apply HK.
      * apply no_double_canon; [exact I|apply Hcm|exact Hnd].
      * rewrite list_text_ml. discriminate.
    + destruct (Hinl eq_refl) as [_ Hin]. cbn [wfF]. split; [|split].
      * apply all_list_intro. apply (Forall_canon_inline (fun n => wfF n /\ is_bind n = false)).
        pose proof (inl_nocmt _ Hin) as Hnc'. specialize (HK ind).
        clear -HK Hnc'. induction body as [|[g n] t IH]; [constructor|]. inversion HK as [|? ? Hk Hkt]; subst. inversion Hnc' as [|? ? Hc Hct]; subst.
        constructor; [|apply IH; assumption]. cbn [snd] in *. rewrite Hc in Hk. exact Hk.
      * apply no_double_nocmt. apply (Forall_canon_inline (fun n => is_cmt n = false)).
        pose proof (inl_nocmt _ Hin) as Hnc'. clear -Hnc'. induction body as [|[g n] t IH]; [constructor|]. inversion Hnc'; subst.
        constructor; [rewrite is_cmt_canon; assumption|apply IH; assumption].
      * intros _. split; [reflexivity|]. apply inl_ok_canon.
        pose proof (inl_nocmt _ Hin) as Hnc'. clear -Hnc'. induction body as [|[g n] t IH]; [constructor|]. inversion Hnc'; subst.
        constructor; [rewrite is_cmt_canon; assumption|apply IH; assumption].
Qed.
Print Assumptions canon_wf.

(* ---------- file level ---------- *)
Definition file_go_canon (l : list (str * cnode)) (seen : bool) : list (str * cnode) :=
  (fix go (l : list (str * cnode)) (seen : bool) : list (str * cnode) :=
     match l with
     | [] => []
     | (g, n) :: t =>
         (if is_cmt n then ((if negb (has_nl g) && seen then [" "] else cgap g 0), ccmt (craw n))
          else (cgap g 0, canon n 0))
         :: go t (seen || negb (is_cmt n))
     end) l seen.
Lemma file_go_canon_eq : forall l p sn, file_go_canon l sn = canon_lines (fun n => canon n 0) false 0 l (Some p) sn.
Proof.
  unfold file_go_canon. induction l as [|[g n] t IH]; intros p sn; [reflexivity|]. cbn [canon_lines]. rewrite (IH n).
  destruct (is_cmt n); cbn [negb orb andb].
  - rewrite orb_false_r. reflexivity.
  - rewrite orb_true_r. reflexivity.
Qed.
Definition file_go_ok (l : list (str * cnode)) (seen : bool) : bool :=
  (fix go (l : list (str * cnode)) (seen : bool) : bool :=
     match l with
     | [] => true
     | (g, n) :: t =>
         (if is_cmt n then cmt_canon (craw n) && (if negb (has_nl g) && seen then streq g [" "] else own_line g 0)
          else own_line g 0 && canonical n 0)
         && go t (seen || negb (is_cmt n))
     end) l seen.
Lemma file_go_ok_eq : forall l p sn, file_go_ok l sn = lines_ok (fun n => canonical n 0) false 0 l (Some p) sn.
Proof.
  unfold file_go_ok. induction l as [|[g n] t IH]; intros p sn; [reflexivity|]. cbn [lines_ok]. rewrite (IH n).
  destruct (is_cmt n); cbn [negb orb andb].
  - rewrite orb_false_r. reflexivity.
  - rewrite orb_true_r. reflexivity.
Qed.

Definition first' (c0 : cnode) : cnode := if is_cmt c0 then ccmt (craw c0) else canon c0 0.
Definition tail' (tl : str) : str := if has_empty_line tl then [LF; LF] else if has_nl tl then [LF] else [].
Lemma canon_file_eq g0 c0 rest tl :
  canon_file {| f_children := (g0, c0) :: rest; f_tail := tl |} =
  {| f_children := ([], first' c0) :: canon_lines (fun n => canon n 0) false 0 rest (Some c0) (negb (is_cmt c0)); f_tail := tail' tl |}.
Proof. unfold canon_file. cbn [f_children f_tail]. fold (file_go_canon rest (negb (is_cmt c0))). rewrite (file_go_canon_eq rest c0). reflexivity. Qed.
Lemma canonical_file_eq c0 rest tl :
  canonical_file {| f_children := ([], c0) :: rest; f_tail := tl |} =
  (if is_cmt c0 then cmt_canon (craw c0) else canonical c0 0) &&
  lines_ok (fun n => canonical n 0) false 0 rest (Some c0) (negb (is_cmt c0)) && streq tl (tail' tl).
Proof. unfold canonical_file. cbn [f_children f_tail isnil_b andb]. fold (file_go_ok rest (negb (is_cmt c0))). rewrite (file_go_ok_eq rest c0). reflexivity. Qed.

Lemma is_cmt_first c0 : is_cmt (first' c0) = is_cmt c0.
Proof. unfold first'. destruct (is_cmt c0) eqn:E; [reflexivity|]. rewrite is_cmt_canon. exact E. Qed.
Lemma is_bind_first c0 : is_bind (first' c0) = is_bind c0.
Proof. unfold first'. destruct (is_cmt c0) eqn:E; [symmetry; apply cmt_not_bind, E|apply is_bind_canon]. Qed.
Lemma tail_idem tl : streq (tail' tl) (tail' (tail' tl)) = true.
Proof. unfold tail'. destruct (has_empty_line tl); [reflexivity|]. destruct (has_nl tl); reflexivity. Qed.

(* C18 on F0 (model level): the printer's output, as a syntax tree, is in the normal form *)
Theorem C18_F0 : forall f, wf_file f -> canonical_file (canon_file f) = true.
Proof.
  intros [children tl] Hwf. unfold wf_file in Hwf. cbn [f_children] in Hwf.
  destruct children as [|[g0 c0] rest]; [contradiction|]. destruct Hwf as (-> & Hall & _ & _).
  inversion Hall as [|? ? [Hw0 Hb0] Hall']; subst. cbn [snd] in *.
  rewrite canon_file_eq, canonical_file_eq, is_cmt_first, tail_idem, andb_true_r.
  apply andb_true_intro. split.
  - unfold first'. destruct (is_cmt c0) eqn:E0.
    + cbn [craw ccmt]. apply cmt_canon_ccmt.
    + apply (canon_canonical c0 Hw0 E0 0).
  - apply lines_ok_canon.
    + cbn [prev_rel]. apply is_bind_first.
    + clear -Hall'. induction rest as [|[g n] t IH]; [constructor|]. inversion Hall' as [|? ? [Hw _] Ht]; subst.
      constructor; [|apply IH, Ht]. cbn [snd] in *. intros Hc. split; [apply (canon_canonical n Hw Hc 0)|].
      split; [rewrite is_cmt_canon; exact Hc|apply is_bind_canon].
Qed.

Lemma count_canon_lines cc nb k : forall l prev seen,
  Forall (fun gn => is_cmt (cc (snd gn)) = is_cmt (snd gn)) l ->
  count_items (conv (canon_lines cc nb k l prev seen)) = count_items (conv l).
Proof.
  induction l as [|[g n] t IH]; intros prev seen HF; [reflexivity|]. inversion HF as [|? ? Hn Ht]; subst. cbn [snd] in Hn.
  rewrite canon_lines_cons.
  destruct (canon_elem cc nb k g n prev seen) as [g' n'] eqn:Ee.
  assert (Hc : is_cmt n' = is_cmt n) by (pose proof (is_cmt_elem cc nb k g n prev seen Hn) as H; rewrite Ee in H; exact H).
  cbn [conv map]. rewrite !count_cons. fold (conv t). fold (conv (canon_lines cc nb k t (Some n) (if is_cmt n then seen else true))).
  rewrite Hc, (IH _ _ Ht). reflexivity.
Qed.

Theorem canon_file_wf : forall f, wf_file f -> wf_file (canon_file f).
Proof.
  intros [children tl] Hwf. unfold wf_file in Hwf. cbn [f_children] in Hwf.
  destruct children as [|[g0 c0] rest]; [contradiction|]. destruct Hwf as (-> & Hall & Hnd & Hcount).
  inversion Hall as [|? ? [Hw0 Hb0] Hall']; subst. cbn [snd] in *.
  rewrite canon_file_eq. unfold wf_file. cbn [f_children].
  assert (Hcm : Forall (fun gn => is_cmt (canon (snd gn) 0) = is_cmt (snd gn)) rest).
  { clear. induction rest as [|[g n] t IH]; constructor; [apply is_cmt_canon|exact IH]. }
  split; [reflexivity|]. split; [|split].
  - constructor.
    + cbn [snd]. rewrite is_bind_first. split; [|exact Hb0]. unfold first'. destruct (is_cmt c0) eqn:E0.
      * rewrite (cmt_shape c0 E0) in Hw0. cbn [wfF] in Hw0. cbn [ccmt wfF]. apply cmt_ok_sci, Hw0.
      * apply canon_wf; assumption.
    + apply (Forall_canon_lines (fun n => wfF n /\ is_bind n = false)).
      clear -Hall'. induction rest as [|[g n] t IH]; [constructor|]. inversion Hall' as [|? ? [Hw Hb] Ht]; subst.
      constructor; [|apply IH, Ht]. cbn [snd] in *. destruct (is_cmt n) eqn:En.
      * split; [|reflexivity]. rewrite (cmt_shape n En) in Hw. cbn [wfF] in Hw. cbn [ccmt wfF]. apply cmt_ok_sci, Hw.
      * split; [apply canon_wf; assumption|rewrite is_bind_canon; exact Hb].
  - destruct Hnd as [_ Hnd']. split; [intros _ _; exact I|].
    apply no_double_canon; [cbn [prev_rel_c]; apply is_cmt_first|exact Hcm|exact Hnd'].
  - change (([], first' c0) :: canon_lines (fun n => canon n 0) false 0 rest (Some c0) (negb (is_cmt c0)))
      with ([([]:str, first' c0)] ++ canon_lines (fun n => canon n 0) false 0 rest (Some c0) (negb (is_cmt c0))).
    cbn [app conv map]. rewrite count_cons, is_cmt_first.
    fold (conv (canon_lines (fun n => canon n 0) false 0 rest (Some c0) (negb (is_cmt c0)))).
    rewrite (count_canon_lines _ false 0 rest _ _ Hcm).
    cbn [conv map] in Hcount. rewrite count_cons in Hcount. exact Hcount.
Qed.

(* C06 on F0 (model level): the canonicalised tree is reproduced byte for byte, so — given that the parser
   returns that tree for the printed text (ts_stable) — formatting the output again changes nothing. *)
Theorem C06_F0 : forall f, wf_file f ->
  roundtrip f = ftext (canon_file f) /\ roundtrip (canon_file f) = ftext (canon_file f).
Proof.
  intros f Hwf. split; [apply output_text, Hwf|].
  apply C02_F0; [apply canon_file_wf, Hwf|apply C18_F0, Hwf].
Qed.
Print Assumptions C18_F0.
Print Assumptions C06_F0.

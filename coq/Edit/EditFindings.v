(* The `_refuted` pattern on the edit model: finding F-23 (a successful edit that is silently lost) as a witness
   evaluated inside Coq, to be replayed against the implementation by the known-findings check. *)
From Coq Require Import List Ascii String Bool Arith. Import ListNotations.
From E Require Import EditModel EditRun EditProofs.
Open Scope string_scope.

(* { meta = { foo.version = true; }; }   then   set meta.foo.z 7 *)
Definition d23 : idoc := ISet true [([s "meta"], ISet true [([s "foo"; s "version"], IAtom (s "true"))])].
Definition after23 : option (st * res unit) :=
  match parse_doc d23 with Ok st0 => Some (m_set st0 [s "meta"; s "foo"; s "z"] (VAt (s "7"))) | Err _ => None end.
(* the edit reports success and the printed document is unchanged *)
Example F23_witness :
  match parse_doc d23, after23 with
  | Ok st0, Some (st1, Ok tt) => tree_eqb 100 (view st1) (view st0) = true
  | _, _ => False end.
Proof. vm_compute. reflexivity. Qed.

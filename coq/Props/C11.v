(* C11 — editing through a reference updates exactly the defining binding.
   Model: R.AssignThrough.assign_target — the order of attempts of _set_value_in_attrset (assign-through via the
   resolver core over "let layer, plus the set itself when rec", then the let_bindings fallback, then a sibling, then
   overwriting the addressed binding), tied to set_value by the in-Coq c11 correspondence (which binding changed). *)
From Coq Require Import List Ascii String Bool Arith Lia.
Import ListNotations.
From R Require Import ResolveCore ResolveProofs AssignThrough.
Close Scope string_scope.

(* whenever the reference resolves, the rewritten binding is the one the resolver designates: the end of the chain *)
Theorem C11_target : forall (letsc body : list entry) (isrec : bool) (self : nat) (name : str) (tag bid : nat),
  let chain : list (list entry) := (if isrec then [body] else []) ++ (match letsc with [] => [] | _ => [letsc] end) in
  chain <> [] -> resolve_top name chain = Found tag bid ->
  assign_target letsc body isrec self (VId name) = bid.
Proof. exact AssignThrough.C11_target. Qed.
Print Assumptions C11_target.

(* a value that is not a reference is overwritten in place *)
Theorem C11_plain : forall (letsc body : list entry) (isrec : bool) (self tag : nat),
  assign_target letsc body isrec self (VOther tag) = self.
Proof. exact AssignThrough.C11_plain. Qed.
Print Assumptions C11_plain.

(* a name bound nowhere (no let binding, no sibling of that name, resolution fails): the addressed binding is overwritten *)
Theorem C11_unbound : forall (letsc body : list entry) (isrec : bool) (self : nat) (name : str),
  first_named letsc name = None -> first_named body name = None ->
  (forall tag bid, resolve_top name ((if isrec then [body] else []) ++ (match letsc with [] => [] | _ => [letsc] end)) <> Found tag bid) ->
  assign_target letsc body isrec self (VId name) = self.
Proof.
  intros letsc body isrec self name H1 H2 H3. unfold assign_target. rewrite H1, H2.
  destruct ((if isrec then [body] else []) ++ match letsc with [] => [] | _ :: _ => [letsc] end) as [|c0 cs]; [reflexivity|].
  destruct (resolve_top name (c0 :: cs)) as [tag bid|e] eqn:E; [exfalso; apply (H3 tag bid); reflexivity|reflexivity].
Qed.
Print Assumptions C11_unbound.

(* the lookup that decides the target terminates *)
Theorem C11_terminates : forall name rc, resolve_top name rc <> RErr OutOfFuel.
Proof. exact ResolveProofs.C10_terminates. Qed.
Print Assumptions C11_terminates.

(* chain construction, over the REGENERATED scopes_for_owner / _collect_scopes_from_layers of resolution.py (tools/scopes2v.py, Dyn/ScopesProps.v):
   the order in which the resolver meets the scopes of an attribute-set owner — its own values first when it is a rec set, then its let layers
   from the innermost to the outermost, then what it inherited — for every owner; and the reference edit resolves over this chain *)
From Dyn Require Import ScopesGen ScopesProps.
Theorem C11_search_order : forall S (o : owner S),
  rev (scopes_for_owner_set S o) =
  (if o_recursive S o then [o_self S o] else []) ++ rev (map (layer_scope S) (filter (layer_nonempty S) (o_stack S o)))
  ++ rev (opt_one S (o_scope S o)) ++ rev (opt_list S (o_inherited S o)).
Proof. exact search_order. Qed.
Print Assumptions C11_search_order.
Theorem C11_inner_layer_first : forall S (o : owner S) pre a mid b post,
  filter (layer_nonempty S) (o_stack S o) = pre ++ a :: mid ++ b :: post ->
  exists u v w, rev (scopes_for_owner_set S o) = u ++ layer_scope S b :: v ++ layer_scope S a :: w.
Proof. exact inner_layer_first. Qed.
Print Assumptions C11_inner_layer_first.

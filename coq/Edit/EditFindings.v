(* Finding F-23 (a successful edit that was silently lost), repaired in the repository (99873d2) and in the model (E.EditDeep): the witness that
   refuted "a successful set changes what is printed" is now evaluated on the re-targeting functions and shows the edit. *)
From Coq Require Import List Ascii String Bool Arith. Import ListNotations.
From E Require Import EditModel EditRun EditProofs EditDeep.
Open Scope string_scope.

(* { meta = { foo.version = true; }; }   then   set meta.foo.z 7 *)
Definition d23 : idoc := ISet true [([s "meta"], ISet true [([s "foo"; s "version"], IAtom (s "true"))])].
Definition after23 : option (st * res unit) :=
  match parse_doc d23 with Ok st0 => Some (set_deep st0 [s "meta"; s "foo"; s "z"] (VAt (s "7"))) | Err _ => None end.
(* the edit reports success and the printed document shows it: meta = { foo.version = true; foo.z = 7; } *)
Example F23_repaired :
  match after23 with
  | Some (st1, Ok tt) => tree_eqb 100 (view st1) (TS [(s "meta", TS [(s "foo.version", TA (s "true")); (s "foo.z", TA (s "7"))])]) = true
  | _ => False end.
Proof. vm_compute. reflexivity. Qed.
(* the root-level step alone (the code before the repair) reported success and printed the document unchanged *)
Example F23_root_step_alone_loses_it :
  match parse_doc d23 with
  | Ok st0 => let '(st1, r) := m_set st0 [s "meta"; s "foo"; s "z"] (VAt (s "7")) in r = Ok tt /\ tree_eqb 100 (view st1) (view st0) = true
  | _ => False end.
Proof. vm_compute. split; reflexivity. Qed.

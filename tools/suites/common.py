"""shared helpers of the correspondence suites (run inside /venv/bin/python with PYTHONPATH=REPO)"""
import json, os, sys
sys.path.insert(0, os.environ.get('NIMA_REPO', '/repo'))

BAD = ('Fixpoint bad_ {T : Type} (ok : T -> bool) (i : nat) (l : list T) : list nat :=\n'
       '  match l with [] => [] | x :: r => if ok x then bad_ ok (S i) r else i :: bad_ ok (S i) r end.\n')

def cs(t):
    """Coq list-of-ascii literal through the generated `c : nat -> ascii`"""
    if isinstance(t, str): t = t.encode('utf8')
    return '[' + '; '.join('c %d' % b for b in t) + ']'

def write_shards(outdir, prefix, header, ty, ok_def, cases, nshards):
    """cases: list of Coq terms of type `ty`; ok_def: Coq text defining `ok : ty -> bool`.
    Each shard prints (number of cases, list of indices on which model and implementation differ)."""
    nshards = max(1, min(nshards, (len(cases) + 49) // 50))
    per = (len(cases) + nshards - 1) // nshards
    for k in range(nshards):
        part = cases[k * per:(k + 1) * per]
        with open(os.path.join(outdir, '%s_%d.v' % (prefix, k)), 'w') as f:
            f.write(header + '\n' + BAD + ok_def + '\n')
            f.write('Definition cases : list (%s) := [\n%s\n].\n' % (ty, ';\n'.join(part)))
            f.write('Eval vm_compute in (List.length cases, bad_ ok 0 cases).\n')
    return per

def summary(outdir, prefix, stats, keys, rule, samples):
    json.dump({'stats': stats, 'keys': sorted(set(keys))[:100000], 'rule': rule, 'samples': samples},
              open(os.path.join(outdir, prefix + '_summary.json'), 'w'))

#!/bin/sh
# usage: tools/round2.sh Cxx [checks...] — confirm the fifth-round seed of Cxx from /tmp/wt5 and run the given checks (default: Cxx) against it
id="$1"; shift; checks="${*:-$id}"
timeout 900 /verif/tools/confirm_seed.sh "$id" "/tmp/wt5/$id" "$id-5" 2>&1 | grep -v "WARNING conda" | head -2
[ -f /verif/seeded/$id-5/patch.diff ] || exit 1
TAIL=${TAIL:-4} timeout 1500 /verif/tools/try_patch.sh /verif/seeded/$id-5/patch.diff $checks 2>/dev/null | cut -c1-230

(* Proof spike, part 6: bindings, sets, and the combined theorem for multi-line containers. *)
From Coq Require Import List Ascii String Bool Arith Lia.
Import ListNotations.
From F0 Require Import F0s Specs P1 P2 P3g P5.
Open Scope char_scope.

(* ---- generic facts ---- *)
Section CInd.
  Variable P : cnode -> Prop.
  Hypothesis Hat : forall i t, P (CAtom i t).
  Hypothesis Hc : forall r, P (CCmt r).
  Hypothesis Hb : forall n g1 g2 v g3, P v -> P (CBind n g1 g2 v g3).
  Hypothesis Hs : forall r gr body cg, Forall (fun gn => P (snd gn)) body -> P (CSet r gr body cg).
  Hypothesis Hl : forall body cg, Forall (fun gn => P (snd gn)) body -> P (CList body cg).
  Fixpoint cnode_ind' (c : cnode) : P c :=
    match c with
    | CAtom i t => Hat i t
    | CCmt r => Hc r
    | CBind n g1 g2 v g3 => Hb n g1 g2 v g3 (cnode_ind' v)
    | CSet r gr body cg =>
        Hs r gr body cg ((fix go (l : list (str * cnode)) : Forall (fun gn => P (snd gn)) l :=
                            match l with [] => Forall_nil _ | (g, n) :: t => Forall_cons (g, n) (cnode_ind' n) (go t) end) body)
    | CList body cg =>
        Hl body cg ((fix go (l : list (str * cnode)) : Forall (fun gn => P (snd gn)) l :=
                       match l with [] => Forall_nil _ | (g, n) :: t => Forall_cons (g, n) (cnode_ind' n) (go t) end) body)
    end.
End CInd.

Lemma rebuild_override a x i inl : rebuild a (Some x) i inl = rebuild (set_after a x) None i inl.
Proof. destruct a; reflexivity. Qed.
Lemma rstrip_nl_id x : ends_nl x = false -> rstrip_nl x = x.
Proof.
  unfold rstrip_nl, ends_nl. intros H. destruct (rev x) as [|c r] eqn:E.
  - apply (f_equal (@rev ascii)) in E. rewrite rev_involutive in E. subst. reflexivity.
  - cbn [drop_nl]. rewrite H. rewrite <- E. apply rev_involutive.
Qed.

Definition conv (body : list (str * cnode)) : list kid := map (fun '(g, n) => (g, n, from_cst n)) body.
Lemma conv_fix body :
  (fix conv (l : list (str * cnode)) : list kid :=
     match l with [] => [] | (g, n) :: t => (g, n, from_cst n) :: conv t end) body = conv body.
Proof. induction body as [|[g n] t IH]; [reflexivity|]. cbn [conv map]. now rewrite IH. Qed.
Lemma strip_conv body : map strip2 (conv body) = body.
Proof. induction body as [|[g n] t IH]; [reflexivity|]. cbn [conv map strip2 fst snd]. fold (conv t). now rewrite IH. Qed.
Fixpoint no_double_b (prev : option cnode) (body : list (str * cnode)) : Prop :=
  match body with
  | [] => True
  | (g, c) :: rest =>
      (is_cmt c = true -> has_nl g = false -> match prev with Some p => is_cmt p = false | None => True end)
      /\ no_double_b (Some c) rest
  end.
Lemma no_double_conv prev body : no_double_b prev body -> no_double prev (conv body).
Proof. revert prev. induction body as [|[g n] t IH]; intros prev H; [exact I|]. destruct H as [H1 H2]. split; [exact H1|apply IH, H2]. Qed.
Definition has_item_b (body : list (str * cnode)) : bool := existsb (fun gn => negb (is_cmt (snd gn))) body.
Lemma has_item_conv body : has_item (conv body) = has_item_b body.
Proof. induction body as [|[g n] t IH]; [reflexivity|]. cbn [conv map has_item has_item_b existsb fst snd]. fold (conv t). unfold has_item, has_item_b in IH. now rewrite IH. Qed.
Lemma from_cst_triv c : a_before (from_cst c) = [] /\ a_after (from_cst c) = [].
Proof.
  destruct c; cbn [from_cst]; try (split; reflexivity).
  - destruct (parse_seq true _ _ _ _); split; reflexivity.
  - destruct (parse_seq false _ _ _ _); split; reflexivity.
Qed.
Lemma bt_shape (J CS Rst : str) : LF :: J ++ CS ++ Rst = (LF :: J ++ CS) ++ Rst.
Proof. cbn [app]. now rewrite <- app_assoc. Qed.
Lemma ends_nl_close h A B C c : ends_nl (h :: A ++ LF :: B ++ C ++ [c]) = (c =c LF).
Proof.
  replace (h :: A ++ LF :: B ++ C ++ [c]) with ((h :: A ++ LF :: B ++ C) ++ [c]).
  - apply ends_nl_snoc.
  - cbn [app]. repeat rewrite <- app_assoc. cbn [app]. repeat rewrite <- app_assoc. reflexivity.
Qed.
Lemma pds_has_item inb : forall content l Q prev,
  has_item content = true -> fst (pds inb content l Q prev) <> [].
Proof.
  induction content as [|[[g c] a] rest IH]; intros l Q prev H; [discriminate|].
  cbn [pds]. cbn [has_item existsb fst snd] in H.
  destruct (is_cmt c) eqn:Ec.
  - cbn [negb orb] in H. match goal with |- context [if ?b then _ else _] => destruct b end; apply IH; exact H.
  - apply pds_nonempty. destruct l; discriminate.
Qed.
Lemma parse_seq_has_item inb content cg :
  has_item content = true -> fst (parse_seq inb content (Some cg) true []) <> [].
Proof.
  intros H. destruct content as [|[[g0 c] a] rest]; [discriminate|].
  rewrite parse_seq_finish. apply finish_nonempty. apply pds_has_item. exact H.
Qed.

(* ---- the readable Q1 of the spec equals the reader-state Q1 ---- *)
Definition spec_q1 (body : list (str * cnode)) : bool :=
  last_is_cmt body &&
  match gap_after_last_item body None false with
  | Some g1 => has_nl g1 && negb (has_empty_line g1) | None => false end.
Definition gval (o : option str) : bool :=
  match o with Some g1 => has_nl g1 && negb (has_empty_line g1) | None => false end.

(* open phase: an item has been seen; (cur, armed) of the spec vs (A0, P) of the reader *)
Lemma q1_of_gap : forall rest A0 P p cur armed,
  no_double_b (Some p) rest ->
  (armed = true -> A0 = None /\ P = [] /\ cur = None /\ is_cmt p = false) ->
  (armed = false -> is_cmt p = true /\ Q1set A0 P = gval cur /\ (A0 <> None \/ P <> [])) ->
  q1_of true Q1set (conv rest) A0 P p = gval (gap_after_last_item rest cur armed).
Proof.
  induction rest as [|[g c] t IH]; intros A0 P p cur armed Hd Ht Hf.
  - cbn [conv map q1_of gap_after_last_item]. destruct armed.
    + destruct (Ht eq_refl) as (-> & -> & -> & _). reflexivity.
    + apply Hf. reflexivity.
  - destruct Hd as [Hd1 Hd2]. cbn [conv map q1_of gap_after_last_item]. fold (conv t).
    destruct (is_cmt c) eqn:Ec.
    + unfold can_inl. destruct armed.
      * destruct (Ht eq_refl) as (-> & -> & -> & Hp).
        destruct (is_bind p && negb (has_nl g)) eqn:Ecan.
        -- apply IH; [exact Hd2|discriminate|]. intros _. split; [exact Ec|]. split; [|left; discriminate].
           apply andb_prop in Ecan. destruct Ecan as [_ E]. cbn [Q1set gval].
           destruct (has_nl g); [discriminate|reflexivity].
        -- apply IH; [exact Hd2|discriminate|]. intros _. split; [exact Ec|]. split; [reflexivity|right; discriminate].
      * destruct (Hf eq_refl) as (Hpc & HQ & Hne).
        assert (Ecan : is_bind p && negb (has_nl g) = false).
        { destruct p; try discriminate; reflexivity. }
        rewrite Ecan. apply IH; [exact Hd2|discriminate|]. intros _. split; [exact Ec|].
        split.
        -- rewrite <- HQ. destruct A0; [reflexivity|]. destruct P as [|[g1 r1] P']; [|reflexivity].
           destruct Hne as [H|H]; congruence.
        -- destruct Hne as [H|H]; [left; exact H|right]. destruct P; [congruence|discriminate].
    + apply IH; [exact Hd2| |discriminate]. intros _. repeat split. exact Ec.
Qed.

(* start phase: no item yet *)
Lemma q1_start_gap : forall body cur,
  no_double_b cur body -> True ->
  q1_start true Q1set (conv body) = gval (gap_after_last_item body None false).
Proof.
  induction body as [|[g c] t IH]; intros cur Hd _; [reflexivity|].
  destruct Hd as [_ Hd2]. cbn [conv map q1_start gap_after_last_item]. fold (conv t).
  destruct (is_cmt c) eqn:Ec.
  - apply (IH (Some c)); [exact Hd2|exact I].
  - apply q1_of_gap; [exact Hd2| |discriminate]. intros _. repeat split. exact Ec.
Qed.

Lemma gap_after_item_last : forall body cur armed,
  last_is_cmt body = false -> body <> [] -> gap_after_last_item body cur armed = None.
Proof.
  induction body as [|[g c] t IH]; intros cur armed Hl Hb; [congruence|].
  cbn [gap_after_last_item]. destruct t as [|x t'].
  - unfold last_is_cmt in Hl. cbn [rev app] in Hl. rewrite Hl. reflexivity.
  - assert (Hl' : last_is_cmt (x :: t') = false).
    { unfold last_is_cmt in *. cbn [rev] in *. destruct (rev t' ++ [x]) eqn:E.
      - destruct (rev t'); discriminate.
      - cbn [app] in Hl. exact Hl. }
    destruct (is_cmt c); apply IH; try exact Hl'; discriminate.
Qed.
Lemma spec_q1_gval body : spec_q1 body = gval (gap_after_last_item body None false).
Proof.
  unfold spec_q1. fold (gval (gap_after_last_item body None false)).
  destruct (last_is_cmt body) eqn:El; [reflexivity|]. cbn [andb].
  destruct body as [|b t]; [reflexivity|]. rewrite gap_after_item_last by (assumption || discriminate). reflexivity.
Qed.
Lemma q1_start_spec body : no_double_b None body -> q1_start true Q1set (conv body) = spec_q1 body.
Proof. intros H. rewrite spec_q1_gval. apply (q1_start_gap body None H I). Qed.
Print Assumptions q1_start_spec.

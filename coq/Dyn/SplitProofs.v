(* Design spike (C12_split): the generated _split_attrpath never splits inside a quoted segment produced by the
   escaper — the escaper's output neither closes the quote early nor opens an interpolation. *)
From Coq Require Import List Ascii String Bool Arith Lia.
Import ListNotations.
From Dyn Require Import Gen.
From Lex Require Import NixLex.

Notation loop := _split_attrpath_loop.
Definition DQc : ascii := c 34. Definition BSc : ascii := c 92. Definition DOLc : ascii := c 36. Definition LBc : ascii := c 123.

(* one iteration inside quotes, outside any interpolation *)
Lemma inq_step f ch r segs buf esc iq ie :
  loop (S f) (ch :: r) (segs, buf, true, esc, 0, iq, ie) =
  if (negb esc && (ch =c c 36) && has_at 1 (ch :: r)) && (at_ 1 (ch :: r) =c c 123)
  then loop f (skipn 2 (ch :: r)) (segs, (buf ++ [ch]) ++ [c 123], true, esc, 1, iq, ie)
  else loop f r (segs, buf ++ [ch], (if esc then true else if ch =c c 92 then true else negb (ch =c c 34)),
                 (if esc then false else ch =c c 92), 0, iq, ie).
Proof.
  cbn [_split_attrpath_loop]. change (has_at 0 (ch :: r)) with true. cbv iota.
  change (at_ 0 (ch :: r)) with ch. change (Nat.ltb 0 0) with false. cbv iota zeta.
  change (skipn 1 (ch :: r)) with r.
  destruct (negb esc && (ch =c c 36) && has_at 1 (ch :: r)) eqn:E1.
  - destruct (at_ 1 (ch :: r) =c c 123) eqn:E2; cbn [andb]; [reflexivity|].
    apply andb_prop in E1. destruct E1 as [E1 _]. apply andb_prop in E1. destruct E1 as [Hesc Hd].
    apply negb_true_iff in Hesc. subst esc. apply Ascii.eqb_eq in Hd. subst ch.
    change (c 36 =c c 92) with false. change (c 36 =c c 34) with false. reflexivity.
  - cbn [andb]. destruct esc; [reflexivity|]. destruct (ch =c c 92); [reflexivity|]. destruct (ch =c c 34); reflexivity.
Qed.

Open Scope char_scope.
Definition head_not_brace (x : str) : Prop := match x with h :: _ => (h =c "{") = false | [] => True end.

Lemma inq_else f ch r segs buf esc :
  (esc = true \/ (ch =c "$") = false \/ head_not_brace r) ->
  loop (S f) (ch :: r) (segs, buf, true, esc, 0%nat, false, false) =
  loop f r (segs, buf ++ [ch], (if esc then true else if ch =c c 92 then true else negb (ch =c c 34)),
            (if esc then false else ch =c c 92), 0%nat, false, false).
Proof.
  intros H. rewrite inq_step.
  assert (E : (negb esc && (ch =c c 36) && has_at 1 (ch :: r)) && (at_ 1 (ch :: r) =c c 123) = false).
  { destruct H as [-> | [H | H]].
    - reflexivity.
    - change (c 36) with "$". rewrite H. now rewrite andb_false_r.
    - destruct r as [|h r']; [cbn; now rewrite !andb_false_r|]. cbn [head_not_brace] in H.
      change (at_ 1 (ch :: h :: r')) with h. change (c 123) with "{". rewrite H. apply andb_false_r. }
  rewrite E. reflexivity.
Qed.

Lemma escaped_head t rest' : (match t with d :: _ => (d =c "{") = false | [] => True end) ->
  head_not_brace (escape_spec true t ++ c 34 :: rest').
Proof.
  destruct t as [|d r2]; intros H; [reflexivity|].
  destruct (special d) eqn:Es.
  - destruct (escape_cons_special true d r2 Es) as [e [-> _]]. reflexivity.
  - destruct (d =c "$") eqn:Ed.
    + apply Ascii.eqb_eq in Ed. subst d. destruct r2 as [|d3 r3]; [reflexivity|].
      destruct (d3 =c "{") eqn:E3; [apply Ascii.eqb_eq in E3; subst d3; reflexivity|].
      rewrite (escape_dollar_other d3 r3 E3). reflexivity.
    + rewrite (escape_cons_plain d r2 Es Ed). exact H.
Qed.

Lemma inq_escaped : forall s f rest' segs buf,
  loop (List.length (escape_spec true s) + f) (escape_spec true s ++ c 34 :: rest') (segs, buf, true, false, 0%nat, false, false) =
  loop f (c 34 :: rest') (segs, buf ++ escape_spec true s, true, false, 0%nat, false, false).
Proof.
  intros s. remember (List.length s) as n eqn:Hn. revert s Hn.
  induction n as [n IH] using lt_wf_ind. intros s Hn f rest' segs buf.
  assert (IH' : forall t, List.length t < n -> forall f rest' segs buf,
    loop (List.length (escape_spec true t) + f) (escape_spec true t ++ c 34 :: rest') (segs, buf, true, false, 0%nat, false, false) =
    loop f (c 34 :: rest') (segs, buf ++ escape_spec true t, true, false, 0%nat, false, false)).
  { intros t Ht. apply (IH (List.length t) Ht t eq_refl). }
  clear IH. subst n.
  destruct s as [|ch rest]; [cbn [escape_spec app List.length plus]; now rewrite app_nil_r|].
  destruct (special ch) eqn:Esp.
  - destruct (escape_cons_special true ch rest Esp) as [e [-> He]].
    cbn [List.length plus app]. rewrite inq_else by (right; left; reflexivity).
    change (BS =c c 92) with true. cbv iota.
    rewrite inq_else by (left; reflexivity). cbv iota.
    rewrite IH' by (cbn; lia). repeat rewrite <- app_assoc. reflexivity.
  - destruct (ch =c "$") eqn:Ed.
    2:{ rewrite (escape_cons_plain ch rest Esp Ed). cbn [List.length plus app].
        rewrite inq_else; [|right; left; exact Ed].
        unfold special in Esp. apply orb_false_iff in Esp. destruct Esp as [Esp _]. apply orb_false_iff in Esp. destruct Esp as [Esp _].
        apply orb_false_iff in Esp. destruct Esp as [Esp _]. apply orb_false_iff in Esp. destruct Esp as [E1 E2].
        change (c 92) with BS. change (c 34) with DQ. rewrite E1, E2. cbn [negb].
        rewrite IH' by (cbn; lia). repeat rewrite <- app_assoc. reflexivity. }
    apply Ascii.eqb_eq in Ed. subst ch.
    destruct rest as [|d r2].
    + change (escape_spec true ["$"]) with ["$"]. cbn [List.length plus app]. rewrite inq_else by (right; right; reflexivity). reflexivity.
    + destruct (d =c "{") eqn:Eb.
      * apply Ascii.eqb_eq in Eb. subst d. rewrite escape_dollar_brace. cbn [List.length plus app].
        rewrite inq_else by (right; left; reflexivity). change (BS =c c 92) with true. cbv iota.
        rewrite inq_else by (left; reflexivity). cbv iota.
        rewrite inq_else by (right; left; reflexivity). change ("{" =c c 92) with false. change ("{" =c c 34) with false. cbn [negb]. cbv iota.
        rewrite IH' by (cbn; lia). repeat rewrite <- app_assoc. reflexivity.
      * rewrite (escape_dollar_other d r2 Eb). cbn [List.length plus app].
        rewrite inq_else by (right; right; apply escaped_head; exact Eb).
        change ("$" =c c 92) with false. change ("$" =c c 34) with false. cbn [negb]. cbv iota.
        rewrite IH' by (cbn; lia). repeat rewrite <- app_assoc. reflexivity.
Qed.
Print Assumptions inq_escaped.

(* ---------- steps in the normal state ---------- *)
Lemma norm_dq f r segs buf :
  loop (S f) (c 34 :: r) (segs, buf, false, false, 0%nat, false, false) = loop f r (segs, buf ++ [c 34], true, false, 0%nat, false, false).
Proof. reflexivity. Qed.
Lemma norm_dot f r segs buf : isnil (py_strip buf) = false ->
  loop (S f) (c 46 :: r) (segs, buf, false, false, 0%nat, false, false) = loop f r (segs ++ [py_strip buf], [], false, false, 0%nat, false, false).
Proof.
  intros H. cbn [_split_attrpath_loop]. change (has_at 0 (c 46 :: r)) with true. cbv iota.
  change (at_ 0 (c 46 :: r)) with (c 46). change (Nat.ltb 0 0) with false. cbv iota zeta.
  change (c 46 =c c 34) with false. change (c 46 =c c 36) with false. change (c 46 =c c 46) with true. cbn [andb]. cbv iota.
  rewrite H. reflexivity.
Qed.
Lemma loop_end f st : loop f [] st = Ok st.
Proof. destruct f; reflexivity. Qed.

Definition quoteA (s : str) : str := c 34 :: escape_spec true s ++ [c 34].

(* a quoted segment is not whitespace at either end, so .strip() leaves it alone *)
Lemma py_strip_ends (x : str) a b : py_space a = false -> py_space b = false -> py_strip (a :: x ++ [b]) = a :: x ++ [b].
Proof.
  intros Ha Hb. unfold py_strip.
  assert (E1 : py_lstrip (a :: x ++ [b]) = a :: x ++ [b]) by (cbn [py_lstrip]; now rewrite Ha).
  rewrite E1.
  assert (E2 : rev (a :: x ++ [b]) = b :: rev x ++ [a]) by (cbn [rev]; rewrite rev_app_distr; reflexivity).
  rewrite E2.
  assert (E3 : py_lstrip (b :: rev x ++ [a]) = b :: rev x ++ [a]) by (cbn [py_lstrip]; now rewrite Hb).
  rewrite E3. cbn [rev]. rewrite rev_app_distr, rev_involutive. reflexivity.
Qed.
Lemma py_strip_quote s : py_strip (quoteA s) = quoteA s.
Proof. unfold quoteA. apply py_strip_ends; reflexivity. Qed.

(* reading one quoted segment from the normal state with an empty buffer *)
Lemma read_quoted s f rest' segs :
  loop (S (List.length (escape_spec true s) + S f)) (quoteA s ++ rest') (segs, [], false, false, 0%nat, false, false) =
  loop f rest' (segs, quoteA s, false, false, 0%nat, false, false).
Proof.
  unfold quoteA. cbn [app]. rewrite norm_dq. rewrite <- app_assoc. cbn [app].
  rewrite inq_escaped. rewrite inq_else by (right; left; reflexivity).
  change (c 34 =c c 92) with false. change (c 34 =c c 34) with true. cbn [negb]. cbv iota.
  rewrite <- app_assoc. reflexivity.
Qed.

(* C12_split, one segment: a quoted name produced by the escaper is one segment, whatever it contains *)
Theorem C12_split_one : forall s, _split_attrpath (quoteA s) = Ok [quoteA s].
Proof.
  intros s. unfold _split_attrpath. cbv zeta.
  replace (List.length (quoteA s)) with (S (List.length (escape_spec true s) + S 0))
    by (unfold quoteA; cbn [List.length]; rewrite app_length; cbn [List.length]; lia).
  rewrite <- (app_nil_r (quoteA s)) at 1. rewrite read_quoted, loop_end. cbv iota beta.
  change (Nat.ltb 0 0) with false. cbv iota. rewrite py_strip_quote. reflexivity.
Qed.
Print Assumptions C12_split_one.

(* ---------- several segments joined by dots ---------- *)
Fixpoint joind (l : list str) : str := match l with [] => [] | [x] => x | x :: r => x ++ c 46 :: joind r end.
Lemma joind_cons2 a b t : joind (a :: b :: t) = a ++ c 46 :: joind (b :: t).
Proof. reflexivity. Qed.
Lemma len_quoteA s : List.length (quoteA s) = S (List.length (escape_spec true s) + 1).
Proof. unfold quoteA. cbn [List.length]. rewrite app_length. cbn [List.length]. lia. Qed.

Lemma read_path : forall ss segs, ss <> [] ->
  loop (List.length (joind (map quoteA ss))) (joind (map quoteA ss)) (segs, [], false, false, 0%nat, false, false) =
  Ok (segs ++ map quoteA (removelast ss), quoteA (last ss []), false, false, 0%nat, false, false).
Proof.
  induction ss as [|a ss IH]; intros segs Hne; [congruence|].
  destruct ss as [|b t].
  - cbn [map joind removelast last]. rewrite len_quoteA. rewrite <- (app_nil_r (quoteA a)) at 1.
    rewrite read_quoted, loop_end, app_nil_r. reflexivity.
  - change (map quoteA (a :: b :: t)) with (quoteA a :: quoteA b :: map quoteA t). rewrite joind_cons2.
    change (quoteA b :: map quoteA t) with (map quoteA (b :: t)).
    rewrite app_length, len_quoteA. cbn [List.length].
    replace (S (List.length (escape_spec true a) + 1) + S (List.length (joind (map quoteA (b :: t)))))
      with (S (List.length (escape_spec true a) + S (S (List.length (joind (map quoteA (b :: t))))))) by lia.
    rewrite read_quoted. rewrite norm_dot by (rewrite py_strip_quote; reflexivity). rewrite py_strip_quote.
    rewrite IH by discriminate.
    change (removelast (a :: b :: t)) with (a :: removelast (b :: t)). change (last (a :: b :: t) []) with (last (b :: t) []).
    cbn [map]. rewrite <- app_assoc. reflexivity.
Qed.

Lemma joind_nonempty ss : ss <> [] -> joind (map quoteA ss) <> [].
Proof. destruct ss as [|a [|b t]]; [congruence| |]; intros _; unfold quoteA; discriminate. Qed.

(* C12_split: splitting happens exactly at the unquoted dots *)
Theorem C12_split : forall ss, ss <> [] -> _split_attrpath (joind (map quoteA ss)) = Ok (map quoteA ss).
Proof.
  intros ss Hne. unfold _split_attrpath. cbv zeta. rewrite (read_path ss [] Hne). cbv iota beta.
  change (Nat.ltb 0 0) with false. cbv iota. rewrite py_strip_quote. cbn [isnil quoteA negb app]. cbv iota.
  f_equal. rewrite (app_removelast_last [] Hne) at 3. rewrite map_app. reflexivity.
Qed.
Print Assumptions C12_split.

(* the same statement about the two GENERATED functions together (escaper of primitive.py, splitter of binding.py) *)
From Dyn Require Import Refine.
Definition quoteG (s : str) : str := c 34 :: _escape_nix_string true s ++ [c 34].
Corollary C12_split_code : forall ss, ss <> [] -> _split_attrpath (joind (map quoteG ss)) = Ok (map quoteG ss).
Proof.
  intros ss Hne. assert (E : map quoteG ss = map quoteA ss).
  { apply map_ext. intros s. unfold quoteG, quoteA. now rewrite generated_escape_is_spec. }
  rewrite E. apply C12_split, Hne.
Qed.
Print Assumptions C12_split_code.

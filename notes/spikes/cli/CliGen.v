(* GENERATED from cli/main.py:main *)
From Coq Require Import List String. Import ListNotations. Open Scope string_scope.
Require Import CliIR.
Definition arms : list (option string * list stmt) := [
  (Some "shell",
     [SAssign "shell_locals" (EDict [(EStr "parse", EVar "parse"); (EStr "set_value", EVar "set_value"); (EStr "remove_value", EVar "remove_value"); (EStr "NixSourceCode", EVar "NixSourceCode")]);
      SIf (EIsNot (EAttr (EVar "args") "file") (EAttr (EVar "sys") "stdin")) [SAssign "source_text" (EMeth (EAttr (EVar "args") "file") "read" []);
      SIf (EVar "source_text") [SSetItem (EVar "shell_locals") (EStr "source_text") (EVar "source_text");
      SSetItem (EVar "shell_locals") (EStr "source") (ECall "parse" [("", EVar "source_text")])] []] [];
      SExpr (EMeth (EVar "code") "interact" [("banner", EStr "Nix Manipulator shell (parse, set_value, remove_value, NixSourceCode)"); ("local", EVar "shell_locals")]);
      SReturn 0]);
  (Some "set",
     [SAssign "source" (ECall "parse" [("", EMeth (EAttr (EVar "args") "file") "read" [])]);
      SPrint (ECall "set_value" [("source", EVar "source"); ("npath", EAttr (EVar "args") "npath"); ("value", EAttr (EVar "args") "value")]) false;
      SReturn 0]);
  (Some "rm",
     [SAssign "source" (ECall "parse" [("", EMeth (EAttr (EVar "args") "file") "read" [])]);
      SPrint (ECall "remove_value" [("source", EVar "source"); ("npath", EAttr (EVar "args") "npath")]) false;
      SReturn 0]);
  (Some "test",
     [SAssign "original" (EMeth (EAttr (EVar "args") "file") "read" []);
      SAssign "source" (ECall "parse" [("", EVar "original")]);
      SIf (EAttr (EVar "source") "contains_error") [SPrint (EStr "Fail") false;
      SReturn 1] [];
      SAssign "rebuild" (EMeth (EVar "source") "rebuild" []);
      SIf (EEq (EVar "original") (EVar "rebuild")) [SPrint (EStr "OK") false;
      SReturn 0] [];
      SPrint (EStr "Fail") false;
      SReturn 1]);
  (None,
     [SExpr (EMeth (EVar "parser") "print_help" [("", EAttr (EVar "sys") "stderr")]);
      SReturn 2])
].

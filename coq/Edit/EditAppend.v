(* Proof spike for C04/C05 (insertion at the root): storing a fresh key appends exactly one entry to the printed
   document; every existing entry prints as before.  Needs "ids are closed" (every id mentioned in a values/order
   list is below the allocation pointer), which is decidable (ids_closedb). *)
From Coq Require Import List Ascii String Bool Arith Lia.
Import ListNotations.
From E Require Import EditModel EditProofs EditFrame EditLaws.

Definition oid (e : oentry) : nat := match e with OPlain b => b | OPath _ l => l end.
Definition closed_val (n : nat) (v : value) : Prop :=
  match v with
  | VAt _ => True
  | VSet vals ord _ => (forall i, In i vals -> i < n) /\ (forall e, In e ord -> oid e < n)
  end.
Definition ids_closed (s : st) : Prop :=
  closed_val (nxt s) (VSet (rvals s) (rorder s) (rml s)) /\ forall k b, In (k, b) (hp s) -> closed_val (nxt s) (bval b).

Lemma closed_val_of s i : ids_closed s -> closed_val (nxt s) (val_of s i).
Proof.
  intros [_ H]. unfold val_of. destruct (hget (hp s) i) as [b|] eqn:E; [|exact I]. apply (H i b), hget_in, E.
Qed.
Lemma nested_of_alloc_other s b i : i <> nxt s -> nested_of (fst (alloc s b)) i = nested_of s i.
Proof. intros Hn. unfold alloc, nested_of. cbn [fst hp hget]. destruct (nxt s =? i) eqn:E; [apply Nat.eqb_eq in E; congruence|reflexivity]. Qed.
Lemma flat_map_ext_in {A B} (f g : A -> list B) l : (forall a, In a l -> f a = g a) -> flat_map f l = flat_map g l.
Proof. induction l as [|a l IH]; intros H; [reflexivity|]. cbn [flat_map]. rewrite (H a (or_introl eq_refl)), IH; [reflexivity|]. intros x Hx. apply H. now right. Qed.

Section Alloc.
  Variables (s : st) (b : binding).
  Hypothesis Hc : ids_closed s.
  Let s' := fst (alloc s b).

  Lemma expand_alloc (lv lv' : nat -> tree) : (forall i, i < nxt s -> lv' i = lv i) ->
    forall g bid prefix, bid < nxt s -> expand s' lv' g bid prefix = expand s lv g bid prefix.
  Proof.
    intros Hlv. induction g as [|g IH]; intros bid prefix Hb; [reflexivity|]. cbn [expand].
    unfold s'. rewrite (val_of_alloc_other s b bid) by lia.
    pose proof (closed_val_of s bid Hc) as Hcl. destruct (val_of s bid) as [tx|cv cord cm]; [reflexivity|].
    destruct Hcl as [Hcv _]. apply fold_left_ext. intros acc iid Hin. specialize (Hcv iid Hin).
    destruct acc as [out|]; [|reflexivity].
    rewrite (nested_of_alloc_other s b iid) by lia. rewrite (val_of_alloc_other s b iid) by lia.
    rewrite (name_of_alloc_other s b iid) by lia. fold s'. rewrite (IH iid _ Hcv), (Hlv iid Hcv). reflexivity.
  Qed.

  Lemma view_alloc ar : forall f o v, closed_val (nxt s) v -> view_value_g ar f s' o v = view_value_g ar f s o v.
  Proof.
    induction f as [|f IH]; intros o v Hv; [reflexivity|]. cbn [view_value_g]. destruct v as [tx|vals order ml]; [reflexivity|].
    destruct vals as [|v0 vals']; [reflexivity|]. f_equal. destruct Hv as [Hvals Hord].
    assert (Hlv : forall i, i < nxt s -> view_value_g ar f s' (Some i) (val_of s' i) = view_value_g ar f s (Some i) (val_of s i)).
    { intros i Hi. unfold s'. rewrite (val_of_alloc_other s b i) by lia. fold s'. apply IH, closed_val_of, Hc. }
    apply flat_map_ext_in. intros e He.
    assert (Hid : oid e < nxt s).
    { destruct order as [|o0 order']; [|apply Hord, He]. apply in_map_iff in He. destruct He as [i [<- Hi]]. cbn [oid]. apply Hvals, Hi. }
    destruct e as [bid|sg leaf]; cbn [oid] in Hid.
    - unfold s'. rewrite (nested_of_alloc_other s b bid), (name_of_alloc_other s b bid) by lia. fold s'.
      rewrite (expand_alloc _ _ Hlv f bid _ Hid), (Hlv bid Hid). reflexivity.
    - rewrite (Hlv leaf Hid). reflexivity.
  Qed.
End Alloc.

Definition render_entry ar f s (e : oentry) : list (str * tree) :=
  match e with
  | OPath sg leaf => [(joindot sg, view_value_g ar f s (Some leaf) (val_of s leaf))]
  | OPlain bid =>
      if nested_of s bid then
        match expand s (fun i => view_value_g ar f s (Some i) (val_of s i)) f bid [name_of s bid] with
        | Some l => l
        | None => [(name_of s bid, view_value_g ar f s (Some bid) (val_of s bid))]
        end
      else [(name_of s bid, view_value_g ar f s (Some bid) (val_of s bid))]
  end.
Lemma view_set_unfold ar f s o vals order ml : vals <> [] ->
  view_value_g ar (S f) s o (VSet vals order ml) =
  TS (flat_map (render_entry ar f s) (match order with [] => map OPlain vals | _ => order end)).
Proof. intros H. destruct vals; [congruence|reflexivity]. Qed.
Lemma view_set_empty ar f s o order ml : view_value_g ar (S f) s o (VSet [] order ml) = TS [].
Proof. reflexivity. Qed.

Definition items_of (t : tree) : list (str * tree) := match t with TS l => l | TA _ => [] end.

(* storing a fresh key k at the root: one new entry at the end, nothing else changes *)
Theorem C04_fresh_root s k t :
  ids_closed s -> (rvals s = [] -> rorder s = []) -> find_by_name s (rvals s) k = None ->
  view (set_setitem s SRoot k (VAt t)) = TS (items_of (view s) ++ [(k, TA t)]).
Proof.
  intros Hc Hcons Hfresh. rewrite (setitem_root_fresh s k (VAt t) Hfresh).
  set (b := {| bname := k; bval := VAt t; bnested := false |}).
  assert (Es : fst (append_new s SRoot k (VAt t)) =
               {| hp := (nxt s, b) :: hp s; nxt := S (nxt s); rvals := rvals s ++ [nxt s];
                  rorder := match rorder s with [] => [] | _ => rorder s ++ [OPlain (nxt s)] end; rml := rml s |}) by reflexivity.
  rewrite Es. unfold view, view_value. cbn [rvals rorder rml].
  set (s' := {| hp := (nxt s, b) :: hp s; nxt := S (nxt s); rvals := rvals s ++ [nxt s];
                rorder := match rorder s with [] => [] | _ => rorder s ++ [OPlain (nxt s)] end; rml := rml s |}).
  (* s' and (fst (alloc s b)) have the same heap: the view only reads the heap *)
  assert (Hheap : forall ar f o v, view_value_g ar f s' o v = view_value_g ar f (fst (alloc s b)) o v).
  { assert (Hx : forall g lv bid prefix, expand s' lv g bid prefix = expand (fst (alloc s b)) lv g bid prefix).
    { induction g as [|g IHg]; intros lv bid prefix; [reflexivity|]. cbn [expand].
      change (val_of s' bid) with (val_of (fst (alloc s b)) bid). destruct (val_of (fst (alloc s b)) bid); [reflexivity|].
      apply fold_left_ext. intros acc iid _. destruct acc; [|reflexivity].
      change (nested_of s' iid) with (nested_of (fst (alloc s b)) iid). change (val_of s' iid) with (val_of (fst (alloc s b)) iid).
      change (name_of s' iid) with (name_of (fst (alloc s b)) iid). rewrite IHg. reflexivity. }
    intros ar. induction f as [|f IHf]; intros o v; [reflexivity|]. cbn [view_value_g]. destruct v as [tx|vals order ml]; [reflexivity|].
    destruct vals; [reflexivity|]. f_equal. apply flat_map_ext. intros e. destruct e as [bid|sg leaf].
    - change (nested_of s' bid) with (nested_of (fst (alloc s b)) bid). change (name_of s' bid) with (name_of (fst (alloc s b)) bid).
      change (val_of s' bid) with (val_of (fst (alloc s b)) bid). rewrite Hx.
      assert (El : (fun i => view_value_g ar f s' (Some i) (val_of s' i)) = (fun i => view_value_g ar f s' (Some i) (val_of (fst (alloc s b)) i))) by reflexivity.
      rewrite (IHf (Some bid)).
      destruct (nested_of (fst (alloc s b)) bid); [|reflexivity].
      assert (Ee : expand (fst (alloc s b)) (fun i => view_value_g ar f s' (Some i) (val_of s' i)) f bid [name_of (fst (alloc s b)) bid] =
                   expand (fst (alloc s b)) (fun i => view_value_g ar f (fst (alloc s b)) (Some i) (val_of (fst (alloc s b)) i)) f bid [name_of (fst (alloc s b)) bid]).
      { clear -IHf. generalize [name_of (fst (alloc s b)) bid]. generalize bid. generalize f at 2 4 as g.
        induction g as [|g IHg]; intros bid0 prefix; [reflexivity|]. cbn [expand].
        destruct (val_of (fst (alloc s b)) bid0); [reflexivity|]. apply fold_left_ext. intros acc iid _. destruct acc; [|reflexivity].
        rewrite IHg. change (val_of s' iid) with (val_of (fst (alloc s b)) iid). rewrite (IHf (Some iid)). reflexivity. }
      rewrite Ee. reflexivity.
    - change (val_of s' leaf) with (val_of (fst (alloc s b)) leaf). rewrite IHf. reflexivity. }
  rewrite Hheap.
  set (rv := match rorder s with [] => map OPlain (rvals s) | _ => rorder s end).
  destruct Hc as [[Hrv Hro] Hheapc].
  change 1000 with (S 999).
  rewrite view_set_unfold by (destruct (rvals s); discriminate).
  assert (Hrv' : (match (match rorder s with [] => [] | _ => rorder s ++ [OPlain (nxt s)] end) with
                  | [] => map OPlain (rvals s ++ [nxt s])
                  | _ => match rorder s with [] => [] | _ => rorder s ++ [OPlain (nxt s)] end end) = rv ++ [OPlain (nxt s)]).
  { unfold rv. destruct (rorder s) as [|o0 os]; [now rewrite map_app|reflexivity]. }
  rewrite Hrv'. rewrite flat_map_app. f_equal. f_equal.
  - (* the old entries print as before *)
    assert (Hold : items_of (view_value_g (fun _ t0 => t0) (S 999) s None (VSet (rvals s) (rorder s) (rml s))) =
                   flat_map (render_entry (fun _ t0 => t0) 999 s) rv).
    { destruct (rvals s) as [|r0 rs] eqn:Er.
      - rewrite view_set_empty. unfold rv. rewrite (Hcons eq_refl). reflexivity.
      - rewrite view_set_unfold by discriminate. reflexivity. }
    rewrite Hold. apply flat_map_ext_in. intros e He.
    assert (Hid : oid e < nxt s).
    { unfold rv in He. destruct (rorder s) as [|o0 os] eqn:Eo; [|apply Hro, He]. apply in_map_iff in He. destruct He as [i [<- Hi]]. apply Hrv, Hi. }
    assert (Hcs : ids_closed s) by (split; [split; assumption|assumption]).
    assert (Hlv : forall i, i < nxt s -> view_value_g (fun _ t0 => t0) 999 (fst (alloc s b)) (Some i) (val_of (fst (alloc s b)) i) =
                                          view_value_g (fun _ t0 => t0) 999 s (Some i) (val_of s i)).
    { intros i Hi. rewrite (val_of_alloc_other s b i) by lia. apply view_alloc; [exact Hcs|apply closed_val_of, Hcs]. }
    unfold render_entry. destruct e as [bid|sg leaf]; cbn [oid] in Hid.
    + rewrite (nested_of_alloc_other s b bid), (name_of_alloc_other s b bid) by lia.
      rewrite (expand_alloc s b Hcs _ _ Hlv 999 bid _ Hid), (Hlv bid Hid). reflexivity.
    + rewrite (Hlv leaf Hid). reflexivity.
  - (* the new entry *)
    cbn [flat_map app render_entry]. rewrite app_nil_r.
    assert (En : nested_of (fst (alloc s b)) (nxt s) = false) by (unfold alloc, nested_of; cbn [fst hp hget]; now rewrite Nat.eqb_refl).
    assert (Ev : val_of (fst (alloc s b)) (nxt s) = VAt t) by (unfold alloc, val_of; cbn [fst hp hget]; now rewrite Nat.eqb_refl).
    rewrite En, (name_of_alloc_new s b), Ev. reflexivity.
Qed.
Print Assumptions C04_fresh_root.

(* ---------- the hypothesis is decidable, and met by parsed documents (example) ---------- *)
Definition closed_valb (n : nat) (v : value) : bool :=
  match v with VAt _ => true | VSet vals ord _ => forallb (fun i => i <? n) vals && forallb (fun e => oid e <? n) ord end.
Definition ids_closedb (s : st) : bool :=
  closed_valb (nxt s) (VSet (rvals s) (rorder s) (rml s)) && forallb (fun kb => closed_valb (nxt s) (bval (snd kb))) (hp s).
Lemma closed_valb_sound n v : closed_valb n v = true -> closed_val n v.
Proof.
  destruct v as [t|vals ord m]; [intros _; exact I|]. cbn [closed_valb closed_val]. intros H. apply andb_prop in H. destruct H as [H1 H2].
  rewrite forallb_forall in H1, H2. split; intros x Hx; [apply Nat.ltb_lt, H1, Hx|apply Nat.ltb_lt, H2, Hx].
Qed.
Lemma ids_closedb_sound s : ids_closedb s = true -> ids_closed s.
Proof.
  unfold ids_closedb, ids_closed. intros H. apply andb_prop in H. destruct H as [H1 H2]. split; [apply closed_valb_sound, H1|].
  rewrite forallb_forall in H2. intros k b Hin. apply closed_valb_sound. exact (H2 (k, b) Hin).
Qed.

Definition cs (x : string) : str := list_ascii_of_string x.
(* { a.b = 1; c = { d = 2; }; }  then  set zz 9 *)
Definition demo_doc : idoc := ISet true [([cs "a"; cs "b"], IAtom (cs "1")); ([cs "c"], ISet false [([cs "d"], IAtom (cs "2"))])].
Example demo_fresh_root :
  match parse_doc demo_doc with
  | Ok s => ids_closedb s = true /\ find_by_name s (rvals s) (cs "zz") = None /\
            view (set_setitem s SRoot (cs "zz") (VAt (cs "9"))) = TS (items_of (view s) ++ [(cs "zz", TA (cs "9"))])
  | Err _ => False end.
Proof. vm_compute. repeat split; reflexivity. Qed.

"""Mapping-API correspondence (C14): canonical documents (attrpath bindings included) x sequences of src[k] lookups,
assignments and deletions on the top-level set; after every call the lookup result / error class and the printed
structure are compared inside Coq with E.MapRun (getitem, set_setitem, set_delitem on the heap model).
usage: map_corr.py SEED N OUTDIR PREFIX"""
import json, os, random, re, sys
from common import write_shards
seed, N, outdir, prefix = int(sys.argv[1]), int(sys.argv[2]), sys.argv[3], sys.argv[4]
from gen_docs import DocGen, IDS
from nix_manipulator import parse
from nix_manipulator.parser import parse_to_ast
from edit_corr_lib import q, idoc, impl_view, tree
G = DocGen(random.Random(seed), refs=False); R2 = random.Random(seed + 5)
cases, stats, samples = [], {'get': 0, 'set': 0, 'del': 0, 'KeyError': 0, 'attrpath_docs': 0}, []
while len(cases) < N:
    d = G.doc()
    if len(d) > 600: continue
    root = parse_to_ast(d); top = [c for c in root.children if c.type != 'comment'][0]
    try: src = parse(d)
    except ValueError: continue
    v0 = impl_view(src.rebuild()); ops = []; plain = []
    for step in range(R2.randrange(1, 6)):
        view = impl_view(src.rebuild())
        names = sorted({n.split('.')[0] for n, _ in view}) + [R2.choice(IDS), 'zz%d' % step]
        k = R2.choice(names); a = R2.choice(['get', 'set', 'set', 'del', 'setin', 'setin', 'getin'])
        if not re.fullmatch(r"[A-Za-z_][A-Za-z0-9_']*", k): continue
        if a in ('setin', 'getin'):
            from nix_manipulator.expressions.set import AttributeSet
            try: outer = src[k]
            except KeyError: continue
            if not isinstance(outer, AttributeSet): continue
            outers = [k]
            while R2.random() < 0.6:                      # go deeper through set-valued bindings
                subs = [b.name for b in outer.values if hasattr(b, 'name') and isinstance(b.value, AttributeSet) and re.fullmatch(r"[A-Za-z_][A-Za-z0-9_']*", b.name)]
                if not subs: break
                nxt = R2.choice(subs); outer = outer[nxt]; outers.append(nxt)
            inner_names = [b.name for b in outer.values if hasattr(b, 'name')] + ['nn%d' % step]
            k2 = R2.choice(inner_names)
            if not re.fullmatch(r"[A-Za-z_][A-Za-z0-9_']*", k2): continue
            stats[a] = stats.get(a, 0) + 1
            qo = '[' + '; '.join(q(x) for x in outers) + ']'
            if a == 'setin':
                t = str(R2.randrange(1000, 2000)); outer[k2] = int(t); e = 'XOk'; o = 'MSetIn %s %s %s' % (qo, q(k2), q(t))
            else:
                try:
                    val = outer[k2]
                    e = 'XSet' if isinstance(val, AttributeSet) else 'XAtom %s' % q(' '.join(val.rebuild().split()) if hasattr(val, 'rebuild') else str(val))
                except KeyError: e = 'XMissing'
                o = 'MGetIn %s %s' % (qo, q(k2))
            ops.append('(%s, %s, %s)' % (o, e, tree(impl_view(src.rebuild())))); plain.append([a] + outers + [k2])
            continue
        stats[a] = stats.get(a, 0) + 1
        if a == 'get':
            try:
                val = src[k]
                from nix_manipulator.expressions.set import AttributeSet
                e = 'XSet' if isinstance(val, AttributeSet) else 'XAtom %s' % q(' '.join(val.rebuild().split()) if hasattr(val, 'rebuild') else str(val))
            except KeyError: e = 'XMissing'
            o = 'MGet %s' % q(k)
        elif a == 'set':
            t = str(R2.randrange(1000, 2000)); src[k] = int(t); e = 'XOk'; o = 'MSet %s %s' % (q(k), q(t))
        else:
            try: del src[k]; e = 'XOk'
            except KeyError: e = 'XKeyErr'; stats['KeyError'] += 1
            o = 'MDel %s' % q(k)
        ops.append('(%s, %s, %s)' % (o, e, tree(impl_view(src.rebuild())))); plain.append([a, k])
    if ops:
        cases.append('(%s, %s, [%s])' % (idoc(top), tree(v0), '; '.join(ops)))
        if any('.' in n for n, _ in v0): stats['attrpath_docs'] += 1
        if len(samples) < 3: samples.append({'doc': d, 'ops': plain})
HDR = 'From Coq Require Import List Ascii String. Import ListNotations.\nFrom E Require Import EditModel EditRun MapRun EditMapSpec.\nOpen Scope string_scope.\n'
OK = ('Definition ok (c : idoc * tree * list (mop * mexp * tree)) : bool :=\n'
      '  match mcheck c with None => true | Some _ => false end &&\n'
      '  (* the invariant the refinement theorem (EditMapSpec.run_refines) assumes holds of every parsed state *)\n'
      '  match parse_doc (fst (fst c)) with Ok st0 => map_invb st0 | Err _ => false end.\n')
write_shards(outdir, prefix, HDR, 'idoc * tree * list (mop * mexp * tree)', OK, cases, 16)
json.dump({'stats': stats, 'keys': [], 'distinct_count': len(set(cases)),
           'rule': 'canonical F0 documents (attrpath bindings and families included) x 1-5 get/set/del on the top-level mapping; lookup result, error class and printed view compared after every call',
           'samples': samples}, open(os.path.join(outdir, prefix + '_summary.json'), 'w'))
print(len(cases))

(* Theorems over the definitions GENERATED on every run from cli/manipulations.py by tools/layers2v.py
   (collect = _collect_scope_layers, write = _write_scope_layers, pick_set / pick_rm = the layer selection of
   set_value / remove_value).  They hold for every number of layers and every content of the layers. *)
From Coq Require Import List Arith Bool Lia.
Import ListNotations.
From L Require Import LayerRec.
From Dyn Require Import LayersGen.

Lemma flat_map_id_scoped (ls : list layer) : all_scoped ls ->
  flat_map (fun layer => if nonempty (l_scope layer) then [{| l_scope := l_scope layer; l_body_before := l_body_before layer; l_body_after := l_body_after layer;
                                                            l_attrpath_order := l_attrpath_order layer; l_after_let_comment := l_after_let_comment layer |}] else []) ls = ls.
Proof.
  induction 1 as [|l t Hl Ht IH]; [reflexivity|]. cbn [flat_map]. rewrite Hl, layer_eta, IH. reflexivity.
Qed.

(* the collected list is the outer layer followed by the stack, in order: outermost first, innermost last, every field
   of every layer taken from that layer *)
Theorem collect_order e : wf e -> collect e = outer_of e :: s_stack e.
Proof.
  intros [Ho Hs]. unfold collect. rewrite Ho. cbn [app]. f_equal. apply flat_map_id_scoped, Hs.
Qed.

(* no layer without bindings is ever collected *)
Theorem collect_scoped e : all_scoped (collect e).
Proof.
  unfold collect, all_scoped. apply Forall_app. split.
  - destruct (nonempty (e_scope e)) eqn:E; [constructor; [exact E|constructor]|constructor].
  - induction (s_stack e) as [|l t IH]; [constructor|]. cbn [flat_map]. apply Forall_app. split; [|exact IH].
    destruct (nonempty (l_scope l)) eqn:E; [constructor; [exact E|constructor]|constructor].
Qed.

Lemma filter_scoped (ls : list layer) : all_scoped ls -> filter (fun layer => nonempty (l_scope layer)) ls = ls.
Proof. induction 1 as [|l t Hl Ht IH]; [reflexivity|]. cbn [filter]. now rewrite Hl, IH. Qed.
Lemma map_eta (ls : list layer) :
  map (fun layer => {| l_scope := l_scope layer; l_body_before := l_body_before layer; l_body_after := l_body_after layer;
                       l_attrpath_order := l_attrpath_order layer; l_after_let_comment := l_after_let_comment layer |}) ls = ls.
Proof. induction ls as [|l t IH]; [reflexivity|]. cbn [map]. now rewrite layer_eta, IH. Qed.

(* writing back what was collected changes nothing *)
Theorem write_collect e : wf e -> write (collect e) = e.
Proof.
  intros Hwf. rewrite (collect_order e Hwf). destruct Hwf as [_ Hs]. unfold write. cbn [tl outer_of l_scope l_body_before l_body_after l_attrpath_order l_after_let_comment].
  rewrite (filter_scoped _ Hs), map_eta. destruct e; reflexivity.
Qed.

(* collecting what was written gives the same layers back, in the same order *)
Theorem collect_write ls : ls <> [] -> all_scoped ls -> collect (write ls) = ls.
Proof.
  intros Hne Hs. destruct ls as [|o t]; [congruence|]. inversion Hs as [|? ? Ho Ht]; subst.
  assert (Hwf : wf (write (o :: t))).
  { unfold wf, write. cbn [e_scope s_stack tl]. split; [exact Ho|]. rewrite (filter_scoped _ Ht), map_eta. exact Ht. }
  rewrite (collect_order _ Hwf). unfold write, outer_of. cbn [e_scope s_body_before s_body_after s_attrpath_order s_after_let_comment s_stack tl].
  rewrite (filter_scoped _ Ht), map_eta, layer_eta. reflexivity.
Qed.

(* an edit of one collected layer, written back and collected again, shows exactly that edit: every other layer keeps
   every field (bindings, trivia before and after the body, render order, comment after `let`) and its position *)
Theorem edit_one_layer e i f : wf e -> (forall l, nonempty (l_scope l) = true -> nonempty (l_scope (f l)) = true) ->
  collect (write (upd i f (collect e))) = upd i f (collect e) /\
  forall j, j <> i -> nth_error (collect (write (upd i f (collect e)))) j = nth_error (collect e) j.
Proof.
  intros Hwf Hf.
  assert (Hs : all_scoped (upd i f (collect e))).
  { pose proof (collect_scoped e) as H. revert i. induction H as [|l t Hl Ht IH]; intros [|i]; cbn [upd]; try constructor; auto. apply IH. }
  assert (Hne : upd i f (collect e) <> []).
  { rewrite (collect_order e Hwf). destruct i; discriminate. }
  rewrite (collect_write _ Hne Hs). split; [reflexivity|]. intros j Hj. apply upd_nth_other. congruence.
Qed.

(* selection: depth d picks the d-th layer counted from the innermost; deeper selectors are refused *)
Theorem pick_set_spec ls d : 1 <= d ->
  (d <= length ls -> exists i, pick_set ls d = Some i /\ nth_error ls i = nth_error (rev ls) (d - 1)) /\
  (length ls < d -> pick_set ls d = None).
Proof.
  intros Hd. unfold pick_set. split.
  - intros Hle. destruct (Nat.ltb (length ls) d) eqn:E; [apply Nat.ltb_lt in E; lia|]. eexists. split; [reflexivity|].
    destruct (nth_error (rev ls) (d - 1)) as [x|] eqn:Er.
    + pose proof (nth_error_nth (rev ls) (d - 1) x Er) as Hn. rewrite rev_nth in Hn by lia.
      replace (length ls - S (d - 1)) with (length ls - d) in Hn by lia.
      destruct (nth_error ls (length ls - d)) as [y|] eqn:El; [apply (nth_error_nth _ _ x) in El; congruence|].
      apply nth_error_None in El. lia.
    + apply nth_error_None in Er. rewrite rev_length in Er. lia.
  - intros Hlt. apply Nat.ltb_lt in Hlt. now rewrite Hlt.
Qed.
Theorem pick_rm_spec ls d : 1 <= d ->
  (d <= length ls -> exists i, pick_rm ls d = Some i /\ nth_error ls i = nth_error (rev ls) (d - 1)) /\
  (length ls < d -> pick_rm ls d = None).
Proof.
  intros Hd. unfold pick_rm. split.
  - intros Hle. destruct (Nat.ltb (length ls) d) eqn:E; [apply Nat.ltb_lt in E; lia|]. eexists. split; [reflexivity|].
    destruct (nth_error (rev ls) (d - 1)) as [x|] eqn:Er.
    + pose proof (nth_error_nth (rev ls) (d - 1) x Er) as Hn. rewrite rev_nth in Hn by lia.
      replace (length ls - S (d - 1)) with (length ls - d) in Hn by lia.
      destruct (nth_error ls (length ls - d)) as [y|] eqn:El; [apply (nth_error_nth _ _ x) in El; congruence|].
      apply nth_error_None in El. lia.
    + apply nth_error_None in Er. rewrite rev_length in Er. lia.
  - intros Hlt. apply Nat.ltb_lt in Hlt. now rewrite Hlt.
Qed.

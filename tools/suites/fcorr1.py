import sys, itertools, re
sys.path.insert(0,'/repo')
from nix_manipulator.expressions.primitive import _escape_nix_string
from nix_manipulator.cli.manipulations import _NPATH_IDENTIFIER_RE
A1 = ['\\','"','$','{','n','a','\n','\r','\t']
A2 = ['a','Z','0','_',"'",'-','\n',' ','.']
def codes(s): return '[' + ';'.join(str(ord(x)) for x in s) + ']'
esc=[]; rx=[]
for L in range(0,4):
    for t in itertools.product(A1, repeat=L):
        s=''.join(t)
        for flag in (False, True):
            esc.append('(%s, %s, %s)' % ('true' if flag else 'false', codes(s), codes(_escape_nix_string(s, escape_interpolation=flag))))
    for t in itertools.product(A2, repeat=L):
        s=''.join(t); rx.append('(%s, %s)' % (codes(s), 'true' if _NPATH_IDENTIFIER_RE.match(s) else 'false'))
with open('FCases.v','w') as f:
    f.write('From Coq Require Import List Ascii Bool Arith. Import ListNotations.\nRequire Import Gen.\n')
    f.write('Definition esc_cases : list (bool * list nat * list nat) := [\n' + ';\n'.join(esc) + '].\n')
    f.write('Definition rx_cases : list (list nat * bool) := [\n' + ';\n'.join(rx) + '].\n')
    f.write('Definition bad_esc := filter (fun t => let \'(fl, i, o) := t in negb (streq (_escape_nix_string fl (map c i)) (map c o))) esc_cases.\n')
    f.write('Definition bad_rx := filter (fun t => let \'(i, o) := t in negb (Bool.eqb (re_npath_ident (map c i)) o)) rx_cases.\n')
    f.write('Eval vm_compute in (List.length esc_cases, List.length rx_cases, bad_esc, bad_rx).\n')
print(len(esc), len(rx))

(* Proof spike, part 3: the sequence lemma (list flavour). *)
From Coq Require Import List Ascii String Bool Arith Lia.
Import ListNotations.
From F0 Require Import F0s Specs P1 P2.
Open Scope char_scope.

Section ListSeq.
Variables (ind : nat) (core : cnode -> str) (R : ast -> str).

Definition strip2 (k : kid) : str * cnode := (fst (fst k), snd (fst k)).
Definition mk (a0 : ast) (B X : list triv) : ast := set_after (set_before a0 B) X.

Definition cmt_ok (raw : str) : Prop :=
  (forall i, spec_comment raw i <> [] /\ ends_nl (spec_comment raw i) = false) /\
  spec_comment_inline raw <> [] /\ ends_nl (spec_comment_inline raw) = false.
(* no two comments on one line *)
Fixpoint no_double (prev : option cnode) (content : list kid) : Prop :=
  match content with
  | [] => True
  | (g, c, _) :: rest =>
      (is_cmt c = true -> has_nl g = false -> match prev with Some p => is_cmt p = false | None => True end)
      /\ no_double (Some c) rest
  end.

(* pending own-line comments, as (gap, raw) *)
Definition pend_triv (P : list (str * str)) : list triv :=
  flat_map (fun '(g, r) => gap_trivia g ++ [TC (comment_from_cst r)]) P.
Definition pend_text (P : list (str * str)) : str :=
  flat_map (fun '(g, r) => LF :: blank g ++ spec_comment r ind) P.
Definition a0_triv (A0 : option str) : list triv :=
  match A0 with Some r => [TC (mk_inline (comment_from_cst r))] | None => [] end.
Definition a0_text (A0 : option str) : str :=
  match A0 with Some r => " " :: spec_comment_inline r | None => [] end.

Lemma pend_triv_snoc P g r : pend_triv (P ++ [(g, r)]) = pend_triv P ++ gap_trivia g ++ [TC (comment_from_cst r)].
Proof. unfold pend_triv. rewrite flat_map_app. cbn [flat_map]. now rewrite app_nil_r. Qed.
Lemma pend_text_snoc P g r : pend_text (P ++ [(g, r)]) = pend_text P ++ LF :: blank g ++ spec_comment r ind.
Proof. unfold pend_text. rewrite flat_map_app. cbn [flat_map]. now rewrite app_nil_r. Qed.

(* the LF shift: printer puts the newline after each pending comment, the spec before it *)
Lemma pend_shift P Z : LF :: format_trivia (pend_triv P) ind ++ Z = pend_text P ++ LF :: Z.
Proof.
  induction P as [|[g r] P IH]; [reflexivity|].
  cbn [pend_triv pend_text flat_map]. fold (pend_triv P). fold (pend_text P).
  rewrite !format_trivia_app, format_trivia_gap. cbn [format_trivia].
  unfold spec_comment. repeat rewrite <- app_assoc. cbn [app].
  rewrite IH. repeat rewrite <- app_assoc. reflexivity.
Qed.

Definition OUT (pre : list ast) : str := flat_map (fun a => LF :: R a) pre.
Lemma join_out pre x : LF :: join [LF] (map R (pre ++ [x])) = OUT pre ++ LF :: R x.
Proof.
  induction pre as [|a pre IH]; [reflexivity|].
  cbn [app map]. destruct (map R (pre ++ [x])) as [|m ms] eqn:E.
  { destruct pre; discriminate. }
  change (join [LF] (R a :: m :: ms)) with (R a ++ [LF] ++ join [LF] (m :: ms)).
  cbn [OUT flat_map]. fold (OUT pre). cbn [app]. rewrite IH. repeat rewrite <- app_assoc. reflexivity.
Qed.
Lemma join_last_ends pre x : R x <> [] -> ends_nl (join [LF] (map R (pre ++ [x]))) = ends_nl (R x).
Proof.
  intros Hx. induction pre as [|a pre IH]; [reflexivity|].
  cbn [app map]. destruct (map R (pre ++ [x])) as [|m ms] eqn:E.
  { destruct pre; discriminate. }
  change (join [LF] (R a :: m :: ms)) with (R a ++ [LF] ++ join [LF] (m :: ms)).
  rewrite app_assoc. rewrite ends_nl_app; [exact IH|].
  intro H0. rewrite H0 in IH. cbn in IH.
  assert (Hne : join [LF] (m :: ms) <> []).
  { clear IH H0. revert m ms E. induction pre as [|b pre IHp]; intros m ms E.
    - cbn in E. inversion E; subst. exact Hx.
    - cbn [app map] in E. inversion E; subst. destruct (map R (pre ++ [x])) eqn:E2.
      + destruct pre; discriminate.
      + cbn [join]. intro H1. apply app_eq_nil in H1. destruct H1 as [_ H1]. discriminate. }
  contradiction.
Qed.

(* ---- the trailing part: apply_trailing / trim / closing_sep versus the spec ---- *)
Lemma T_nil i : T [] i = [].
Proof. reflexivity. Qed.

Definition Etriv (cg : str) : list triv := if has_empty_line cg then [EmptyLine] else [].

Lemma trim_last_layout X Y t r : is_layout t = true -> trim_trailing (X ++ Y ++ [t]) r = r.
Proof.
  intros Ht. unfold trim_trailing. rewrite app_assoc, rev_app_distr. cbn [rev app]. rewrite Ht. reflexivity.
Qed.
Lemma trim_last_comment X c r : trim_trailing (X ++ [TC c]) (r ++ [LF]) = r.
Proof.
  unfold trim_trailing. rewrite rev_app_distr. cbn [rev app is_layout negb andb].
  rewrite ends_nl_snoc. change (LF =c LF) with true. cbn [andb]. apply removelast_snoc.
Qed.

(* formatting pending comments always ends with LF *)
Lemma pend_format_snoc P g r :
  format_trivia (pend_triv (P ++ [(g, r)])) ind =
  (format_trivia (pend_triv P) ind ++ blank g ++ spec_comment r ind) ++ [LF].
Proof.
  rewrite pend_triv_snoc, !format_trivia_app, format_trivia_gap. cbn [format_trivia].
  unfold spec_comment. repeat rewrite <- app_assoc. reflexivity.
Qed.

Definition P_ok (P : list (str * str)) : Prop := Forall (fun '(g, r) => cmt_ok r) P.
Definition A0_ok (A0 : option str) : Prop := match A0 with Some r => cmt_ok r | None => True end.

Lemma last_or_nil {A} (l : list A) : l = [] \/ exists l' x, l = l' ++ [x].
Proof. destruct l as [|a l]; [now left|]. right. destruct (@exists_last _ (a :: l)) as [l' [x E]]; [discriminate|]. eauto. Qed.

(* text after the inline comment (if any): nl_prefix (trim X (format Q)) where Q = pending ++ E *)
Lemma tailQ hd P cg : P_ok P ->
  nl_prefix (trim_trailing (hd ++ pend_triv P ++ Etriv cg) (format_trivia (pend_triv P ++ Etriv cg) ind))
  = pend_text P ++ (if has_empty_line cg then [LF; LF] else []).
Proof.
  intros HP. unfold Etriv.
  destruct (last_or_nil P) as [->|[P' [[g r] ->]]].
  - cbn [pend_triv pend_text flat_map app]. destruct (has_empty_line cg).
    + replace (hd ++ [EmptyLine]) with (hd ++ [] ++ [EmptyLine]) by reflexivity.
      rewrite trim_last_layout by reflexivity. reflexivity.
    + rewrite app_nil_r. cbn [format_trivia]. unfold trim_trailing.
      destruct (rev hd) as [|t ?]; [reflexivity|]. destruct (negb (is_layout t)); reflexivity.
  - assert (Hr : cmt_ok r).
    { unfold P_ok in HP. apply Forall_app in HP. destruct HP as [_ HP]. inversion HP; subst. assumption. }
    destruct (has_empty_line cg).
    + rewrite (app_assoc hd). replace ((hd ++ pend_triv (P' ++ [(g, r)])) ++ [EmptyLine])
        with ((hd ++ pend_triv (P' ++ [(g, r)])) ++ [] ++ [EmptyLine]) by reflexivity.
      rewrite trim_last_layout by reflexivity.
      rewrite format_trivia_app. cbn [format_trivia].
      unfold nl_prefix. destruct (format_trivia (pend_triv (P' ++ [(g, r)])) ind ++ [LF]) eqn:E.
      { apply app_eq_nil in E. destruct E; discriminate. }
      rewrite <- E. rewrite pend_shift. reflexivity.
    + rewrite !app_nil_r. rewrite pend_triv_snoc.
      replace (hd ++ pend_triv P' ++ gap_trivia g ++ [TC (comment_from_cst r)])
        with ((hd ++ pend_triv P' ++ gap_trivia g) ++ [TC (comment_from_cst r)]) by (repeat rewrite <- app_assoc; reflexivity).
      rewrite <- pend_triv_snoc, pend_format_snoc, trim_last_comment.
      pose proof (pend_shift (P' ++ [(g, r)]) []) as Hs. rewrite pend_format_snoc in Hs.
      rewrite !app_nil_r in Hs.
      change (LF :: (format_trivia (pend_triv P') ind ++ blank g ++ spec_comment r ind) ++ [LF])
        with ((LF :: format_trivia (pend_triv P') ind ++ blank g ++ spec_comment r ind) ++ [LF]) in Hs.
      apply app_inv_tail in Hs. rewrite <- Hs.
      unfold nl_prefix.
      destruct (format_trivia (pend_triv P') ind ++ blank g ++ spec_comment r ind) eqn:E; [|reflexivity].
      exfalso. apply app_eq_nil in E. destruct E as [_ E]. apply app_eq_nil in E. destruct E as [_ E].
      destruct Hr as [Hr _]. destruct (Hr ind) as [Hne _]. contradiction.
Qed.

Lemma T_general X i :
  match X with TC c :: _ => cinline c = false | _ => True end ->
  T X i = nl_prefix (trim_trailing X (format_trivia X i)).
Proof.
  unfold T, apply_trailing. destruct X as [|t X]; [reflexivity|].
  destruct t as [| |c]; try reflexivity. intros ->. reflexivity.
Qed.
Lemma T_inline c X i : cinline c = true ->
  T (TC c :: X) i = " " :: comment_rebuild c 0 ++ nl_prefix (trim_trailing (TC c :: X) (format_trivia X i)).
Proof. intros H. unfold T, apply_trailing. rewrite H. reflexivity. Qed.

Lemma pend_first_not_inline P E :
  match pend_triv P ++ E with TC c :: _ => cinline c = false | _ => True end \/ P = [].
Proof.
  destruct P as [|[g r] P]; [now right|left].
  cbn [pend_triv flat_map]. unfold gap_trivia.
  destruct (has_empty_line g); [exact I|]. destruct (has_nl g); [exact I|]. cbn [app].
  unfold comment_from_cst. repeat match goal with |- context [if ?b then _ else _] => destruct b end; try reflexivity.
  destruct (skipn 1 r) as [|c0 ?]; [reflexivity|].
  destruct (Ascii.ascii_dec c0 " ") as [->|Hn]; [reflexivity|].
  destruct c0 as [[] [] [] [] [] [] [] []]; reflexivity.
Qed.

Lemma pend_text_ends W P : P_ok P -> ends_nl W = false -> ends_nl (W ++ pend_text P) = false.
Proof.
  intros HP HW. destruct (last_or_nil P) as [->|[P' [[g r] ->]]].
  - cbn. now rewrite app_nil_r.
  - unfold P_ok in HP. apply Forall_app in HP. destruct HP as [_ HP]. inversion HP as [|? ? Hr _]; subst.
    rewrite pend_text_snoc. destruct Hr as [Hr _]. destruct (Hr ind) as [Hne He].
    rewrite !app_assoc. change (LF :: blank g ++ spec_comment r ind) with ((LF :: blank g) ++ spec_comment r ind).
    rewrite !app_assoc. rewrite ends_nl_app by exact Hne. exact He.
Qed.

Lemma closing_sep_LFLF W Y : closing_sep (W ++ Y ++ [LF; LF]) = [].
Proof.
  unfold closing_sep. change [LF; LF] with ([LF] ++ [LF]). rewrite !app_assoc, ends_nl_snoc. reflexivity.
Qed.

Lemma end_tail A0 P cg W :
  A0_ok A0 -> P_ok P -> ends_nl W = false ->
  T (a0_triv A0 ++ pend_triv P ++ Etriv cg) ind
    ++ closing_sep (W ++ T (a0_triv A0 ++ pend_triv P ++ Etriv cg) ind)
  = a0_text A0 ++ pend_text P ++ LF :: blank cg.
Proof.
  intros HA HP HW. unfold blank.
  destruct A0 as [r0|]; cbn [a0_triv a0_text app].
  - rewrite T_inline by reflexivity.
    pose proof (tailQ [TC (mk_inline (comment_from_cst r0))] P cg HP) as Hq. cbn [app] in Hq. rewrite Hq.
    fold (spec_comment_inline r0). unfold closing_sep.
    destruct (has_empty_line cg).
    + assert (He : ends_nl (W ++ " " :: spec_comment_inline r0 ++ pend_text P ++ [LF; LF]) = true).
      { rewrite app_comm_cons. rewrite !app_assoc. rewrite ends_nl_app by discriminate. reflexivity. }
      rewrite He, app_nil_r. reflexivity.
    + rewrite app_nil_r.
      assert (He : ends_nl (W ++ " " :: spec_comment_inline r0 ++ pend_text P) = false).
      { change (W ++ " " :: spec_comment_inline r0 ++ pend_text P) with (W ++ (" " :: spec_comment_inline r0) ++ pend_text P).
        rewrite app_assoc. apply pend_text_ends; [exact HP|].
        destruct HA as [_ [Hne He]]. change (" " :: spec_comment_inline r0) with ([" "] ++ spec_comment_inline r0).
        rewrite app_assoc, ends_nl_app by exact Hne. exact He. }
      rewrite He. cbn [app]. repeat rewrite <- app_assoc. reflexivity.
  - assert (HT : T (pend_triv P ++ Etriv cg) ind =
                 nl_prefix (trim_trailing (pend_triv P ++ Etriv cg) (format_trivia (pend_triv P ++ Etriv cg) ind))).
    { destruct (pend_first_not_inline P (Etriv cg)) as [H | ->].
      - apply T_general. exact H.
      - cbn [pend_triv flat_map app]. unfold Etriv. destruct (has_empty_line cg); reflexivity. }
    rewrite HT. pose proof (tailQ [] P cg HP) as Hq. cbn [app] in Hq. rewrite Hq. unfold closing_sep.
    destruct (has_empty_line cg).
    + assert (He : ends_nl (W ++ pend_text P ++ [LF; LF]) = true).
      { rewrite !app_assoc. rewrite ends_nl_app by discriminate. reflexivity. }
      rewrite He, app_nil_r. reflexivity.
    + rewrite app_nil_r. rewrite (pend_text_ends W P HP HW). reflexivity.
Qed.

(* ---- finishing step of parse_seq, and the body text of a non-empty container ---- *)
Definition finish (items : list ast) (before : list triv) (cg : str) : list ast * list triv :=
  let '(items1, inner) :=
    match before, items with
    | [], _ => (items, [])
    | _, _ :: _ => (append_after items before, [])
    | _, [] => (items, before)
    end in
  if has_empty_line cg then
    match items1 with
    | _ :: _ => (append_after items1 [EmptyLine], inner)
    | [] => (items1, inner ++ [EmptyLine]) end
  else (items1, inner).
Definition BT (values : list ast) : str :=
  LF :: join [LF] (map R values) ++ closing_sep (join [LF] (map R values)).

Lemma mk_after a0 B X : a_after (mk a0 B X) = X.
Proof. unfold mk. destruct a0; reflexivity. Qed.
Lemma mk_set_after a0 B X Y : set_after (mk a0 B X) Y = mk a0 B Y.
Proof. unfold mk. destruct a0; reflexivity. Qed.
Lemma mk_fresh a B : a_before a = [] -> a_after a = [] -> set_before a (B ++ a_before a) = mk a B [].
Proof. intros Hb Ha. unfold mk. rewrite Hb, app_nil_r. destruct a; cbn in *; subst; reflexivity. Qed.

Lemma pend_triv_nil P : pend_triv P = [] -> P = [].
Proof.
  destruct P as [|[g r] P]; [reflexivity|]. cbn [pend_triv flat_map]. intro H.
  apply app_eq_nil in H. destruct H as [H _]. apply app_eq_nil in H. destruct H; discriminate.
Qed.

Lemma finish_open pre a0 B A0 P cg :
  fst (finish (pre ++ [mk a0 B (a0_triv A0)]) (pend_triv P) cg)
  = pre ++ [mk a0 B (a0_triv A0 ++ pend_triv P ++ Etriv cg)].
Proof.
  unfold finish, Etriv.
  destruct (pend_triv P) as [|t tl] eqn:E.
  - apply pend_triv_nil in E. subst P. cbn [app].
    destruct (has_empty_line cg); cbn [fst].
    + destruct (pre ++ [mk a0 B (a0_triv A0)]) eqn:E2; [destruct pre; discriminate|]. rewrite <- E2.
      cbn [fst]. rewrite append_after_snoc, mk_after, mk_set_after. reflexivity.
    + rewrite app_nil_r. reflexivity.
  - destruct (pre ++ [mk a0 B (a0_triv A0)]) eqn:E2; [destruct pre; discriminate|]. rewrite <- E2.
    rewrite append_after_snoc, mk_after, mk_set_after.
    destruct (has_empty_line cg); cbn [fst].
    + destruct (pre ++ [mk a0 B (a0_triv A0 ++ t :: tl)]) eqn:E3; [destruct pre; discriminate|]. rewrite <- E3.
      cbn [fst]. rewrite append_after_snoc, mk_after, mk_set_after. rewrite <- !app_assoc. reflexivity.
    + rewrite app_nil_r. reflexivity.
Qed.

Lemma finish_frame pre l before cg : l <> [] ->
  fst (finish (pre ++ l) before cg) = pre ++ fst (finish l before cg).
Proof.
  intros Hl. unfold finish.
  assert (Hpl : pre ++ l <> []) by (destruct pre; [exact Hl|discriminate]).
  destruct before as [|t tl].
  - destruct (has_empty_line cg); cbn [fst]; [|reflexivity].
    destruct (pre ++ l) eqn:E; [congruence|]. rewrite <- E. destruct l eqn:El; [congruence|]. rewrite <- El.
    cbn [fst]. apply append_after_app. congruence.
  - destruct (pre ++ l) eqn:E; [congruence|]. rewrite <- E. destruct l eqn:El; [congruence|]. rewrite <- El.
    rewrite append_after_app by congruence.
    destruct (has_empty_line cg); cbn [fst]; [|reflexivity].
    assert (Hn : append_after l (t :: tl) <> []) by (apply append_after_nonempty; congruence).
    destruct (pre ++ append_after l (t :: tl)) eqn:E3; [destruct pre; [cbn in E3; congruence|discriminate]|]. rewrite <- E3.
    destruct (append_after l (t :: tl)) eqn:E4; [congruence|]. rewrite <- E4.
    cbn [fst]. apply append_after_app. congruence.
Qed.

Lemma pds_nonempty inb : forall content l before prev, l <> [] -> fst (pds inb content l before prev) <> [].
Proof.
  induction content as [|[[g c] a] rest IH]; intros l before prev Hl; [exact Hl|].
  cbn [pds]. destruct (is_cmt c).
  - match goal with |- context [if ?b then _ else _] => destruct b end.
    + apply IH. now apply append_after_nonempty.
    + apply IH. exact Hl.
  - apply IH. destruct l; discriminate.
Qed.
Lemma finish_nonempty l before cg : l <> [] -> fst (finish l before cg) <> [].
Proof.
  intros Hl. unfold finish. destruct l as [|x l]; [congruence|].
  destruct before as [|t tl].
  - destruct (has_empty_line cg); cbn [fst]; [apply append_after_nonempty|]; discriminate.
  - assert (Hn : append_after (x :: l) (t :: tl) <> []) by (apply append_after_nonempty; discriminate).
    destruct (append_after (x :: l) (t :: tl)) eqn:E; [congruence|]. rewrite <- E in *.
    destruct (has_empty_line cg); cbn [fst]; [|exact Hn].
    destruct (append_after (x :: l) (t :: tl)) eqn:E2; [congruence|]. rewrite <- E2.
    cbn [fst]. apply append_after_nonempty. congruence.
Qed.

Lemma has_empty_line_nl g : has_empty_line g = true -> has_nl g = true.
Proof.
  induction g as [|c g IH]; [discriminate|]. cbn [has_empty_line has_nl].
  destruct (c =c LF); [reflexivity|]. cbn [andb orb]. exact IH.
Qed.
Lemma gap_trivia_no_nl g : has_nl g = false -> gap_trivia g = [].
Proof.
  intros H. unfold gap_trivia. rewrite H. destruct (has_empty_line g) eqn:E; [|reflexivity].
  apply has_empty_line_nl in E. congruence.
Qed.
Lemma OUT_snoc pre x : OUT (pre ++ [x]) = OUT pre ++ LF :: R x.
Proof. unfold OUT. rewrite flat_map_app. cbn [flat_map]. now rewrite app_nil_r. Qed.

(* ---- parameters distinguishing lists from sets ---- *)
Variable inb : bool.                                   (* an inline comment needs a binding before it *)
Variable Tr : list triv -> nat -> str.                 (* trailing function of the item kind *)
Variable Q1 : option str -> list (str * str) -> bool.  (* the blank line before the closer is dropped *)
Hypothesis Tr_a0 : forall A0, Tr (a0_triv A0) ind = a0_text A0.
Hypothesis Tr_end : forall A0 P cg W, A0_ok A0 -> P_ok P -> ends_nl W = false ->
  Tr (a0_triv A0 ++ pend_triv P ++ Etriv cg) ind
    ++ closing_sep (W ++ Tr (a0_triv A0 ++ pend_triv P ++ Etriv cg) ind)
  = a0_text A0 ++ pend_text P ++ LF :: (if Q1 A0 P then [] else blank cg).

Definition kid_ok (k : kid) : Prop :=
  let '(g, c, a0) := k in
  if is_cmt c then cmt_ok (craw c)
  else a_before a0 = [] /\ a_after a0 = [] /\
       (forall B X, R (mk a0 B X) = format_trivia B ind ++ sp ind ++ core c ++ Tr X ind) /\
       core c <> [] /\ ends_nl (core c) = false.

Definition can_inl (p : cnode) (g : str) : bool := (if inb then is_bind p else true) && negb (has_nl g).
Fixpoint q1_of (content : list kid) (A0 : option str) (P : list (str * str)) (p : cnode) : bool :=
  match content with
  | [] => Q1 A0 P
  | (g, c, _) :: rest =>
      if is_cmt c then
        if can_inl p g then q1_of rest (Some (craw c)) P c else q1_of rest A0 (P ++ [(g, craw c)]) c
      else q1_of rest None [] c
  end.

Definition item_ok (c0 : cnode) (a0 : ast) : Prop :=
  a_before a0 = [] /\ a_after a0 = [] /\
  (forall B X, R (mk a0 B X) = format_trivia B ind ++ sp ind ++ core c0 ++ Tr X ind) /\
  core c0 <> [] /\ ends_nl (core c0) = false.

(* the invariant of the sequence reader, for a state whose last item is still "open" *)
Lemma pds_tail cg : forall content pre P A0 c0 a0 B p,
  Forall kid_ok content -> no_double (Some p) content ->
  item_ok c0 a0 -> A0_ok A0 -> P_ok P ->
  (is_cmt p = false -> P = [] /\ A0 = None) ->
  BT (fst (finish (fst (pds inb content (pre ++ [mk a0 B (a0_triv A0)]) (pend_triv P) (Some p)))
                  (snd (pds inb content (pre ++ [mk a0 B (a0_triv A0)]) (pend_triv P) (Some p))) cg))
  = OUT pre ++ LF :: format_trivia B ind ++ sp ind ++ core c0 ++ a0_text A0 ++ pend_text P
        ++ seq_lines core inb ind (map strip2 content) (Some p) true
        ++ LF :: (if q1_of content A0 P p then [] else blank cg).
Proof.
  induction content as [|[[g c] a] rest IH]; intros pre P A0 c0 a0 B p Hk Hd Hi HA HP Hp.
  - cbn [pds fst snd map seq_lines app q1_of]. rewrite finish_open. unfold BT.
    destruct Hi as (Hb0 & Ha0 & HR & Hne & Hend).
    set (X := a0_triv A0 ++ pend_triv P ++ Etriv cg).
    assert (HRx : R (mk a0 B X) <> []).
    { rewrite HR. intro H0. apply app_eq_nil in H0. destruct H0 as [_ H0].
      apply app_eq_nil in H0. destruct H0 as [_ H0]. apply app_eq_nil in H0. destruct H0; contradiction. }
    unfold closing_sep. rewrite join_last_ends by exact HRx.
    rewrite app_comm_cons, join_out. rewrite HR.
    set (W := format_trivia B ind ++ sp ind ++ core c0).
    assert (HW : ends_nl W = false).
    { unfold W. rewrite !app_assoc. rewrite ends_nl_app by exact Hne. exact Hend. }
    replace (format_trivia B ind ++ sp ind ++ core c0 ++ Tr X ind) with (W ++ Tr X ind)
      by (unfold W; repeat rewrite <- app_assoc; reflexivity).
    pose proof (Tr_end A0 P cg W HA HP HW) as Het. fold X in Het. unfold closing_sep in Het.
    rewrite <- app_assoc. cbn [app]. rewrite <- app_assoc. rewrite Het.
    unfold W. repeat rewrite <- app_assoc. reflexivity.
  - inversion Hk as [|? ? Hk1 Hk2]; subst. destruct Hd as [Hd1 Hd2].
    cbn [pds map strip2 fst snd seq_lines q1_of].
    assert (Hitems : (match pre ++ [mk a0 B (a0_triv A0)] with [] => true | _ => false end) = false)
      by (destruct pre; reflexivity).
    rewrite Hitems. cbn [kid_ok] in Hk1.
    destruct (is_cmt c) eqn:Ec.
    + cbn [negb andb]. rewrite !andb_true_r. fold (can_inl p g).
      destruct (can_inl p g) eqn:Ecan.
      * (* inline comment: attaches to the open item *)
        assert (Eg : has_nl g = false).
        { unfold can_inl in Ecan. apply andb_prop in Ecan. destruct Ecan as [_ E]. now destruct (has_nl g). }
        specialize (Hd1 eq_refl Eg). destruct (Hp Hd1) as [-> ->].
        cbn [pend_triv flat_map app a0_triv]. rewrite gap_trivia_no_nl by exact Eg.
        rewrite append_after_snoc, mk_after, mk_set_after. cbn [app].
        change [TC (mk_inline (comment_from_cst (craw c)))] with (a0_triv (Some (craw c))).
        change (@nil triv) with (pend_triv []).
        rewrite (IH pre [] (Some (craw c)) c0 a0 B c Hk2 Hd2 Hi).
        -- cbn [a0_text pend_text flat_map app]. repeat rewrite <- app_assoc. reflexivity.
        -- exact Hk1.
        -- constructor.
        -- rewrite Ec. discriminate.
      * (* own-line comment: joins the pending list *)
        rewrite <- app_assoc. rewrite <- pend_triv_snoc.
        rewrite (IH pre (P ++ [(g, craw c)]) A0 c0 a0 B c Hk2 Hd2 Hi HA).
        -- rewrite pend_text_snoc. unfold spec_comment. repeat rewrite <- app_assoc. reflexivity.
        -- unfold P_ok. apply Forall_app. split; [exact HP|]. constructor; [exact Hk1|constructor].
        -- rewrite Ec. discriminate.
    + (* a new item: the open item is closed, the pending comments become its [before] *)
      destruct Hk1 as (Hb & Ha & HRc & Hnec & Hendc).
      rewrite mk_fresh by assumption.
      change (mk a (pend_triv P ++ gap_trivia g) []) with (mk a (pend_triv P ++ gap_trivia g) (a0_triv None)).
      change (@nil triv) with (pend_triv []).
      rewrite (IH (pre ++ [mk a0 B (a0_triv A0)]) [] None c a (pend_triv P ++ gap_trivia g) c Hk2 Hd2).
      * rewrite OUT_snoc. destruct Hi as (_ & _ & HR & _ & _). rewrite HR.
        rewrite Tr_a0. cbn [a0_text pend_text flat_map app].
        rewrite format_trivia_app, format_trivia_gap.
        repeat rewrite <- app_assoc. rewrite pend_shift. cbn [app]. repeat rewrite <- app_assoc. reflexivity.
      * repeat split; assumption.
      * exact I.
      * constructor.
      * intros _. split; reflexivity.
Qed.

Definition has_item (content : list kid) : bool :=
  existsb (fun k => negb (is_cmt (snd (fst k)))) content.
(* q1 before the first item: nothing can be dropped until an item exists *)
Fixpoint q1_start (content : list kid) : bool :=
  match content with
  | [] => false
  | (g, c, _) :: rest => if is_cmt c then q1_start rest else q1_of rest None [] c
  end.

(* start phase: no item yet; [Q] is the trivia collected so far, [qt] its text in spec form *)
Lemma pds_start cg : forall content Q qt p,
  Forall kid_ok content -> no_double (Some p) content -> is_cmt p = true ->
  (forall Z, LF :: format_trivia Q ind ++ Z = qt ++ LF :: Z) ->
  has_item content = true ->
  BT (fst (finish (fst (pds inb content [] Q (Some p))) (snd (pds inb content [] Q (Some p))) cg))
  = qt ++ seq_lines core inb ind (map strip2 content) (Some p) false
       ++ LF :: (if q1_start content then [] else blank cg).
Proof.
  induction content as [|[[g c] a] rest IH]; intros Q qt p Hk Hd Hpc HQ Hhas; [discriminate|].
  inversion Hk as [|? ? Hk1 Hk2]; subst. destruct Hd as [Hd1 Hd2].
  cbn [pds map strip2 fst snd seq_lines q1_start]. cbn [kid_ok] in Hk1.
  destruct (is_cmt c) eqn:Ec.
  - cbn [negb andb]. rewrite !andb_false_r.
    cbn [has_item existsb fst snd] in Hhas. rewrite Ec in Hhas. cbn [negb orb] in Hhas.
    rewrite (IH ((Q ++ gap_trivia g) ++ [TC (comment_from_cst (craw c))])
                (qt ++ LF :: blank g ++ spec_comment (craw c) ind) c Hk2 Hd2 Ec).
    + repeat rewrite <- app_assoc. reflexivity.
    + intros Z. rewrite !format_trivia_app, format_trivia_gap. cbn [format_trivia].
      repeat rewrite <- app_assoc. cbn [app]. rewrite HQ. unfold spec_comment.
      repeat rewrite <- app_assoc. reflexivity.
    + exact Hhas.
  - destruct Hk1 as (Hb & Ha & HRc & Hnec & Hendc).
    rewrite mk_fresh by assumption. cbn [app].
    assert (Hi : item_ok c a) by (repeat split; assumption).
    pose proof (pds_tail cg rest [] [] None c a (Q ++ gap_trivia g) c Hk2 Hd2 Hi I (Forall_nil _)
                  (fun _ => conj eq_refl eq_refl)) as Ht.
    cbn [pend_triv flat_map a0_triv app OUT a0_text pend_text] in Ht. rewrite Ht.
    rewrite format_trivia_app, format_trivia_gap.
    repeat rewrite <- app_assoc. rewrite HQ. repeat rewrite <- app_assoc. reflexivity.
Qed.

Lemma parse_seq_finish g0 c a rest cg :
  parse_seq inb ((g0, c, a) :: rest) (Some cg) true [] =
  finish (fst (pds inb ((g0, c, a) :: rest) [] (if has_empty_line g0 then [EmptyLine] else []) None))
         (snd (pds inb ((g0, c, a) :: rest) [] (if has_empty_line g0 then [EmptyLine] else []) None)) cg.
Proof.
  unfold parse_seq, finish. cbn [app andb].
  destruct (pds inb ((g0, c, a) :: rest) [] (if has_empty_line g0 then [EmptyLine] else []) None) as [items before].
  cbn [fst snd]. destruct before; destruct items; reflexivity.
Qed.

(* whole body of a multi-line container with at least one item *)
Theorem seq_body cg content :
  Forall kid_ok content -> no_double None content -> has_item content = true ->
  BT (fst (parse_seq inb content (Some cg) true []))
  = seq_lines core inb ind (map strip2 content) None false
      ++ LF :: (if q1_start content then [] else blank cg).
Proof.
  intros Hk Hd Hhas. destruct content as [|[[g0 c] a] rest]; [discriminate|].
  inversion Hk as [|? ? Hk1 Hk2]; subst. destruct Hd as [_ Hd2].
  rewrite parse_seq_finish.
  set (before0 := if has_empty_line g0 then [EmptyLine] else []).
  assert (Hb0 : format_trivia before0 ind = blank g0).
  { unfold before0, blank. destruct (has_empty_line g0); reflexivity. }
  cbn [pds map strip2 fst snd seq_lines q1_start]. cbn [kid_ok] in Hk1.
  destruct (is_cmt c) eqn:Ec.
  - cbn [has_item existsb fst snd] in Hhas. rewrite Ec in Hhas. cbn [negb orb] in Hhas.
    rewrite (pds_start cg rest (before0 ++ [TC (comment_from_cst (craw c))])
               (LF :: blank g0 ++ spec_comment (craw c) ind) c Hk2 Hd2 Ec).
    + repeat rewrite <- app_assoc. reflexivity.
    + intros Z. rewrite format_trivia_app, Hb0. cbn [format_trivia]. unfold spec_comment.
      repeat rewrite <- app_assoc. cbn [app]. repeat rewrite <- app_assoc. reflexivity.
    + exact Hhas.
  - destruct Hk1 as (Hb & Ha & HRc & Hnec & Hendc).
    rewrite mk_fresh by assumption. cbn [app].
    assert (Hi : item_ok c a) by (repeat split; assumption).
    pose proof (pds_tail cg rest [] [] None c a before0 c Hk2 Hd2 Hi I (Forall_nil _)
                  (fun _ => conj eq_refl eq_refl)) as Ht.
    cbn [pend_triv flat_map a0_triv app OUT a0_text pend_text] in Ht. rewrite Ht.
    rewrite Hb0. cbn [app]. repeat rewrite <- app_assoc. reflexivity.
Qed.

End ListSeq.

Print Assumptions seq_body.

(* C19 — edits compose predictably (model level: repeatability as STATE equality on the edit heap model). *)
From Coq Require Import List Ascii String Bool Arith.
Import ListNotations.
From E Require Import EditModel EditProofs EditFrame.

(* the same set applied twice gives the same state (hence the same text) as applying it once *)
Theorem C19_repeat_leaf : forall s segs l t0 t,
  find_leaf s SRoot segs = Some l -> val_of s l = VAt t0 -> hget (hp s) l <> None ->
  fst (m_set (fst (m_set s segs (VAt t))) segs (VAt t)) = fst (m_set s segs (VAt t)).
Proof. exact EditFrame.C19_repeat_leaf. Qed.
Print Assumptions C19_repeat_leaf.

(* Proofs over the REGENERATED wrapper traversal of cli/manipulations.py (Dyn/TargetGen.v, tools/target2v.py): `_resolve_target_set_from_expr`
   decides which attribute set `nima set` / `nima rm` may mutate.  Everything holds for EVERY instance of the abstract observations (node classes,
   attributes, scope look-ups, the context store, Identifier.value) — i.e. for every document and every resolution behaviour.

     target_spec            whatever the traversal returns is an attribute set; the visited list only grows, by nodes that were not in it
                            (no node is entered twice); running out of fuel means the visited list has grown by at least the fuel
     target_terminates      over a finite set of nodes (a document) a fuel above their number is never exhausted: the traversal terminates
                            on every document, cyclic identifier references included, with a set, ValueError or the resolver's exception
     through_*              the wrappers are transparent: entering an assert / let / parenthesis / with / lambda hands on to its body and nothing else
     target_fuel_irrelevant more fuel never changes an outcome that was reached (so the fuel a caller picks above the bound is immaterial)
     wrappers_transparent   any stack of assert / let / parenthesis wrappers around a set, of any height: the set itself is returned
     not_a_set_refused      a node of any other class is refused with ValueError *)
From Coq Require Import List Bool Arith Lia.
Import ListNotations.
From Dyn Require Import TargetGen.
Set Default Timeout 120.

Section Props.
Variable N : Type.
Variable N_eqb : N -> N -> bool.
Hypothesis N_eqb_spec : forall a b, N_eqb a b = true <-> a = b.
Variable SC : Type.
Variable truthy : SC -> bool.
Variable store : Type.
Variable cls_of : N -> cls.
Variables attr_body attr_value attr_output attr_argument : N -> option N.
Variable strip_parens : N -> N.
Variable supports_callee : N -> bool.
Variable scopes_for_owner : N -> store -> res SC.
Variable set_ctx : N -> SC -> store -> store.
Variable attach_ctx : N -> N -> store -> store.
Variable ident_value : N -> store -> res N.

Local Notation M := (M N store).
Local Notation state := (state N store).
Local Notation resolve := (resolve_target_set_from_expr N N_eqb SC truthy store cls_of attr_body attr_value attr_output attr_argument strip_parens
                             supports_callee scopes_for_owner set_ctx attach_ctx ident_value).
Local Notation rit := (resolve_identifier_target N SC truthy store scopes_for_owner set_ctx ident_value).
Local Notation bind := (bind N store).
Local Notation ret := (ret N store).
Local Notation raiseV := (raiseV N store).
Local Notation try_valueerror := (try_valueerror N store).

(* the visited list of s' extends that of s by fresh nodes *)
Definition ext (s s' : state) : Prop :=
  exists l, fst s' = l ++ fst s /\ (NoDup (fst s) -> NoDup (fst s')).
Lemma ext_refl s : ext s s.
Proof. exists []. split; [reflexivity|auto]. Qed.
Lemma ext_trans a b c : ext a b -> ext b c -> ext a c.
Proof. intros [l1 [E1 D1]] [l2 [E2 D2]]. exists (l2 ++ l1). split; [rewrite E2, E1, app_assoc; reflexivity|auto]. Qed.
Lemma ext_len a b : ext a b -> List.length (fst a) <= List.length (fst b).
Proof. intros [l [E _]]. rewrite E, app_length. lia. Qed.

(* specification of a computation: state extension, the fuel bound, and a postcondition on the value *)
Definition good {A} (k : nat) (Q : A -> Prop) (m : TargetGen.M N store A) : Prop :=
  forall s r s', m s = (r, s') ->
    ext s s' /\ (r = RFuel -> List.length (fst s) + k <= List.length (fst s')) /\ (forall a, r = RVal a -> Q a).

Lemma good_ret {A} k (Q : A -> Prop) a : Q a -> good k Q (ret a).
Proof. intros H s r s' E. inversion E; subst. split; [apply ext_refl|]. split; [discriminate|]. intros x Hx. inversion Hx; subst; exact H. Qed.
Lemma good_raise {A} k (Q : A -> Prop) : good k Q (@TargetGen.raiseV N store A).
Proof. intros s r s' E. inversion E; subst. split; [apply ext_refl|]. split; discriminate. Qed.
Lemma good_bind {A B} k (Q1 : A -> Prop) (Q2 : B -> Prop) m f :
  good k Q1 m -> (forall a, Q1 a -> good k Q2 (f a)) -> good k Q2 (bind m f).
Proof.
  intros Hm Hf s r s' E. unfold TargetGen.bind in E. destruct (m s) as [r1 s1] eqn:E1. destruct (Hm _ _ _ E1) as [X1 [F1 V1]].
  destruct r1 as [a| | |].
  - destruct (Hf a (V1 a eq_refl) _ _ _ E) as [X2 [F2 V2]]. split; [eapply ext_trans; eauto|]. split; [|exact V2].
    intros Hr. specialize (F2 Hr). apply ext_len in X1. lia.
  - inversion E; subst. split; [exact X1|]. split; discriminate.
  - inversion E; subst. split; [exact X1|]. split; discriminate.
  - inversion E; subst. split; [exact X1|]. split; [intros _; apply F1; reflexivity|discriminate].
Qed.
Lemma good_try {A} k (Q : A -> Prop) m h : good k Q m -> good k Q h -> good k Q (try_valueerror m h).
Proof.
  intros Hm Hh s r s' E. unfold TargetGen.try_valueerror in E. destruct (m s) as [r1 s1] eqn:E1. destruct (Hm _ _ _ E1) as [X1 [F1 V1]].
  destruct r1 as [a| | |]; try (inversion E; subst; split; [exact X1|]; split; [exact F1|exact V1]).
  destruct (Hh _ _ _ E) as [X2 [F2 V2]]. split; [eapply ext_trans; eauto|]. split; [|exact V2].
  intros Hr. specialize (F2 Hr). apply ext_len in X1. lia.
Qed.
Lemma good_weaken {A} k (Q Q' : A -> Prop) m : (forall a, Q a -> Q' a) -> good k Q m -> good k Q' m.
Proof. intros HQ Hm s r s' E. destruct (Hm _ _ _ E) as [X [F V]]. split; [exact X|]. split; [exact F|]. intros a Ha. apply HQ, V, Ha. Qed.
(* computations that leave the visited list alone and never report fuel *)
Lemma good_set_ctx k n sc : good k (fun _ => True) (do_set_ctx N SC store set_ctx n sc).
Proof. intros s r s' E. inversion E; subst. split; [exists []; cbn; auto|]. split; [discriminate|auto]. Qed.
Lemma good_attach k b o : good k (fun _ => True) (do_attach N store attach_ctx b o).
Proof. intros s r s' E. inversion E; subst. split; [exists []; cbn; auto|]. split; [discriminate|auto]. Qed.
Hypothesis ident_value_no_fuel : forall n st, ident_value n st <> RFuel.     (* the oracle is the resolver, which has no fuel *)
Hypothesis scopes_no_fuel : forall n st, scopes_for_owner n st <> RFuel.
Lemma good_get_scopes k n : good k (fun _ => True) (get_scopes N SC store scopes_for_owner n).
Proof.
  intros s r s' E. unfold get_scopes in E. inversion E; subst. split; [apply ext_refl|]. split; [|auto].
  intros Hr. exfalso. exact (scopes_no_fuel _ _ Hr).
Qed.
Lemma good_first_truthy k o : good k (fun _ => True) (first_truthy N SC truthy store scopes_for_owner o).
Proof.
  induction o as [|x r IH]; cbn [first_truthy]; [apply good_ret; exact I|].
  eapply good_bind; [apply good_get_scopes|]. intros sc _. destruct (truthy sc); [apply good_ret; exact I|exact IH].
Qed.
Lemma good_get_value k n : good k (fun _ => True) (get_value N store ident_value n).
Proof.
  intros s r s' E. unfold get_value in E. inversion E; subst. split; [apply ext_refl|]. split; [|auto].
  intros Hr. exfalso. exact (ident_value_no_fuel _ _ Hr).
Qed.
Lemma good_rit k i p o : good k (fun _ => True) (rit i p o).
Proof.
  unfold resolve_identifier_target.
  eapply good_bind with (Q1 := fun _ => True).
  { destruct p; [apply good_ret; exact I|apply good_first_truthy]. }
  intros rs _. eapply good_bind with (Q1 := fun _ => True).
  { destruct rs as [sc|]; [destruct (truthy sc)|]; [apply good_set_ctx|apply good_ret; exact I|apply good_ret; exact I]. }
  intros _ _. eapply good_bind; [apply good_get_value|]. intros v _. apply good_ret. exact I.
Qed.

Lemma is_cls_true n c : is_cls N cls_of n c = true -> cls_of n = c.
Proof. unfold is_cls. destruct (cls_of n), c; cbn; congruence. Qed.

Definition is_set (n : N) : Prop := cls_of n = CSet.
Definition opt_is_set (o : option N) : Prop := forall n, o = Some n -> is_set n.

Ltac goodstep :=
  match goal with
  | |- good _ _ (TargetGen.ret _ _ _) => apply good_ret
  | |- good _ _ (TargetGen.raiseV _ _) => apply good_raise
  | |- good _ _ (TargetGen.try_valueerror _ _ _ _) => apply good_try
  | |- good _ _ (match ?x with _ => _ end) => destruct x eqn:?
  | |- good _ _ (let '(a, b) := ?p in _) => destruct p
  end.

Theorem target_spec fuel : forall t sc, good fuel is_set (resolve fuel t sc).
Proof.
  induction fuel as [|f IH]; intros t sc.
  - intros s r s' E. cbn in E. inversion E; subst. split; [apply ext_refl|]. split; [intros _; lia|discriminate].
  - intros s r s' E. cbn [resolve_target_set_from_expr] in E.
    unfold TargetGen.bind at 1, is_visited at 1 in E. cbn beta iota in E.
    destruct (existsb (N_eqb t) (fst s)) eqn:Hseen.
    { inversion E; subst. split; [apply ext_refl|]. split; discriminate. }
    unfold TargetGen.bind at 1, visit at 1 in E. cbn beta iota in E.
    assert (X0 : ext s (t :: fst s, snd s)).
    { exists [t]. split; [reflexivity|]. intros D. cbn. constructor; [|exact D]. intros Hin.
      assert (existsb (N_eqb t) (fst s) = true) by (apply existsb_exists; exists t; split; [exact Hin|apply N_eqb_spec; reflexivity]). congruence. }
    cut (ext (t :: fst s, snd s) s' /\ (r = RFuel -> List.length (fst (t :: fst s, snd s)) + f <= List.length (fst s')) /\ (forall a, r = RVal a -> is_set a)).
    { intros [X [F V]]. split; [eapply ext_trans; eauto|]. split; [|exact V]. intros Hr. specialize (F Hr). cbn in F. lia. }
    revert E. generalize (t :: fst s, snd s). intros s1 E. revert s1 r s' E.
    change (good f is_set ?m) with (good f is_set m).
    match goal with |- forall s1 r s', ?m s1 = (r, s') -> _ => change (good f is_set m) end.
    cbv zeta.
    (* the nested helper, once: *)
    assert (Hcall : forall call scopes, good f opt_is_set
      ((fun (call : N) (scopes : option SC) =>
        if negb (supports_callee call) then TargetGen.ret N store None else
        match attr_argument call with None => TargetGen.ret N store None | Some argument_ =>
          if is_cls N cls_of (strip_parens argument_) CIdent then
            TargetGen.bind N store (rit (strip_parens argument_) scopes [call; strip_parens argument_]) (fun '(argument, scopes) =>
              if is_cls N cls_of (strip_parens argument) CSet then TargetGen.ret N store (Some (strip_parens argument)) else
              TargetGen.try_valueerror N store (TargetGen.bind N store (resolve f (strip_parens argument) scopes) (fun r_ => TargetGen.ret N store (Some r_))) (TargetGen.ret N store None))
          else if is_cls N cls_of (strip_parens argument_) CSet then TargetGen.ret N store (Some (strip_parens argument_)) else
            TargetGen.try_valueerror N store (TargetGen.bind N store (resolve f (strip_parens argument_) scopes) (fun r_ => TargetGen.ret N store (Some r_))) (TargetGen.ret N store None)
        end) call scopes)).
    { intros call scopes. cbn beta.
      assert (Hrec : forall a s0, good f opt_is_set (TargetGen.try_valueerror N store (TargetGen.bind N store (resolve f a s0) (fun r_ => TargetGen.ret N store (Some r_))) (TargetGen.ret N store None))).
      { intros a s0. apply good_try; [|apply good_ret; intros n Hn; discriminate].
        eapply good_bind; [apply IH|]. intros a0 Ha0. apply good_ret. intros n Hn. inversion Hn; subst. exact Ha0. }
      destruct (negb (supports_callee call)); [apply good_ret; intros n Hn; discriminate|].
      destruct (attr_argument call) as [a|]; [|apply good_ret; intros n Hn; discriminate].
      destruct (is_cls N cls_of (strip_parens a) CIdent).
      - eapply good_bind; [apply good_rit|]. intros [a2 sc2] _.
        destruct (is_cls N cls_of (strip_parens a2) CSet) eqn:Hs; [|apply Hrec].
        apply good_ret. intros n Hn. inversion Hn; subst. apply is_cls_true, Hs.
      - destruct (is_cls N cls_of (strip_parens a) CSet) eqn:Hs; [|apply Hrec].
        apply good_ret. intros n Hn. inversion Hn; subst. apply is_cls_true, Hs. }
    eapply good_bind with (Q1 := fun _ => True).
    { destruct sc; [apply good_ret; exact I|]. eapply good_bind; [apply good_get_scopes|]. intros; apply good_ret; exact I. }
    intros sc1 _.
    destruct (cls_of t) eqn:Hc.
    + (* assert *) destruct (attr_body t); [apply IH|apply good_raise].
    + (* let *) destruct (attr_value t); [apply IH|apply good_raise].
    + (* lambda *) destruct (attr_output t) as [o|]; [|apply good_raise].
      assert (Htail : good f is_set (if is_cls N cls_of o CSet then TargetGen.ret N store o else TargetGen.try_valueerror N store (resolve f o sc) (TargetGen.raiseV N store))).
      { destruct (is_cls N cls_of o CSet) eqn:Hs; [apply good_ret; apply is_cls_true, Hs|]. apply good_try; [apply IH|apply good_raise]. }
      destruct (is_cls N cls_of o CCall); [|exact Htail].
      eapply good_bind; [apply Hcall|]. intros [x|] Hx; [apply good_ret; apply Hx; reflexivity|exact Htail].
    + (* with *) eapply good_bind; [apply good_get_scopes|]. intros v _.
      destruct (attr_body t) as [b|]; [|apply good_raise].
      eapply good_bind; [apply good_attach|]. intros _ _. apply IH.
    + (* identifier *) eapply good_bind; [apply good_rit|]. intros [v sc2] _. apply IH.
    + (* parenthesis *) destruct (attr_value t); [apply IH|apply good_raise].
    + (* set *) apply good_ret. exact Hc.
    + (* call *) eapply good_bind; [apply Hcall|]. intros [x|] Hx; [apply good_ret; apply Hx; reflexivity|apply good_raise].
    + apply good_raise.
Qed.

(* ---- termination on a finite document ---- *)
Theorem target_terminates (univ : list N) :
  (forall n, In n univ) ->
  forall fuel t sc s s', NoDup (fst s) -> List.length univ < List.length (fst s) + fuel -> resolve fuel t sc s <> (RFuel, s').
Proof.
  intros Hall fuel t sc s s' D Hlen E.
  destruct (target_spec fuel t sc s RFuel s' E) as [[l [El Dl]] [F _]]. specialize (F eq_refl). specialize (Dl D).
  assert (List.length (fst s') <= List.length univ) by (apply NoDup_incl_length; [exact Dl|intros x _; apply Hall]).
  lia.
Qed.


(* ---- more fuel never changes an outcome that was reached ---- *)
Definition mono {A} (m m' : TargetGen.M N store A) : Prop := forall s r s', m s = (r, s') -> r <> RFuel -> m' s = (r, s').
Lemma mono_refl {A} (m : TargetGen.M N store A) : mono m m.
Proof. intros s r s' E _. exact E. Qed.
Lemma mono_bind {A B} (m m' : TargetGen.M N store A) (f f' : A -> TargetGen.M N store B) :
  mono m m' -> (forall a, mono (f a) (f' a)) -> mono (TargetGen.bind N store m f) (TargetGen.bind N store m' f').
Proof.
  intros Hm Hf s r s' E Hr. unfold TargetGen.bind in *. destruct (m s) as [r1 s1] eqn:E1.
  destruct r1 as [a| | |]; try (inversion E; subst; rewrite (Hm _ _ _ E1) by discriminate; reflexivity).
  - rewrite (Hm _ _ _ E1) by discriminate. apply (Hf a _ _ _ E Hr).
  - inversion E; subst. contradiction.
Qed.
Lemma mono_try {A} (m m' h h' : TargetGen.M N store A) : mono m m' -> mono h h' -> mono (TargetGen.try_valueerror N store m h) (TargetGen.try_valueerror N store m' h').
Proof.
  intros Hm Hh s r s' E Hr. unfold TargetGen.try_valueerror in *. destruct (m s) as [r1 s1] eqn:E1.
  destruct r1 as [a| | |]; try (inversion E; subst; rewrite (Hm _ _ _ E1) by discriminate; reflexivity).
  - rewrite (Hm _ _ _ E1) by discriminate. apply (Hh _ _ _ E Hr).
  - inversion E; subst. contradiction.
Qed.
Theorem target_fuel_mono fuel : forall t sc, mono (resolve fuel t sc) (resolve (S fuel) t sc).
Proof.
  induction fuel as [|f IH]; intros t sc.
  - intros s r s' E Hr. cbn in E. inversion E; subst. contradiction.
  - change (resolve (S f) t sc) with (resolve_target_set_from_expr N N_eqb SC truthy store cls_of attr_body attr_value attr_output attr_argument strip_parens
                             supports_callee scopes_for_owner set_ctx attach_ctx ident_value (S f) t sc).
    cbn [resolve_target_set_from_expr]. cbv zeta.
    apply mono_bind; [apply mono_refl|]. intros seen. destruct seen; [apply mono_refl|].
    apply mono_bind; [apply mono_refl|]. intros _.
    assert (Hrec : forall a s0, mono (TargetGen.try_valueerror N store (TargetGen.bind N store (resolve f a s0) (fun r_ => TargetGen.ret N store (Some r_))) (TargetGen.ret N store None))
                                     (TargetGen.try_valueerror N store (TargetGen.bind N store (resolve (S f) a s0) (fun r_ => TargetGen.ret N store (Some r_))) (TargetGen.ret N store None))).
    { intros a s0. apply mono_try; [|apply mono_refl]. apply mono_bind; [apply IH|]. intros; apply mono_refl. }
    apply mono_bind; [apply mono_refl|]. intros sc1.
    destruct (cls_of t).
    + destruct (attr_body t); [apply IH|apply mono_refl].
    + destruct (attr_value t); [apply IH|apply mono_refl].
    + destruct (attr_output t) as [o|]; [|apply mono_refl].
      assert (Htail : mono (if is_cls N cls_of o CSet then TargetGen.ret N store o else TargetGen.try_valueerror N store (resolve f o sc) (TargetGen.raiseV N store))
                           (if is_cls N cls_of o CSet then TargetGen.ret N store o else TargetGen.try_valueerror N store (resolve (S f) o sc) (TargetGen.raiseV N store))).
      { destruct (is_cls N cls_of o CSet); [apply mono_refl|]. apply mono_try; [apply IH|apply mono_refl]. }
      destruct (is_cls N cls_of o CCall); [|exact Htail].
      apply mono_bind.
      * destruct (negb (supports_callee o)); [apply mono_refl|]. destruct (attr_argument o) as [a|]; [|apply mono_refl].
        destruct (is_cls N cls_of (strip_parens a) CIdent).
        -- apply mono_bind; [apply mono_refl|]. intros [a2 sc2]. destruct (is_cls N cls_of (strip_parens a2) CSet); [apply mono_refl|apply Hrec].
        -- destruct (is_cls N cls_of (strip_parens a) CSet); [apply mono_refl|apply Hrec].
      * intros [x|]; [apply mono_refl|exact Htail].
    + apply mono_bind; [apply mono_refl|]. intros v. destruct (attr_body t); [|apply mono_refl].
      apply mono_bind; [apply mono_refl|]. intros _. apply IH.
    + apply mono_bind; [apply mono_refl|]. intros [v sc2]. apply IH.
    + destruct (attr_value t); [apply IH|apply mono_refl].
    + apply mono_refl.
    + apply mono_bind; [|intros; apply mono_refl].
      destruct (negb (supports_callee t)); [apply mono_refl|]. destruct (attr_argument t) as [a|]; [|apply mono_refl].
      destruct (is_cls N cls_of (strip_parens a) CIdent).
      * apply mono_bind; [apply mono_refl|]. intros [a2 sc2]. destruct (is_cls N cls_of (strip_parens a2) CSet); [apply mono_refl|apply Hrec].
      * destruct (is_cls N cls_of (strip_parens a) CSet); [apply mono_refl|apply Hrec].
    + apply mono_refl.
Qed.
Theorem target_fuel_irrelevant fuel k t sc s r s' : resolve fuel t sc s = (r, s') -> r <> RFuel -> resolve (k + fuel) t sc s = (r, s').
Proof. intros E Hr. induction k as [|k IHk]; [exact E|]. cbn [Nat.add]. apply (target_fuel_mono (k + fuel) t sc s r s' IHk Hr). Qed.

(* ---- the wrappers are transparent ---- *)
(* when no chain was handed down, entering a node asks for the node's own chain; that look-up must not raise *)
Definition scopes_ok (t : N) (sc : option SC) (st : store) : Prop :=
  match sc with Some _ => True | None => exists c, scopes_for_owner t st = RVal c end.

Ltac enter_node sc Hv Hs :=
  cbn [resolve_target_set_from_expr]; unfold TargetGen.bind at 1, is_visited at 1; cbn [fst snd]; rewrite Hv;
  unfold TargetGen.bind at 1, visit at 1; cbn [fst snd]; cbv zeta;
  unfold TargetGen.bind at 1; unfold scopes_ok in Hs;
  destruct sc; [|destruct Hs as [c_ Hs]]; unfold TargetGen.bind, get_scopes, TargetGen.ret; cbn [fst snd]; [|rewrite Hs].

Theorem through_assert f t b sc v st :
  cls_of t = CAssertion -> attr_body t = Some b -> existsb (N_eqb t) v = false -> scopes_ok t sc st ->
  resolve (S f) t sc (v, st) = resolve f b sc (t :: v, st).
Proof. intros Hc Hb Hv Hs. enter_node sc Hv Hs; rewrite Hc, Hb; reflexivity. Qed.
Theorem through_let f t b sc v st :
  cls_of t = CLet -> attr_value t = Some b -> existsb (N_eqb t) v = false -> scopes_ok t sc st ->
  resolve (S f) t sc (v, st) = resolve f b sc (t :: v, st).
Proof. intros Hc Hb Hv Hs. enter_node sc Hv Hs; rewrite Hc, Hb; reflexivity. Qed.
Theorem through_paren f t b sc v st :
  cls_of t = CParen -> attr_value t = Some b -> existsb (N_eqb t) v = false -> scopes_ok t sc st ->
  resolve (S f) t sc (v, st) = resolve f b sc (t :: v, st).
Proof. intros Hc Hb Hv Hs. enter_node sc Hv Hs; rewrite Hc, Hb; reflexivity. Qed.
(* with: the body is resolved under the chain of the with (or, when that is empty, the chain in force), after the contexts were attached *)
Theorem through_with f t b sc v st c :
  cls_of t = CWith -> attr_body t = Some b -> existsb (N_eqb t) v = false -> scopes_for_owner t st = RVal c ->
  resolve (S f) t sc (v, st) =
  resolve f b (or_scopes SC truthy c (match sc with None => Some c | Some _ => sc end)) (t :: v, attach_ctx b t st).
Proof.
  intros Hc Hb Hv Hs. assert (Hs' : scopes_ok t sc st) by (destruct sc; [exact I|exists c; exact Hs]).
  enter_node sc Hv Hs'; rewrite Hc; cbn [snd]; rewrite ?Hs; [|assert (c_ = c) by congruence; subst c_; rewrite ?Hs]; rewrite Hb; reflexivity.
Qed.
(* a lambda whose body is the set: that set *)
Theorem through_lambda_set f t o sc v st :
  cls_of t = CFunDef -> attr_output t = Some o -> cls_of o = CSet -> existsb (N_eqb t) v = false -> scopes_ok t sc st ->
  resolve (S f) t sc (v, st) = (RVal o, (t :: v, st)).
Proof.
  intros Hc Ho Hs Hv Hk. enter_node sc Hv Hk; rewrite Hc, Ho; unfold is_cls; rewrite Hs; reflexivity.
Qed.
(* a lambda around a further wrapper (not a call, not a set): the body is resolved; a ValueError stays a ValueError *)
Theorem through_lambda f t o sc v st :
  cls_of t = CFunDef -> attr_output t = Some o -> cls_of o <> CCall -> cls_of o <> CSet -> existsb (N_eqb t) v = false -> scopes_ok t sc st ->
  resolve (S f) t sc (v, st) = TargetGen.try_valueerror N store (resolve f o sc) (TargetGen.raiseV N store) (t :: v, st).
Proof.
  intros Hc Ho Hn1 Hn2 Hv Hk. enter_node sc Hv Hk; rewrite Hc, Ho; unfold is_cls; destruct (cls_of o); try congruence; reflexivity.
Qed.
Theorem set_is_target f t sc v st :
  cls_of t = CSet -> existsb (N_eqb t) v = false -> scopes_ok t sc st -> resolve (S f) t sc (v, st) = (RVal t, (t :: v, st)).
Proof. intros Hc Hv Hk. enter_node sc Hv Hk; rewrite Hc; reflexivity. Qed.
Theorem not_a_set_refused f t sc v st :
  cls_of t = COther -> existsb (N_eqb t) v = false -> scopes_ok t sc st -> resolve (S f) t sc (v, st) = (RErrV, (t :: v, st)).
Proof. intros Hc Hv Hk. enter_node sc Hv Hk; rewrite Hc; reflexivity. Qed.
Theorem revisit_refused f t sc v st :
  existsb (N_eqb t) v = true -> resolve (S f) t sc (v, st) = (RErrV, (v, st)).
Proof. intros Hv. cbn [resolve_target_set_from_expr]. unfold TargetGen.bind at 1, is_visited at 1. cbn [fst snd]. rewrite Hv. reflexivity. Qed.

(* a stack of assert / let / parenthesis wrappers of ANY height around a set *)
Definition plain_wrapper (t child : N) : Prop :=
  (cls_of t = CAssertion /\ attr_body t = Some child) \/ (cls_of t = CLet /\ attr_value t = Some child) \/ (cls_of t = CParen /\ attr_value t = Some child).
Fixpoint linked (ws : list N) (r : N) : Prop :=
  match ws with [] => True | w :: rest => plain_wrapper w (hd r rest) /\ linked rest r end.
Lemma existsb_false_notin x l : ~ In x l -> existsb (N_eqb x) l = false.
Proof.
  intros H. destruct (existsb (N_eqb x) l) eqn:E; [|reflexivity]. apply existsb_exists in E. destruct E as [y [Hy Hxy]].
  apply N_eqb_spec in Hxy. subst. contradiction.
Qed.
Theorem wrappers_transparent ws : forall r sc v st,
  linked ws r -> cls_of r = CSet -> NoDup (ws ++ [r]) -> (forall x, In x (ws ++ [r]) -> ~ In x v) -> (forall x, In x (ws ++ [r]) -> scopes_ok x sc st) ->
  resolve (S (List.length ws)) (hd r ws) sc (v, st) = (RVal r, (r :: rev ws ++ v, st)).
Proof.
  induction ws as [|w rest IH]; intros r sc v st HL Hr HD Hfresh Hok.
  - cbn [hd List.length rev app]. apply set_is_target; [exact Hr| |apply Hok; left; reflexivity]. apply existsb_false_notin, Hfresh. left; reflexivity.
  - cbn [hd List.length]. destruct HL as [Hw HL].
    assert (Hv : existsb (N_eqb w) v = false) by (apply existsb_false_notin, Hfresh; left; reflexivity).
    assert (Hk : scopes_ok w sc st) by (apply Hok; left; reflexivity).
    assert (Hstep : resolve (S (S (List.length rest))) w sc (v, st) = resolve (S (List.length rest)) (hd r rest) sc (w :: v, st)).
    { destruct Hw as [[Hc Hb]|[[Hc Hb]|[Hc Hb]]]; [apply through_assert|apply through_let|apply through_paren]; assumption. }
    rewrite Hstep. inversion HD as [|? ? Hnotin HD']; subst.
    rewrite (IH r sc (w :: v) st HL Hr HD').
    + cbn [rev]. rewrite <- app_assoc. reflexivity.
    + intros x Hx [Hxw|Hxv]; [subst; contradiction|]. apply (Hfresh x); [right; exact Hx|exact Hxv].
    + intros x Hx. apply Hok. right. exact Hx.
Qed.
End Props.


(* ---- the two helpers behind `strip_parens` and `supports_callee` (regenerated, frames matched literally) ---- *)
Section Callee.
Variable N : Type.
Variable cls_of : N -> cls.
Variables attr_value attr_name : N -> option N.
Variable is_select : N -> bool.
Local Notation strip := (strip_parentheses N cls_of attr_value).
Local Notation supports := (supports_attrset_argument N cls_of attr_value attr_name is_select).
Lemma is_cls_iff n c : is_cls N cls_of n c = true <-> cls_of n = c.
Proof. unfold is_cls. destruct (cls_of n), c; cbn; split; congruence. Qed.
(* what _strip_parentheses returns is not a parenthesis; on a non-parenthesis it is the identity; it is idempotent *)
Theorem strip_not_paren fuel : forall e r, strip fuel e = RVal r -> cls_of r <> CParen.
Proof.
  induction fuel as [|f IH]; intros e r H; cbn [strip_parentheses] in H; [discriminate|].
  destruct (is_cls N cls_of e CParen) eqn:E.
  - destruct (attr_value e); [apply (IH _ _ H)|discriminate].
  - inversion H; subst. intros Hc. apply is_cls_iff in Hc. congruence.
Qed.
Theorem strip_fixed f e : cls_of e <> CParen -> strip (S f) e = RVal e.
Proof. intros H. cbn [strip_parentheses]. destruct (is_cls N cls_of e CParen) eqn:E; [apply is_cls_iff in E; contradiction|reflexivity]. Qed.
Theorem strip_idempotent fuel e r f : strip fuel e = RVal r -> strip (S f) r = RVal r.
Proof. intros H. apply strip_fixed. exact (strip_not_paren fuel e r H). Qed.
(* _supports_attrset_argument: a name given as a string is accepted; a curried call is judged by its function; the head decides:
   lambda, identifier, select -> accepted; anything else (a literal, a list, a set …) -> refused *)
Theorem supports_str f : supports (S f) None = RVal true.
Proof. reflexivity. Qed.
Theorem supports_curried f c : cls_of c = CCall -> supports (S (S f)) (Some c) = supports (S f) (attr_name c).
Proof.
  intros H. cbn [supports_attrset_argument]. rewrite strip_fixed by congruence.
  destruct (is_cls N cls_of c CCall) eqn:E; [reflexivity|]. exfalso. apply is_cls_iff in H. congruence.
Qed.
Theorem supports_head f c : cls_of c <> CParen -> cls_of c <> CCall ->
  supports (S (S f)) (Some c) = RVal (is_cls N cls_of c CFunDef || is_cls N cls_of c CIdent || is_select c).
Proof.
  intros H1 H2. cbn [supports_attrset_argument]. rewrite strip_fixed by exact H1.
  destruct (is_cls N cls_of c CCall) eqn:E; [apply is_cls_iff in E; contradiction|reflexivity].
Qed.
Theorem supports_through_paren f c v : cls_of c = CParen -> attr_value c = Some v ->
  supports (S (S (S f))) (Some c) = match strip (S f) v with
                                    | RVal c1 => if is_cls N cls_of c1 CCall then supports (S (S f)) (attr_name c1)
                                                 else RVal (is_cls N cls_of c1 CFunDef || is_cls N cls_of c1 CIdent || is_select c1)
                                    | RErrV => RErrV | RErrO => RErrO | RFuel => RFuel end.
Proof.
  intros H Hv. cbn [supports_attrset_argument]. change (strip (S (S f)) c) with (if is_cls N cls_of c CParen then match attr_value c with Some v0 => strip (S f) v0 | None => RErrO end else RVal c).
  apply is_cls_iff in H. rewrite H, Hv. reflexivity.
Qed.
Theorem supports_literal_head_refused f c : cls_of c = COther -> is_select c = false -> supports (S (S f)) (Some c) = RVal false.
Proof. intros H Hs. rewrite supports_head by congruence. unfold is_cls. rewrite H, Hs. reflexivity. Qed.
End Callee.

(* ---- closed statements over a bundled world (what Props/C04.v, C05.v, C08.v cite) ---- *)
Record world := {
  wN : Type; w_eqb : wN -> wN -> bool; w_eqb_spec : forall a b, w_eqb a b = true <-> a = b;
  wSC : Type; w_truthy : wSC -> bool; w_store : Type; w_cls : wN -> cls;
  w_body : wN -> option wN; w_value : wN -> option wN; w_output : wN -> option wN; w_argument : wN -> option wN;
  w_strip : wN -> wN; w_supports : wN -> bool; w_scopes : wN -> w_store -> res wSC;
  w_set_ctx : wN -> wSC -> w_store -> w_store; w_attach : wN -> wN -> w_store -> w_store;
  w_ident_value : wN -> w_store -> res wN; w_ident_no_fuel : forall n st, w_ident_value n st <> RFuel; w_scopes_no_fuel : forall n st, w_scopes n st <> RFuel }.
Definition target (w : world) :=
  resolve_target_set_from_expr (wN w) (w_eqb w) (wSC w) (w_truthy w) (w_store w) (w_cls w) (w_body w) (w_value w) (w_output w) (w_argument w)
    (w_strip w) (w_supports w) (w_scopes w) (w_set_ctx w) (w_attach w) (w_ident_value w).
Definition target_top (w : world) :=
  resolve_target_set (wN w) (w_eqb w) (wSC w) (w_truthy w) (w_store w) (w_cls w) (w_body w) (w_value w) (w_output w) (w_argument w)
    (w_strip w) (w_supports w) (w_scopes w) (w_set_ctx w) (w_attach w) (w_ident_value w).

Theorem target_is_a_set (w : world) fuel t sc s r s' : target w fuel t sc s = (RVal r, s') -> w_cls w r = CSet.
Proof.
  intros E. destruct (target_spec (wN w) (w_eqb w) (w_eqb_spec w) (wSC w) (w_truthy w) (w_store w) (w_cls w) (w_body w) (w_value w) (w_output w)
    (w_argument w) (w_strip w) (w_supports w) (w_scopes w) (w_set_ctx w) (w_attach w) (w_ident_value w) (w_ident_no_fuel w) (w_scopes_no_fuel w) fuel t sc s _ s' E) as [_ [_ V]].
  apply V. reflexivity.
Qed.
Theorem target_top_is_a_set (w : world) fuel es s r s' : target_top w fuel es s = (RVal r, s') -> w_cls w r = CSet.
Proof.
  unfold target_top, resolve_target_set. destruct es as [|e [|e2 es]]; try discriminate. unfold try_valueerror.
  destruct (resolve_target_set_from_expr _ _ _ _ _ _ _ _ _ _ _ _ _ _ _ _ fuel e None s) as [r1 s1] eqn:E. destruct r1; try discriminate.
  intros H. inversion H; subst. exact (target_is_a_set w fuel e None s r s' E).
Qed.
(* no node is entered twice, and a document (finitely many nodes) cannot exhaust a fuel above their number *)
Theorem target_visits_once (w : world) fuel t sc s r s' :
  target w fuel t sc s = (r, s') -> exists l, fst s' = l ++ fst s /\ (NoDup (fst s) -> NoDup (fst s')).
Proof.
  intros E. exact (proj1 (target_spec (wN w) (w_eqb w) (w_eqb_spec w) (wSC w) (w_truthy w) (w_store w) (w_cls w) (w_body w) (w_value w) (w_output w)
    (w_argument w) (w_strip w) (w_supports w) (w_scopes w) (w_set_ctx w) (w_attach w) (w_ident_value w) (w_ident_no_fuel w) (w_scopes_no_fuel w) fuel t sc s r s' E)).
Qed.
Theorem target_total (w : world) (univ : list (wN w)) :
  (forall n, In n univ) -> forall t sc st, exists r s', r <> RFuel /\ target w (S (List.length univ)) t sc ([], st) = (r, s').
Proof.
  intros Hall t sc st. destruct (target w (S (List.length univ)) t sc ([], st)) as [r s'] eqn:E. exists r, s'. split; [|reflexivity].
  intros Hr. subst r. revert E.
  apply (target_terminates (wN w) (w_eqb w) (w_eqb_spec w) (wSC w) (w_truthy w) (w_store w) (w_cls w) (w_body w) (w_value w) (w_output w)
    (w_argument w) (w_strip w) (w_supports w) (w_scopes w) (w_set_ctx w) (w_attach w) (w_ident_value w) (w_ident_no_fuel w) (w_scopes_no_fuel w) univ Hall).
  - constructor.
  - cbn. lia.
Qed.
Theorem target_result_fuel_independent (w : world) fuel k t sc s r s' : target w fuel t sc s = (r, s') -> r <> RFuel -> target w (k + fuel) t sc s = (r, s').
Proof.
  apply (target_fuel_irrelevant (wN w) (w_eqb w) (wSC w) (w_truthy w) (w_store w) (w_cls w) (w_body w) (w_value w) (w_output w)
    (w_argument w) (w_strip w) (w_supports w) (w_scopes w) (w_set_ctx w) (w_attach w) (w_ident_value w)).
Qed.
Theorem target_wrappers_transparent (w : world) ws r sc v st :
  linked (wN w) (w_cls w) (w_body w) (w_value w) ws r -> w_cls w r = CSet -> NoDup (ws ++ [r]) -> (forall x, In x (ws ++ [r]) -> ~ In x v) ->
  (forall x, In x (ws ++ [r]) -> scopes_ok (wN w) (wSC w) (w_store w) (w_scopes w) x sc st) ->
  target w (S (List.length ws)) (hd r ws) sc (v, st) = (RVal r, (r :: rev ws ++ v, st)).
Proof.
  apply (wrappers_transparent (wN w) (w_eqb w) (w_eqb_spec w) (wSC w) (w_truthy w) (w_store w) (w_cls w) (w_body w) (w_value w) (w_output w)
    (w_argument w) (w_strip w) (w_supports w) (w_scopes w) (w_set_ctx w) (w_attach w) (w_ident_value w)).
Qed.

(* refusals are ValueError and mutate no context: no expression, several expressions, an expression of a class the traversal does not look through *)
Theorem target_top_refuses_empty (w : world) fuel s : target_top w fuel [] s = (RErrV, s).
Proof. reflexivity. Qed.
Theorem target_top_refuses_several (w : world) fuel a b l s : target_top w fuel (a :: b :: l) s = (RErrV, s).
Proof. reflexivity. Qed.
Theorem target_top_refuses_other (w : world) f t st c :
  w_cls w t = COther -> w_scopes w t st = RVal c -> target_top w (S f) [t] ([], st) = (RErrV, ([t], st)).
Proof.
  intros Hc Hs. unfold target_top, resolve_target_set, try_valueerror.
  rewrite (not_a_set_refused (wN w) (w_eqb w) (wSC w) (w_truthy w) (w_store w) (w_cls w) (w_body w) (w_value w) (w_output w)
    (w_argument w) (w_strip w) (w_supports w) (w_scopes w) (w_set_ctx w) (w_attach w) (w_ident_value w) f t None [] st Hc eq_refl).
  - reflexivity.
  - exists c. exact Hs.
Qed.

(* ---- table worlds: the instance the correspondence evaluates (nodes, chains and store versions are numbers) ---- *)
Record table := {
  t_cls : list cls; t_body : list (option nat); t_value : list (option nat); t_output : list (option nat); t_argument : list (option nat);
  t_strip : list nat; t_supports : list bool; t_name : list (option nat); t_select : list bool;
  t_truthy : list bool;                         (* by chain number *)
  t_scopes : list (nat * nat * res nat);        (* scopes_for_owner: node, store version, chain number or exception *)
  t_values : list (nat * nat * res nat) }.      (* Identifier.value: node, store version, outcome *)
Definition no_fuel (r : res nat) : res nat := match r with RFuel => RErrO | _ => r end.
Lemma no_fuel_ok r : no_fuel r <> RFuel. Proof. destruct r; discriminate. Qed.
Definition tb_scopes (tb : table) (n v : nat) : res nat :=
  no_fuel (match find (fun e => Nat.eqb (fst (fst e)) n && Nat.eqb (snd (fst e)) v) (t_scopes tb) with Some e => snd e | None => RVal 0 end).
Definition tb_value (tb : table) (n v : nat) : res nat :=
  match find (fun e => Nat.eqb (fst (fst e)) n && Nat.eqb (snd (fst e)) v) (t_values tb) with
  | Some (_, RFuel) => RErrO | Some (_, r) => r | None => RErrO end.
Lemma tb_value_no_fuel tb n v : tb_value tb n v <> RFuel.
Proof. unfold tb_value. destruct (find _ _) as [[k r]|]; [destruct r|]; discriminate. Qed.
Definition table_world (tb : table) : world :=
  {| wN := nat; w_eqb := Nat.eqb; w_eqb_spec := Nat.eqb_eq; wSC := nat; w_truthy := fun sc => nth sc (t_truthy tb) false; w_store := nat;
     w_cls := fun n => nth n (t_cls tb) COther;
     w_body := fun n => nth n (t_body tb) None; w_value := fun n => nth n (t_value tb) None; w_output := fun n => nth n (t_output tb) None;
     w_argument := fun n => nth n (t_argument tb) None; w_strip := fun n => nth n (t_strip tb) n; w_supports := fun n => nth n (t_supports tb) false;
     w_scopes := tb_scopes tb; w_set_ctx := fun _ _ v => S v; w_attach := fun _ _ v => S v;
     w_ident_value := tb_value tb; w_ident_no_fuel := tb_value_no_fuel tb; w_scopes_no_fuel := fun n v => no_fuel_ok _ |}.
(* the recorded `_strip_parentheses` / `_supports_attrset_argument` of every node are what the regenerated helpers compute in the table *)
Definition tb_helpers_ok (tb : table) : bool :=
  let n := List.length (t_cls tb) in
  let cls_ := fun k => nth k (t_cls tb) COther in let val_ := fun k => nth k (t_value tb) None in
  forallb (fun k =>
    (match strip_parentheses nat cls_ val_ (S n) k with RVal r => Nat.eqb r (nth k (t_strip tb) k) | _ => false end) &&
    (if cls_eqb (cls_ k) CCall then
       match supports_attrset_argument nat cls_ val_ (fun j => nth j (t_name tb) None) (fun j => nth j (t_select tb) false) (S (S (S n))) (nth k (t_name tb) None) with
       | RVal b => Bool.eqb b (nth k (t_supports tb) false) | _ => false end
     else true)) (seq 0 n).
(* what the correspondence compares: the outcome and the number of context mutations of `_resolve_target_set(source)` *)
Definition table_run (tb : table) (exprs : list nat) : res nat * nat :=
  let '(r, (_, v)) := target_top (table_world tb) (S (S (List.length (t_cls tb)))) exprs ([], 0) in (r, v).

(* non-vacuity: `{ pkgs }: assert c; let … in ({ … })` — nodes 0 lambda, 1 assert, 2 let, 3 parenthesis, 4 set *)
Example target_demo :
  table_run {| t_cls := [CFunDef; CAssertion; CLet; CParen; CSet]; t_body := [None; Some 2; None; None; None]; t_value := [None; None; Some 3; Some 4; None];
               t_output := [Some 1; None; None; None; None]; t_argument := [None; None; None; None; None]; t_strip := [0; 1; 2; 3; 4];
               t_supports := []; t_name := []; t_select := []; t_truthy := [false]; t_scopes := []; t_values := [] |} [0] = (RVal 4, 0).
Proof. vm_compute. reflexivity. Qed.
Print Assumptions target_is_a_set.
Print Assumptions target_total.
Print Assumptions target_wrappers_transparent.
Print Assumptions target_top_refuses_other.
Print Assumptions target_visits_once.
Print Assumptions target_top_is_a_set.
Print Assumptions supports_head.
Print Assumptions strip_not_paren.
Print Assumptions target_result_fuel_independent.

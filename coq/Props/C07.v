(* C07 — sources with syntax errors are passed through untouched and never edited.
   Gate model: Small/Gate.v (what follows from tree-sitter's verdict, for every reader, printer and library edit);
   CLI half over the match arms REGENERATED from cli/main.py (Dyn.CliGen). *)
From Coq Require Import List Ascii String Bool Arith.
Import ListNotations.
From Small Require Import Gate.
From Cli Require Import CliIR.
From Dyn Require Import CliGen CliProps.

Section C07.
  Variable T : Type.
  Variables (ts_has_error : str -> bool) (read : str -> T) (print : T -> str)
            (edit_set : T -> str -> T -> res T) (edit_rm : T -> str -> res T) (value_count : str -> nat).

  (* rebuilding returns the input byte for byte, including leading and trailing whitespace *)
  Theorem C07_passthrough : forall src, ts_has_error src = true ->
    rebuild T print (parse T ts_has_error read src) = src /\ contains_error T (parse T ts_has_error read src) = true.
  Proof. exact (passthrough T ts_has_error read print). Qed.

  (* set / rm refuse with an error instead of emitting rewritten text, and the document still rebuilds to the input *)
  Theorem C07_no_edit : forall src path v, ts_has_error src = true ->
    set_value T ts_has_error read print edit_set value_count (parse T ts_has_error read src) path v = (parse T ts_has_error read src, Err ValErr) /\
    remove_value T print edit_rm (parse T ts_has_error read src) path = (parse T ts_has_error read src, Err ValErr).
  Proof. exact (no_edit T ts_has_error read print edit_set edit_rm value_count). Qed.

  (* a VALUE that is not exactly one well-formed expression is refused before anything is touched *)
  Theorem C07_bad_value : forall d path v, value_ok ts_has_error value_count v = false ->
    set_value T ts_has_error read print edit_set value_count d path v = (d, Err ValErr).
  Proof. exact (bad_value_refused T ts_has_error read print edit_set value_count). Qed.
End C07.
Print Assumptions C07_passthrough.
Print Assumptions C07_no_edit.
Print Assumptions C07_bad_value.

(* `nima test` on a text with a syntax error prints Fail and exits 1, whatever rebuild returns (generated arms) *)
Section C07cli.
  Variable doc : Type.
  Variables (lib_parse : string -> doc) (lib_set : doc -> string -> string -> option string)
            (lib_rm : doc -> string -> option string) (lib_err : doc -> bool) (lib_rebuild : doc -> string).
  Theorem C07_test_fails : forall i, lib_err (lib_parse (stdin_text i)) = true ->
    main doc lib_parse lib_set lib_rm lib_err lib_rebuild arms "test"%string i = Done ("Fail" ++ nl)%string false 1.
  Proof. exact (CliProps.C07_test_fails doc lib_parse lib_set lib_rm lib_err lib_rebuild). Qed.
  (* and a refused edit leaves stdout empty with a non-zero status *)
  Theorem C07_cli_refusal : forall i, lib_set (lib_parse (stdin_text i)) (a_npath i) (a_value i) = None ->
    main doc lib_parse lib_set lib_rm lib_err lib_rebuild arms "set"%string i = Done ""%string true 1.
  Proof. intros i H. rewrite (CliProps.C16_set doc lib_parse lib_set lib_rm lib_err lib_rebuild i). rewrite H. reflexivity. Qed.
End C07cli.
Print Assumptions C07_test_fails.
Print Assumptions C07_cli_refusal.

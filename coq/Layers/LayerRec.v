(* Record types for the GENERATED model of cli/manipulations.py:_collect_scope_layers / _write_scope_layers
   (tools/layers2v.py).  A value is an opaque list (only emptiness is observed: `if expr.scope`, `if not scope_value`);
   a layer is the five-key ScopeLayer dict; est is what the two functions read and write of an expression:
   expr.scope and the fields of expr.scope_state (stack = the inner layers, outermost first). *)
From Coq Require Import List Arith Bool.
Import ListNotations.

Definition V := list nat.
Record layer := { l_scope : V; l_body_before : V; l_body_after : V; l_attrpath_order : V; l_after_let_comment : V }.
Record est := { e_scope : V; s_body_before : V; s_body_after : V; s_attrpath_order : V; s_after_let_comment : V; s_stack : list layer }.
Definition nonempty (v : V) : bool := match v with [] => false | _ => true end.
Definition empty_est : est := {| e_scope := []; s_body_before := []; s_body_after := []; s_attrpath_order := []; s_after_let_comment := []; s_stack := [] |}.

(* the layer that expr.scope and the top-level fields of scope_state stand for *)
Definition outer_of (e : est) : layer :=
  {| l_scope := e_scope e; l_body_before := s_body_before e; l_body_after := s_body_after e;
     l_attrpath_order := s_attrpath_order e; l_after_let_comment := s_after_let_comment e |}.
(* an expression with at least one let layer and no empty layer on its stack (what parsing and edits produce) *)
Definition wf (e : est) : Prop := nonempty (e_scope e) = true /\ Forall (fun l => nonempty (l_scope l) = true) (s_stack e).
Definition all_scoped (ls : list layer) : Prop := Forall (fun l => nonempty (l_scope l) = true) ls.

Lemma layer_eta l : {| l_scope := l_scope l; l_body_before := l_body_before l; l_body_after := l_body_after l;
                       l_attrpath_order := l_attrpath_order l; l_after_let_comment := l_after_let_comment l |} = l.
Proof. destruct l; reflexivity. Qed.

(* replace the i-th element *)
Fixpoint upd {A} (i : nat) (f : A -> A) (l : list A) : list A :=
  match l, i with [], _ => [] | x :: t, O => f x :: t | x :: t, S j => x :: upd j f t end.
Lemma upd_nth_other {A} (f : A -> A) : forall l i j, i <> j -> nth_error (upd i f l) j = nth_error l j.
Proof.
  induction l as [|x t IH]; intros i j H; [destruct i; reflexivity|]. destruct i, j; cbn [upd nth_error]; try reflexivity; [congruence|].
  apply IH. congruence.
Qed.
Lemma upd_length {A} (f : A -> A) : forall l i, length (upd i f l) = length l.
Proof. induction l as [|x t IH]; intros [|i]; cbn [upd length]; try reflexivity. now rewrite IH. Qed.

(* Proofs over the REGENERATED chain construction of resolution.py (Dyn/ScopesGen.v, tools/scopes2v.py): the order of the chain — and with it
   which binding shadows which, since _resolve_identifier searches the chain from its end — and the equality with the chain construction of the
   hand-written traversal model C.ChainModel, for every table, registry and attribute set. *)
From Coq Require Import List Bool Arith Lia.
Import ListNotations.
From C Require Import ChainModel.
From Dyn Require Import ScopesGen.
Set Default Timeout 60.

Lemma fold_append {A B} (g : A -> B) l acc : fold_left (fun c x => c ++ [g x]) l acc = acc ++ map g l.
Proof. revert acc. induction l as [|x r IH]; intros acc; cbn [fold_left map]; [now rewrite app_nil_r|]. rewrite IH, <- app_assoc. reflexivity. Qed.

Theorem collect_is_map S layers : collect_scopes_from_layers S layers = map (layer_scope S) layers.
Proof. unfold collect_scopes_from_layers. apply (fold_append (layer_scope S) layers []). Qed.

(* the chain of an attribute-set owner: what it inherited, then its own let layers from the outermost to the innermost (empty ones left out),
   then — for a rec set — the scope of its own values *)
Theorem chain_order S (o : owner S) :
  scopes_for_owner_set S o =
  opt_list S (o_inherited S o) ++ opt_one S (o_scope S o) ++ map (layer_scope S) (filter (layer_nonempty S) (o_stack S o))
  ++ (if o_recursive S o then [o_self S o] else []).
Proof. unfold scopes_for_owner_set. rewrite collect_is_map. cbn [app]. rewrite <- !app_assoc. reflexivity. Qed.

(* the order in which _resolve_identifier meets the scopes (it walks the chain from the end): the rec self-scope first, then the let layers from
   the innermost to the outermost, then the inherited chain from its end *)
Theorem search_order S (o : owner S) :
  rev (scopes_for_owner_set S o) =
  (if o_recursive S o then [o_self S o] else []) ++ rev (map (layer_scope S) (filter (layer_nonempty S) (o_stack S o)))
  ++ rev (opt_one S (o_scope S o)) ++ rev (opt_list S (o_inherited S o)).
Proof.
  rewrite chain_order, !rev_app_distr, <- !app_assoc. destruct (o_recursive S o); reflexivity.
Qed.

(* an inner layer is met before an outer one: if layer a stands before layer b on the stack (a is the outer one), b's scope comes first in the search *)
Lemma rev_map_split {A B} (f : A -> B) pre a mid b post :
  rev (map f (pre ++ a :: mid ++ b :: post)) = rev (map f post) ++ f b :: rev (map f mid) ++ f a :: rev (map f pre).
Proof.
  rewrite map_app, rev_app_distr. cbn [map rev]. rewrite map_app, rev_app_distr. cbn [map rev].
  repeat (rewrite <- app_assoc; cbn [app]). reflexivity.
Qed.
Theorem inner_layer_first S (o : owner S) pre a mid b post :
  filter (layer_nonempty S) (o_stack S o) = pre ++ a :: mid ++ b :: post ->
  exists u v w, rev (scopes_for_owner_set S o) = u ++ layer_scope S b :: v ++ layer_scope S a :: w.
Proof.
  intros H. rewrite search_order, H, rev_map_split.
  exists ((if o_recursive S o then [o_self S o] else []) ++ rev (map (layer_scope S) post)), (rev (map (layer_scope S) mid)),
         (rev (map (layer_scope S) pre) ++ rev (opt_one S (o_scope S o)) ++ rev (opt_list S (o_inherited S o))).
  repeat (rewrite <- app_assoc; cbn [app]). reflexivity.
Qed.

(* ---- the traversal model's chain construction is the regenerated one ---- *)
Definition mk_layer (sid : nat) (s : setinfo) (k : nat) : layer sref :=
  {| layer_scope := SLayer sid k; layer_nonempty := negb (isnil (nth k (s_layers s) [])) |}.
Definition mk_owner (r : registry) (sid : nat) (s : setinfo) : owner sref :=
  {| o_inherited := rget r sid;
     o_scope := match s_layers s with [] => None | l0 :: _ => if negb (isnil l0) then Some (SLayer sid 0) else None end;
     o_stack := map (mk_layer sid s) (seq 1 (List.length (s_layers s) - 1));
     o_recursive := s_rec s; o_self := SVals sid |}.

Lemma filter_map {A B} (p : B -> bool) (g : A -> B) l : filter p (map g l) = map g (filter (fun x => p (g x)) l).
Proof. induction l as [|x r IH]; cbn [map filter]; [reflexivity|]. destruct (p (g x)); cbn [map]; rewrite IH; reflexivity. Qed.

Theorem model_chain_is_generated t r sid s :
  tget t sid = Some s ->
  snd (scopes_for_owner t r sid) = scopes_for_owner_set sref (mk_owner r sid s).
Proof.
  intros H. unfold scopes_for_owner. rewrite H. rewrite chain_order. unfold mk_owner. cbn [o_inherited o_scope o_stack o_recursive o_self].
  assert (Hown : own_layers sid s =
                 opt_one sref (match s_layers s with [] => None | l0 :: _ => if negb (isnil l0) then Some (SLayer sid 0) else None end)
                 ++ map (layer_scope sref) (filter (layer_nonempty sref) (map (mk_layer sid s) (seq 1 (List.length (s_layers s) - 1))))).
  { unfold own_layers. rewrite filter_map, map_map. cbn [mk_layer layer_scope layer_nonempty].
    destruct (s_layers s) as [|l0 ls] eqn:E; [reflexivity|].
    cbn [List.length]. replace (S (List.length ls) - 1) with (List.length ls) by lia. cbn [seq filter nth].
    destruct (negb (isnil l0)); cbn [map opt_one app]; reflexivity. }
  unfold opt_list. destruct (s_rec s); cbn [snd]; rewrite Hown, <- ?app_assoc, ?app_nil_r; destruct (rget r sid); reflexivity.
Qed.
Print Assumptions model_chain_is_generated.

"""Slot matrix (deterministic enumeration; labelled test, never a proof): every construct x every gap between two
adjacent tokens of that construct x every trivia kind x three nesting contexts.  Each cell is parsed and rebuilt by the
implementation and judged by the oracle of the requested property, stated over the tree-sitter token stream:
  C01  output parses (modulo the trailing formals comma) and has the same code tokens (integers modulo leading zeros)
  C03  same comments, same order, same side of every non-delimiter token, same wording modulo padding/indentation
  C06  (cells whose comment sits alone on a line / at the end of a line, and pure whitespace cells) output is a fixed point
  C18  spacing normal form of the output
usage: slot_matrix.py PROP  -> one JSON line {cells, failing: [[construct, slot, kind, context, detail]], ...}"""
import json, re, sys
from nixread import ts
from nix_manipulator import parse
prop = sys.argv[1]
from render_oracles import *
from matrix_cells import *
cells, failing, judged = 0, [], 0
for site, p, lp in iter_cells():
    cells += 1; cname, slotname, kname, ctx = site
    try: r = parse(p).rebuild()
    except Exception as e:
        if prop == 'C01': judged += 1; failing.append(site + ['parse/rebuild raises %s on valid input' % type(e).__name__, p, ''])
        continue
    if prop == 'C03' and (kname in WS_KINDS or cname in ('nest', 'atom')): continue
    if prop == 'C06' and not (kname in WS_KINDS or kname in LINE_LEVEL or cname in ('nest', 'atom')): continue
    judged += 1
    v = judge(prop, p, r, lambda t: parse(t).rebuild())
    if v: failing.append(site + [v, p, r])
print(json.dumps({'cells': cells, 'judged': judged, 'failing': failing}))

(* Closing the gap left in EditProofs.v: every parsed document satisfies heap_ok, so C08_model applies to every
   state reachable from any parsed document by any script of edits. *)
From Coq Require Import List Ascii String Bool Arith Lia.
Import ListNotations.
From E Require Import EditModel EditProofs.

Lemma heap_ok_alloc_chain : forall pre s cur, heap_ok s -> heap_ok (fst (alloc_chain s pre cur)).
Proof.
  induction pre as [|seg t IH]; intros s cur H; [exact H|]. cbn [alloc_chain].
  set (b := {| bname := seg; bval := VSet [cur] [] true; bnested := true |}).
  change (alloc s b) with (fst (alloc s b), snd (alloc s b)). cbv beta iota. apply IH, heap_ok_alloc, H.
Qed.

Lemma heap_ok_merge_sets : forall fuel s target incoming s', heap_ok s ->
  merge_sets fuel s target incoming = Ok s' -> heap_ok s'.
Proof.
  induction fuel as [|f IH]; intros s target incoming s' H E; [discriminate|].
  cbn [merge_sets] in E. destruct incoming as [|iid rest]; [inversion E; subst; exact H|].
  destruct (val_of s target) as [t|tv tord tm]; [discriminate|].
  destruct (find_by_name s tv (name_of s iid)) as [ex|].
  - destruct (nested_of s ex || nested_of s iid).
    + destruct (nested_of s ex && nested_of s iid).
      * destruct (is_vset (val_of s ex) && is_vset (val_of s iid)); [|discriminate].
        destruct (merge_sets f s ex _) as [s1|e] eqn:E1; [|discriminate].
        eapply IH; [eapply IH; [exact H|exact E1]|exact E].
      * destruct (is_vset (val_of s ex) && is_vset (val_of s iid)); [|discriminate].
        eapply IH; [apply heap_ok_set_val, H|exact E].
    + destruct (is_vset (val_of s ex) && is_vset (val_of s iid)); [|discriminate].
      destruct (merge_sets f s ex _) as [s1|e] eqn:E1; [|discriminate].
      eapply IH; [eapply IH; [exact H|exact E1]|exact E].
  - eapply IH; [apply heap_ok_set_val, H|exact E].
Qed.

Lemma heap_ok_merge_bindings : forall fuel s raw merged firsts s' out, heap_ok s ->
  merge_bindings fuel s raw merged firsts = Ok (s', out) -> heap_ok s'.
Proof.
  induction fuel as [|f IH]; intros s raw merged firsts s' out H E; [discriminate|].
  cbn [merge_bindings] in E. destruct raw as [|rid rest]; [inversion E; subst; exact H|].
  destruct (find_by_name s firsts (name_of s rid)) as [ex|]; [|eapply IH; [exact H|exact E]].
  destruct (nested_of s ex || nested_of s rid); [|eapply IH; [exact H|exact E]].
  destruct (nested_of s ex && nested_of s rid).
  - destruct (is_vset (val_of s ex) && is_vset (val_of s rid)); [|discriminate].
    destruct (merge_sets (S f) s ex _) as [s1|e] eqn:E1; [|discriminate].
    eapply IH; [eapply heap_ok_merge_sets; [exact H|exact E1]|exact E].
  - destruct (is_vset (val_of s ex) && is_vset (val_of s rid)); [|discriminate].
    eapply IH; [exact H|exact E].
Qed.

Lemma heap_ok_parse_value : forall fuel s d s' v, heap_ok s -> parse_value fuel s d = Ok (s', v) -> heap_ok s'.
Proof.
  induction fuel as [|f IH]; intros s d s' v H E; [discriminate|].
  cbn [parse_value] in E. destruct d as [t|ml items]; [inversion E; subst; exact H|].
  match type of E with context [?F s items []] =>
    assert (Hstep : forall its s0 raw s1 raw1, heap_ok s0 -> F s0 its raw = Ok (s1, raw1) -> heap_ok s1) end.
  { induction its as [|[segs dv] rest IHs]; intros s0 raw s1 raw1 H0 E0; [inversion E0; subst; exact H0|].
    destruct (parse_value f s0 dv) as [[s2 pv]|e] eqn:Ev; [|discriminate].
    pose proof (IH _ _ _ _ H0 Ev) as H2.
    set (b := {| bname := last segs []; bval := pv; bnested := false |}) in E0.
    change (alloc s2 b) with (fst (alloc s2 b), snd (alloc s2 b)) in E0. cbv beta iota in E0.
    pose proof (heap_ok_alloc_chain (rev (removelast segs)) (fst (alloc s2 b)) (snd (alloc s2 b)) (heap_ok_alloc s2 b H2)) as H3.
    destruct (alloc_chain (fst (alloc s2 b)) (rev (removelast segs)) (snd (alloc s2 b))) as [s3 root]. cbn [fst] in H3.
    eapply IHs; [exact H3|exact E0]. }
  match type of E with context [?F s items []] => destruct (F s items []) as [[s1 raw]|e] eqn:Es; [|discriminate] end.
  pose proof (Hstep _ _ _ _ _ H Es) as H1.
  destruct (merge_bindings (S (List.length raw)) s1 raw [] []) as [[s2 values]|e] eqn:Em; [|discriminate].
  inversion E; subst. eapply heap_ok_merge_bindings; [exact H1|exact Em].
Qed.

Theorem heap_ok_parse_doc d s : parse_doc d = Ok s -> heap_ok s.
Proof.
  unfold parse_doc. destruct (parse_value 1000 _ d) as [[s1 v]|e] eqn:E; [|discriminate].
  assert (H0 : heap_ok {| hp := []; nxt := 0; rvals := []; rorder := []; rml := true |}) by (intros k b []).
  pose proof (heap_ok_parse_value _ _ _ _ _ H0 E) as H1.
  destruct v as [t|vals ord m]; [discriminate|]. intros Hs. inversion Hs; subst. exact H1.
Qed.

(* C08 on the model, end to end: parse any document, run any script, a refused edit changes nothing *)
Theorem C08_parsed d s0 ops o : parse_doc d = Ok s0 ->
  failed (snd (estep (erun s0 ops) o)) -> fst (estep (erun s0 ops) o) = erun s0 ops.
Proof. intros Hp. apply C08_model. eapply heap_ok_parse_doc; exact Hp. Qed.
Print Assumptions C08_parsed.

(* Proof spike, part 12: canonical layout is a fixed point of the specification; C02 on F0. *)
From Coq Require Import List Ascii String Bool Arith Lia.
Import ListNotations.
From F0 Require Import F0s Specs P1 P2 P3g P5 P6 P7 P8 P9 P10 P11 Canon.
Open Scope char_scope.

Lemma cinline_from_cst raw : cinline (comment_from_cst raw) = false.
Proof.
  unfold comment_from_cst. destruct (starts (s "/*") raw); [reflexivity|].
  destruct (starts (s "#!") raw); [reflexivity|]. destruct (skipn 1 raw) as [|c0 t]; [reflexivity|].
  destruct c0 as [[] [] [] [] [] [] [] []]; reflexivity.
Qed.
Lemma spec_comment_shape raw i :
  spec_comment raw i = sp i ++ spec_comment_inline raw.
Proof.
  unfold spec_comment, spec_comment_inline, comment_rebuild, mk_inline. cbn [ck ctxt cinline].
  rewrite cinline_from_cst. destruct (ck (comment_from_cst raw)); reflexivity.
Qed.
Lemma own_line_eq g k : own_line g k = true -> g = LF :: blank g ++ sp k.
Proof. apply streq_eq. Qed.
Lemma cmt_canon_eq raw : cmt_canon raw = true -> spec_comment_inline raw = raw.
Proof. apply streq_eq. Qed.

Fixpoint flat (l : list (str * cnode)) : str :=
  match l with [] => [] | (g, n) :: t => g ++ ctext n ++ flat t end.
Lemma ctext_set r gr body cg : ctext (CSet r gr body cg) = (if r then s "rec" ++ gr else []) ++ "{" :: flat body ++ cg ++ ["}"].
Proof.
  cbn [ctext].
  match goal with |- context [?F body ++ cg ++ _] => assert (HF : forall l, F l = flat l) end.
  { induction l as [|[g n] t IH]; [reflexivity|]. cbn [flat]. now rewrite IH. }
  rewrite HF. reflexivity.
Qed.
Lemma ctext_list body cg : ctext (CList body cg) = "[" :: flat body ++ cg ++ ["]"].
Proof.
  cbn [ctext].
  match goal with |- context [?F body ++ cg ++ _] => assert (HF : forall l, F l = flat l) end.
  { induction l as [|[g n] t IH]; [reflexivity|]. cbn [flat]. now rewrite IH. }
  rewrite HF. reflexivity.
Qed.

(* lines of a canonical multi-line body are reproduced *)
Lemma lines_canon (cc : cnode -> bool) core nb ind : forall l prev seen,
  Forall (fun gn => is_cmt (snd gn) = false -> cc (snd gn) = true -> core (snd gn) = ctext (snd gn)) l ->
  lines_ok cc nb ind l prev seen = true ->
  seq_lines core nb ind l prev seen = flat l.
Proof.
  induction l as [|[g n] t IH]; intros prev seen HF H; [reflexivity|].
  inversion HF as [|? ? Hn Ht]; subst. cbn [snd] in Hn.
  cbn [lines_ok] in H. apply andb_prop in H. destruct H as [H1 H2].
  cbn [seq_lines flat].
  destruct (is_cmt n) eqn:En.
  - destruct n; try discriminate. cbn [craw ctext] in *.
    apply andb_prop in H1. destruct H1 as [Hc Hg]. apply cmt_canon_eq in Hc.
    rewrite (IH _ _ Ht H2).
    match goal with |- context [if ?b then _ else _] => destruct b end.
    + apply streq_eq in Hg. subst g. rewrite Hc. reflexivity.
    + apply own_line_eq in Hg. rewrite spec_comment_shape, Hc. rewrite Hg at 2.
      cbn [app]. repeat rewrite <- app_assoc. reflexivity.
  - apply andb_prop in H1. destruct H1 as [Hg Hcn]. apply own_line_eq in Hg.
    rewrite (Hn eq_refl Hcn), (IH _ _ Ht H2). rewrite Hg at 2. cbn [app]. repeat rewrite <- app_assoc. reflexivity.
Qed.
Lemma join_sp (xs : list str) : xs <> [] -> " " :: join [" "] xs = List.concat (map (cons " ") xs).
Proof.
  induction xs as [|x t IH]; [congruence|]. intros _. destruct t as [|y t'].
  - cbn. now rewrite app_nil_r.
  - change (join [" "] (x :: y :: t')) with (x ++ [" "] ++ join [" "] (y :: t')).
    change (List.concat (map (cons " ") (x :: y :: t'))) with ((" " :: x) ++ List.concat (map (cons " ") (y :: t'))).
    rewrite <- IH by discriminate. cbn [app]. reflexivity.
Qed.
Lemma inline_flat (cc : cnode -> bool) (core : cnode -> str) : forall l,
  Forall (fun gn => is_cmt (snd gn) = false -> cc (snd gn) = true -> core (snd gn) = ctext (snd gn)) l ->
  inline_ok_all cc l = true ->
  List.concat (map (cons " ") (map (fun gn => core (snd gn)) l)) = flat l.
Proof.
  induction l as [|[g n] t IH]; intros HF H; [reflexivity|].
  inversion HF as [|? ? Hn Ht]; subst. cbn [snd] in Hn.
  cbn [inline_ok_all] in H. apply andb_prop in H. destruct H as [H H4].
  apply andb_prop in H. destruct H as [H H3]. apply andb_prop in H. destruct H as [H1 H2].
  apply streq_eq in H2. subst g.
  cbn [map List.concat flat snd]. rewrite (IH Ht H4), (Hn (proj1 (negb_true_iff _) H1) H3). cbn [app]. reflexivity.
Qed.

(* unfolding equations of [canonical] *)
Lemma canonical_set_ml r gr body cg ind : body <> [] -> has_nl (ctext (CSet r gr body cg)) = true ->
  canonical (CSet r gr body cg) ind =
  (if r then streq gr [" "] else isnil_b gr) &&
  (lines_ok (fun n => canonical n (ind + 2)) true (ind + 2) body None false
   && streq cg (LF :: (if spec_q1 body then [] else blank cg) ++ sp ind)).
Proof.
  intros Hb Hnl. cbn [canonical]. rewrite Hnl. cbn [negb].
  match goal with |- context [?F body None false && streq cg _] =>
    assert (HF : forall l p sn, F l p sn = lines_ok (fun n => canonical n (ind + 2)) true (ind + 2) l p sn) end.
  { induction l as [|[g n] t IH]; intros p sn; [reflexivity|]. cbn [lines_ok]. rewrite IH. reflexivity. }
  rewrite HF. destruct body; [congruence|reflexivity].
Qed.
Lemma canonical_list_ml body cg ind : body <> [] -> has_nl (ctext (CList body cg)) = true ->
  canonical (CList body cg) ind =
  (lines_ok (fun n => canonical n (ind + 2)) false (ind + 2) body None false
   && streq cg (LF :: blank cg ++ sp ind)).
Proof.
  intros Hb Hnl. cbn [canonical]. rewrite Hnl. cbn [negb].
  match goal with |- context [?F body None false && streq cg _] =>
    assert (HF : forall l p sn, F l p sn = lines_ok (fun n => canonical n (ind + 2)) false (ind + 2) l p sn) end.
  { induction l as [|[g n] t IH]; intros p sn; [reflexivity|]. cbn [lines_ok]. rewrite IH.
    destruct (is_cmt n); [|reflexivity]. destruct p; reflexivity. }
  rewrite HF. destruct body; [congruence|reflexivity].
Qed.
Lemma canonical_set_inl r gr body cg ind : body <> [] -> has_nl (ctext (CSet r gr body cg)) = false ->
  canonical (CSet r gr body cg) ind =
  (if r then streq gr [" "] else isnil_b gr) && (inline_ok_all (fun n => canonical n (ind + 2)) body && streq cg [" "]).
Proof.
  intros Hb Hnl. cbn [canonical]. rewrite Hnl. cbn [negb].
  match goal with |- context [?F body && streq cg _] =>
    assert (HF : forall l, F l = inline_ok_all (fun n => canonical n (ind + 2)) l) end.
  { induction l as [|[g n] t IH]; [reflexivity|]. cbn [inline_ok_all]. rewrite IH. reflexivity. }
  rewrite HF. destruct body; [congruence|reflexivity].
Qed.
Lemma canonical_list_inl body cg ind : body <> [] -> has_nl (ctext (CList body cg)) = false ->
  canonical (CList body cg) ind = (inline_ok_all (fun n => canonical n ind) body && streq cg [" "]).
Proof.
  intros Hb Hnl. cbn [canonical]. rewrite Hnl. cbn [negb].
  match goal with |- context [?F body && streq cg _] =>
    assert (HF : forall l, F l = inline_ok_all (fun n => canonical n ind) l) end.
  { induction l as [|[g n] t IH]; [reflexivity|]. cbn [inline_ok_all]. rewrite IH. reflexivity. }
  rewrite HF. destruct body; [congruence|reflexivity].
Qed.

Lemma streq_nil g : streq g [] = true -> g = [].
Proof. apply streq_eq. Qed.

Lemma wfF_children_set body :
  (fix all (l : list (str * cnode)) : Prop :=
     match l with [] => True | (_, n) :: t => (wfF n /\ (is_bind n = true \/ is_cmt n = true)) /\ all t end) body ->
  Forall (fun gn => wfF (snd gn)) body.
Proof. induction body as [|[g n] t IH]; intros H; constructor; [apply H|apply IH, H]. Qed.
Lemma wfF_children_list body :
  (fix all (l : list (str * cnode)) : Prop :=
     match l with [] => True | (_, n) :: t => (wfF n /\ is_bind n = false) /\ all t end) body ->
  Forall (fun gn => wfF (snd gn)) body.
Proof. induction body as [|[g n] t IH]; intros H; constructor; [apply H|apply IH, H]. Qed.

Theorem canon_spec : forall c, wfF c -> is_cmt c = false -> forall ind, canonical c ind = true -> spec c ind = ctext c.
Proof.
  induction c as [isint t|raw|n g1 g2 v g3 IHv|r gr body cg IHb|body cg IHb] using cnode_ind'; intros Hwf Hnc ind H.
  - cbn [canonical spec ctext] in *. destruct isint; [now apply streq_eq|reflexivity].
  - discriminate.
  - cbn [wfF] in Hwf. destruct Hwf as (Hwv & _ & Hvc).
    cbn [canonical] in H. apply andb_prop in H. destruct H as [H H3]. apply andb_prop in H. destruct H as [H1 H2].
    apply streq_eq in H1. subst g1. destruct g3; [|discriminate].
    cbn [spec ctext]. destruct (has_nl g2) eqn:Eg.
    + apply andb_prop in H3. destruct H3 as [Hg Hv]. apply own_line_eq in Hg.
      rewrite (IHv Hwv Hvc _ Hv).
      remember (blank g2) as bl. remember (indent_from_gap g2) as vi. rewrite Hg.
      cbn [app]. repeat rewrite <- app_assoc. reflexivity.
    + apply andb_prop in H3. destruct H3 as [Hg Hv]. apply streq_eq in Hg. subst g2.
      rewrite (IHv Hwv Hvc _ Hv). cbn [app]. repeat rewrite <- app_assoc. reflexivity.
  - (* set *)
    cbn [wfF] in Hwf. destruct Hwf as (Hall & _ & _). apply wfF_children_set in Hall.
    assert (HF : forall k, Forall (fun gn => is_cmt (snd gn) = false -> canonical (snd gn) k = true ->
                                              spec (snd gn) k = ctext (snd gn)) body).
    { intros k. clear -IHb Hall. induction body as [|[g n] t IH]; [constructor|].
      inversion IHb; subst. inversion Hall; subst. constructor; [|apply IH; assumption].
      cbn [snd] in *. intros Hc Hk. auto. }
    rewrite ctext_set.
    destruct body as [|b0 body'].
    { cbn [canonical spec flat] in *. apply andb_prop in H. destruct H as [Hr Hcg].
      destruct (has_empty_line cg); apply streq_eq in Hcg; subst cg;
        destruct r; try (apply streq_eq in Hr; subst gr); reflexivity. }
    set (body := b0 :: body') in *. assert (Hb : body <> []) by discriminate. clearbody body.
    destruct (has_nl (ctext (CSet r gr body cg))) eqn:Hnl.
    + rewrite (canonical_set_ml r gr body cg ind Hb Hnl) in H.
      apply andb_prop in H. destruct H as [Hr H]. apply andb_prop in H. destruct H as [Hl Hcg].
      rewrite (spec_set_multiline r gr body cg ind Hb Hnl).
      rewrite (lines_canon _ _ true (ind + 2) body None false (HF (ind + 2)) Hl).
      apply streq_eq in Hcg. remember (blank cg) as bl. remember (spec_q1 body) as q1. rewrite Hcg.
      destruct r; [apply streq_eq in Hr; subst gr|]; cbn [app]; repeat rewrite <- app_assoc; reflexivity.
    + rewrite (canonical_set_inl r gr body cg ind Hb Hnl) in H.
      apply andb_prop in H. destruct H as [Hr H]. apply andb_prop in H. destruct H as [Hl Hcg].
      assert (Hin : inl_ok body).
      { clear -Hl. induction body as [|[g n] t IH]; [exact I|]. cbn [inline_ok_all] in Hl.
        apply andb_prop in Hl. destruct Hl as [Hl H4]. apply andb_prop in Hl. destruct Hl as [Hl H3].
        apply andb_prop in Hl. destruct Hl as [H1 H2]. apply streq_eq in H2. subst g.
        split; [now apply negb_true_iff|]. split; [reflexivity|]. apply IH, H4. }
      rewrite (spec_set_inline r gr body cg ind Hb Hnl Hin).
      apply streq_eq in Hcg. subst cg.
      rewrite <- (inline_flat _ (fun n => spec n (ind + 2)) body (HF (ind + 2)) Hl).
      rewrite <- join_sp by (destruct body; [congruence|discriminate]).
      destruct r; [apply streq_eq in Hr; subst gr|]; cbn [app]; repeat rewrite <- app_assoc; reflexivity.
  - (* list *)
    cbn [wfF] in Hwf. destruct Hwf as (Hall & _ & _). apply wfF_children_list in Hall.
    assert (HF : forall k, Forall (fun gn => is_cmt (snd gn) = false -> canonical (snd gn) k = true ->
                                              spec (snd gn) k = ctext (snd gn)) body).
    { intros k. clear -IHb Hall. induction body as [|[g n] t IH]; [constructor|].
      inversion IHb; subst. inversion Hall; subst. constructor; [|apply IH; assumption].
      cbn [snd] in *. intros Hc Hk. auto. }
    rewrite ctext_list.
    destruct body as [|b0 body'].
    { cbn [canonical spec flat] in *.
      destruct (has_empty_line cg); apply streq_eq in H; subst cg; reflexivity. }
    set (body := b0 :: body') in *. assert (Hb : body <> []) by discriminate. clearbody body.
    destruct (has_nl (ctext (CList body cg))) eqn:Hnl.
    + rewrite (canonical_list_ml body cg ind Hb Hnl) in H.
      apply andb_prop in H. destruct H as [Hl Hcg].
      rewrite (spec_list_multiline body cg ind Hb Hnl).
      rewrite (lines_canon _ _ false (ind + 2) body None false (HF (ind + 2)) Hl).
      apply streq_eq in Hcg. remember (blank cg) as bl. rewrite Hcg.
      cbn [app]. repeat rewrite <- app_assoc. reflexivity.
    + rewrite (canonical_list_inl body cg ind Hb Hnl) in H.
      apply andb_prop in H. destruct H as [Hl Hcg].
      assert (Hin : inl_ok body).
      { clear -Hl. induction body as [|[g n] t IH]; [exact I|]. cbn [inline_ok_all] in Hl.
        apply andb_prop in Hl. destruct Hl as [Hl H4]. apply andb_prop in Hl. destruct Hl as [Hl H3].
        apply andb_prop in Hl. destruct Hl as [H1 H2]. apply streq_eq in H2. subst g.
        split; [now apply negb_true_iff|]. split; [reflexivity|]. apply IH, H4. }
      rewrite (spec_list_inline body cg ind Hb Hnl Hin).
      apply streq_eq in Hcg. subst cg.
      rewrite <- (inline_flat _ (fun n => spec n ind) body (HF ind) Hl).
      rewrite <- join_sp by (destruct body; [congruence|discriminate]).
      cbn [app]. repeat rewrite <- app_assoc. reflexivity.
Qed.
Print Assumptions canon_spec.

(* Proof spike for C14 (dictionary laws of the mapping API on the top-level set): what was stored is what is
   read back, and storing under one key leaves every other key's value alone. *)
From Coq Require Import List Ascii String Bool Arith Lia.
Import ListNotations.
From E Require Import EditModel EditProofs.

Definition getitem (s : st) (r : sref) (key : str) : option value :=
  match find_by_name s (vals_of s r) key with Some i => Some (val_of s i) | None => None end.
Definition vals_ok (s : st) : Prop := forall i, In i (rvals s) -> hget (hp s) i <> None.

Lemma streq_refl a : streq a a = true.
Proof. induction a as [|x a IH]; [reflexivity|]. cbn [streq]. now rewrite Ascii.eqb_refl, IH. Qed.
Lemma streq_eq : forall a b, streq a b = true -> a = b.
Proof.
  induction a as [|x a IH]; destruct b as [|y b]; cbn [streq]; try discriminate; [reflexivity|].
  intros H. apply andb_prop in H. destruct H as [H1 H2]. apply Ascii.eqb_eq in H1. subst. f_equal. now apply IH.
Qed.

Lemma name_of_set_val s i v j : name_of (set_val s i v) j = name_of s j.
Proof.
  unfold name_of, set_val. destruct (hget (hp s) i) as [b|] eqn:E; [|reflexivity]. cbn [hp with_hp].
  destruct (Nat.eq_dec i j) as [->|Hn]; [rewrite (hget_hset_same _ _ _ _ E), E; reflexivity|now rewrite hget_hset_other].
Qed.
Lemma find_by_name_names s s' ids key : (forall i, In i ids -> name_of s' i = name_of s i) ->
  find_by_name s' ids key = find_by_name s ids key.
Proof.
  induction ids as [|i ids IH]; intros H; [reflexivity|]. cbn [find_by_name]. rewrite (H i (or_introl eq_refl)).
  rewrite IH; [reflexivity|]. intros j Hj. apply H. now right.
Qed.
Lemma find_by_name_in s ids key i : find_by_name s ids key = Some i -> In i ids /\ streq (name_of s i) key = true.
Proof.
  induction ids as [|j ids IH]; [discriminate|]. cbn [find_by_name]. destruct (streq (name_of s j) key) eqn:E.
  - intros H. inversion H; subst. split; [now left|exact E].
  - intros H. destruct (IH H) as [H1 H2]. split; [now right|exact H2].
Qed.
Lemma find_by_name_app s ids x key :
  find_by_name s (ids ++ [x]) key =
  match find_by_name s ids key with Some i => Some i | None => if streq (name_of s x) key then Some x else None end.
Proof.
  induction ids as [|j ids IH]; [cbn; destruct (streq (name_of s x) key); reflexivity|].
  cbn [app find_by_name]. destruct (streq (name_of s j) key); [reflexivity|exact IH].
Qed.
Lemma name_of_alloc_other s b i : i <> nxt s -> name_of (fst (alloc s b)) i = name_of s i.
Proof. intros Hn. unfold alloc, name_of. cbn [fst hp hget]. destruct (nxt s =? i) eqn:E; [apply Nat.eqb_eq in E; congruence|reflexivity]. Qed.
Lemma name_of_alloc_new s b : name_of (fst (alloc s b)) (nxt s) = bname b.
Proof. unfold alloc, name_of. cbn [fst hp hget]. now rewrite Nat.eqb_refl. Qed.

(* the state after storing a fresh key at the root *)
Lemma append_root s k v :
  let s' := fst (append_new s SRoot k v) in
  rvals s' = rvals s ++ [nxt s] /\ hp s' = (nxt s, {| bname := k; bval := v; bnested := false |}) :: hp s.
Proof. unfold append_new. cbn. split; reflexivity. Qed.

Lemma vals_root s : vals_of s SRoot = rvals s.
Proof. reflexivity. Qed.
Lemma setitem_root_found s k v i : find_by_name s (rvals s) k = Some i -> set_setitem s SRoot k v = set_val s i v.
Proof. intros H. unfold set_setitem. rewrite vals_root, H. reflexivity. Qed.
Lemma setitem_root_fresh s k v : find_by_name s (rvals s) k = None -> set_setitem s SRoot k v = fst (append_new s SRoot k v).
Proof. intros H. unfold set_setitem. rewrite vals_root, H. reflexivity. Qed.
Lemma rvals_set_val s i v : rvals (set_val s i v) = rvals s.
Proof. unfold set_val. destruct (hget (hp s) i); reflexivity. Qed.

Section Laws.
  Variables (s : st) (k : str) (v : value).
  Hypothesis Hok : heap_ok s.
  Hypothesis Hvals : vals_ok s.
  Let s' := set_setitem s SRoot k v.

  Lemma old_lt i : In i (rvals s) -> i <> nxt s.
  Proof.
    intros Hin Heq. specialize (Hvals i Hin). destruct (hget (hp s) i) as [b|] eqn:E; [|congruence].
    pose proof (hget_lt s i b Hok E). lia.
  Qed.

  Theorem get_after_set : getitem s' SRoot k = Some v.
  Proof.
    unfold getitem, s'. rewrite vals_root.
    destruct (find_by_name s (rvals s) k) as [i|] eqn:Ef.
    - destruct (find_by_name_in _ _ _ _ Ef) as [Hin Hn]. rewrite (setitem_root_found s k v i Ef), rvals_set_val.
      rewrite (find_by_name_names s (set_val s i v)) by (intros j _; apply name_of_set_val). rewrite Ef.
      f_equal. apply val_of_set_val_same, Hvals, Hin.
    - rewrite (setitem_root_fresh s k v Ef). destruct (append_root s k v) as [Hr Hh].
      set (s1 := fst (append_new s SRoot k v)) in *. rewrite Hr, find_by_name_app.
      assert (Hnames : forall j, In j (rvals s) -> name_of s1 j = name_of s j).
      { intros j Hj. unfold name_of. rewrite Hh. cbn [hget]. destruct (nxt s =? j) eqn:E; [apply Nat.eqb_eq in E; pose proof (old_lt j Hj); congruence|reflexivity]. }
      rewrite (find_by_name_names s s1 _ _ Hnames), Ef.
      assert (Hnew : name_of s1 (nxt s) = k) by (unfold name_of; rewrite Hh; cbn [hget]; now rewrite Nat.eqb_refl).
      rewrite Hnew, streq_refl. f_equal. unfold val_of. rewrite Hh. cbn [hget]. now rewrite Nat.eqb_refl.
  Qed.

  Theorem get_other_after_set k' : streq k' k = false -> getitem s' SRoot k' = getitem s SRoot k'.
  Proof.
    intros Hne. unfold getitem, s'. rewrite !vals_root.
    destruct (find_by_name s (rvals s) k) as [i|] eqn:Ef.
    - destruct (find_by_name_in _ _ _ _ Ef) as [Hin Hn]. rewrite (setitem_root_found s k v i Ef), rvals_set_val.
      rewrite (find_by_name_names s (set_val s i v)) by (intros j _; apply name_of_set_val).
      destruct (find_by_name s (rvals s) k') as [j|] eqn:Ej; [|reflexivity].
      destruct (find_by_name_in _ _ _ _ Ej) as [_ Hnj]. f_equal. apply val_of_set_val_other.
      intros ->. apply streq_eq in Hn, Hnj. rewrite Hn in Hnj. subst k'. rewrite streq_refl in Hne. discriminate.
    - rewrite (setitem_root_fresh s k v Ef). destruct (append_root s k v) as [Hr Hh].
      set (s1 := fst (append_new s SRoot k v)) in *. rewrite Hr, find_by_name_app.
      assert (Hnames : forall j, In j (rvals s) -> name_of s1 j = name_of s j).
      { intros j Hj. unfold name_of. rewrite Hh. cbn [hget]. destruct (nxt s =? j) eqn:E; [apply Nat.eqb_eq in E; pose proof (old_lt j Hj); congruence|reflexivity]. }
      rewrite (find_by_name_names s s1 _ _ Hnames).
      destruct (find_by_name s (rvals s) k') as [j|] eqn:Ej.
      + destruct (find_by_name_in _ _ _ _ Ej) as [Hj _]. f_equal. unfold val_of. rewrite Hh. cbn [hget].
        destruct (nxt s =? j) eqn:E; [apply Nat.eqb_eq in E; pose proof (old_lt j Hj); congruence|reflexivity].
      + assert (Hnew : name_of s1 (nxt s) = k) by (unfold name_of; rewrite Hh; cbn [hget]; now rewrite Nat.eqb_refl).
        rewrite Hnew. destruct (streq k k') eqn:E; [|reflexivity]. apply streq_eq in E. subst k'. rewrite streq_refl in Hne. discriminate.
  Qed.
End Laws.
Print Assumptions get_after_set.
Print Assumptions get_other_after_set.

(* C08, history form: running any script equals running only its successful operations *)
From Coq Require Import List Ascii String Bool Arith Lia.
Import ListNotations.
From E Require Import EditModel EditProofs EditParse.

Fixpoint erun_skip (s : st) (ops : list eop) : st :=
  match ops with
  | [] => s
  | o :: r => match snd (estep s o) with Ok _ => erun_skip (fst (estep s o)) r | Err _ => erun_skip s r end
  end.

Lemma estep_heap_ok s o : heap_ok s -> heap_ok (fst (estep s o)).
Proof. intros H. destruct o; [apply heap_ok_m_set, H|apply heap_ok_m_rm, H]. Qed.
Lemma estep_atomic s o : heap_ok s -> failed (snd (estep s o)) -> fst (estep s o) = s.
Proof. intros H Hf. destruct o; [apply set_atomic; assumption|apply rm_atomic; assumption]. Qed.

Theorem history_skip : forall ops s, heap_ok s -> erun s ops = erun_skip s ops.
Proof.
  induction ops as [|o ops IH]; intros s H; [reflexivity|].
  change (erun s (o :: ops)) with (erun (fst (estep s o)) ops). cbn [erun_skip].
  destruct (snd (estep s o)) as [u|e] eqn:E.
  - apply IH, estep_heap_ok, H.
  - rewrite (estep_atomic s o H) by (rewrite E; exact I). apply IH, H.
Qed.
Theorem history_skip_parsed d s0 ops : parse_doc d = Ok s0 -> erun s0 ops = erun_skip s0 ops.
Proof. intros Hp. apply history_skip. eapply heap_ok_parse_doc; exact Hp. Qed.
Print Assumptions history_skip_parsed.

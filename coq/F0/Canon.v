(* Design spike: a structural, evaluable predicate for canonical (RFC-0166 style) layout of
   fragment F0, and the lemma  canonical c ind = true -> spec c ind = ctext c. *)
From Coq Require Import List Ascii String Bool Arith Lia.
Import ListNotations.
From F0 Require Import F0s Specs P1 P2 P3g P5 P6 P7 P8 P9.
Open Scope char_scope.

Fixpoint streq (a b : str) : bool :=
  match a, b with [], [] => true | x :: a', y :: b' => (x =c y) && streq a' b' | _, _ => false end.
Lemma streq_eq a b : streq a b = true -> a = b.
Proof.
  revert b. induction a as [|x a IH]; destruct b as [|y b]; cbn; try discriminate; [reflexivity|].
  intros H. apply andb_prop in H. destruct H as [H1 H2]. apply Ascii.eqb_eq in H1. subst. f_equal. now apply IH.
Qed.

Definition cmt_canon (raw : str) : bool := streq (spec_comment_inline raw) raw.
Definition is_line_cmt (raw : str) : bool := match ck (comment_from_cst raw) with KLine => true | _ => false end.
(* a child on its own line at indentation [ind], with at most one blank line before it *)
Definition own_line (g : str) (ind : nat) : bool := streq g (LF :: blank g ++ sp ind).

Section Lines.
  Variable canon_child : cnode -> bool.         (* canonical at the item indent *)
  Variables (need_bind : bool) (ind : nat).
  Fixpoint lines_ok (l : list (str * cnode)) (prev : option cnode) (seen : bool) : bool :=
    match l with
    | [] => true
    | (g, n) :: rest =>
        (if is_cmt n then
           let inline_ok := match prev with
                            | Some p => (if need_bind then is_bind p else true) && negb (has_nl g) && seen
                            | None => false end in
           cmt_canon (craw n) &&
           (if inline_ok then streq g [" "]
            else own_line g (ind))
         else own_line g ind && canon_child n)
        && lines_ok rest (Some n) (if is_cmt n then seen else true)
    end.
  Fixpoint inline_ok_all (l : list (str * cnode)) : bool :=
    match l with [] => true | (g, n) :: rest => negb (is_cmt n) && streq g [" "] && canon_child n && inline_ok_all rest end.
End Lines.

Definition isnil_b (l : str) : bool := match l with [] => true | _ => false end.

Fixpoint canonical (c : cnode) (ind : nat) : bool :=
  match c with
  | CAtom isint t => if isint then streq (strip_zeros t) t else true
  | CCmt raw => cmt_canon raw
  | CBind name g1 g2 v g3 =>
      streq g1 [" "] && isnil_b g3 &&
      (if has_nl g2 then own_line g2 (indent_from_gap g2) && canonical v (indent_from_gap g2)
       else streq g2 [" "] && canonical v ind)
  | CSet r gr body cg =>
      (if r then streq gr [" "] else isnil_b gr) &&
      match body with
      | [] => if has_empty_line cg then streq cg (LF :: LF :: sp ind) else streq cg [" "]
      | _ =>
        if negb (has_nl (ctext c)) then
          (fix go (l : list (str * cnode)) : bool :=
             match l with [] => true
             | (g, n) :: t => negb (is_cmt n) && streq g [" "] && canonical n (ind + 2) && go t end) body
          && streq cg [" "]
        else
          (fix go (l : list (str * cnode)) (prev : option cnode) (seen : bool) : bool :=
             match l with
             | [] => true
             | (g, n) :: rest =>
                 (if is_cmt n then
                    let inline_ok := match prev with
                                     | Some p => is_bind p && negb (has_nl g) && seen
                                     | None => false end in
                    cmt_canon (craw n) &&
                    (if inline_ok then streq g [" "]
                     else own_line g (ind + 2))
                  else own_line g (ind + 2) && canonical n (ind + 2))
                 && go rest (Some n) (if is_cmt n then seen else true)
             end) body None false
          && streq cg (LF :: (if spec_q1 body then [] else blank cg) ++ sp ind)
      end
  | CList body cg =>
      match body with
      | [] => if has_empty_line cg then streq cg (LF :: LF :: sp ind) else streq cg [" "]
      | _ =>
        if negb (has_nl (ctext c)) then
          (fix go (l : list (str * cnode)) : bool :=
             match l with [] => true
             | (g, n) :: t => negb (is_cmt n) && streq g [" "] && canonical n ind && go t end) body
          && streq cg [" "]
        else
          (fix go (l : list (str * cnode)) (prev : option cnode) (seen : bool) : bool :=
             match l with
             | [] => true
             | (g, n) :: rest =>
                 (if is_cmt n then
                    let inline_ok := match prev with
                                     | Some p => negb (has_nl g) && seen
                                     | None => false end in
                    cmt_canon (craw n) &&
                    (if inline_ok then streq g [" "]
                     else own_line g (ind + 2))
                  else own_line g (ind + 2) && canonical n (ind + 2))
                 && go rest (Some n) (if is_cmt n then seen else true)
             end) body None false
          && streq cg (LF :: blank cg ++ sp ind)
      end
  end.

Definition canonical_file (f : cfile) : bool :=
  match f_children f with
  | [] => isnil_b (f_tail f)
  | (g0, c0) :: rest =>
      isnil_b g0 && (if is_cmt c0 then cmt_canon (craw c0) else canonical c0 0) &&
      (fix go (l : list (str * cnode)) (seen : bool) : bool :=
         match l with
         | [] => true
         | (g, n) :: t =>
             (if is_cmt n then cmt_canon (craw n) && (if negb (has_nl g) && seen then streq g [" "] else own_line g 0)
              else own_line g 0 && canonical n 0)
             && go t (seen || negb (is_cmt n))
         end) rest (negb (is_cmt c0))
      && streq (f_tail f) (if has_empty_line (f_tail f) then [LF; LF] else if has_nl (f_tail f) then [LF] else [])
  end.

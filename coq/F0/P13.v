(* Proof spike, part 13: C02 on fragment F0 —
   a well-formed file in canonical layout is reproduced byte for byte by parse-then-rebuild. *)
From Coq Require Import List Ascii String Bool Arith Lia.
Import ListNotations.
From F0 Require Import F0s Specs P1 P2 P3g P5 P6 P7 P8 P9 P10 P11 Canon P12.
Open Scope char_scope.

Lemma ftext_flat children tail : ftext {| f_children := children; f_tail := tail |} = flat children ++ tail.
Proof.
  unfold ftext. cbn [f_children f_tail]. f_equal.
  induction children as [|[g n] t IH]; [reflexivity|]. cbn [flat_map flat]. rewrite IH. now rewrite <- app_assoc.
Qed.

Theorem canon_file_spec : forall f, wf_file f -> canonical_file f = true -> spec_file f = ftext f.
Proof.
  intros [children tail] Hwf Hc. unfold wf_file in Hwf. cbn [f_children] in Hwf.
  destruct children as [|[g0 c0] rest]; [contradiction|].
  destruct Hwf as (-> & Hall & _ & _).
  unfold canonical_file in Hc. cbn [f_children f_tail isnil_b andb] in Hc.
  apply andb_prop in Hc. destruct Hc as [Hc Htail]. apply andb_prop in Hc. destruct Hc as [Hfirst Hrest].
  apply streq_eq in Htail.
  (* the rest of the children, as lines at indent 0 *)
  match type of Hrest with ?F rest ?sn0 = true =>
    assert (HF : forall l p sn, F l sn = lines_ok (fun n => canonical n 0) false 0 l (Some p) sn) end.
  { induction l as [|[g n] t IH]; intros p sn; [reflexivity|]. cbn [lines_ok]. rewrite (IH n).
    destruct (is_cmt n); cbn [negb orb andb].
    - rewrite orb_false_r. reflexivity.
    - rewrite orb_true_r. reflexivity. }
  rewrite (HF rest c0) in Hrest.
  inversion Hall as [|? ? [Hw0 Hb0] Hall']; subst.
  assert (Hkids : Forall (fun gn => is_cmt (snd gn) = false -> canonical (snd gn) 0 = true ->
                                     spec (snd gn) 0 = ctext (snd gn)) rest).
  { clear -Hall'. induction rest as [|[g n] t IH]; [constructor|]. inversion Hall' as [|? ? [Hw _] Ht]; subst.
    constructor; [|apply IH, Ht]. cbn [snd]. intros Hcm Hk. apply canon_spec; assumption. }
  pose proof (lines_canon (fun n => canonical n 0) (fun n => spec n 0) false 0 rest (Some c0) (negb (is_cmt c0)) Hkids Hrest) as Hl.
  pose proof (spec_file_lines c0 rest tail) as Hs.
  cbn [seq_lines] in Hs. rewrite ftext_flat. cbn [flat app].
  unfold tail_text in Hs. rewrite <- Htail in Hs.
  destruct (is_cmt c0) eqn:E0.
  - destruct c0; try discriminate. cbn [craw negb ctext] in *.
    apply cmt_canon_eq in Hfirst. rewrite Hl in Hs. rewrite spec_comment_shape, Hfirst in Hs.
    cbn [blank has_empty_line app] in Hs. assert (Hsp : sp 0 = []) by reflexivity.
    rewrite Hsp in Hs. cbn [app] in Hs. inversion Hs as [Hs']. rewrite Hs'. repeat rewrite <- app_assoc. reflexivity.
  - cbn [negb] in *. rewrite Hl in Hs. rewrite (canon_spec c0 Hw0 E0 0 Hfirst) in Hs.
    cbn [blank has_empty_line app sp repeat] in Hs. inversion Hs as [Hs']. rewrite Hs'. repeat rewrite <- app_assoc. reflexivity.
Qed.

(* C02 for fragment F0 (model level): canonical files are reproduced byte for byte *)
Theorem C02_F0 : forall f, wf_file f -> canonical_file f = true -> roundtrip f = ftext f.
Proof. intros f Hwf Hc. rewrite (roundtrip_spec f Hwf). apply canon_file_spec; assumption. Qed.
Print Assumptions C02_F0.

(* C01 — a parse/rebuild round trip preserves the code tokens (fragment F0, model level).
   The output is the text of canon_file f, a tree that differs from the input tree only in its gaps, comment spelling
   and integer spelling; its sequence of code tokens is the input's, integers modulo leading zeros. *)
From Coq Require Import List Ascii String Bool Arith.
Import ListNotations.
From F0 Require Import F0s Specs P1 P2 P3g P5 P6 P7 P8 P9 P10 P11 Canon P12 P13 Canonize P14 P15 P16a P16 P17 P18 P19 P20.

Theorem C01_output_is_canonical_tree : forall f, wf_file f -> roundtrip f = ftext (canon_file f).
Proof. exact output_text. Qed.
Print Assumptions C01_output_is_canonical_tree.

(* same code tokens, in the same order (nrm only drops leading zeros of integer literals) — for EVERY file of the syntax *)
Theorem C01_code_tokens : forall f, filter is_tok (flexseq (canon_file f)) = map nrm (filter is_tok (flexseq f)).
Proof. exact code_tokens_canon. Qed.
Print Assumptions C01_code_tokens.

Theorem C01_checked : forall f, wf_fileb f = true ->
  roundtrip f = ftext (canon_file f) /\ filter is_tok (flexseq (canon_file f)) = map nrm (filter is_tok (flexseq f)).
Proof. intros f H. split; [apply output_text, wf_fileb_sound, H|apply code_tokens_canon]. Qed.
Print Assumptions C01_checked.

Example C01_nonvacuous : wf_fileb demo = true.
Proof. vm_compute. reflexivity. Qed.
Print Assumptions C01_nonvacuous.

(* end to end over the external parser: the rebuilt text parses, and to a tree with the same code tokens *)
Theorem C01_source : forall ts_parse : str -> option cfile,
  (forall src f, ts_parse src = Some f -> ftext f = src) ->
  (forall src f, ts_parse src = Some f -> wf_file f -> ts_parse (ftext (canon_file f)) = Some (canon_file f)) ->
  forall src f, ts_parse src = Some f -> wf_file f ->
  exists f', ts_parse (roundtrip f) = Some f' /\ filter is_tok (flexseq f') = map nrm (filter is_tok (flexseq f)).
Proof. exact (fun ts _ Hstable => P20.C01_source ts Hstable). Qed.
Print Assumptions C01_source.

"""Design spike: reference resolver for Nix lexical scoping vs Identifier.value (C10)."""
import sys, random, collections
sys.path.insert(0,'/repo')
from nix_manipulator import parse
from nix_manipulator.expressions import Identifier
from nix_manipulator.exceptions import ResolutionError
R=random.Random(int(sys.argv[1])); N=int(sys.argv[2])
NAMES=['a','b','c','d']
# AST: ('int',n) ('ref',name) ('set',rec,[(k,expr)|('inherit',src|None,[names])]) ('let',[(k,expr)],body) ('with',env,body)
def gen_bindings(depth, allow_inh=True):
    n=R.randrange(1,4); out=[]; used=set()
    for _ in range(n):
        k=R.choice(NAMES)
        if k in used: continue
        used.add(k)
        if allow_inh and R.random()<0.12:
            out.append(('inherit', None, [k])); continue
        out.append((k, gen_val(depth)))
    return out
def gen_val(depth):
    r=R.random()
    if r<0.35: return ('int', R.randrange(100))
    if r<0.75 or depth<=0: return ('ref', R.choice(NAMES))
    if r<0.9: return ('set', R.random()<0.4, gen_bindings(depth-1))
    return ('let', gen_bindings(depth-1, False), gen_val(depth-1))
def gen_doc(depth):
    """wrappers around a set"""
    body=('set', R.random()<0.3, gen_bindings(2))
    for _ in range(R.randrange(0,3)):
        r=R.random()
        if r<0.6: body=('let', gen_bindings(1, False), body)
        else: body=('with', ('set', False, [(k,('int',R.randrange(100,200))) for k in R.sample(NAMES,R.randrange(1,3))]), body)
    return body
def show(e, ind=0):
    t=e[0]
    if t=='int': return str(e[1])
    if t=='ref': return e[1]
    if t=='set':
        items=[]
        for b in e[2]:
            if b[0]=='inherit': items.append('inherit %s%s;'%('('+show(b[1])+') ' if b[1] else '', ' '.join(b[2])))
            else: items.append('%s = %s;'%(b[0], show(b[1])))
        return ('rec ' if e[1] else '')+'{ '+' '.join(items)+' }'
    if t=='let': return 'let '+' '.join('%s = %s;'%(k,show(v)) for k,v in e[1])+' in '+show(e[2])
    if t=='with': return 'with '+show(e[1])+'; '+show(e[2])
# reference semantics. env: list of frames innermost-first. frame = ('lex', dict name->(expr, env)) or ('with', envexpr, env)
class Unbound(Exception): pass
class Cycle(Exception): pass
def lookup(name, env):
    for fr in env:
        if fr[0]=='lex' and name in fr[1]: return fr[1][name]
    for fr in env:
        if fr[0]=='with':
            s = whnf(fr[1], fr[2], set())
            if s[0][0]=='set':
                frm = set_frame(s[0], s[1])
                if name in frm: return frm[name]
    raise Unbound(name)
def set_frame(e, env):
    """bindings of a set literal as name->(expr, env_for_value)"""
    d={}
    inner = None
    if e[1]:  # rec
        fr=('lex', d); inner=[fr]+env
    else: inner=env
    for b in e[2]:
        if b[0]=='inherit':
            for n in b[2]:
                if b[1] is None: d[n]=(('ref',n), env)      # inherit x; refers to OUTER env (not rec self)
                else: d[n]=(('sel', b[1], n), inner)
        else: d[b[0]]=(b[1], inner)
    return d
def whnf(e, env, seen):
    """resolve to a non-ref expression with its env; follows identifier chains"""
    while True:
        key=(id(e), id(env) if False else tuple(id(f) for f in env))
        if e[0]=='ref':
            if key in seen: raise Cycle()
            seen.add(key)
            e, env = lookup(e[1], env)
            continue
        if e[0]=='let':
            d={}; fr=('lex', d); env2=[fr]+env
            for k,v in e[1]: d[k]=(v, env2)
            e, env = e[2], env2; continue
        if e[0]=='with':
            e, env = e[2], [('with', e[1], env)]+env; continue
        if e[0]=='sel':
            s=whnf(e[1], env, seen)
            if s[0][0]!='set': raise Unbound('sel')
            frm=set_frame(s[0], s[1])
            if e[2] not in frm: raise Unbound(e[2])
            e, env = frm[e[2]]; continue
        return e, env
def ref_resolve(doc, keys):
    e, env = whnf(doc, [], set())
    for k in keys:
        assert e[0]=='set'
        frm=set_frame(e, env)
        e, env = frm[k]
        e, env = (e, env) if e[0] in ('ref',) else whnf(e, env, set()) if e[0] in ('let','with') else (e, env)
    return e, env
st=collections.Counter(); shown=collections.Counter()
def report(kind, *xs):
    st[kind]+=1
    if shown[kind]<4: shown[kind]+=1; print('=====',kind); [print('  ',x) for x in xs]
for i in range(N):
    doc=gen_doc(2); text=show(doc)
    # choose a key path to an identifier-valued binding reachable through plain set nesting
    try:
        e, env = whnf(doc, [], set())
    except (Unbound,Cycle): continue
    path=[]; cur=(e,env)
    ok=True
    for _ in range(3):
        frm=set_frame(cur[0], cur[1])
        ks=[k for k in frm]
        k=R.choice(ks); path.append(k)
        ve, venv = frm[k]
        if ve[0]=='ref': cur=(ve,venv); break
        if ve[0]=='sel': cur=(ve,venv); break
        if ve[0]=='set': cur=(ve,venv); continue
        if ve[0] in ('let','with'):
            try: cur=whnf(ve,venv,set())
            except (Unbound,Cycle): ok=False; break
            if cur[0][0]=='set': continue
            break
        cur=(ve,venv); break
    if not ok or cur[0][0] not in ('ref','sel'): st['no-ref-target']+=1; continue
    try:
        fe, fenv = whnf(cur[0], cur[1], set()); exp = show(fe) if fe[0] in ('int',) else ('<'+fe[0]+'>')
    except Unbound: exp='UNBOUND'
    except Cycle: exp='CYCLE'
    except RecursionError: exp='CYCLE'
    # implementation
    try:
        x=parse(text)
        for k in path: x=x[k]
        if isinstance(x, Identifier):
            v=x.value; got = v.rebuild() if hasattr(v,'rebuild') else repr(v)
            got = got if got.isdigit() else '<other:%s>'%type(v).__name__
        else: got='<not-identifier:%s>'%type(x).__name__
    except ResolutionError as e2: got='RESERR'
    except KeyError as e2: got='KEYERR'
    except RecursionError: got='RECURSION'
    except Exception as e2: got='EXC:'+type(e2).__name__
    if exp in ('UNBOUND','CYCLE'):
        if got=='RESERR': st['agree-error']+=1
        else: report('expected-%s-got-value'%exp, text, path, got)
    elif exp.isdigit():
        if got==exp: st['agree-value']+=1
        elif got=='RESERR': report('expected-value-got-RESERR', text, path, exp)
        else: report('WRONG-VALUE', text, path, 'exp '+exp, 'got '+got)
    else:
        st['nonint-target']+=1
print(dict(st))

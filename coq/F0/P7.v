(* Proof spike, part 7: bindings, sets, lists, atoms together (multi-line containers with an item). *)
From Coq Require Import List Ascii String Bool Arith Lia.
Import ListNotations.
From F0 Require Import F0s Specs P1 P2 P3g P5 P6.
Open Scope char_scope.

(* unfolding equation of the spec for multi-line sets *)
Lemma spec_set_multiline r gr body cg indent :
  body <> [] -> has_nl (ctext (CSet r gr body cg)) = true ->
  spec (CSet r gr body cg) indent =
  (if r then s "rec " else []) ++
  "{" :: seq_lines (fun n => spec n (indent + 2)) true (indent + 2) body None false
      ++ LF :: (if spec_q1 body then [] else blank cg) ++ sp indent ++ ["}"].
Proof.
  intros Hb Hnl. cbn [spec]. rewrite Hnl. cbn [negb].
  match goal with
  | |- context [?F body None false] =>
      assert (HF : forall l p sn, F l p sn = seq_lines (fun n => spec n (indent + 2)) true (indent + 2) l p sn)
  end.
  { induction l as [|[g n] t IH]; intros p sn; [reflexivity|].
    cbn [seq_lines]. destruct n; cbn [is_cmt craw]; rewrite ?IH; try reflexivity. }
  rewrite HF. destruct body; [congruence|reflexivity].
Qed.

Lemma has_comment_gap g : has_comment (gap_trivia g) = false.
Proof. unfold gap_trivia. destruct (has_empty_line g); [reflexivity|]. destruct (has_nl g); reflexivity. Qed.
Lemma mk_before a0 B X : a_before (mk a0 B X) = B.
Proof. unfold mk. destruct a0; reflexivity. Qed.
Lemma mk_mk a0 B X B' X' : mk (mk a0 B X) B' X' = mk a0 B' X'.
Proof. unfold mk. destruct a0; reflexivity. Qed.

Lemma rebuild_bind name value vgap b x ind inline :
  a_after value = [] -> has_comment (a_before value) = false ->
  rebuild (ABind name value vgap b x) None ind inline =
  lead b ind inline ++
  (name ++ s " =" ++ (if has_nl vgap then [LF] else [" "]) ++
   rstrip_nl (rebuild value (Some []) (if has_nl vgap then indent_from_gap vgap else ind) (negb (has_nl vgap))) ++ [";"])
  ++ TB x ind.
Proof.
  intros Ha Hc. cbn [rebuild a_after]. rewrite Ha, Hc. rewrite andb_false_r, orb_false_r. cbn [app].
  destruct x as [|t x']; [cbn [apply_trailing TB T]; rewrite app_nil_r; repeat rewrite <- app_assoc; reflexivity|].
  destruct t as [| |c]; try (rewrite apply_trailing_T; cbn [TB]; repeat rewrite <- app_assoc; reflexivity).
  cbn [TB]. unfold tr2. repeat rewrite <- app_assoc. reflexivity.
Qed.

(* ---- well-formedness: multi-line containers with at least one item ---- *)
Definition tok_ok (t : str) : Prop := t <> [] /\ ends_nl t = false.
Fixpoint wfM (c : cnode) : Prop :=
  match c with
  | CAtom isint t => tok_ok (if isint then strip_zeros t else t)
  | CCmt raw => cmt_ok raw
  | CBind name _ _ v _ => wfM v /\ is_bind v = false /\ is_cmt v = false
  | CSet _ _ body cg =>
      (fix all (l : list (str * cnode)) : Prop :=
         match l with [] => True | (_, n) :: t => (wfM n /\ (is_bind n = true \/ is_cmt n = true)) /\ all t end) body
      /\ no_double_b None body /\ has_nl (ctext c) = true /\ has_item_b body = true
  | CList body cg =>
      (fix all (l : list (str * cnode)) : Prop :=
         match l with [] => True | (_, n) :: t => (wfM n /\ is_bind n = false) /\ all t end) body
      /\ no_double_b None body /\ has_nl (ctext c) = true /\ has_item_b body = true
  end.

Definition trail (c : cnode) : list triv -> nat -> str := if is_bind c then TB else T.
Definition good (c : cnode) : Prop :=
  is_cmt c = false ->
  forall ind, (spec c ind <> [] /\ ends_nl (spec c ind) = false) /\
  forall B X inline, rebuild (mk (from_cst c) B X) None ind inline = lead B ind inline ++ spec c ind ++ trail c X ind.

Lemma app_nonempty_r {A} (x y : list A) : y <> [] -> x ++ y <> [].
Proof. intros Hy H. apply app_eq_nil in H. destruct H; contradiction. Qed.

Lemma ends1 (A B C D E : str) : ends_nl (A ++ B ++ LF :: C ++ D ++ E ++ [";"]) = false.
Proof.
  replace (A ++ B ++ LF :: C ++ D ++ E ++ [";"]) with ((A ++ B ++ LF :: C ++ D ++ E) ++ [";"])
    by (repeat rewrite <- app_assoc; cbn [app]; repeat rewrite <- app_assoc; reflexivity).
  apply ends_nl_snoc.
Qed.
Lemma ends2 (A B C : str) : ends_nl (A ++ B ++ C ++ [";"]) = false.
Proof. rewrite !app_assoc. apply ends_nl_snoc. Qed.
Lemma nonempty_mid {A} (x y z : list A) : y <> [] -> x ++ y ++ z <> [].
Proof. intros Hy H. apply app_eq_nil in H. destruct H as [_ H]. apply app_eq_nil in H. destruct H; contradiction. Qed.

Theorem rebuild_spec_M : forall c, wfM c -> good c.
Proof.
  induction c as [isint t|raw|n g1 g2 v g3 IHv|r gr body cg IHb|body cg IHb] using cnode_ind'; intros Hwf Hnc ind.
  - (* atom *)
    cbn [wfM] in Hwf. destruct Hwf as [Hne Hend]. cbn [spec from_cst mk set_before set_after trail is_bind]. split; [split; assumption|].
    intros B X inline. cbn [rebuild a_after]. unfold add_trivia. rewrite apply_trailing_T. unfold lead.
    repeat rewrite <- app_assoc. reflexivity.
  - discriminate.
  - (* binding *)
    cbn [wfM] in Hwf. destruct Hwf as (Hwv & Hvb & Hvc).
    specialize (IHv Hwv Hvc). destruct (from_cst_triv v) as [Hbv Hav].
    cbn [spec trail is_bind].
    assert (Hval : forall vi inl,
              rstrip_nl (rebuild (mk (from_cst v) (gap_trivia g2) []) (Some []) vi inl)
              = lead (gap_trivia g2) vi inl ++ spec v vi).
    { intros vi inl. rewrite rebuild_override, mk_set_after.
      destruct (IHv vi) as [[Hne Hend] HR]. rewrite HR. unfold trail. rewrite Hvb. cbn [T apply_trailing]. rewrite app_nil_r.
      apply rstrip_nl_id. rewrite ends_nl_app by exact Hne. exact Hend. }
    split.
    { split.
      - destruct (has_nl g2); apply nonempty_mid; discriminate.
      - destruct (has_nl g2); [apply ends1|apply ends2]. }
    intros B X inline. cbn [from_cst]. rewrite mk_fresh by assumption.
    cbn [mk set_before set_after].
    rewrite rebuild_bind.
    2:{ apply mk_after. }
    2:{ rewrite mk_before. apply has_comment_gap. }
    rewrite Hval. f_equal. f_equal.
    destruct (has_nl g2) eqn:Eg.
    + unfold lead. cbn [negb]. rewrite format_trivia_gap. repeat rewrite <- app_assoc. reflexivity.
    + unfold lead. cbn [negb]. rewrite gap_trivia_no_nl by exact Eg. cbn [format_trivia app].
      repeat rewrite <- app_assoc. reflexivity.
  - (* set *)
    cbn [wfM] in Hwf. destruct Hwf as (Hall & Hnd & Hnl & Hitem).
    assert (Hb : body <> []) by (destruct body; [discriminate|discriminate]).
    rewrite (spec_set_multiline r gr body cg ind Hb Hnl). cbn [trail is_bind].
    split.
    { split; [apply app_nonempty_r; discriminate|].
      rewrite ends_nl_app by discriminate. apply ends_nl_close. }
    intros B X inline. cbn [from_cst]. rewrite conv_fix.
    assert (Hk : Forall (kid_ok (ind + 2) (fun n => spec n (ind + 2)) (fun a => rebuild a None (ind + 2) false) TB) (conv body)).
    { clear Hnd Hnl Hitem Hb. induction body as [|[g n] t IHt]; [constructor|].
      inversion IHb as [|? ? Hn Ht]; subst. destruct Hall as [[Hwn Hkind] Hwt].
      cbn [conv map]. constructor; [|apply IHt; assumption].
      cbn [kid_ok snd] in *. destruct (is_cmt n) eqn:En.
      - destruct n; try discriminate. cbn [craw]. exact Hwn.
      - destruct Hkind as [Hbn|Hcn]; [|congruence].
        destruct (from_cst_triv n) as [Hbf Haf]. specialize (Hn Hwn En (ind + 2)). destruct Hn as [[Hne Hend] HR].
        repeat split; try assumption. intros B0 X0. rewrite (HR B0 X0 false). unfold lead, trail. rewrite Hbn.
        repeat rewrite <- app_assoc. reflexivity. }
    pose proof (seq_body (ind + 2) (fun n => spec n (ind + 2)) (fun a => rebuild a None (ind + 2) false)
                  true TB Q1set (TB_a0 (ind + 2)) (TB_end (ind + 2)) cg (conv body)
                  Hk (no_double_conv None body Hnd)) as HB.
    rewrite has_item_conv, strip_conv, (q1_start_spec body Hnd) in HB. specialize (HB Hitem).
    destruct (parse_seq true (conv body) (Some cg) true []) as [values inner] eqn:Eps.
    cbn [fst] in HB.
    assert (Hv : values <> []).
    { pose proof (parse_seq_has_item true (conv body) cg) as Hh. rewrite has_item_conv, Eps in Hh. exact (Hh Hitem). }
    destruct body as [|b0 body']; [congruence|].
    cbn [mk set_before set_after]. rewrite Hnl.
    destruct values as [|v0 vs]; [congruence|].
    cbn [rebuild a_after]. rewrite apply_trailing_T.
    unfold BT in HB.
    set (J := join [LF] (map (fun a : ast => rebuild a None (ind + 2) false) (v0 :: vs))) in *.
    set (CS := closing_sep J) in *.
    repeat rewrite <- app_assoc. f_equal. f_equal. cbn [app]. f_equal. repeat rewrite <- app_assoc.
    rewrite (bt_shape J CS). rewrite HB. cbn [app]. repeat rewrite <- app_assoc. reflexivity.
  - (* list *)
    cbn [wfM] in Hwf. destruct Hwf as (Hall & Hnd & Hnl & Hitem).
    assert (Hb : body <> []) by (destruct body; [discriminate|discriminate]).
    rewrite (spec_list_multiline body cg ind Hb Hnl). cbn [trail is_bind].
    split.
    { split; [discriminate|]. apply ends_nl_close. }
    intros B X inline. cbn [from_cst]. rewrite conv_fix.
    assert (Hk : Forall (kid_ok (ind + 2) (fun n => spec n (ind + 2)) (fun a => rebuild a None (ind + 2) false) T) (conv body)).
    { clear Hnd Hnl Hitem Hb. induction body as [|[g n] t IHt]; [constructor|].
      inversion IHb as [|? ? Hn Ht]; subst. destruct Hall as [[Hwn Hkind] Hwt].
      cbn [conv map]. constructor; [|apply IHt; assumption].
      cbn [kid_ok snd] in *. destruct (is_cmt n) eqn:En.
      - destruct n; try discriminate. cbn [craw]. exact Hwn.
      - destruct (from_cst_triv n) as [Hbf Haf]. specialize (Hn Hwn En (ind + 2)). destruct Hn as [[Hne Hend] HR].
        repeat split; try assumption. intros B0 X0. rewrite (HR B0 X0 false). unfold lead, trail. rewrite Hkind.
        repeat rewrite <- app_assoc. reflexivity. }
    pose proof (seq_body (ind + 2) (fun n => spec n (ind + 2)) (fun a => rebuild a None (ind + 2) false)
                  false T Q1list (T_a0 (ind + 2)) (T_end (ind + 2)) cg (conv body)
                  Hk (no_double_conv None body Hnd)) as HB.
    rewrite has_item_conv, strip_conv in HB. specialize (HB Hitem).
    assert (Hq : q1_start false Q1list (conv body) = false).
    { clear. assert (Ho : forall l A0 P p, q1_of false Q1list l A0 P p = false).
      { induction l as [|[[g c] a] t IH]; intros; [reflexivity|]. cbn [q1_of].
        destruct (is_cmt c); [destruct (can_inl false p g)|]; apply IH. }
      induction (conv body) as [|[[g c] a] t IH]; [reflexivity|]. cbn [q1_start]. destruct (is_cmt c); [exact IH|apply Ho]. }
    rewrite Hq in HB.
    destruct (parse_seq false (conv body) (Some cg) true []) as [values inner] eqn:Eps.
    cbn [fst] in HB.
    assert (Hv : values <> []).
    { pose proof (parse_seq_has_item false (conv body) cg) as Hh. rewrite has_item_conv, Eps in Hh. exact (Hh Hitem). }
    destruct body as [|b0 body']; [congruence|].
    cbn [mk set_before set_after]. rewrite Hnl.
    destruct values as [|v0 vs]; [congruence|].
    cbn [rebuild a_after]. rewrite apply_trailing_T.
    unfold BT in HB.
    set (J := join [LF] (map (fun a : ast => rebuild a None (ind + 2) false) (v0 :: vs))) in *.
    set (CS := closing_sep J) in *.
    repeat rewrite <- app_assoc. f_equal. cbn [app]. f_equal. repeat rewrite <- app_assoc.
    rewrite (bt_shape J CS). rewrite HB. cbn [app]. repeat rewrite <- app_assoc. reflexivity.
Qed.
Print Assumptions rebuild_spec_M.

#!/bin/sh
# usage: tools/round_par.sh N Cxx... — confirm the round-N seeds of the given properties from /tmp/wtN (fresh scratch worktree each) and run the
# quick check of their property against them in scratch worktrees (never touches /repo)
n=$1; shift
names=""
for id in "$@"; do
  timeout 900 /verif/tools/confirm_seed.sh "$id" "/tmp/wt$n/$id" "$id-$n" 2>&1 | grep -v "WARNING conda" | head -1 | cut -c1-150
  [ -f /verif/seeded/$id-$n/patch.diff ] && names="$names $id-$n"
done
[ -n "$names" ] && /verif/tools/all_seeds_par.sh -j 6 $names

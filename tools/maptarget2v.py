"""Fail-closed FRAME for the mapping API's copy of the wrapper walk: expressions/source_code.py:NixSourceCode._resolve_target_set (behind doc[key],
doc[key] = v, del doc[key]).  Unlike tools/target2v.py this is not a statement compiler: the function's text (ast.unparse of its body, docstrings
dropped) is compared with the text this model was written from (tools/maptarget_frame.txt); when they are equal the hand-translation below is emitted
(Dyn/MapTargetGen.v), otherwise UNTRANSLATABLE — any edit of the function fails the obligation until the model is revised.  The model is tied to the
implementation additionally by the table-world correspondence (suites/target_corr.py, mode `mapping`).  It is written in the monad and over the
abstract observations of Dyn/TargetGen.v.  Reading of the Python: as in target2v.py; in addition `scopes` is a tuple after the re-assignment at the
top of resolve_from_expr (never None), so `and scopes` / `scopes or …` are truth tests of that tuple; the default of resolve_nested is the chain the node was GIVEN (`inherited`, bound before the
re-assignment; since the repair of F-64), which the assert / let / lambda / parenthesis arms hand on; the inline `while isinstance(argument, Parenthesis): argument = argument.value` is the loop of
_strip_parentheses (the same abstract `strip_parens`; an absent argument stays absent).          usage: maptarget2v.py REPO"""
import ast, sys, os
sys.path.insert(0, os.path.dirname(os.path.abspath(__file__)))
from gap2v import Untranslatable, U, guarded, find_fn
FRAME = os.path.join(os.path.dirname(os.path.abspath(__file__)), 'maptarget_frame.txt')
def strip_doc(f):
    for n in ast.walk(f):
        if isinstance(n, (ast.FunctionDef, ast.ClassDef)) and n.body and isinstance(n.body[0], ast.Expr) and isinstance(n.body[0].value, ast.Constant) and isinstance(n.body[0].value.value, str):
            n.body = n.body[1:] or [ast.Pass()]
    return f
def current(repo):
    tree = ast.parse(open(repo + '/nix_manipulator/expressions/source_code.py').read())
    return ast.unparse(strip_doc(find_fn(tree, '_resolve_target_set', cls='NixSourceCode')))
COQ = r'''From Coq Require Import List Bool Arith.
Import ListNotations.
From Dyn Require Import TargetGen.
Section MapTarget.
Variable N : Type.
Variable N_eqb : N -> N -> bool.
Variable SC : Type.
Variable truthy : SC -> bool.
Variable store : Type.
Variable cls_of : N -> cls.
Variables attr_body attr_value attr_output attr_argument : N -> option N.
Variable strip_parens : N -> N.
Variable scopes_for_owner : N -> store -> res SC.
Variable set_ctx : N -> SC -> store -> store.
Variable attach_ctx : N -> N -> store -> store.
Variable ident_value : N -> store -> res N.
Local Notation M := (TargetGen.M N store).
Local Notation bind := (TargetGen.bind N store).
Local Notation ret := (TargetGen.ret N store).
Local Notation raiseV := (TargetGen.raiseV N store).
Local Notation get_scopes := (TargetGen.get_scopes N SC store scopes_for_owner).
(* the shared tail of the lambda and call arms: the argument, parentheses stripped, resolved when it is a name, if it is a set *)
Definition call_argument (sc : SC) (argument : option N) : M (option N) :=
  match option_map strip_parens argument with
  | None => ret None
  | Some a =>
    bind (if is_cls N cls_of a CIdent && truthy sc
          then bind (do_set_ctx N SC store set_ctx a sc) (fun _ => get_value N store ident_value a) else ret a) (fun a1 =>
    if is_cls N cls_of a1 CSet then ret (Some a1) else ret None)
  end.
(* WRITTEN FROM (frame matched literally) expressions/source_code.py:NixSourceCode._resolve_target_set.resolve_from_expr *)
Fixpoint resolve_from_expr (fuel : nat) (target : N) (scopes : option SC) {struct fuel} : M N :=
  match fuel with O => out_of_fuel N store | S fuel_ =>
  bind (is_visited N N_eqb store target) (fun seen_ => if seen_ then raiseV else
  bind (visit N store target) (fun _ =>
  bind (match scopes with None => get_scopes target | Some sc => ret sc end) (fun sc =>
  match cls_of target with
  | CAssertion => match attr_body target with None => raiseV | Some b => resolve_from_expr fuel_ b scopes end
  | CLet => match attr_value target with Some v => resolve_from_expr fuel_ v scopes | None => raiseV end
  | CFunDef =>
      bind (match attr_output target with
            | Some o => if is_cls N cls_of o CCall then call_argument sc (attr_argument o) else ret None
            | None => ret None end) (fun hit =>
      match hit with
      | Some a => ret a
      | None => match attr_output target with
                | None => raiseV
                | Some o => try_valueerror N store (resolve_from_expr fuel_ o scopes) raiseV
                end
      end)
  | CWith =>
      bind (get_scopes target) (fun v_ => let body_scopes := if truthy v_ then v_ else sc in
      match attr_body target with
      | Some b => bind (do_attach N store attach_ctx b target) (fun _ => resolve_from_expr fuel_ b (Some body_scopes))
      | None => raiseV end)
  | CIdent =>
      bind (if truthy sc then ret sc else get_scopes target) (fun identifier_scopes =>
      bind (if truthy identifier_scopes then do_set_ctx N SC store set_ctx target identifier_scopes else ret tt) (fun _ =>
      bind (get_value N store ident_value target) (fun resolved =>
      resolve_from_expr fuel_ resolved (Some identifier_scopes))))
  | CParen => match attr_value target with Some v => resolve_from_expr fuel_ v scopes | None => raiseV end
  | CSet => ret target
  | CCall => bind (call_argument sc (attr_argument target)) (fun hit => match hit with Some a => ret a | None => raiseV end)
  | COther => raiseV
  end)))
  end.
Definition map_resolve_target_set (fuel : nat) (expressions : list N) : M N :=
  match expressions with [e] => resolve_from_expr fuel e None | _ => raiseV end.
End MapTarget.
'''
def main(repo):
    def gen():
        cur = current(repo)
        if not os.path.exists(FRAME): U('frame file missing')
        if cur != open(FRAME).read(): U('NixSourceCode._resolve_target_set no longer has the text the model was written from')
        return ''
    # when the frame no longer matches, the marker fails the obligation, and the LAST model is still emitted so that the correspondence can look for a
    # document on which the changed function and the model disagree
    return guarded('NixSourceCode._resolve_target_set', gen) + COQ
if __name__ == '__main__':
    if len(sys.argv) > 2 and sys.argv[2] == '--record': open(FRAME, 'w').write(current(sys.argv[1])); print('recorded')
    else: print(main(sys.argv[1]))

(* C12 over the GENERATED _format_attr_name / re_npath_ident / _NIX_KEYWORDS / _split_attrpath:
   what `set` writes for a path segment is read back by Nix as exactly the segment's name, and the attrpath
   splitter of binding.py splits a written path exactly at the dots that separate the written names. *)
From Coq Require Import List Ascii String Bool Arith Lia.
Import ListNotations.
From Dyn Require Import Gen.
From Lex Require Import NixLex NixAttr.
From Dyn Require Import Refine SplitProofs.
Close Scope string_scope.
Open Scope char_scope.

(* ---------- the generated identifier pattern implies the Nix identifier class ---------- *)
Lemma tail_one x : re_npath_ident_tail [x] = true -> id_rest x = true.
Proof.
  cbn [re_npath_ident_tail]. cbv beta. intros H. unfold id_rest, is_letter, is_digit. cbv zeta.
  change (c 95) with "_" in H. change (c 39) with "'" in H. rewrite H. reflexivity.
Qed.
Lemma tail_cons x y l : re_npath_ident_tail (x :: y :: l) = true ->
  re_npath_ident_tail [x] = true /\ re_npath_ident_tail (y :: l) = true.
Proof.
  cbn [re_npath_ident_tail]. cbv beta. intros H. apply andb_prop in H. exact H.
Qed.
Lemma tail_ok : forall l, re_npath_ident_tail l = true -> forallb id_rest l = true.
Proof.
  induction l as [|x l IH]; [reflexivity|]. intros H. destruct l as [|y l'].
  - cbn [forallb]. rewrite (tail_one x H). reflexivity.
  - apply tail_cons in H. destruct H as [H1 H2]. cbn [forallb]. rewrite (tail_one x H1). cbn [andb]. apply IH, H2.
Qed.
Lemma re_ident_nix s : re_npath_ident s = true -> nix_ident s = true.
Proof.
  destruct s as [|x r]; [discriminate|]. unfold re_npath_ident. cbv beta. intros H. apply andb_prop in H.
  destruct H as [H1 H2]. cbn [nix_ident]. rewrite (tail_ok r H2). rewrite andb_true_r.
  unfold id_start, is_letter. cbv zeta. change (c 95) with "_" in H1. exact H1.
Qed.

(* ---------- the generated keyword table covers Nix's keywords ---------- *)
Lemma streq_str_eqb a b : streq a b = str_eqb a b.
Proof. revert b. induction a as [|x a IH]; intros [|y b]; cbn; try reflexivity; try (now rewrite IH). Qed.
Lemma keywords_covered : forallb (fun k => existsb (streq k) _NIX_KEYWORDS) nix_keywords = true.
Proof. vm_compute. reflexivity. Qed.
Lemma not_generated_keyword name : existsb (streq name) _NIX_KEYWORDS = false -> is_keyword name = false.
Proof.
  intros H. unfold is_keyword. destruct (existsb (str_eqb name) nix_keywords) eqn:E; [|reflexivity].
  apply existsb_exists in E. destruct E as [k [Hin Hk]]. apply str_eqb_eq in Hk. subst k.
  pose proof keywords_covered as Hc. rewrite forallb_forall in Hc. specialize (Hc name Hin). cbv beta in Hc. congruence.
Qed.

(* ---------- C12_written ---------- *)
Theorem C12_written : forall seg : str * bool, nix_attr_read (_format_attr_name seg) = Some (fst seg).
Proof.
  intros seg. unfold _format_attr_name.
  destruct (snd seg || existsb (streq (fst seg)) _NIX_KEYWORDS || negb (re_npath_ident (fst seg))) eqn:E.
  - cbv zeta. change (c 34) with DQ. cbn [app]. rewrite attr_read_quoted. apply C12_written_core.
  - apply orb_false_iff in E. destruct E as [E E3]. apply orb_false_iff in E. destruct E as [E1 E2].
    apply negb_false_iff in E3. apply attr_read_bare; [apply re_ident_nix, E3 | apply not_generated_keyword, E2].
Qed.
Print Assumptions C12_written.

(* ---------- the splitter on plain (bare identifier) text ---------- *)
Definition plainc (x : ascii) : bool := negb (x =c c 34) && negb (x =c c 36) && negb (x =c c 46) && negb (py_space x).
Lemma id_rest_plain x : id_rest x = true -> plainc x = true.
Proof.
  destruct x as [[|] [|] [|] [|] [|] [|] [|] [|]]; vm_compute; intros H; congruence.
Qed.
Lemma id_start_rest x : id_start x = true -> id_rest x = true.
Proof. unfold id_start, id_rest. intros H. apply orb_prop in H. destruct H as [H|H]; rewrite H; cbn; now rewrite ?orb_true_r. Qed.
Lemma ident_plain t : nix_ident t = true -> forallb plainc t = true.
Proof.
  destruct t as [|x r]; [discriminate|]. cbn [nix_ident forallb]. intros H. apply andb_prop in H. destruct H as [H1 H2].
  rewrite (id_rest_plain x (id_start_rest x H1)). cbn [andb].
  apply forallb_forall. intros y Hy. rewrite forallb_forall in H2. apply id_rest_plain, H2, Hy.
Qed.

Notation NORM segs buf := (segs, buf, false, false, 0%nat, false, false).
Lemma norm_plain f ch r (segs : list str) (buf : str) : plainc ch = true ->
  loop (S f) (ch :: r) (NORM segs buf) = loop f r (NORM segs (buf ++ [ch])).
Proof.
  unfold plainc. intros H. apply andb_prop in H. destruct H as [H H4]. apply andb_prop in H. destruct H as [H H3].
  apply andb_prop in H. destruct H as [H1 H2]. apply negb_true_iff in H1, H2, H3.
  cbn [_split_attrpath_loop]. change (has_at 0 (ch :: r)) with true. cbv iota.
  change (at_ 0 (ch :: r)) with ch. change (Nat.ltb 0 0) with false. cbv iota zeta.
  rewrite H1, H2, H3. cbn [andb]. cbv iota. reflexivity.
Qed.
Lemma read_plain : forall t f rest' (segs : list str) (buf : str), forallb plainc t = true ->
  loop (List.length t + f) (t ++ rest') (NORM segs buf) = loop f rest' (NORM segs (buf ++ t)).
Proof.
  induction t as [|x t IH]; intros f rest' segs buf H; [cbn [List.length plus app]; now rewrite app_nil_r|].
  cbn [forallb] in H. apply andb_prop in H. destruct H as [Hx Ht].
  cbn [List.length plus app]. rewrite norm_plain by exact Hx. rewrite IH by exact Ht. rewrite <- app_assoc. reflexivity.
Qed.

(* str.strip() leaves text without white space alone *)
Definition nospace (t : str) : bool := forallb (fun x => negb (py_space x)) t.
Lemma lstrip_nospace t : nospace t = true -> py_lstrip t = t.
Proof. destruct t as [|x r]; [reflexivity|]. cbn [nospace forallb py_lstrip]. intros H. apply andb_prop in H. destruct H as [H _]. apply negb_true_iff in H. now rewrite H. Qed.
Lemma nospace_rev t : nospace t = true -> nospace (rev t) = true.
Proof.
  unfold nospace. intros H. apply forallb_forall. intros x Hx. rewrite forallb_forall in H. apply H. now apply in_rev.
Qed.
Lemma strip_nospace t : nospace t = true -> py_strip t = t.
Proof.
  intros H. unfold py_strip. rewrite (lstrip_nospace t H). rewrite (lstrip_nospace (rev t) (nospace_rev t H)). apply rev_involutive.
Qed.
Lemma plain_nospace t : forallb plainc t = true -> nospace t = true.
Proof.
  unfold nospace. intros H. apply forallb_forall. intros x Hx. rewrite forallb_forall in H. specialize (H x Hx).
  unfold plainc in H. apply andb_prop in H. destruct H as [_ H]. exact H.
Qed.

(* ---------- atomic segment texts and the generic path theorem ---------- *)
Definition atomic (t : str) : Prop :=
  isnil t = false /\ py_strip t = t /\
  forall f rest' (segs : list str), loop (List.length t + f) (t ++ rest') (NORM segs []) = loop f rest' (NORM segs t).

Lemma read_path_gen : forall ts (segs : list str), ts <> [] -> Forall atomic ts ->
  loop (List.length (joind ts)) (joind ts) (NORM segs []) = Ok (NORM (segs ++ removelast ts) (last ts [])).
Proof.
  induction ts as [|a ts IH]; intros segs Hne Hat; [congruence|].
  inversion Hat as [|? ? Ha Hts]; subst. destruct Ha as (Hnil & Hstrip & Hread).
  destruct ts as [|b t].
  - cbn [joind removelast last]. rewrite <- (Nat.add_0_r (List.length a)). rewrite <- (app_nil_r a) at 2.
    rewrite Hread, loop_end, app_nil_r. reflexivity.
  - rewrite joind_cons2. rewrite app_length. cbn [List.length].
    rewrite Hread. rewrite norm_dot by (rewrite Hstrip; exact Hnil). rewrite Hstrip.
    rewrite IH by (try discriminate; exact Hts).
    change (removelast (a :: b :: t)) with (a :: removelast (b :: t)). change (last (a :: b :: t) []) with (last (b :: t) []).
    rewrite <- app_assoc. reflexivity.
Qed.

Theorem split_atomic : forall ts, ts <> [] -> Forall atomic ts -> _split_attrpath (joind ts) = Ok ts.
Proof.
  intros ts Hne Hat. unfold _split_attrpath. cbv zeta. rewrite (read_path_gen ts [] Hne Hat). cbv iota beta.
  change (Nat.ltb 0 0) with false. cbv iota.
  assert (Hl : atomic (last ts [])).
  { rewrite Forall_forall in Hat. apply Hat. destruct ts as [|a r]; [congruence|]. apply (@exists_last _ (a :: r)) in Hne.
    destruct Hne as (l' & z & E). rewrite E. rewrite last_last. apply in_or_app. right. left. reflexivity. }
  destruct Hl as (Hnil & Hstrip & _). rewrite Hstrip, Hnil. cbn [negb app]. cbv iota.
  f_equal. symmetry. apply (app_removelast_last [] Hne).
Qed.

Lemma atomic_quoted s : atomic (quoteA s).
Proof.
  split; [reflexivity|]. split; [apply py_strip_quote|]. intros f rest' segs.
  rewrite len_quoteA. replace (S (List.length (escape_spec true s) + 1) + f) with (S (List.length (escape_spec true s) + S f)) by lia.
  apply read_quoted.
Qed.
Lemma atomic_bare t : nix_ident t = true -> atomic t.
Proof.
  intros H. pose proof (ident_plain t H) as Hp. split; [destruct t; [discriminate|reflexivity]|].
  split; [apply strip_nospace, plain_nospace, Hp|]. intros f rest' segs. rewrite (read_plain t f rest' segs [] Hp). reflexivity.
Qed.
Lemma atomic_written seg : atomic (_format_attr_name seg).
Proof.
  unfold _format_attr_name.
  destruct (snd seg || existsb (streq (fst seg)) _NIX_KEYWORDS || negb (re_npath_ident (fst seg))) eqn:E.
  - cbv zeta. rewrite generated_escape_is_spec. apply (atomic_quoted (fst seg)).
  - apply orb_false_iff in E. destruct E as [_ E3]. apply negb_false_iff in E3. apply atomic_bare, re_ident_nix, E3.
Qed.

(* C12_split_written: a path written by `set` (any names, any characters) is split by binding.py exactly into the
   written names — never inside a quoted name, never at an escaped character, never into an interpolation *)
Theorem C12_split_written : forall segs : list (str * bool), segs <> [] ->
  _split_attrpath (joind (map _format_attr_name segs)) = Ok (map _format_attr_name segs).
Proof.
  intros segs Hne. apply split_atomic.
  - destruct segs; [congruence|discriminate].
  - apply Forall_forall. intros t Ht. apply in_map_iff in Ht. destruct Ht as [sg [<- _]]. apply atomic_written.
Qed.
Print Assumptions C12_split_written.

(* the written name is injective in the Nix name: two segments written identically denote the same name *)
Theorem C12_written_injective : forall a b : str * bool, _format_attr_name a = _format_attr_name b -> fst a = fst b.
Proof.
  intros a b H. pose proof (C12_written a) as Ha. rewrite H, C12_written in Ha. congruence.
Qed.
Print Assumptions C12_written_injective.

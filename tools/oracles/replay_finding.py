"""replay one listed finding (JSON on stdin) against the implementation: {"still_fails": bool, "detail": str}"""
import json, sys
from nixread import ts, set_node, attr_tree
f = json.load(sys.stdin)
w, prop, fid = f['witness'], f['property'], f['id']
def out(still, detail=''): print(json.dumps({'still_fails': bool(still), 'detail': str(detail)[:400]})); sys.exit(0)
from nix_manipulator import parse
from nix_manipulator.cli.manipulations import set_value, remove_value
def apply_ops(doc, ops):
    src = parse(doc); text = doc; errs = []
    for op in ops:
        try:
            text = set_value(source=src, npath=op[1], value=op[2]) if op[0] == 'set' else remove_value(source=src, npath=op[1])
            errs.append(None)
        except Exception as e:
            errs.append(type(e).__name__)
    return text, errs, src
if fid == 'F-13':
    text, errs, _ = apply_ops(w['doc'], w['ops'])
    tree, dups = attr_tree(set_node(ts(text)))
    out(bool(dups), 'duplicate definitions after the edits: %r in %r' % (dups, text))
if fid == 'F-23':
    text, errs, _ = apply_ops(w['doc'], w['ops'])
    out(errs == [None] and ' '.join(text.split()) == ' '.join(w['doc'].split()), 'result %r errors %r' % (text, errs))
if fid == 'F-17':
    src = parse(w['doc']); before = src.rebuild()
    for op in w['mapping_ops']:
        if op[0] == 'del': del src[op[1]]
    gone = False
    try: src['a']
    except KeyError: gone = True
    out(gone and src.rebuild() == before, 'mapping says deleted=%s, text %r' % (gone, src.rebuild()))
if fid == 'F-06':
    text, errs, _ = apply_ops(w['doc'], w['ops'])
    out(errs == [None] and ts(text).has_error, 'emitted %r' % text)
if fid == 'F-27':
    text, errs, _ = apply_ops(w['doc'], w['ops'])
    out(errs != [None], 'errors %r' % errs)
if fid == 'F-08':
    text, errs, _ = apply_ops(w['doc'], w['ops'])
    out(errs == ['ResolutionError'], 'errors %r' % errs)
if fid == 'F-07':
    text, errs, _ = apply_ops(w['doc'], w['ops'])
    out(errs == [None] and ts(text).has_error, 'emitted %r' % text)
if fid in ('F-09', 'F-10', 'F-25', 'F-26') and prop in ('C10', 'C11'):
    from nix_manipulator.exceptions import ResolutionError
    if prop == 'C11':
        text, errs, _ = apply_ops(w['doc'] + '\n', [['set', w['path'][0], '777']])
        out('a = 2' not in ' '.join(text.split()) and 'a = 1' in ' '.join(text.split()), 'result %r' % text)
    x = parse(w['doc'])
    try:
        for k in w['path']: x = x[k]
        v = x.value if hasattr(x, 'value') and type(x).__name__ == 'Identifier' else x
        got = v.rebuild().strip() if hasattr(v, 'rebuild') else repr(v)
    except ResolutionError as e: got = 'RESERR'
    want = w['nix']
    out((got != want) if want != 'UNBOUND' else (got != 'RESERR'), 'resolution gives %s, Nix gives %s' % (got, want))
if fid == 'F-19':
    from costlib import count_calls
    c8, c16 = count_calls('a: ' * 8 + 'x'), count_calls('a: ' * 16 + 'x')
    out(c16 > 100 * c8, 'rebuild calls at depth 8: %d, at depth 16: %d' % (c8, c16))
if fid == 'F-39':
    text, errs, _ = apply_ops(w['doc'], w['ops'])
    out(errs == [None, None] and text != w['doc'], 'result %r' % text)
if fid == 'F-42':
    t1 = set_value(source=parse(w['doc']), npath=w['ops'][0][1], value=w['ops'][0][2])
    t2 = remove_value(source=parse(t1), npath=w['ops'][1][1])
    out(t2 != w['doc'], 'result %r' % t2)
if fid == 'F-43':
    t1 = set_value(source=parse(w['doc']), npath=w['ops'][0][1], value=w['ops'][0][2])
    t2 = set_value(source=parse(t1), npath=w['ops'][1][1], value=w['ops'][1][2])
    out(t2 != t1, 'once %r twice %r' % (t1, t2))
if fid == 'F-46':
    g1 = ' '.join(set_value(source=parse(w['doc']), npath=w['path'][0], value=w['value']).split())
    g2 = ' '.join(set_value(source=parse(w['second_doc']), npath=w['path'][0], value=w['value']).split())
    out(g1 != w['expected'] or g2 != w['second_expected'], 'got %r / %r' % (g1, g2))
if fid == 'F-63':
    g1 = ' '.join(set_value(source=parse(w['doc']), npath=w['path'][0], value=w['value']).split())
    out(g1 != w['expected'], 'got %r' % g1)
if fid == 'F-49' and prop == 'C20':
    try: parse(w['input']).rebuild(); out(False, 'returns')
    except ValueError: out(False, 'ValueError')
    except Exception as e: out(True, 'raises %s' % type(e).__name__)
if fid == 'F-53':
    a, ea, _ = apply_ops(w['doc'], w['ops']); b, eb, _ = apply_ops(w['doc'], list(reversed(w['ops'])))
    out(ea == [None, None] and eb == [None, None] and a != b, 'orders give %r / %r' % (a, b))
if fid == 'F-37':
    text, errs, _ = apply_ops(w['doc'], w['ops'])
    out(errs == [None] and not text.lstrip().startswith('let'), 'emitted %r' % text)
if fid in ('F-02', 'F-04', 'F-50', 'F-51', 'F-52'):
    from render_oracles import judge
    r = parse(w['input']).rebuild()
    v = judge(prop, w['input'], r, lambda t: parse(t).rebuild())
    out(v is not None, '%s: %r -> %r' % (v, w['input'], r))
if fid == 'F-33':
    r = parse(w['input']).rebuild()
    out(r != w['input'], 'rebuilt %r' % r)
if fid in ('F-14', 'F-15', 'F-16'):
    from nix_manipulator.expressions.set import AttributeSet
    from nix_manipulator.expressions.list import NixList
    from nixdata import read_text, NotData
    text = eval(w['python'])
    want = {'F-14': [-1], 'F-15': {'a': 1e-07}, 'F-16': {'a': 'x\x00y'}}[fid]
    try: back = read_text(text); still = back != want
    except NotData: still = True
    out(still, 'rendered %r' % text)
out(False, 'no replayer for this finding')

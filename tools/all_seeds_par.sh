#!/bin/sh
# usage: tools/all_seeds_par.sh [-j N] [NAME...] — like all_seeds.sh but each seed runs against its own scratch worktree of /repo
# (NIMA_REPO), with its own build / replay / evidence directories, N at a time (default 6).  /repo itself is not touched.
J=6; if [ "$1" = "-j" ]; then J=$2; shift 2; fi
cd /verif
names="${*:-$(ls seeded)}"
mkdir -p /tmp/scratch/par
for n in $names; do echo $n; done | xargs -P $J -I{} sh -c '
  n={}; p=$(echo "$n" | cut -c1-3); w=/tmp/scratch/par/$n
  if grep -q \"retired\" /verif/seeded/$n/meta.json 2>/dev/null; then echo "$n: retired (no longer manifests on the repaired tree)"; exit 0; fi
  rm -rf $w $w-out; git -C /repo worktree add -q --detach $w HEAD 2>/dev/null || { echo "$n: worktree failed"; exit 0; }
  if ! git -C $w apply /verif/seeded/$n/patch.diff 2>/dev/null; then echo "$n: PATCH DOES NOT APPLY"; git -C /repo worktree remove --force $w; exit 0; fi
  out=$(NIMA_REPO=$w VERIF_BUILD_DIR=$w-out/build VERIF_REPLAY_DIR=$w-out VERIF_EVIDENCE_DIR=$w-out/evidence timeout 1800 /verif/check $p --tier quick 2>&1)
  if [ -n "$KEEP" ]; then { echo "$out" | grep "^VIOLATION"; for r in $(echo "$out" | grep "^VIOLATION" | sed "s/.*replay=\([^ ]*\).*/\1/" | sort -u); do echo "--- $r"; head -c 1500 $r; echo; done; } > /tmp/scratch/par/$n.txt 2>&1; fi
  if echo "$out" | grep -q "^VIOLATION property=$p"; then echo "$n: caught ($(echo "$out" | grep -c "^VIOLATION") violation lines$(echo "$out" | grep -q no-failing-input-found && echo ", no-failing-input-found"))"
  else echo "$n: MISSED"; fi
  git -C /repo worktree remove --force $w; rm -rf $w-out'
git -C /repo worktree prune

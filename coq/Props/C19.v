(* C19 — edits compose predictably (model level: repeatability as STATE equality on the edit heap model). *)
From Coq Require Import List Ascii String Bool Arith.
Import ListNotations.
From E Require Import EditModel EditProofs EditFrame.

(* the same set applied twice gives the same state (hence the same text) as applying it once *)
Theorem C19_repeat_leaf : forall s segs l t0 t,
  find_leaf s SRoot segs = Some l -> val_of s l = VAt t0 -> hget (hp s) l <> None ->
  fst (m_set (fst (m_set s segs (VAt t))) segs (VAt t)) = fst (m_set s segs (VAt t)).
Proof. exact EditFrame.C19_repeat_leaf. Qed.
Print Assumptions C19_repeat_leaf.

(* law 2: `set` of a key that does not exist at the root followed by `rm` of that key: both succeed and the printed
   document is exactly the one before — in every state reachable from a parsed document by any script of edits *)
From E Require Import EditLaws EditAppend EditClosed EditClosedOps EditUndo.
Theorem C19_set_rm_fresh_root : forall d s0 ops k t, parse_doc d = Ok s0 -> Forall atomic_op ops ->
  let s := erun s0 ops in
  find_by_name s (rvals s) k = None ->
  snd (m_set s [k] (VAt t)) = Ok tt /\ snd (m_rm (fst (m_set s [k] (VAt t))) [k]) = Ok tt /\
  view (fst (m_rm (fst (m_set s [k] (VAt t))) [k])) = view s.
Proof.
  intros d s0 ops k t Hp Ha s Hf. apply set_then_rm_fresh_root; [|exact Hf].
  apply closed_erun; [exact Ha|eapply ids_closed_parse_doc; exact Hp].
Qed.
Print Assumptions C19_set_rm_fresh_root.

(* law 4: two sets on different existing leaves give the same STATE (hence the same text) in either order *)
Theorem C19_commute_leaves : forall s p q lp lq tp tq v w,
  find_leaf s SRoot p = Some lp -> find_leaf s SRoot q = Some lq -> lp <> lq ->
  val_of s lp = VAt tp -> val_of s lq = VAt tq -> hget (hp s) lp <> None -> hget (hp s) lq <> None ->
  fst (m_set (fst (m_set s p (VAt v))) q (VAt w)) = fst (m_set (fst (m_set s q (VAt w))) p (VAt v)).
Proof. exact set_leaves_commute. Qed.
Print Assumptions C19_commute_leaves.

(* law 3 at the top level: `rm k` followed by `set k` of the removed value succeeds and every key of the mapping
   reads as before (the same attribute tree; the binding moves to the end, which is why the property does not say
   "same text") — for every state satisfying the mapping invariant, every key and every value, nested sets included *)
From E Require Import EditLaws EditMapSpec.
Theorem C19_rm_then_set_same_tree : forall s k v, map_inv s -> getitem s SRoot k = Some v ->
  snd (set_delitem s SRoot k) = Ok tt /\
  forall k', getitem (set_setitem (fst (set_delitem s SRoot k)) SRoot k v) SRoot k' = getitem s SRoot k'.
Proof. exact EditMapSpec.rm_then_set_same_tree. Qed.
Print Assumptions C19_rm_then_set_same_tree.

(* the model's binding look-ups are the source's: find_by_name / find_named / find_root of the edit heap model equal
   _find_binding / _find_named_binding / _find_attrpath_root REGENERATED from cli/manipulations.py on every run *)
From Dyn Require Import FindGen FindProps.
Theorem C19_lookup_is_source_lookup : forall s ids key nested,
  _find_binding nat (fun _ => true) (name_of s) ids key = find_by_name s ids key /\
  _find_named_binding nat (fun _ => true) (name_of s) (nested_of s) ids key nested = find_named s ids key nested /\
  _find_attrpath_root nat (fun _ => true) (name_of s) (nested_of s) ids key = find_root s ids key.
Proof. exact (fun s ids key nested => conj (find_binding_refines s ids key) (conj (find_named_refines s ids key nested) (find_root_refines s ids key))). Qed.
Print Assumptions C19_lookup_is_source_lookup.

(* Proof spike, part 15: the output is the text of the canonicalised tree; canonicalisation keeps the
   interleaved sequence of code tokens and comments (C01 and C03 on F0, model level). *)
From Coq Require Import List Ascii String Bool Arith Lia.
Import ListNotations.
From F0 Require Import F0s Specs P1 P2 P3g P5 P6 P7 P8 P9 P10 P11 Canon P12 P13 Canonize P14.
Open Scope char_scope.

(* ---------- the output text ---------- *)
Theorem output_text : forall f, wf_file f -> roundtrip f = ftext (canon_file f).
Proof.
  intros [children tail] Hwf. rewrite (roundtrip_spec _ Hwf).
  unfold wf_file in Hwf. cbn [f_children] in Hwf.
  destruct children as [|[g0 c0] rest]; [contradiction|].
  destruct Hwf as (-> & Hall & _ & _).
  inversion Hall as [|? ? [Hw0 _] Hall']; subst.
  unfold canon_file. cbn [f_children f_tail]. rewrite ftext_flat. cbn [flat app].
  match goal with |- context [flat (?F rest ?sn0)] =>
    assert (HF : forall l p sn, F l sn = canon_lines (fun n => canon n 0) false 0 l (Some p) sn) end.
  { induction l as [|[g n] t IH]; intros p sn; [reflexivity|]. cbn [canon_lines]. rewrite (IH n).
    destruct (is_cmt n); cbn [negb orb andb].
    - rewrite orb_false_r. reflexivity.
    - rewrite orb_true_r. reflexivity. }
  rewrite (HF rest c0).
  assert (Hkids : Forall (fun gn => is_cmt (snd gn) = false -> ctext (canon (snd gn) 0) = spec (snd gn) 0) rest).
  { clear -Hall'. induction rest as [|[g n] t IH]; [constructor|]. inversion Hall' as [|? ? [Hw _] Ht]; subst.
    constructor; [|apply IH, Ht]. cbn [snd]. intros Hc. apply ctext_canon; assumption. }
  rewrite (flat_canon_lines _ (fun n => spec n 0) false 0 rest (Some c0) (negb (is_cmt c0)) Hkids).
  pose proof (spec_file_lines c0 rest tail) as Hs. cbn [seq_lines] in Hs. unfold tail_text in Hs.
  destruct (is_cmt c0) eqn:E0.
  - destruct c0; try discriminate. cbn [craw negb] in *. unfold ccmt. cbn [ctext].
    rewrite spec_comment_shape in Hs. cbn [blank has_empty_line app] in Hs.
    assert (Hsp : sp 0 = []) by reflexivity.
    rewrite Hsp in Hs. cbn [app] in Hs. inversion Hs as [Hs']. rewrite Hs'. repeat rewrite <- app_assoc. reflexivity.
  - cbn [negb] in *. rewrite (ctext_canon c0 Hw0 E0 0).
    cbn [blank has_empty_line app sp repeat] in Hs. inversion Hs as [Hs']. rewrite Hs'. repeat rewrite <- app_assoc. reflexivity.
Qed.

(* ---------- interleaved sequence of code tokens and comments ---------- *)
Inductive lex := Tok (isint : bool) (t : str) | Cm (raw : str).
Definition nrm (x : lex) : lex :=
  match x with Tok b t => Tok b (if b then strip_zeros t else t) | Cm raw => Cm (spec_comment_inline raw) end.
Definition kw (x : string) : lex := Tok false (s x).

Fixpoint lexseq (c : cnode) : list lex :=
  match c with
  | CAtom b t => [Tok b t]
  | CCmt raw => [Cm raw]
  | CBind name _ _ v _ => Tok false name :: kw "=" :: lexseq v ++ [kw ";"]
  | CSet r _ body _ =>
      (if r then [kw "rec"] else []) ++ kw "{" ::
      (fix go (l : list (str * cnode)) : list lex := match l with [] => [] | (_, n) :: t => lexseq n ++ go t end) body
      ++ [kw "}"]
  | CList body _ =>
      kw "[" ::
      (fix go (l : list (str * cnode)) : list lex := match l with [] => [] | (_, n) :: t => lexseq n ++ go t end) body
      ++ [kw "]"]
  end.
Fixpoint lexflat (l : list (str * cnode)) : list lex :=
  match l with [] => [] | (_, n) :: t => lexseq n ++ lexflat t end.
Lemma lexseq_set r gr body cg : lexseq (CSet r gr body cg) = (if r then [kw "rec"] else []) ++ kw "{" :: lexflat body ++ [kw "}"].
Proof.
  cbn [lexseq]. match goal with |- context [?F body ++ [kw "}"]] => assert (HF : forall l, F l = lexflat l) end.
  { induction l as [|[g n] t IH]; [reflexivity|]. cbn [lexflat]. now rewrite IH. }
  now rewrite HF.
Qed.
Lemma lexseq_list body cg : lexseq (CList body cg) = kw "[" :: lexflat body ++ [kw "]"].
Proof.
  cbn [lexseq]. match goal with |- context [?F body ++ [kw "]"]] => assert (HF : forall l, F l = lexflat l) end.
  { induction l as [|[g n] t IH]; [reflexivity|]. cbn [lexflat]. now rewrite IH. }
  now rewrite HF.
Qed.

Lemma lexflat_lines (cc : cnode -> cnode) nb ind : forall l prev seen,
  Forall (fun gn => lexseq (cc (snd gn)) = map nrm (lexseq (snd gn))) l ->
  (forall raw, cc (CCmt raw) = ccmt raw) ->
  lexflat (canon_lines cc nb ind l prev seen) = map nrm (lexflat l).
Proof.
  induction l as [|[g n] t IH]; intros prev seen HF Hc; [reflexivity|].
  inversion HF as [|? ? Hn Ht]; subst. cbn [snd] in Hn.
  cbn [canon_lines lexflat]. rewrite map_app, (IH _ _ Ht Hc).
  destruct (is_cmt n) eqn:En.
  - destruct n; try discriminate. reflexivity.
  - cbn [lexflat]. rewrite Hn. reflexivity.
Qed.
Lemma lexflat_inline (cc : cnode -> cnode) : forall l,
  Forall (fun gn => lexseq (cc (snd gn)) = map nrm (lexseq (snd gn))) l ->
  lexflat (canon_inline cc l) = map nrm (lexflat l).
Proof.
  induction l as [|[g n] t IH]; intros HF; [reflexivity|].
  inversion HF as [|? ? Hn Ht]; subst. cbn [snd] in Hn.
  cbn [canon_inline lexflat]. rewrite map_app, (IH Ht), Hn. reflexivity.
Qed.

(* canonicalisation changes nothing but gaps, integer spelling and comment spelling *)
Theorem lexseq_canon : forall c ind, lexseq (canon c ind) = map nrm (lexseq c).
Proof.
  induction c as [isint t|raw|n g1 g2 v g3 IHv|r gr body cg IHb|body cg IHb] using cnode_ind'; intros ind.
  - reflexivity.
  - reflexivity.
  - cbn [canon]. destruct (has_nl g2); cbn [lexseq map nrm]; rewrite IHv, map_app; reflexivity.
  - assert (HF : forall k, Forall (fun gn => lexseq (canon (snd gn) k) = map nrm (lexseq (snd gn))) body).
    { intros k. clear -IHb. induction body as [|[g n] t IH]; [constructor|]. inversion IHb; subst. constructor; [auto|apply IH; assumption]. }
    destruct body as [|b0 body'].
    { cbn [canon]. rewrite !lexseq_set. cbn [lexflat app map]. destruct r; reflexivity. }
    set (body := b0 :: body') in *. assert (Hb : body <> []) by discriminate. clearbody body.
    rewrite (canon_set_eq r gr body cg ind Hb).
    destruct (negb (has_nl (ctext (CSet r gr body cg)))); rewrite !lexseq_set.
    + rewrite (lexflat_inline _ body (HF (ind + 2))). destruct r; cbn [app map nrm kw]; rewrite ?map_app; reflexivity.
    + rewrite (lexflat_lines _ true (ind + 2) body None false (HF (ind + 2))) by reflexivity.
      destruct r; cbn [app map nrm kw]; rewrite ?map_app; reflexivity.
  - assert (HF : forall k, Forall (fun gn => lexseq (canon (snd gn) k) = map nrm (lexseq (snd gn))) body).
    { intros k. clear -IHb. induction body as [|[g n] t IH]; [constructor|]. inversion IHb; subst. constructor; [auto|apply IH; assumption]. }
    destruct body as [|b0 body'].
    { cbn [canon]. rewrite !lexseq_list. reflexivity. }
    set (body := b0 :: body') in *. assert (Hb : body <> []) by discriminate. clearbody body.
    rewrite (canon_list_eq body cg ind Hb).
    destruct (negb (has_nl (ctext (CList body cg)))); rewrite !lexseq_list.
    + rewrite (lexflat_inline _ body (HF ind)). cbn [app map nrm kw]. rewrite ?map_app. reflexivity.
    + rewrite (lexflat_lines _ false (ind + 2) body None false (HF (ind + 2))) by reflexivity.
      cbn [app map nrm kw]. rewrite ?map_app. reflexivity.
Qed.
Print Assumptions output_text.
Print Assumptions lexseq_canon.

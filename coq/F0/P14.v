(* Proof spike, part 14: the specification's text is the text of the canonicalised syntax tree. *)
From Coq Require Import List Ascii String Bool Arith Lia.
Import ListNotations.
From F0 Require Import F0s Specs P1 P2 P3g P5 P6 P7 P8 P9 P10 P11 Canon P12 P13 Canonize.
Open Scope char_scope.

Lemma flat_canon_lines (cc : cnode -> cnode) core nb ind : forall l prev seen,
  Forall (fun gn => is_cmt (snd gn) = false -> ctext (cc (snd gn)) = core (snd gn)) l ->
  flat (canon_lines cc nb ind l prev seen) = seq_lines core nb ind l prev seen.
Proof.
  induction l as [|[g n] t IH]; intros prev seen HF; [reflexivity|].
  inversion HF as [|? ? Hn Ht]; subst. cbn [snd] in Hn.
  cbn [canon_lines seq_lines flat]. rewrite (IH _ _ Ht).
  destruct (is_cmt n) eqn:En.
  - unfold ccmt. cbn [ctext].
    match goal with |- context [if ?b then _ else _] => destruct b end.
    + reflexivity.
    + rewrite spec_comment_shape. unfold cgap. cbn [app]. repeat rewrite <- app_assoc. reflexivity.
  - rewrite (Hn eq_refl). unfold cgap. cbn [app]. repeat rewrite <- app_assoc. reflexivity.
Qed.

Lemma flat_canon_inline (cc : cnode -> cnode) (core : cnode -> str) : forall l,
  inl_ok l ->
  Forall (fun gn => is_cmt (snd gn) = false -> ctext (cc (snd gn)) = core (snd gn)) l ->
  flat (canon_inline cc l) = List.concat (map (cons " ") (map (fun gn => core (snd gn)) l)).
Proof.
  induction l as [|[g n] t IH]; intros Hin HF; [reflexivity|].
  destruct Hin as (Hc & _ & Hin'). inversion HF as [|? ? Hn Ht]; subst. cbn [snd] in Hn.
  cbn [canon_inline flat map List.concat snd]. rewrite (IH Hin' Ht), (Hn Hc). cbn [app]. reflexivity.
Qed.

Lemma canon_set_eq r gr body cg ind : body <> [] ->
  canon (CSet r gr body cg) ind =
  if negb (has_nl (ctext (CSet r gr body cg)))
  then CSet r (grc r) (canon_inline (fun n => canon n (ind + 2)) body) [" "]
  else CSet r (grc r) (canon_lines (fun n => canon n (ind + 2)) true (ind + 2) body None false)
                    (LF :: (if spec_q1 body then [] else blank cg) ++ sp ind).
Proof.
  intros Hb. cbn [canon].
  destruct (negb (has_nl (ctext (CSet r gr body cg)))).
  - match goal with |- context [CSet r (grc r) (?F body) [" "]] =>
      assert (HF : forall l, F l = canon_inline (fun n => canon n (ind + 2)) l) end.
    { induction l as [|[g n] t IH]; [reflexivity|]. cbn [canon_inline]. now rewrite IH. }
    rewrite HF. destruct body; [congruence|reflexivity].
  - match goal with |- context [CSet r (grc r) (?F body None false) _] =>
      assert (HF : forall l p sn, F l p sn = canon_lines (fun n => canon n (ind + 2)) true (ind + 2) l p sn) end.
    { induction l as [|[g n] t IH]; intros p sn; [reflexivity|]. cbn [canon_lines]. now rewrite IH. }
    rewrite HF. destruct body; [congruence|reflexivity].
Qed.
Lemma canon_list_eq body cg ind : body <> [] ->
  canon (CList body cg) ind =
  if negb (has_nl (ctext (CList body cg)))
  then CList (canon_inline (fun n => canon n ind) body) [" "]
  else CList (canon_lines (fun n => canon n (ind + 2)) false (ind + 2) body None false) (LF :: blank cg ++ sp ind).
Proof.
  intros Hb. cbn [canon].
  destruct (negb (has_nl (ctext (CList body cg)))).
  - match goal with |- context [CList (?F body) [" "]] =>
      assert (HF : forall l, F l = canon_inline (fun n => canon n ind) l) end.
    { induction l as [|[g n] t IH]; [reflexivity|]. cbn [canon_inline]. now rewrite IH. }
    rewrite HF. destruct body; [congruence|reflexivity].
  - match goal with |- context [CList (?F body None false) _] =>
      assert (HF : forall l p sn, F l p sn = canon_lines (fun n => canon n (ind + 2)) false (ind + 2) l p sn) end.
    { induction l as [|[g n] t IH]; intros p sn; [reflexivity|]. cbn [canon_lines]. rewrite IH.
      destruct (is_cmt n); [|reflexivity]. destruct p; reflexivity. }
    rewrite HF. destruct body; [congruence|reflexivity].
Qed.

Theorem ctext_canon : forall c, wfF c -> is_cmt c = false -> forall ind, ctext (canon c ind) = spec c ind.
Proof.
  induction c as [isint t|raw|n g1 g2 v g3 IHv|r gr body cg IHb|body cg IHb] using cnode_ind'; intros Hwf Hnc ind.
  - reflexivity.
  - discriminate.
  - cbn [wfF] in Hwf. destruct Hwf as (Hwv & _ & Hvc). cbn [canon spec].
    destruct (has_nl g2); cbn [ctext]; rewrite (IHv Hwv Hvc); unfold cgap; cbn [app]; repeat rewrite <- app_assoc; reflexivity.
  - (* set *)
    cbn [wfF] in Hwf. destruct Hwf as (Hall & _ & Hinl). apply wfF_children_set in Hall.
    assert (HF : forall k, Forall (fun gn => is_cmt (snd gn) = false -> ctext (canon (snd gn) k) = spec (snd gn) k) body).
    { intros k. clear -IHb Hall. induction body as [|[g n] t IH]; [constructor|].
      inversion IHb; subst. inversion Hall; subst. constructor; [|apply IH; assumption]. cbn [snd] in *. auto. }
    destruct body as [|b0 body'].
    { cbn [canon spec]. rewrite ctext_set. cbn [flat app].
      destruct r; destruct (has_empty_line cg); reflexivity. }
    set (body := b0 :: body') in *. assert (Hb : body <> []) by discriminate.
    clearbody body. rewrite (canon_set_eq r gr body cg ind Hb).
    destruct (has_nl (ctext (CSet r gr body cg))) eqn:Hnl; cbn [negb].
    + rewrite (spec_set_multiline r gr body cg ind Hb Hnl). rewrite ctext_set.
      rewrite (flat_canon_lines _ (fun n => spec n (ind + 2)) true (ind + 2) body None false (HF (ind + 2))).
      destruct r; cbn [app]; repeat rewrite <- app_assoc; reflexivity.
    + destruct (Hinl eq_refl) as [_ Hin].
      rewrite (spec_set_inline r gr body cg ind Hb Hnl Hin). rewrite ctext_set.
      rewrite (flat_canon_inline _ (fun n => spec n (ind + 2)) body Hin (HF (ind + 2))).
      rewrite <- join_sp by (destruct body; [congruence|discriminate]).
      destruct r; cbn [app]; repeat rewrite <- app_assoc; reflexivity.
  - (* list *)
    cbn [wfF] in Hwf. destruct Hwf as (Hall & _ & Hinl). apply wfF_children_list in Hall.
    assert (HF : forall k, Forall (fun gn => is_cmt (snd gn) = false -> ctext (canon (snd gn) k) = spec (snd gn) k) body).
    { intros k. clear -IHb Hall. induction body as [|[g n] t IH]; [constructor|].
      inversion IHb; subst. inversion Hall; subst. constructor; [|apply IH; assumption]. cbn [snd] in *. auto. }
    destruct body as [|b0 body'].
    { cbn [canon spec]. rewrite ctext_list. cbn [flat app]. destruct (has_empty_line cg); reflexivity. }
    set (body := b0 :: body') in *. assert (Hb : body <> []) by discriminate.
    clearbody body. rewrite (canon_list_eq body cg ind Hb).
    destruct (has_nl (ctext (CList body cg))) eqn:Hnl; cbn [negb].
    + rewrite (spec_list_multiline body cg ind Hb Hnl). rewrite ctext_list.
      rewrite (flat_canon_lines _ (fun n => spec n (ind + 2)) false (ind + 2) body None false (HF (ind + 2))).
      cbn [app]. repeat rewrite <- app_assoc. reflexivity.
    + destruct (Hinl eq_refl) as [_ Hin].
      rewrite (spec_list_inline body cg ind Hb Hnl Hin). rewrite ctext_list.
      rewrite (flat_canon_inline _ (fun n => spec n ind) body Hin (HF ind)).
      rewrite <- join_sp by (destruct body; [congruence|discriminate]).
      cbn [app]. repeat rewrite <- app_assoc. reflexivity.
Qed.
Print Assumptions ctext_canon.

"""C14 search (labelled test): dictionary laws of the mapping API (document, nested sets, scope mapping) and
agreement between the rebuilt text and the mapping after every operation.  Documents without attrpath-derived
bindings (those are finding F-17).   usage: mapping_search.py SEED N"""
import json, random, sys
from edit_lib import *
seed, N = int(sys.argv[1]), int(sys.argv[2])
R = random.Random(seed * 31 + 14)
viol, dist, samples = [], {}, []
def count(k): dist[k] = dist.get(k, 0) + 1
def bad(what, **case): viol.append(dict(case, what=what))
KEYS = ['a', 'b', 'meta', 'version', "x'", 'k1', 'k2']
def pyval(): return R.choice([R.randrange(100), 's%d' % R.randrange(9), True, False, None, [1, 2], {'q': 1}])
def render(v):
    if isinstance(v, bool): return 'true' if v else 'false'
    if v is None: return 'null'
    if isinstance(v, int): return str(v)
    if isinstance(v, str): return '"%s"' % v
    if isinstance(v, list): return '[ ' + ' '.join(render(x) for x in v) + ' ]' if v else '[ ]'
    if isinstance(v, dict): return '{ ' + ' '.join('%s = %s;' % (k, render(x)) for k, x in v.items()) + ' }' if v else '{ }'
def gen():
    n = R.randint(0, 4); keys = R.sample(KEYS, n); items = []
    for k in keys:
        if R.random() < 0.3: items.append((k, '{\n    %s\n  }' % '\n    '.join('%s = %d;' % (kk, R.randrange(9)) for kk in R.sample(KEYS, R.randint(1, 3)))))
        else: items.append((k, R.choice(['1', '"s"', 'true', '[ 1 ]', './p.nix'])))
    body = '{\n' + ''.join('  %s = %s;\n' % kv for kv in items) + '}' if items else '{ }'
    shape = R.choice(['bare', 'lambda', 'let', 'assert', 'with', 'paren', 'call', 'lambda_call', 'let_ident', 'let_call_ident', 'lambda_let', 'with_ident'])
    if shape == 'lambda': return '{ pkgs }:\n' + body + '\n', shape
    if shape == 'let': return 'let\n  v = 1;\n  w = "s";\nin\n' + body + '\n', shape
    # every other wrapper the document mapping looks through (coverage probe: NixSourceCode._resolve_target_set)
    if shape == 'assert': return 'assert cond;\n' + body + '\n', shape
    if shape == 'with': return 'with pkgs;\n' + body + '\n', shape
    if shape == 'paren': return '(' + body + ')\n', shape
    if shape == 'call': return 'mk ' + body + '\n', shape
    if shape == 'lambda_call': return '{ stdenv }:\nstdenv.mkDerivation ' + body + '\n', shape
    if shape == 'let_ident': return 'let\n  cfg = ' + body.replace('\n', '\n  ') + ';\nin\ncfg\n', shape
    if shape == 'let_call_ident': return 'let\n  cfg = ' + body.replace('\n', '\n  ') + ';\nin\nmk cfg\n', shape
    if shape == 'lambda_let': return '{ pkgs }:\nlet\n  v = 1;\nin\n' + body + '\n', shape
    if shape == 'with_ident': return 'let\n  cfg = ' + body.replace('\n', '\n  ') + ';\nin\nwith { z = 1; };\ncfg\n', shape
    return body + '\n', shape
def text_map(text, path=()):
    t = read_tree(text)
    if t is None: return None
    out = {}
    for k, v in t[0].items():
        if k[:len(path)] == path and len(k) > len(path): out.setdefault(k[len(path)], {})[k[len(path) + 1:]] = v
    return out
# ---- attrpath families: assignment to an EXISTING leaf through the nested mapping must show in the text ----
def dec(n): return n[1:-1] if n.startswith('"') else n          # API keys of quoted names carry their quotes; the independent reader decodes them
for it in range(N // 3):
    root = R.choice(['services', 'meta', 'a', '"q r"', '"a"']); mids = R.sample(['x', 'y', 'z', 'w', '"m n"', '"v"'], R.randint(2, 4)); deep = R.random() < 0.5
    leaf = R.choice(['enable', 'enable', '"e f"'])
    lines = ['  %s.%s%s = %d;' % (root, m, '.' + leaf if deep else '', j) for j, m in enumerate(mids)]
    if R.random() < 0.4: lines = [ln + R.choice([' # keep', ' /* c */', '', '']) for ln in lines]        # eighth round: trivia that the parent attaches to the root binding only
    if R.random() < 0.25: lines = [x for ln in lines for x in ([ln, ''] if R.random() < 0.3 else [ln])]; lines = lines[:-1] if lines[-1] == '' else lines
    extra = ['  other = 1;'] if R.random() < 0.5 else []
    R.shuffle(extra)
    text = '{\n' + '\n'.join(extra[:1] + lines + extra[1:]) + '\n}\n'
    src = parse(text); m = R.choice(mids); v = R.randrange(100, 200); count('attrpath-leaf-assign' + ('/quoted' if '"' in root + m + (leaf if deep else '') else ''))
    try:
        # the mapping reports every written name, and only those
        want_top = {dec(root)} | ({'other'} if extra else set())
        tm0 = text_map(src.rebuild())
        if set(tm0) != want_top: bad('independent reader and generator disagree (harness)', doc=text)
        for k_api in [root] + (['other'] if extra else []):
            try: src[k_api]
            except KeyError: bad('a top-level name written in attrpath form is not found by the document mapping', doc=text, key=k_api)
        inner = src[root]
        for mm in mids:
            try: inner[mm]
            except KeyError: bad('a second-level name written in attrpath form is not found by the nested mapping', doc=text, key=[root, mm])
        if deep: src[root][m][leaf] = v; got = src[root][m][leaf]
        else: src[root][m] = v; got = src[root][m]
        gv = got.rebuild() if hasattr(got, 'rebuild') else str(got)
        after = read_tree(src.rebuild())
        key = (dec(root), dec(m), dec(leaf)) if deep else (dec(root), dec(m))
        if ' '.join(gv.split()) != str(v): bad('lookup after a nested assignment returns %r' % gv, doc=text, ops=[['assign', list(key), v]])
        elif after is None or after[0].get(key) != str(v): bad('assignment to an attrpath-derived leaf through the nested mapping is not shown by the rebuilt text', doc=text, ops=[['assign', list(key), v]], text=src.rebuild())
    except Exception as e:
        bad('nested assignment crashed: %s %s' % (type(e).__name__, e), doc=text)
# ---- scope mapping emptied and refilled: every let with 1..3 bindings, every deletion order, then a new key (third round of seeds) ----
import itertools
for nb in (1, 2, 3):
    names = ['a', 'b', 'c'][:nb]
    for order in itertools.permutations(names):
        for body in ('{ x = 2; }', '{\n  x = 2;\n}'):
            text = 'let\n' + ''.join('  %s = %d;\n' % (n_, i) for i, n_ in enumerate(names)) + 'in\n' + body + '\n'
            src = parse(text); m = src.expressions[0].scope; ops = []; count('scope/empty-and-refill')
            try:
                for k in order:
                    del m[k]; ops.append(['scope', 'del', k])
                    ly = read_layers(src.rebuild()); left = set(names) - {o[2] for o in ops}
                    if ly is None or set(ly[0] if ly else {}) != left: bad('scope deletion not shown by the rebuilt text', doc=text, ops=ops[:], text=src.rebuild()); break
                else:
                    m['fresh'] = 7; ops.append(['scope', 'set', 'fresh'])
                    ly = read_layers(src.rebuild())
                    if not ly or ly[0] != {'fresh': '7'}: bad('after emptying the let scope, an assignment is not shown alone by the rebuilt text', doc=text, ops=ops[:], text=src.rebuild())
                    for k in names:
                        try: m[k]; bad('a deleted scope key is found again', doc=text, ops=ops[:], key=k)
                        except KeyError: pass
            except Exception as e:
                bad('scope mapping crashed: %s %s' % (type(e).__name__, e), doc=text, ops=ops[:])
# ---- string values through the mapping (seventh round): whatever Python string is assigned, the rebuilt text parses and Nix reads the same
# string back from it, other keys untouched (strings with `${` are outside the domain of the construction API, as C13 says) — at the top level, in a nested set and in the let scope
import nixread
STRS = ['plain', 'x\\', '\\', 'C:\\tmp', 'back\\slash', 'a\\nb', 'q"q', 'q\\"q', '$x', '$ {x}', "''", 'a\nb', 'tab\tx', 'cr\rx', '\\$', 'é→', '', ' ', '#c', '/*', 'a\\\\']
def str_at(t, path):
    n = nixread.set_node(nixread.ts(t))
    if path and path[0] == '@':
        root = nixread.ts(t); lets = [c for c in root.children if c.type == 'let_expression']
        if not lets: return None, None
        n = lets[0]; path = path[1:]
    for i, seg in enumerate(path):
        hit = None
        for b in (nixread.bindings(n) if n is not None and n.type != 'let_expression' else [b for c in n.children if c.type == 'binding_set' for b in c.children]):
            if b.type == 'binding' and nixread.attr_names(b.child_by_field_name('attrpath')) == [seg]: hit = b.child_by_field_name('expression')
        if hit is None: return None, None
        n = hit
    return n, (nixread.decode_string(n) if n.type == 'string_expression' else None)
for base, where in [('{\n  a = 1;\n  n = {\n    b = 2;\n  };\n}\n', 'top'), ('{\n  a = 1;\n  n = {\n    b = 2;\n  };\n}\n', 'nested'), ('let\n  v = 1;\nin\n{\n  a = v;\n}\n', 'scope'), ('{ pkgs }:\n{\n  a = 1;\n}\n', 'top')]:
    for sv in STRS:
        for again in (False, True):
            count('string-value/' + where)
            try:
                src = parse(base)
                m = src if where == 'top' else src['n'] if where == 'nested' else src.expressions[0].scope
                m['k'] = sv
                if again: m['z'] = 'y'
                t = src.rebuild(); path = {'top': ['k'], 'nested': ['n', 'k'], 'scope': ['@', 'k']}[where]
                if nixread.ts(t).has_error: bad('text after assigning a string does not parse', doc=base, value=sv, where=where, text=t); continue
                node, back = str_at(t, path)
                if node is None or back != sv: bad('the rebuilt text does not show the assigned string (Nix reads %r, assigned %r)' % (back, sv), doc=base, value=sv, where=where, text=t)
                keep = {'top': ['a'], 'nested': ['n', 'b'], 'scope': ['@', 'v']}[where]
                if str_at(t, keep)[0] is None: bad('another key disappeared after assigning a string', doc=base, value=sv, where=where, text=t)
            except Exception as e:
                bad('assigning a string crashed: %s %s' % (type(e).__name__, e), doc=base, value=sv, where=where)
# ---- a value taken from the document itself (ninth round): assigning a set that the mapping returned — attrpath-derived and merged, explicit, or
# from the let scope — to another key, in the same or another document; the text must show under the new key exactly what the mapping reports there
def names_of(m):
    vs = getattr(m, 'values', None)
    items = vs if isinstance(vs, list) else (list(m) if not isinstance(m, (str, bytes)) and hasattr(m, '__iter__') else [])
    return [b.name for b in items if hasattr(b, 'name') and hasattr(b, 'value')]
def is_map(v): return type(v).__name__ in ('AttributeSet', 'Scope') and bool(names_of(v))
def leaves_of(m, prefix=()):
    """what the mapping reports below m: every name through item access, sets followed"""
    out = {}
    for k in names_of(m):
        v = m[k]
        if is_map(v): out.update(leaves_of(v, prefix + (dec(k),)))
        else: out[prefix + (dec(k),)] = ' '.join((v.rebuild() if hasattr(v, 'rebuild') else render(v)).split())
    return out
ALIAS_DOCS = [('{\n  services.web.tls.enable = true;\n  services.web.port = 80;\n  services.db = "pg";\n  backup = 1;\n}\n', 'services', 'top'),
              ('{\n  a.b.c.d = 1;\n  z = 0;\n}\n', 'a', 'top'), ('{\n  a.b = 1;\n  a.c.d = 2;\n  a.c.e = 3;\n  z = 0;\n}\n', 'a', 'top'),
              ('{\n  cfg = {\n    x = 1;\n    y.z = 2;\n    y.w = 3;\n  };\n  z = 0;\n}\n', 'cfg', 'top'),
              ('let\n  cfg.net.a = 1;\n  cfg.net.b = 2;\nin\n{\n  x = 0;\n}\n', 'cfg', 'scope')]
for text, key, where in ALIAS_DOCS:
    for target in ('same', 'other', 'nested'):
        count('alias-assign/' + where + '/' + target)
        try:
            d = parse(text); val = d[key] if where == 'top' else d.expr.scope[key]
            if not is_map(val): bad('harness: the value taken from the document is not a mapping', doc=text, key=key); continue
            want = leaves_of(val)
            if target == 'same': d['k9'] = val; t = d.rebuild(); path = ('k9',)
            elif target == 'other': o = parse('{\n  top = 1;\n}\n'); o['k9'] = val; t = o.rebuild(); path = ('k9',)
            else: o = parse('{\n  top = {\n    u = 1;\n  };\n}\n'); o['top']['k9'] = val; t = o.rebuild(); path = ('top', 'k9')
            tr = read_tree(t)
            if tr is None: bad('text after assigning a set taken from a document does not parse', doc=text, key=key, target=target, text=t); continue
            got = {k_[len(path):]: v_ for k_, v_ in tr[0].items() if k_[:len(path)] == path}
            if got != want: bad('the rebuilt text does not show under the new key what the mapping reports for the assigned set', doc=text, key=key, target=target, text=t, mapping=sorted(map(str, want.items())), shown=sorted(map(str, got.items())))
        except Exception as e: bad('assigning a set taken from a document crashed: %s %s' % (type(e).__name__, e), doc=text, key=key, target=target)
# ---- a let-scoped expression that is a binding VALUE (eleventh round): its scope mapping and the text agree also after the document has been rendered
# (rendering copies the value when trivia follows it; the copy must not become what the scope writes through)
def let_names(t, key):
    root = nixread.ts(t)
    if root.has_error: return None
    sn = nixread.set_node(root)
    for b in nixread.bindings(sn):
        if b.type == 'binding' and nixread.attr_names(b.child_by_field_name('attrpath')) == [key]:
            v = b.child_by_field_name('expression')
            while v is not None and v.type == 'parenthesized_expression': v = v.child_by_field_name('expression')
            if v is None or v.type != 'let_expression': return []
            return [bb.child_by_field_name('attrpath').text.decode() for c in v.children if c.type == 'binding_set' for bb in c.children if bb.type == 'binding']
    return None
# twelfth round: every kind of value body under the let (empty containers and scalars have render shortcuts of their own), with the let already there or created by the edit
SCOPED_BODIES = ['[ ]', '{ }', '[ 1 ]', '1', '"s"', 'f y', 'p.q', './p.nix', "''s''", '(1)', 'rec { }', 'null']
for body_ in SCOPED_BODIES:
    for base, scripts in [('{ x = %s; w = 1; }\n' % body_, (['add'], ['add', 'add2'])), ('{\n  x = %s;\n  w = 1;\n}\n' % body_, (['add'],)),
                          ('{ x = let a = 1; in %s; }\n' % body_, ([], ['add'], ['add', 'del'])), ('{\n  x =\n    let\n      a = 1;\n    in\n    %s;\n}\n' % body_, ([], ['add']))]:
        for script in scripts:
            count('scoped-value-bodies')
            try:
                d = parse(base); sc = d['x'].scope
                for st_ in script:
                    if st_ == 'add': sc['w'] = 5
                    elif st_ == 'add2': sc['u'] = 6
                    else: del sc['a']
                want = names_of(sc); t = d.rebuild(); shown = let_names(t, 'x')
                if shown is None: bad('text after a scope edit of a binding value does not parse', doc=base, ops=script, text=t)
                elif sorted(shown) != sorted(want): bad('the let of a binding value shows %r, its scope mapping reports %r' % (shown, want), doc=base, ops=script, text=t)
            except Exception as ex: bad('scope mapping of a binding value raises %s: %s' % (type(ex).__name__, ex), doc=base, ops=script)
for base in ['{\n  x = let a = 1; in { y = a; } /* note */;\n  z = 2;\n}\n', '{\n  x = let a = 1; in { y = a; }; # eol\n  z = 2;\n}\n', '{\n  x = let a = 1; b = 2; in [ a b ];\n}\n', '{\n  x = (let a = 1; in { y = a; }) /* p */;\n}\n']:
    for render_first in (False, True):
        for script in (['add'], ['del'], ['add', 'del'], ['add', 'add2', 'del']):
            count('scoped-value/' + ('rendered' if render_first else 'fresh'))
            try:
                d = parse(base); val = d['x']
                while type(val).__name__ == 'Parenthesis': val = val.value
                sc = val.scope
                if render_first: d.rebuild(); repr(d)
                for st_ in script:
                    if st_ == 'add': sc['w'] = 5
                    elif st_ == 'add2': sc['u'] = 6
                    else: del sc['a']
                want = names_of(sc); t = d.rebuild(); shown = let_names(t, 'x')
                if shown is None: bad('text after a scope edit of a binding value does not parse', doc=base, ops=script, text=t)
                elif sorted(shown) != sorted(want): bad('the let of a binding value shows %r, its scope mapping reports %r' % (shown, want), doc=base, ops=script, rendered_before=render_first, text=t)
            except Exception as e: bad('scope edit of a binding value crashed: %s %s' % (type(e).__name__, e), doc=base, ops=script)
for it in range(N):
    text, shape = gen(); src = parse(text); ops = []
    for step in range(R.randint(1, 6)):
        tm = text_map(src.rebuild())
        target = R.choice(['top', 'top', 'nested', 'scope'] if shape == 'let' else ['top', 'top', 'nested'])
        case = dict(doc=text, ops=ops)
        try:
            if target == 'scope':
                body = src.expressions[0]; m = body.scope; _ly = read_layers(src.rebuild()); known = _ly[0] if _ly else {}      # the let disappears with its last binding and comes back with the next assignment
                k = R.choice(sorted(known) + ['z']); action = R.choice(['get', 'set', 'del'])
                ops.append(['scope', action, k]); count('scope/' + action)
                if action == 'get':
                    try: m[k]; ok = True
                    except KeyError: ok = False
                    if ok != (k in known): bad('scope lookup disagrees with the text', **case)
                elif action == 'set':
                    v = R.randrange(100); m[k] = v
                    after = read_layers(src.rebuild())
                    if not after or after[0].get(k) != str(v) or set(after[0]) != set(known) | {k}: bad('scope assignment not shown by the rebuilt text', text=src.rebuild(), **case)
                else:
                    if k in known:
                        del m[k]
                        try: m[k]; bad('scope lookup succeeds after del', **case)
                        except KeyError: pass
                        after = read_layers(src.rebuild())
                        if after is None or set(after[0] if after else {}) != set(known) - {k}: bad('scope deletion not shown by the rebuilt text', text=src.rebuild(), **case)
                    elif k not in known:
                        before = src.rebuild()
                        try: del m[k]; bad('del of a missing scope key does not raise', **case)
                        except KeyError: pass
                        if src.rebuild() != before: bad('del of a missing key has side effects', **case)
                continue
            if target == 'nested':
                cands = [k for k, sub in tm.items() if () not in sub]
                nonmap = [k for k, sub in tm.items() if () in sub and not sub[()].startswith('{')]
                if nonmap and R.random() < 0.3:
                    k = R.choice(nonmap); ops.append(['nonmapping-assign', k]); count('nonmapping')
                    before = src.rebuild()
                    try: src[k]['z'] = 5; bad('assigning into a non-mapping value does not raise', text=src.rebuild(), **case)
                    except Exception: pass
                    if src.rebuild() != before: bad('failed assignment into a non-mapping value changed the text', **case)
                    continue
                if not cands: continue
                outer = R.choice(cands); m = src[outer]; path = (outer,)
            else:
                m = src; path = ()
            cur = text_map(src.rebuild(), path)
            k = R.choice(sorted(cur) + KEYS[:3]); action = R.choice(['get', 'set', 'set', 'del'])
            ops.append([target, action, k]); count(target + '/' + action + ('/hit' if k in cur else '/miss'))
            if action == 'get':
                try: m[k]; ok = True
                except KeyError: ok = False
                if ok != (k in cur): bad('lookup disagrees with the rebuilt text', text=src.rebuild(), **case)
            elif action == 'set':
                v = pyval(); m[k] = v
                got = m[k]
                gv = got.rebuild() if hasattr(got, 'rebuild') else render(got)
                if ' '.join(gv.split()) != render(v): bad('lookup after assignment returns %r, assigned %r' % (gv, render(v)), **case)
                after = text_map(src.rebuild(), path)
                if after is None: bad('text after assignment does not parse', text=src.rebuild(), **case); break
                if set(after) != set(cur) | {k}: bad('number of other keys changed / text does not show the mapping', text=src.rebuild(), **case)
                else:
                    for kk in cur:
                        if kk != k and after[kk] != cur[kk]: bad('another key changed by an assignment', text=src.rebuild(), **case)
                    if isinstance(v, dict): ok = after[k] == {(kk,): render(x) for kk, x in v.items()} or (not v and after[k] == {(): '{ }'})
                    else: ok = after[k] == {(): render(v)}
                    if not ok: bad('rebuilt text does not show the assigned value', text=src.rebuild(), **case)
            else:
                before = src.rebuild(); snap = snapshot(src)
                if k in cur:
                    del m[k]
                    try: m[k]; bad('lookup succeeds after del', **case)
                    except KeyError: pass
                    after = text_map(src.rebuild(), path)
                    if after is None or set(after) != set(cur) - {k}: bad('deletion not shown by the rebuilt text', text=src.rebuild(), **case)
                else:
                    try: del m[k]; bad('del of a missing key does not raise KeyError', **case)
                    except KeyError: pass
                    if src.rebuild() != before or snapshot(src) != snap: bad('del of a missing key has side effects', **case)
        except Exception as e:
            bad('mapping operation crashed: %s %s' % (type(e).__name__, e), **case); break
    if len(samples) < 2: samples.append({'doc': text, 'ops': ops})
# ---- fourteenth round (unconditional): the mapping's set is reached through a NAME bound more than once on the way (nested `with`s, an outer let above
# an assert / lambda / parentheses and an inner let or with): doc[key], doc[key] = v and del doc[key] operate on the set Nix's scoping names — the
# innermost binding — and the text shows it there (expected texts written down, compared modulo white space)
NAMED_MAPS = [
    ('with { cfg = { a = 1; }; }; with { cfg = { b = 2; }; }; cfg', 'b', 2, 'a', 'with { cfg = { a = 1; }; }; with { cfg = { b = 2; zz = 9; }; }; cfg', 'with { cfg = { a = 1; }; }; with { cfg = { }; }; cfg'),
    ('with { cfg = 1; }; with { cfg = { b = 2; }; }; cfg', 'b', 2, 'a', 'with { cfg = 1; }; with { cfg = { b = 2; zz = 9; }; }; cfg', 'with { cfg = 1; }; with { cfg = { }; }; cfg'),
    ('let cfg = { a = 1; }; in assert true; with { cfg = { b = 2; }; }; cfg', 'b', 2, 'a', 'let cfg = { a = 1; }; in assert true; with { cfg = { b = 2; zz = 9; }; }; cfg', 'let cfg = { a = 1; }; in assert true; with { cfg = { }; }; cfg'),
    ('let cfg = { a = 1; }; in (let cfg = { b = 2; }; in cfg)', 'b', 2, 'a', 'let cfg = { a = 1; }; in (let cfg = { b = 2; zz = 9; }; in cfg)', 'let cfg = { a = 1; }; in (let cfg = { }; in cfg)'),
    ('let cfg = { a = 1; }; in { z }: let cfg = { b = 2; }; in cfg', 'b', 2, 'a', 'let cfg = { a = 1; }; in { z }: let cfg = { b = 2; zz = 9; }; in cfg', 'let cfg = { a = 1; }; in { z }: let cfg = { }; in cfg'),
    ('with { cfg = { a = 1; }; }; with { other = { b = 2; }; }; cfg', 'a', 1, 'b', 'with { cfg = { a = 1; zz = 9; }; }; with { other = { b = 2; }; }; cfg', 'with { cfg = { }; }; with { other = { b = 2; }; }; cfg'),
]
sq_ = lambda t: ' '.join(t.split())
for text_, key_, val_, absent_, after_set_, after_del_ in NAMED_MAPS:
    count('named-map')
    try:
        d_ = parse(text_ + '\n'); got_ = d_[key_]; got_ = getattr(got_, 'value', got_)
        if got_ != val_: bad('doc[key] through a name bound twice does not read the innermost binding', doc=text_, key=key_, got=repr(got_), expected=val_)
        try: d_[absent_]; bad('doc[key] finds a key of the SHADOWED set', doc=text_, key=absent_)
        except KeyError: pass
        d_['zz'] = 9
        if sq_(d_.rebuild()) != sq_(after_set_): bad('doc[key] = v through a name bound twice is written into another set', doc=text_, key='zz', out=d_.rebuild(), expected=after_set_)
        d2_ = parse(text_ + '\n'); del d2_[key_]
        if sq_(d2_.rebuild()) != sq_(after_del_): bad('del doc[key] through a name bound twice removes from another set', doc=text_, key=key_, out=d2_.rebuild(), expected=after_del_)
    except Exception as ex_:
        bad('mapping access through a name bound twice raises %s: %s' % (type(ex_).__name__, ex_), doc=text_)
print(json.dumps({'evaluations': sum(dist.values()), 'distinct': len(dist), 'distribution': dist, 'violations': viol[:6], 'n_violations': len(viol), 'samples': samples}, default=str))

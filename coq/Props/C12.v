(* C12 — attribute names in paths are written and matched faithfully.
   Every theorem here is about definitions REGENERATED from /repo on this run (Dyn.Gen: _escape_nix_string,
   _NPATH_IDENTIFIER_RE, _NIX_KEYWORDS, _parse_npath, _format_attr_name, _split_attrpath) and the hand-written
   spec of Nix's lexer (Lex.NixLex.nix_read, Lex.NixAttr.nix_attr_read).  Statements only; proofs are in Dyn/. *)
From Coq Require Import List Ascii Bool Arith.
Import ListNotations.
From Lex Require Import NixLex NixAttr.
From Dyn Require Import Gen Refine NPathProofs SplitProofs AttrName NPathInv.

(* every list of names, whatever characters they contain, is addressed by the path that quotes each name *)
Theorem C12_addressable : forall names : list str, names <> [] ->
  _parse_npath (quote_path names) = Ok (map (fun n => (n, true)) names).
Proof. exact NPathProofs.C12_addressable. Qed.
Print Assumptions C12_addressable.

(* what `set` writes for a segment is read by Nix as exactly the segment's name (quoted or bare, keywords included) *)
Theorem C12_written : forall seg : str * bool, nix_attr_read (_format_attr_name seg) = Some (fst seg).
Proof. exact AttrName.C12_written. Qed.
Print Assumptions C12_written.

(* the escaper alone: Nix reads back every string *)
Theorem C12_written_core : forall s : str, nix_read (_escape_nix_string true s) = Some s.
Proof. exact Refine.C12_written_core. Qed.
Print Assumptions C12_written_core.

(* binding.py splits a written path exactly at the dots between the written names *)
Theorem C12_split_written : forall segs : list (str * bool), segs <> [] ->
  _split_attrpath (joind (map _format_attr_name segs)) = Ok (map _format_attr_name segs).
Proof. exact AttrName.C12_split_written. Qed.
Print Assumptions C12_split_written.

(* the same path text always denotes the same names: the written form determines the name *)
Theorem C12_written_injective : forall a b : str * bool, _format_attr_name a = _format_attr_name b -> fst a = fst b.
Proof. exact AttrName.C12_written_injective. Qed.
Print Assumptions C12_written_injective.

(* malformed paths: an accepted path is non-empty and each of its unquoted segments is an identifier *)
Theorem C12_accepted_wellformed : forall p segs, _parse_npath p = Ok segs ->
  p <> [] /\ segs <> [] /\ Forall (fun sg : str * bool => snd sg = false -> re_npath_ident (fst sg) = true) segs.
Proof. exact NPathInv.accepted_wellformed. Qed.
Print Assumptions C12_accepted_wellformed.

(* the four remaining malformed classes are rejected, for every name *)
Theorem C12_malformed : forall name : str,
  _parse_npath [] = Err 3 /\
  _parse_npath (dq :: enc name) = Err 62 /\
  _parse_npath (dq :: enc name ++ [bs]) = Err 60 /\
  _parse_npath (c 97 :: quote name) = Err 52.
Proof. exact NPathInv.malformed_rejected. Qed.
Print Assumptions C12_malformed.

(* FULL statement "spellings that Nix reads as the same name denote one attribute" is REFUTED for the code as it is
   (finding F-13): the two spellings of the name `a` are written differently, and lookups compare the written text *)
Definition C12_one_spelling_full : Prop :=
  forall a b : str * bool, fst a = fst b -> _format_attr_name a = _format_attr_name b.
Theorem C12_one_spelling_full_refuted : ~ C12_one_spelling_full.
Proof. exact NPathInv.one_spelling_refuted. Qed.
Print Assumptions C12_one_spelling_full_refuted.

"""Independent reader of Nix DATA from text, over the tree-sitter CST: attribute sets (attrpaths and nested sets),
lists, strings (decoded by nixread.nix_read), integers (incl. unary minus), floats, booleans, null, parentheses."""
from nixread import ts, nix_read, attr_names
class NotData(Exception): pass
def read(node):
    t = node.type
    if t == 'source_code':
        ks = [c for c in node.children if c.type != 'comment']
        if len(ks) != 1: raise NotData('%d top-level expressions' % len(ks))
        return read(ks[0])
    if t == 'parenthesized_expression': return read(node.child_by_field_name('expression'))
    if t == 'integer_expression': return int(node.text)
    if t == 'float_expression': return float(node.text)
    if t == 'unary_expression':
        op = node.child_by_field_name('operator').text.decode(); v = read(node.child_by_field_name('argument'))
        if op == '-' and isinstance(v, (int, float)) and not isinstance(v, bool): return -v
        raise NotData('unary ' + op)
    if t == 'variable_expression':
        n = node.text.decode()
        if n in ('true', 'false'): return n == 'true'
        if n == 'null': return None
        raise NotData('identifier ' + n)
    if t == 'string_expression':
        v = nix_read(node.text.decode('utf8', 'surrogateescape')[1:-1])
        if v is None: raise NotData('string with interpolation')
        return v
    if t == 'list_expression': return [read(c) for c in node.children if c.type not in ('[', ']', 'comment')]
    if t in ('attrset_expression', 'rec_attrset_expression'):
        out = {}
        for c in node.children:
            if c.type != 'binding_set': continue
            for b in c.children:
                if b.type != 'binding': raise NotData(b.type)
                names = attr_names(b.child_by_field_name('attrpath'))
                if names is None: raise NotData('attrpath')
                cur = out
                for nm in names[:-1]: cur = cur.setdefault(nm, {})
                if names[-1] in cur: raise NotData('duplicate ' + names[-1])
                cur[names[-1]] = read(b.child_by_field_name('expression'))
        return out
    raise NotData(t)
def read_text(text):
    root = ts(text)
    if root.has_error: raise NotData('syntax error')
    return read(root)

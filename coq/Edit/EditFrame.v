(* Proof spike for C04/C05 (leaf edits): overwriting the atom of an existing binding [l] yields exactly the old
   document with the text owned by [l] replaced — every other name, every other value, the order and the
   nesting are those of the old document.  Stated with the atom renderer [ar] of view_value_g. *)
From Coq Require Import List Ascii String Bool Arith Lia.
Import ListNotations.
From E Require Import EditModel EditProofs.

Lemma fold_left_ext {A B} (f g : A -> B -> A) : forall l a, (forall a b, In b l -> f a b = g a b) -> fold_left f l a = fold_left g l a.
Proof.
  induction l as [|b l IH]; intros a H; [reflexivity|]. cbn [fold_left]. rewrite (H a b (or_introl eq_refl)).
  apply IH. intros a' b' Hin. apply H. now right.
Qed.

Section Frame.
  Variables (s : st) (l : nat) (t0 t : str).
  Hypothesis Hold : val_of s l = VAt t0.
  Hypothesis Hex : hget (hp s) l <> None.
  Let s' := set_val s l (VAt t).

  Lemma name_same i : name_of s' i = name_of s i.
  Proof.
    unfold s', name_of, set_val. destruct (hget (hp s) l) as [b|] eqn:E; [|reflexivity]. cbn [hp with_hp].
    destruct (Nat.eq_dec l i) as [->|Hn].
    - rewrite (hget_hset_same _ _ _ _ E), E. reflexivity.
    - rewrite hget_hset_other by exact Hn. reflexivity.
  Qed.
  Lemma nested_same i : nested_of s' i = nested_of s i.
  Proof.
    unfold s', nested_of, set_val. destruct (hget (hp s) l) as [b|] eqn:E; [|reflexivity]. cbn [hp with_hp].
    destruct (Nat.eq_dec l i) as [->|Hn].
    - rewrite (hget_hset_same _ _ _ _ E), E. reflexivity.
    - rewrite hget_hset_other by exact Hn. reflexivity.
  Qed.
  Lemma val_new : val_of s' l = VAt t.
  Proof. apply val_of_set_val_same, Hex. Qed.
  Lemma val_other i : i <> l -> val_of s' i = val_of s i.
  Proof. intros H. apply val_of_set_val_other. congruence. Qed.
  Lemma vset_same i : is_vset (val_of s' i) = is_vset (val_of s i).
  Proof. destruct (Nat.eq_dec i l) as [->|Hn]; [now rewrite val_new, Hold|now rewrite val_other]. Qed.

  (* flattening of nested attrpath roots sees the same structure *)
  Lemma expand_same (lv lv' : nat -> tree) : (forall i, lv' i = lv i) ->
    forall g bid prefix, expand s' lv' g bid prefix = expand s lv g bid prefix.
  Proof.
    intros Hlv. induction g as [|g IH]; intros bid prefix; [reflexivity|]. cbn [expand].
    destruct (Nat.eq_dec bid l) as [->|Hn].
    - rewrite val_new, Hold. reflexivity.
    - rewrite (val_other bid Hn). destruct (val_of s bid) as [tx|cv cord cm]; [reflexivity|].
      apply fold_left_ext. intros acc iid _. destruct acc as [out|]; [|reflexivity].
      rewrite nested_same, vset_same, name_same, IH, Hlv. reflexivity.
  Qed.

  Definition override (ar : nat -> str -> str) : nat -> str -> str := fun i x => if i =? l then ar i t else ar i x.

  Lemma view_frame ar : forall f o v v',
    match o with Some i => v' = val_of s' i /\ v = val_of s i | None => v' = v end ->
    view_value_g ar f s' o v' = view_value_g (override ar) f s o v.
  Proof.
    induction f as [|f IH]; intros o v v' Hrel; [reflexivity|].
    assert (Hcase : (o = Some l /\ v = VAt t0 /\ v' = VAt t) \/ (v' = v /\ o <> Some l)).
    { destruct o as [i|]; [|right; split; [exact Hrel|discriminate]]. destruct Hrel as [-> ->].
      destruct (Nat.eq_dec i l) as [->|Hn].
      - left. rewrite val_new, Hold. repeat split.
      - right. split; [apply val_other, Hn|congruence]. }
    destruct Hcase as [(-> & -> & ->)|[-> Ho]].
    - cbn [view_value_g]. unfold override. rewrite Nat.eqb_refl. reflexivity.
    - cbn [view_value_g]. destruct v as [tx|vals order ml].
      + destruct o as [i|]; [|reflexivity]. unfold override.
        destruct (i =? l) eqn:E; [apply Nat.eqb_eq in E; subst i; congruence|reflexivity].
      + destruct vals as [|v0 vals']; [reflexivity|]. f_equal.
        assert (Hlv : forall i, view_value_g ar f s' (Some i) (val_of s' i) = view_value_g (override ar) f s (Some i) (val_of s i)).
        { intros i. apply IH. split; reflexivity. }
        apply flat_map_ext. intros e. destruct e as [bid|sg leaf].
        * rewrite nested_same, name_same. rewrite (expand_same _ _ Hlv). rewrite Hlv. reflexivity.
        * rewrite Hlv. reflexivity.
  Qed.

  (* the document after the edit = the old document with the atom at [l] shown as [t] *)
  Theorem leaf_edit_frame : view s' = view_value_g (override (fun _ x => x)) 1000 s None (VSet (rvals s) (rorder s) (rml s)).
  Proof.
    unfold view, view_value.
    assert (Hr : rvals s' = rvals s /\ rorder s' = rorder s /\ rml s' = rml s).
    { unfold s', set_val. destruct (hget (hp s) l); repeat split. }
    destruct Hr as (-> & -> & ->). apply view_frame. reflexivity.
  Qed.
End Frame.
Print Assumptions leaf_edit_frame.

(* with the operation: a set on an existing leaf *)
Theorem C04_leaf s segs l t0 t :
  find_leaf s SRoot segs = Some l -> val_of s l = VAt t0 -> hget (hp s) l <> None ->
  snd (m_set s segs (VAt t)) = Ok tt /\
  view (fst (m_set s segs (VAt t))) =
  view_value_g (override l t (fun _ x => x)) 1000 s None (VSet (rvals s) (rorder s) (rml s)).
Proof.
  intros Hl Hv Hex. unfold m_set. rewrite Hl. cbn [fst snd]. split; [reflexivity|].
  apply (leaf_edit_frame s l t0 t Hv Hex).
Qed.
Print Assumptions C04_leaf.

(* ---------- C19 (repeatable) for leaf edits: writing the same atom twice is writing it once ---------- *)
Section Repeat.
  Variables (s : st) (l : nat) (t0 t : str).
  Hypothesis Hold : val_of s l = VAt t0.
  Hypothesis Hex : hget (hp s) l <> None.
  Local Notation s' := (set_val s l (VAt t)).

  Lemma vals_of_same r : vals_of s' r = vals_of s r.
  Proof.
    unfold vals_of, get_set. destruct r as [|o].
    - unfold set_val. destruct (hget (hp s) l); reflexivity.
    - destruct (Nat.eq_dec o l) as [->|Hn].
      + rewrite (val_new s l t Hex), Hold. reflexivity.
      + rewrite (val_other s l t o Hn). reflexivity.
  Qed.
  Lemma find_named_same ids key nb : find_named s' ids key nb = find_named s ids key nb.
  Proof.
    induction ids as [|i ids IH]; [reflexivity|]. cbn [find_named].
    rewrite (name_same s l t0 t Hold Hex), (nested_same s l t0 t Hold Hex), IH. reflexivity.
  Qed.
  Lemma find_root_same ids root : find_root s' ids root = find_root s ids root.
  Proof.
    induction ids as [|i ids IH]; [reflexivity|]. cbn [find_root].
    rewrite (name_same s l t0 t Hold Hex), (nested_same s l t0 t Hold Hex), IH. reflexivity.
  Qed.
  Lemma walk_loop_same : forall segs cur ln rq stack, walk_loop s' cur segs ln rq stack = walk_loop s cur segs ln rq stack.
  Proof.
    induction segs as [|seg rest IH]; intros cur ln rq stack; [reflexivity|]. cbn [walk_loop].
    rewrite vals_of_same, find_named_same.
    destruct (find_named s (vals_of s cur) seg (Some (if match rest with [] => true | _ => false end then ln else true))) as [b|]; [|reflexivity].
    destruct (match rest with [] => true | _ => false end); [reflexivity|].
    rewrite (vset_same s l t0 t Hold Hex), IH. reflexivity.
  Qed.
  Lemma find_leaf_same r segs : find_leaf s' r segs = find_leaf s r segs.
  Proof.
    unfold find_leaf, walk_stack. destruct segs as [|s0 [|s1 rest]]; [reflexivity|reflexivity|].
    rewrite vals_of_same, find_root_same. destruct (find_root s (vals_of s r) s0) as [root|]; [|reflexivity].
    rewrite (vset_same s l t0 t Hold Hex), walk_loop_same. reflexivity.
  Qed.
End Repeat.

Lemma hset_hset h i b b' : hset (hset h i b) i b' = hset h i b'.
Proof.
  induction h as [|[k b0] h IH]; [reflexivity|]. cbn [hset]. destruct (k =? i) eqn:E.
  - cbn [hset]. rewrite E. reflexivity.
  - cbn [hset]. rewrite E, IH. reflexivity.
Qed.
Lemma set_val_idem s l v : set_val (set_val s l v) l v = set_val s l v.
Proof.
  unfold set_val at 1. destruct (hget (hp s) l) as [b|] eqn:E.
  - unfold set_val. rewrite E. cbn [hp with_hp]. rewrite (hget_hset_same _ _ _ _ E). cbn [bname bnested].
    unfold with_hp. cbn [hp nxt rvals rorder rml]. rewrite hset_hset. reflexivity.
  - unfold set_val. rewrite E. rewrite E. reflexivity.
Qed.

Theorem C19_repeat_leaf s segs l t0 t :
  find_leaf s SRoot segs = Some l -> val_of s l = VAt t0 -> hget (hp s) l <> None ->
  fst (m_set (fst (m_set s segs (VAt t))) segs (VAt t)) = fst (m_set s segs (VAt t)).
Proof.
  intros Hl Hv Hex. unfold m_set at 2 3. rewrite Hl. cbn [fst].
  unfold m_set. rewrite (find_leaf_same s l t0 t Hv Hex SRoot segs), Hl. cbn [fst]. apply set_val_idem.
Qed.
Print Assumptions C19_repeat_leaf.

(* C05 for leaf edits, read-back half: after a successful set on an existing leaf, the same path addresses the
   same binding and it now holds the requested value *)
Theorem C05_leaf_readback s segs l t0 t :
  find_leaf s SRoot segs = Some l -> val_of s l = VAt t0 -> hget (hp s) l <> None ->
  let s' := fst (m_set s segs (VAt t)) in
  find_leaf s' SRoot segs = Some l /\ val_of s' l = VAt t.
Proof.
  intros Hl Hv Hex. cbv zeta. unfold m_set. rewrite Hl. cbn [fst]. split.
  - rewrite (find_leaf_same s l t0 t Hv Hex SRoot segs). exact Hl.
  - apply (val_new s l t Hex).
Qed.
Print Assumptions C05_leaf_readback.

"""Common machinery of the checks: static/dynamic Coq builds, Print Assumptions parsing, in-Coq
correspondence shards, known findings, verdict and evidence.  Everything a check does goes through a
`Run` object so that the evidence file is assembled from what this run actually did."""
import fcntl, hashlib, json, os, re, shutil, subprocess, sys, time

VERIF = os.path.dirname(os.path.dirname(os.path.abspath(__file__)))
REPO = os.environ.get('NIMA_REPO', '/repo')
COQ = os.path.join(VERIF, 'coq')
PY = '/venv/bin/python'
NS = [('F0', 'F0'), ('Edit', 'E'), ('Resolve', 'R'), ('Chain', 'C'), ('Lex', 'Lex'), ('Cli', 'Cli'),
      ('Small', 'Small'), ('Layers', 'L'), ('Map', 'M')]
FORBIDDEN = re.compile(r'\bAdmitted\b|\badmit\b|^\s*(Axiom|Axioms|Parameter|Parameters|Conjecture|Hypothesis|Variable)\b'
                       r'|Unset\s+Guard|bypass_check|type-in-type|impredicative-set|Admit Obligations|Unset\s+Universe', re.M)
TRUSTED_BASE = [
    'Coq 8.16.1 kernel (coqc); vm_compute (bytecode VM) is used, native_compute is not',
    'no axioms declared; every Print Assumptions block must read "Closed under the global context"',
    'tools/py2v.py, tools/cli2v.py, tools/effects2v.py: Python ast -> Gallina translators (fail closed)',
    'correspondence harness: generators, tree-sitter CST -> Coq term conversion, Coq literal printer',
    'hand-written specs: NixLex (how Nix reads strings/attribute names), Canon/Specs (formatter layout), PathRes',
    'tree-sitter, CPython, the OS (external; enter as hypotheses or as sampled behaviour)',
]


def qflags(extra=()):
    fl = []
    for d, n in NS:
        if os.path.isdir(os.path.join(COQ, d)):
            fl += ['-Q', os.path.join(COQ, d), n]
    for d, n in extra:
        fl += ['-Q', d, n]
    return fl + ['-w', '-all']


def sh(cmd, timeout=600, cwd=None, env=None, stdin=None):
    """run, return (rc, stdout+stderr) with the conda warning line removed; rc 124 on timeout"""
    e = dict(os.environ)
    e.update({'PYTHONHASHSEED': '0', 'PYTHONPATH': REPO, 'NIMA_REPO': REPO, 'PYTHONDONTWRITEBYTECODE': '1'})
    covdir = os.environ.get('VERIF_COVERAGE')        # maintenance only (tools/coverage_probe.sh): which source lines do the suites and searches execute
    if covdir and cmd and cmd[0] == PY and len(cmd) > 1 and cmd[1].endswith('.py'):
        cmd = [PY, '-W', 'ignore', '-m', 'coverage', 'run', '--parallel-mode', '--branch', '--data-file=' + os.path.join(covdir, '.coverage'), '--source=' + os.path.join(REPO, 'nix_manipulator')] + cmd[1:]
    if env:
        e.update(env)
    try:
        p = subprocess.run(cmd, cwd=cwd, env=e, input=stdin, stdout=subprocess.PIPE, stderr=subprocess.STDOUT,
                           timeout=timeout, text=True, errors='replace')
        rc, out = p.returncode, p.stdout
    except subprocess.TimeoutExpired as ex:
        rc, out = 124, (ex.stdout or b'').decode('utf8', 'replace') if isinstance(ex.stdout, bytes) else (ex.stdout or '')
        out += '\n[timeout after %ss]' % timeout
    out = '\n'.join(l for l in out.split('\n') if not l.startswith('WARNING conda'))
    return rc, out


def static_sources():
    out = []
    for d, _ in NS:
        p = os.path.join(COQ, d)
        if os.path.isdir(p):
            out += sorted(os.path.join(d, f) for f in os.listdir(p) if f.endswith('.v'))
    return out


def ensure_static(log=None):
    """full .vo build of the static development (models, specs, lemma libraries); serialised by a lock"""
    os.makedirs(os.path.join(VERIF, 'build'), exist_ok=True)
    with open(os.path.join(VERIF, 'build', '.lock'), 'w') as lk:
        fcntl.flock(lk, fcntl.LOCK_EX)
        srcs = static_sources()
        proj = ''.join('-Q %s %s\n' % (d, n) for d, n in NS if os.path.isdir(os.path.join(COQ, d)))
        proj += '-arg -w -arg -all\n' + '\n'.join(srcs) + '\n'
        pf = os.path.join(COQ, '_CoqProject')
        if not os.path.exists(pf) or open(pf).read() != proj or not os.path.exists(os.path.join(COQ, 'Makefile.coq')):
            open(pf, 'w').write(proj)
            sh(['coq_makefile', '-f', '_CoqProject', '-o', 'Makefile.coq'], cwd=COQ)
        rc, out = sh(['timeout', '1500', 'make', '-f', 'Makefile.coq', '-j16'], timeout=1600, cwd=COQ)
        if log is not None:
            log.append(out[-4000:])
        return rc == 0, out


def grep_gate(paths):
    bad = []
    for p in paths:
        txt = open(p, errors='replace').read()
        # strip comments (non-nested is enough for our sources) and strings before looking for keywords
        txt2 = re.sub(r'\(\*.*?\*\)', '', txt, flags=re.S)
        for m in FORBIDDEN.finditer(txt2):
            w = m.group(0).strip()
            # Variable/Hypothesis are fine inside a Section; we only allow them in files that open a Section
            if w in ('Variable', 'Hypothesis') and re.search(r'^\s*Section\b', txt2, re.M):
                continue
            bad.append('%s: %s' % (os.path.relpath(p, VERIF), w))
    return bad


def coq_str(s):
    """Coq `string` literal for bytes/str (bytes > 127 are written as their Latin-1 code points, which is
    what Coq's string notation reads back as the same bytes)"""
    if isinstance(s, str):
        s = s.encode('utf8')
    return '"' + s.decode('latin1').replace('"', '""') + '"'


def parse_eval(out):
    """parse the `= (N, [..])` answers printed by `Eval vm_compute in (length cases, bad …)`"""
    res = []
    flat = ' '.join(out.split())
    for m in re.finditer(r'= \((\d+), (\[.*?\])\) : ', flat):
        res.append((int(m.group(1)), m.group(2)))
    return res


class Run:
    def __init__(self, prop, tier, seed):
        self.prop, self.tier, self.seed = prop, tier, seed
        self.t0 = time.time()
        self.build = os.path.join(os.environ.get('VERIF_BUILD_DIR') or os.path.join(VERIF, 'build'), prop)      # VERIF_BUILD_DIR: maintenance runs against scratch copies of the repository (tools/all_seeds_par.sh)
        # two runs of ONE property (say its quick and its thorough command at the same time) share this directory: the second waits for the first
        # (thirteenth round: a quick and a thorough run of C14 started together deleted each other's generated files and both reported broken obligations)
        os.makedirs(os.path.dirname(self.build), exist_ok=True)
        self._proplock = open(self.build + '.lock', 'w'); fcntl.flock(self._proplock, fcntl.LOCK_EX)
        shutil.rmtree(self.build, ignore_errors=True)
        self.dyn = os.path.join(self.build, 'dyn')
        os.makedirs(self.dyn)
        rp = os.path.join(os.environ.get('VERIF_REPLAY_DIR') or VERIF, 'replay') if os.environ.get('VERIF_REPLAY_DIR') else os.path.join(VERIF, 'replay')
        self.replay_dir = rp
        if os.path.isdir(rp):
            for f in os.listdir(rp):
                if f.startswith(prop + '-'):
                    os.remove(os.path.join(rp, f))
        self.obl = []          # (name, ok, detail)
        self.corr = {}         # suite -> stats
        self.search = {}       # name -> stats (labelled test)
        self.samples = []
        self.axioms = []
        self.viol = []         # dicts: {what, replay: {...}, found_input: bool}
        self.known = []        # known-finding lines
        self.extra_counts = {}
        self.known_hits = {}   # finding id -> times a suite/search reproduced it on this run
        self.assumptions = []
        self.evaluations = 0
        self.distinct = set()
        self.rule = []
        self.notes = []
        self.level = 'proof'
        self.log = open(os.path.join(self.build, 'log.txt'), 'w')

    # ------------------------------------------------------------------ obligations
    def oblige(self, name, ok, detail=''):
        self.obl.append((name, bool(ok), detail))
        self.log.write('[obligation] %s %s %s\n' % (name, 'ok' if ok else 'FAILED', detail[:2000]))
        self.log.flush()
        return ok

    def failed(self):
        return [o for o in self.obl if not o[1]]

    def static(self):
        ok, out = ensure_static()
        self.oblige('build:static', ok, '' if ok else out[-1500:])
        bad = grep_gate([os.path.join(COQ, s) for s in static_sources()] +
                        [os.path.join(COQ, d, f) for d in ('Dyn', 'Props') for f in sorted(os.listdir(os.path.join(COQ, d))) if f.endswith('.v')])
        self.oblige('gate:no-admit-axiom', not bad, '; '.join(bad))
        if ok and self.tier == 'thorough':
            # independent re-check of the compiled static libraries, with the axioms they rely on (expected: none)
            mods = []
            for d, n in NS:
                p = os.path.join(COQ, d)
                if os.path.isdir(p):
                    mods += ['%s.%s' % (n, f[:-2]) for f in sorted(os.listdir(p)) if f.endswith('.v')]
            fl = []
            for d, n in NS:
                if os.path.isdir(os.path.join(COQ, d)): fl += ['-Q', d, n]
            rc, out = sh(['timeout', '1500', 'coqchk', '-silent', '-o'] + fl + mods, timeout=1600, cwd=COQ)
            okc = rc == 0 and '* Axioms: <none>' in out and 'type-in-type: <none>' in out
            self.oblige('coqchk:static', okc, '' if okc else out[-1500:])
            self.axioms.append('coqchk -o on the static libraries: ' + ('Axioms: <none>; no type-in-type, unsafe fixpoints or assumed positivity' if okc else 'FAILED'))
        return ok

    def generate(self, name, argv, outfile):
        """run a translator; its stdout becomes dyn/<outfile>; UNTRANSLATABLE markers fail the obligation"""
        rc, out = sh([PY] + argv, timeout=120)
        path = os.path.join(self.dyn, outfile)
        open(path, 'w').write(out)
        marks = re.findall(r'\(\* UNTRANSLATABLE: (.*?) \*\)', out)
        ok = rc == 0 and not marks
        self.oblige('gen:' + name, ok, '; '.join(marks) if marks else ('' if ok else out[-800:]))
        return ok

    def coqc(self, path, timeout=300):
        rc, out = sh(['timeout', str(timeout), 'coqc'] + qflags([(self.dyn, 'Dyn')]) + [path], timeout=timeout + 20, cwd=self.dyn)
        return rc, out

    def dyn_compile(self, names, timeout=300):
        """copy coq/Dyn/<name>.v (or take an already generated dyn/<name>.v) and compile in order; one obligation each"""
        allok = True
        failed = set(getattr(self, '_dyn_failed', set()))
        for n in names:
            dst = os.path.join(self.dyn, n + '.v')
            src = os.path.join(COQ, 'Dyn', n + '.v')
            if os.path.exists(src):
                shutil.copy(src, dst)
            deps = set()
            for m in re.finditer(r'From Dyn Require Import ([^.]*)\.', open(dst).read()):
                deps.update(m.group(1).split())
            if deps & failed:
                self.oblige('dyn:' + n, False, 'not compiled: depends on ' + ', '.join(sorted(deps & failed)))
                failed.add(n); allok = False
                continue
            rc, out = self.coqc(dst, timeout)
            ok = rc == 0
            if ok:
                self._assumptions(n, out)
            else:
                failed.add(n)
            self.oblige('dyn:' + n, ok, '' if ok else out[-1500:])
            allok = allok and ok
        self._dyn_failed = failed
        return allok

    def _assumptions(self, name, out):
        closed = out.count('Closed under the global context')
        ax = re.findall(r'Axioms:\n((?:.+\n?)+?)(?:\n\S|\Z)', out)
        for a in ax:
            self.axioms.append('%s: %s' % (name, ' '.join(a.split())[:300]))
        return closed, ax

    def props(self, fname=None, timeout=300):
        """compile Props/<prop>.v: every Theorem must be followed by Print Assumptions and be closed"""
        fname = fname or self.prop
        src = os.path.join(COQ, 'Props', fname + '.v')
        dst = os.path.join(self.dyn, 'Props_' + fname + '.v')
        shutil.copy(src, dst)
        txt = re.sub(r'\(\*.*?\*\)', '', open(src).read(), flags=re.S)
        thms = re.findall(r'^\s*(?:Theorem|Example)\s+(\w+)', txt, re.M)
        pas = re.findall(r'^\s*Print Assumptions\s+(\w+)', txt, re.M)
        rc, out = self.coqc(dst, timeout)
        if rc != 0:
            # find the theorem whose proof broke: the last `Theorem` before the error line
            m = re.search(r'line (\d+), characters', out)
            broken = '?'
            if m:
                upto = '\n'.join(open(src).read().split('\n')[:int(m.group(1))])
                names = re.findall(r'(?:Theorem|Example)\s+(\w+)', upto)
                broken = names[-1] if names else '?'
            for t in thms:
                self.oblige('thm:%s' % t, False, ('breaks here: ' if t == broken else 'file does not compile: ') + out[-600:])
            return False
        closed, ax = self._assumptions(fname, out)
        ok_struct = set(thms) <= set(pas)
        for t in thms:
            self.oblige('thm:%s' % t, ok_struct and closed == len(pas) and not ax,
                        '' if (ok_struct and closed == len(pas)) else 'Print Assumptions missing or not closed: closed=%d of %d %s' % (closed, len(pas), ax))
            self.samples.append({'obligation': 'thm:' + t})
        return ok_struct and closed == len(pas) and not ax

    # ------------------------------------------------------------------ correspondence
    def suite(self, name, script, args, shards_prefix, timeout=900, per_shard_timeout=600, serves='corr'):
        """run a suite script (in the venv python, against REPO) that writes <prefix>_k.v shards and a
        summary json into the dyn dir, then evaluate the shards with coqc in parallel"""
        outdir = self.dyn
        rc, out = sh([PY, os.path.join(VERIF, 'tools', 'suites', script)] + [str(a) for a in args] + [outdir, shards_prefix],
                     timeout=timeout, cwd=outdir)
        summ = {}
        sp = os.path.join(outdir, shards_prefix + '_summary.json')
        if os.path.exists(sp):
            summ = json.load(open(sp))
        if rc != 0:
            self.oblige('%s:%s' % (serves, name), False, 'harness failed: ' + out[-1500:])
            self.corr[name] = {'error': out[-500:]}
            return False, summ, []
        shards = sorted(f for f in os.listdir(outdir) if re.fullmatch(re.escape(shards_prefix) + r'[A-Z]*_\d+\.v', f))
        res = self.eval_shards(shards, per_shard_timeout)
        total = sum(n for _, n, _, _ in res)
        bad = [(s, b) for s, n, b, ok in res if b != '[]' or not ok]
        broken = [(s, o) for s, n, b, o in res if not o]
        ok = not bad and total > 0
        st = dict(summ.get('stats', {}))
        st.update(self.extra_counts); self.extra_counts = {}
        st.update({'cases_evaluated_in_coq': total, 'mismatching_shards': len(bad), 'shards': len(shards)})
        self.corr[name] = st
        self.evaluations += total
        for k in summ.get('keys', []):
            self.distinct.add(name + ':' + k)
        for i in range(summ.get('distinct_count', 0)):
            self.distinct.add('%s:#%d' % (name, i))
        for v in summ.get('violations', [])[:3]:
            self.violation(v.get('what', 'property fails on this input'), {'kind': 'input', 'suite': name, 'case': v})
        for fid, n in summ.get('known_hits', {}).items():
            self.known_hits[fid] = self.known_hits.get(fid, 0) + n
        if summ.get('n_violations'):
            st_v = summ['n_violations']
            self.search[name + ':oracle'] = {'violations': st_v}
        if summ.get('rule'):
            self.rule.append('%s: %s' % (name, summ['rule']))
        for smp in summ.get('samples', [])[:3]:
            self.samples.append({'suite': name, 'case': smp})
        detail = ''
        if bad:
            detail = 'mismatches: ' + '; '.join('%s -> %s' % (s, b[:300]) for s, b in bad[:4])
        self.oblige('%s:%s' % (serves, name), ok, detail)
        return ok, summ, bad

    def eval_shards(self, shards, per_shard_timeout=600):
        """returns [(shard, n_cases, bad_list_text, compiled_ok)]"""
        import concurrent.futures as cf
        def one(s):
            rc, out = self.coqc(os.path.join(self.dyn, s), per_shard_timeout)
            if rc != 0:
                return (s, 0, 'coqc failed: ' + out[-400:], False)
            ev = parse_eval(out)
            if not ev:
                return (s, 0, 'no answer parsed: ' + out[-300:], False)
            for m in re.finditer(r'= \("(\w+)"(?:%string)?, (\d+)\)', ' '.join(out.split())):
                self.extra_counts[m.group(1)] = self.extra_counts.get(m.group(1), 0) + int(m.group(2))
            n = sum(e[0] for e in ev)
            bads = [e[1] for e in ev if e[1] != '[]']
            return (s, n, bads[0] if bads else '[]', True)
        with cf.ThreadPoolExecutor(max_workers=16) as ex:
            return list(ex.map(one, shards))

    # ------------------------------------------------------------------ findings and verdict
    def findings(self):
        p = os.path.join(VERIF, 'known_findings.json')
        return [f for f in json.load(open(p))['findings'] if f['property'] == self.prop and f.get('status', 'open') == 'open']

    def known_finding(self, f, still_fails, detail=''):
        """a listed finding: printed when the implementation still exhibits it"""
        if still_fails:
            self.known.append('KNOWN-FINDING: property=%s %s [%s]' % (self.prop, f['what_fails'], f['id']))
        else:
            self.notes.append('listed finding %s no longer reproduces (%s)' % (f['id'], detail))

    def violation(self, what, replay, found_input=True):
        self.viol.append({'what': what, 'replay': replay, 'found_input': found_input})

    def finish(self):
        wall = time.time() - self.t0
        failed = self.failed()
        # a failed obligation with no concrete failing input found by the searches
        if failed and not any(v['found_input'] for v in self.viol):
            self.violation('obligation(s) no longer check: ' + ', '.join(o[0] for o in failed),
                           {'kind': 'obligation', 'obligations': [{'name': o[0], 'detail': o[2][:3000]} for o in failed]},
                           found_input=False)
        lines = []
        os.makedirs(self.replay_dir, exist_ok=True)
        for v in self.viol:
            body = dict(v['replay']); body['property'] = self.prop; body['what'] = v['what']
            body['failed_obligations'] = [o[0] for o in failed]
            h = hashlib.sha1(json.dumps(body, sort_keys=True, default=str).encode()).hexdigest()[:10]
            path = os.path.join(self.replay_dir, '%s-%s.json' % (self.prop, h))
            json.dump(body, open(path, 'w'), indent=1, default=str)
            lines.append('VIOLATION property=%s replay=%s%s' % (self.prop, path, '' if v['found_input'] else ' no-failing-input-found'))
        # show only one no-input line when an input was found
        if any(v['found_input'] for v in self.viol):
            lines = [l for l in lines if not l.endswith('no-failing-input-found')]
        ev = {
            'property_id': self.prop, 'tier': self.tier, 'seed': self.seed, 'level': self.level,
            'coverage': {
                'obligations': len(self.obl), 'discharged': sum(1 for o in self.obl if o[1]),
                'checker_cmd': 'make -C coq -f Makefile.coq -j16 (static cone) ; coqc %s <dyn files, Props/%s.v, correspondence shards> ; ./check %s --tier %s'
                               % (' '.join('-Q %s %s' % (d, n) for d, n in NS[:7]), self.prop, self.prop, self.tier),
                'trusted_base': TRUSTED_BASE,
                'obligation_list': [{'name': o[0], 'ok': o[1]} for o in self.obl],
                'axioms_reported': self.axioms or ['none: every Print Assumptions block is "Closed under the global context"'],
                'correspondence': self.corr,
                'search_labelled_test_not_proof': self.search,
                'evaluations': max(self.evaluations, 1),
                'distinct_nontrivial': min(max(len(self.distinct), 0), max(self.evaluations, 1)),
                'rule': ' | '.join(self.rule) or 'obligations only',
                'samples': self.samples[:12] or [{'obligation': o[0]} for o in self.obl[:5]],
                'known_findings': self.known, 'notes': self.notes,
            },
            'assumptions': self.assumptions,
            'wall_s': round(wall, 1), 'violations': len(lines),
        }
        evdir = os.environ.get('VERIF_EVIDENCE_DIR', os.path.join(VERIF, 'evidence'))      # tools/try_patch.sh redirects this
        os.makedirs(evdir, exist_ok=True)
        json.dump(ev, open(os.path.join(evdir, self.prop + '.json'), 'w'), indent=1, default=str)
        for l in self.known:
            print(l)
        for n in self.notes:
            print('NOTE:', n)
        print('%s tier=%s seed=%d obligations=%d discharged=%d corr_cases=%d wall=%.0fs' %
              (self.prop, self.tier, self.seed, len(self.obl), sum(1 for o in self.obl if o[1]), self.evaluations, wall))
        for o in failed:
            print('  FAILED obligation %s: %s' % (o[0], o[2][:400].replace('\n', ' | ')))
        for l in lines:
            print(l)
        self.log.close()
        # scratch: keep only the log
        for f in os.listdir(self.dyn):
            if not lines or f.endswith(('.vo', '.vok', '.vos', '.glob', '.aux')):
                try: os.remove(os.path.join(self.dyn, f))
                except OSError: pass
        return 1 if lines else 0

"""Design spike: independent attribute-tree reader + reference semantics for set/rm (C05)."""
import sys, random, collections
sys.path.insert(0,'/repo')
from nix_manipulator import parse
from nix_manipulator.parser import parse_to_ast
from nix_manipulator.cli.manipulations import set_value, remove_value
seed=int(sys.argv[1]); N=int(sys.argv[2])
sys.argv=[sys.argv[0], str(seed), '0']
exec(open('notes/probes/gen_canon.py').read().split('bad=0')[0])
R2=random.Random(seed+7)
class Bad(Exception): pass
def norm(t): return ' '.join(t.split())
def read_set(node, tree):
    for c in node.children:
        if c.type!='binding_set': continue
        for b in c.children:
            if b.type=='comment': continue
            if b.type!='binding': raise Bad('inherit')
            ap=b.child_by_field_name('attrpath'); val=b.child_by_field_name('expression')
            segs=[a.text.decode() for a in ap.children if a.type!='.']
            cur=tree
            for s in segs[:-1]:
                if s not in cur: cur[s]={}
                if not isinstance(cur[s],dict): raise Bad('dup')
                cur=cur[s]
            leaf=segs[-1]
            if val.type in ('attrset_expression','rec_attrset_expression'):
                sub = cur.setdefault(leaf, {})
                if not isinstance(sub,dict): raise Bad('dup')
                read_set(val, sub)
            else:
                if leaf in cur: raise Bad('dup')
                cur[leaf]=norm(val.text.decode())
def tree_of(text):
    root=parse_to_ast(text)
    if root.has_error: return None
    top=[c for c in root.children if c.type!='comment']
    if len(top)!=1 or top[0].type not in ('attrset_expression','rec_attrset_expression'): raise Bad('shape')
    t={}; read_set(top[0], t); return t
def get(tree,path):
    cur=tree
    for s in path:
        if not isinstance(cur,dict) or s not in cur: return None
        cur=cur[s]
    return cur
import copy
def ref_set(tree,path,val):
    t=copy.deepcopy(tree); cur=t
    for s in path[:-1]:
        if s not in cur: cur[s]={}
        if not isinstance(cur[s],dict): return 'ERR'
        cur=cur[s]
    cur[path[-1]]=val; return t
def ref_rm(tree,path):
    t=copy.deepcopy(tree)
    if get(t,path) is None: return 'ERR'
    cur=t
    for s in path[:-1]: cur=cur[s]
    del cur[path[-1]]
    return t
def prune_variants(t):
    """accept pruning of emptied parents (attrpath families) or not"""
    def prune(x):
        if not isinstance(x,dict): return x
        return {k:prune(v) for k,v in x.items() if not (isinstance(v,dict) and not prune(v) and v is not None and False)}
    return [t]
def all_paths(tree,prefix=()):
    out=[]
    for k,v in tree.items():
        out.append(prefix+(k,))
        if isinstance(v,dict): out+=all_paths(v,prefix+(k,))
    return out
def equal_mod_empty(a,b):
    def strip(x):
        if not isinstance(x,dict): return x
        return {k:strip(v) for k,v in x.items() if not (isinstance(v,dict) and not strip(v))}
    return a==b or strip(a)==strip(b)
st=collections.Counter(); shown=collections.Counter()
def show(kind,*xs):
    if shown[kind]<3: shown[kind]+=1; print('=====',kind); [print(repr(x)) for x in xs]
for i in range(N):
    d=doc()
    try: t0=tree_of(d)
    except Bad as e: st['skip:'+str(e)]+=1; continue
    paths=all_paths(t0)
    r=R2.random()
    if r<0.45: path=list(R2.choice(paths)); 
    elif r<0.8:
        p=list(R2.choice(paths)); path=p[:-1]+['fresh_k']
    else:
        p=list(R2.choice(paths)); path=p+['deep1','deep2'] if R2.random()<0.5 else p+['sub']
    ps='.'.join(path)
    op=R2.choice(['set','set','rm'])
    val=R2.choice(['99','"v"','./n.nix'])
    # avoid reference redirection: only when current leaf is not an identifier-like value
    cur=get(t0,path)
    try:
        out = set_value(parse(d),ps,val) if op=='set' else remove_value(parse(d),ps)
        exc=None
    except (KeyError,ValueError) as e: exc=e; out=None
    except Exception as e: st['EXC-other:'+type(e).__name__]+=1; show('exc-other',d,ps,op,repr(e)); continue
    exp = ref_set(t0,path,val) if op=='set' else ref_rm(t0,path)
    if out is None:
        if exp=='ERR': st[op+'-refused-ok']+=1
        else:
            st[op+'-refused:'+str(exc)[:45]]+=1; show(op+'-refused:'+str(exc)[:30], d, ps, str(exc))
        continue
    if exp=='ERR': st[op+'-accepted-but-ref-ERR']+=1; show('acc-err',d,ps,out); continue
    try: t1=tree_of(out)
    except Bad as e: st[op+'-out-bad:'+str(e)]+=1; show('outbad',d,ps,out); continue
    if t1 is None: st[op+'-out-unparsable']+=1; show('unparsable',d,ps,out); continue
    if op=='set' and isinstance(cur,str) and cur.isidentifier() and cur not in ('true','false','null'):
        st['set-through-identifier(skip)']+=1; continue
    if equal_mod_empty(t1,exp): st[op+'-ok']+=1
    else: st[op+'-WRONG']+=1; show(op+'-wrong',d,ps,val,out)
print(dict(st))

"""replay one listed finding (JSON on stdin) against the implementation: {"still_fails": bool, "detail": str}"""
import json, sys
from nixread import ts, set_node, attr_tree
f = json.load(sys.stdin)
w, prop = f['witness'], f['property']
def out(still, detail=''): print(json.dumps({'still_fails': bool(still), 'detail': detail})); sys.exit(0)
from nix_manipulator import parse
from nix_manipulator.cli.manipulations import set_value, remove_value
def apply_ops(doc, ops):
    src = parse(doc); text = doc; errs = []
    for op in ops:
        try:
            text = set_value(source=src, npath=op[1], value=op[2]) if op[0] == 'set' else remove_value(source=src, npath=op[1])
            errs.append(None)
        except Exception as e:
            errs.append(type(e).__name__)
    return text, errs, src
if prop == 'C12' and f['id'] == 'F-13':
    text, errs, _ = apply_ops(w['doc'], w['ops'])
    s = set_node(ts(text)); tree, dups = attr_tree(s)
    out(bool(dups), 'duplicate definitions after the edits: %r in %r' % (dups, text))
out(False, 'no replayer for this finding')

import sys, itertools, traceback
sys.path.insert(0,'/repo')
from nix_manipulator.cli import manipulations as M
base = M._split_scope_npath.__code__.co_firstlineno
def cs(t): return '[' + '; '.join('c %d' % ord(x) for x in t) + ']'
def run(t):
    try:
        r = M._split_scope_npath(t)
        return 'Ok None' if r is None else 'Ok (Some (%d, %s))' % (r[0], cs(r[1]))
    except ValueError as e:
        tb = traceback.extract_tb(e.__traceback__)
        return 'Err %d' % ([f.lineno for f in tb if f.filename.endswith('manipulations.py')][-1] - base)
cases = ['']
for L in range(1, 8):
    for t in itertools.product(['@', 'a', '.'], repeat=L): cases.append(''.join(t))
with open('SS_0.v', 'w') as f:
    f.write('From Coq Require Import List Ascii Bool Arith. Import ListNotations.\nRequire Import Gen.\n')
    f.write('Definition same (r e : res (option (nat * str))) : bool := match r, e with Ok None, Ok None => true | Ok (Some (a, x)), Ok (Some (b, y)) => Nat.eqb a b && streq x y | Err i, Err j => Nat.eqb i j | _, _ => false end.\n')
    f.write('Definition cases : list (str * res (option (nat * str))) := [\n' + ';\n'.join('(%s, %s)' % (cs(t), run(t)) for t in cases) + '\n].\n')
    f.write('Eval vm_compute in (List.length cases, List.length (filter (fun ce => negb (same (_split_scope_npath (fst ce)) (snd ce))) cases)).\n')
print(len(cases))

(* Design spike for C09 (selector half): the generated _split_scope_npath counts the leading @ signs, and a
   selector of depth k picks the k-th layer counted from the innermost one. *)
From Coq Require Import List Ascii Bool Arith Lia.
Import ListNotations.
From Dyn Require Import Gen.

Definition AT : ascii := c 64.
Definition head_not_at (x : str) : Prop := match x with h :: _ => (h =c AT) = false | [] => True end.

Lemma loop_ats : forall k d rest, head_not_at rest ->
  _split_scope_npath_loop d (repeat AT k ++ rest) = Ok (d + k).
Proof.
  induction k as [|k IH]; intros d rest H.
  - cbn [repeat app]. rewrite Nat.add_0_r. destruct rest as [|h r]; [reflexivity|]. cbn [head_not_at] in H.
    cbn [_split_scope_npath_loop]. unfold _split_scope_npath_step. change (c 64) with AT. rewrite H. reflexivity.
  - cbn [repeat app _split_scope_npath_loop]. unfold _split_scope_npath_step at 1. change (c 64) with AT.
    rewrite Ascii.eqb_refl. cbn [negb]. rewrite (IH (S d) rest H). f_equal. lia.
Qed.
Lemma skipn_repeat_app {A} (a : A) k l : skipn k (repeat a k ++ l) = l.
Proof. induction k as [|k IH]; [reflexivity|exact IH]. Qed.

(* C09, selector syntax: k leading @ give depth k and the rest of the path; none gives "no selector";
   only @ signs is an error *)
Theorem split_scope_spec k rest : head_not_at rest ->
  _split_scope_npath (repeat AT k ++ rest) =
  match k with
  | O => Ok None
  | S _ => if isnil rest then Err 11 else Ok (Some (k, rest)) end.
Proof.
  intros H. unfold _split_scope_npath. cbv zeta. rewrite (loop_ats k 0 rest H). cbn [plus]. cbv iota beta.
  destruct k as [|k']; [reflexivity|]. cbn [Nat.eqb]. cbv iota. rewrite skipn_repeat_app.
  destruct rest; reflexivity.
Qed.
Print Assumptions split_scope_spec.

(* C09, layer choice: layers are kept outermost first (scope, then stack); set_value uses layers[-depth] *)
Definition pick {L} (layers : list L) (depth : nat) : option L :=
  if (depth =? 0) || (List.length layers <? depth) then None else nth_error layers (List.length layers - depth).
Lemma nth_error_rev' {A} : forall (l : list A) n, n < List.length l -> nth_error (rev l) n = nth_error l (List.length l - S n).
Proof.
  induction l as [|a l IH]; intros n Hn; [cbn in Hn; lia|]. cbn [rev List.length] in *.
  destruct (Nat.eq_dec n (List.length l)) as [->|Hne].
  - rewrite nth_error_app2 by (rewrite rev_length; lia). rewrite rev_length, Nat.sub_diag.
    replace (S (List.length l) - S (List.length l)) with 0 by lia. reflexivity.
  - rewrite nth_error_app1 by (rewrite rev_length; lia). rewrite IH by lia.
    replace (S (List.length l) - S n) with (S (List.length l - S n)) by lia. reflexivity.
Qed.
Theorem pick_innermost_first {L} (layers : list L) k : 1 <= k <= List.length layers ->
  pick layers k = nth_error (rev layers) (k - 1).
Proof.
  intros [H1 H2]. unfold pick.
  destruct (k =? 0) eqn:E0; [apply Nat.eqb_eq in E0; lia|].
  destruct (List.length layers <? k) eqn:E1; [apply Nat.ltb_lt in E1; lia|]. cbn [orb].
  rewrite nth_error_rev' by lia. f_equal. lia.
Qed.
Print Assumptions pick_innermost_first.

import sys, itertools, traceback, inspect
sys.path.insert(0,'/repo')
from nix_manipulator.cli import manipulations as M
base = M._parse_npath.__code__.co_firstlineno
def cs(t): return '[' + '; '.join('c %d' % ord(x) for x in t) + ']'
def run(t):
    try:
        r = M._parse_npath(t)
        return 'Ok [' + '; '.join('(%s, %s)' % (cs(x.name), 'true' if x.quoted else 'false') for x in r) + ']'
    except ValueError as e:
        tb = traceback.extract_tb(e.__traceback__)
        ln = [f.lineno for f in tb if f.filename.endswith('manipulations.py')][-1]
        return 'Err %d' % (ln - base)
alpha = ['a', '.', '"', '\\', 'n', '-', '1', '\n']
cases = ['']
for L in range(1, 6):
    for t in itertools.product(alpha, repeat=L): cases.append(''.join(t))
nsh = int(sys.argv[1])
for k in range(nsh):
    part = cases[k::nsh]
    with open('NP_%d.v' % k, 'w') as f:
        f.write('From Coq Require Import List Ascii Bool Arith. Import ListNotations.\nRequire Import Gen.\n')
        f.write('Definition seg_eqb (a b : str * bool) : bool := streq (fst a) (fst b) && Bool.eqb (snd a) (snd b).\n')
        f.write('Fixpoint segs_eqb (a b : list (str * bool)) : bool := match a, b with [], [] => true | x :: a\', y :: b\' => seg_eqb x y && segs_eqb a\' b\' | _, _ => false end.\n')
        f.write('Definition same (r e : res (list (str * bool))) : bool := match r, e with Ok a, Ok b => segs_eqb a b | Err i, Err j => i =? j | _, _ => false end.\n')
        f.write('Definition cases : list (str * res (list (str * bool))) := [\n' + ';\n'.join('(%s, %s)' % (cs(t), run(t)) for t in part) + '\n].\n')
        f.write('Eval vm_compute in (List.length cases, List.length (filter (fun ce => negb (same (_parse_npath (fst ce)) (snd ce))) cases)).\n')
print(len(cases))

"""Enumeration of the slot-matrix cells (shared by slot_matrix.py and purity_search.py)."""
import itertools
from render_oracles import *
CONSTRUCTS = {
 'set_multi': "{\n  a = 1;\n  b = x;\n}", 'set_inline': "{ a = 1; }", 'rec_set': "rec {\n  a = 1;\n}", 'attrpath': "{\n  a.b.c = 1;\n}",
 'binding_nl': "{\n  a =\n    x;\n}", 'list_multi': "[\n  1\n  x\n]", 'list_inline': "[ 1 x ]", 'let': "let\n  a = 1;\nin\na",
 'lambda_id': "x: x", 'lambda_formals': "{ a, b ? 1, ... }: a", 'lambda_formals_multi': "{\n  a,\n  b ? 1,\n  ...\n}:\na",
 'lambda_at': "{ a }@args: a", 'lambda_at_pre': "args@{ a }: a", 'call': "f x y", 'call_set': "f {\n  a = 1;\n}", 'with': "with p; x",
 'assert': "assert c; x", 'if': "if c then t else e", 'select': "a.b.c", 'select_or': "a.b or d", 'has_attr': "a ? b", 'not': "!x", 'neg': "-x",
 'binary': "a + b", 'chain': "a\n++ b\n++ c", 'update': "a // b", 'paren': "(x)", 'inherit': "{\n  inherit a b;\n}",
 'inherit_from': "{\n  inherit (p) a b;\n}", 'string': "\"s${x}t\"",
 'if_multi': "if c then\n  t\nelse\n  e", 'if_chain': "if c then\n  t\nelse if d then\n  u\nelse\n  e", 'with_multi': "with p;\nx", 'assert_multi': "assert c;\nx", 'lambda_nl': "x:\nx",
 'call_multi': "f\n  x\n  y", 'binary_multi': "a\n+ b", 'inherit_multi': "{\n  inherit\n    a\n    b\n    ;\n}",
 # body family (third round of seeds): heads whose body is an "absorbable" term — list, set, indented string, parenthesis, call
 'with_list': "with p; [ a ]", 'with_set': "with p; { a = 1; }", 'with_istr': "with p; ''s''", 'with_paren': "with p; ([ a ])", 'with_call': "with p; f a",
 'with_multi_list': "with p;\n[\n  a\n]", 'assert_list': "assert c; [ a ]", 'assert_set': "assert c; { a = 1; }",
 'lambda_list': "x: [ a ]", 'lambda_set': "x: { a = 1; }", 'lambda_formals_set': "{ a }: { b = a; }", 'let_set': "let\n  a = 1;\nin\n{ b = a; }", 'let_list': "let\n  a = 1;\nin\n[ a ]",
 'if_set': "if c then { a = 1; } else [ b ]", 'call_list': "f [ a ]", 'call_istr': "f ''s''", 'paren_set': "({ a = 1; })", 'paren_list': "([ a ])",
 'concat_list': "a ++ [ b ]", 'update_set': "a // { b = 1; }", 'formal_default_list': "{ a ? [ b ], ... }: a", 'formal_default_multi': "{\n  a ? [\n    b\n    c\n  ],\n  ...\n}:\na",
 'select_set': "{ a = 1; }.a", 'not_paren': "!(a b)", 'inherit_in_let': "let\n  inherit (p) a;\nin\na",
 # coverage probe (source lines no cell executed): binding-less let, explicit set and attrpath bindings sharing a root, empty formals
 'import': "import ./x.nix", 'import_call': "import ./x.nix { }", 'import_nl': "import\n  ./x.nix", 'import_paren': "import (f x)",
 'let_let': "let\n  a = 1;\nin\nlet\n  b = 2;\nin\na", 'let_let_let': "let\n  a = 1;\nin\nlet\n  b = 2;\nin\nlet\n  c = 3;\nin\n{\n  d = a;\n}",
 'let_empty': "let in x", 'let_empty_set': "let\nin\n{\n  a = 1;\n}", 'mixed_attrpath': "{\n  a.b = 1;\n  a = {\n    c = 2;\n  };\n}",
 'mixed_attrpath_rev': "{\n  a = {\n    c = 2;\n  };\n  a.b = 1;\n}", 'dup_sets': "{\n  a = {\n    b = 1;\n  };\n  a = {\n    c = 2;\n  };\n}",
 'let_import': "let\n  a = 1;\nin\nimport ./x.nix", 'let_let_import': "let\n  a = 1;\nin\nlet\n  b = 2;\nin\nimport ./x.nix", 'let_attrpath_import': "let\n  a.b = 1;\n  x = 2;\n  a.c = 3;\nin\nimport ./x.nix",
 'let_let_call': "let\n  a = 1;\nin\nlet\n  b = 2;\nin\nf a b", 'let_let_set': "let\n  a = 1;\nin\nlet\n  b = 2;\nin\n{\n  c = a;\n}", 'let_let_list': "let\n  a = 1;\nin\nlet\n  b = 2;\nin\n[\n  a\n  b\n]",
 'let_let_with': "let\n  a = 1;\nin\nlet\n  b = 2;\nin\nwith a;\nb", 'let_let_if': "let\n  a = 1;\nin\nlet\n  b = 2;\nin\nif a then b else a", 'let_let_lambda': "let\n  a = 1;\nin\nlet\n  b = 2;\nin\nx: a",
 'let_let_select': "let\n  a = 1;\nin\nlet\n  b = 2;\nin\na.b.c", 'let_let_binary': "let\n  a = 1;\nin\nlet\n  b = 2;\nin\na + b", 'let_let_paren': "let\n  a = 1;\nin\nlet\n  b = 2;\nin\n(a)",
 'let_let_assert': "let\n  a = 1;\nin\nlet\n  b = 2;\nin\nassert a;\nb", 'let_let_string': "let\n  a = 1;\nin\nlet\n  b = 2;\nin\n\"s\"",
 'inherit_from_multi': "{\n  inherit\n    (import ./lib.nix {\n      inherit pkgs;\n    })\n    foo\n    bar\n    ;\n  version = 1;\n}", 'inherit_from_multi_1line': "{\n  inherit (import ./lib.nix {\n    inherit pkgs;\n  }) foo bar;\n  version = 1;\n}",
 'has_attr_quoted': 's ? "a . b"', 'has_attr_quoted_mid': 's ? a."b. c".d', 'has_attr_interp': 's ? ${x}.c', 'select_quoted': 's."a . b".c', 'select_interp': 's.${x}.c or d',
 # twelfth round (reported by a sub-agent on the unchanged tree, F-60): a unary minus whose operand begins with a path — written without the blank the two lex as ONE path token
 'neg_path': "- ./a", 'neg_path_rel': "- a/b", 'neg_path_abs': "- /a", 'neg_path_call': "- ./f x", 'neg_path_interp': "- ./a/${b}", 'neg_neg': "--a", 'neg_int': "-1",
 'empty_list': "[ ]", 'empty_set': "{ }", 'empty_rec_set': "rec { }", 'empty_list_call': "f [ ] { }",
 'attrpath_quoted': "{\n  \"a\".b.\"c d\".e = 1;\n}", 'attrpath_quoted_dots': "{\n  x.\"a . b\".c = 1;\n  k.\"p .q\" = 2;\n}", 'attrpath_interp': "{\n  ${x}.b.\"${y}\".c = 1;\n}",
 'dup_attrpath_sets': "{\n  a.b = {\n    x = 1;\n  };\n  a.b = {\n    y = 2;\n  };\n}", 'dup_attrpath_sets_apart': "{\n  s.n = {\n    e = true;\n  };\n  z = 1;\n  s.n = {\n    u = 2;\n  };\n}",
 'dup_attrpath_inherit': "{\n  a.b = {\n    inherit x;\n  };\n  a.b = {\n    inherit y;\n  };\n}", 'dup_attrpath_deep': "{\n  a.b.c = {\n    x = 1;\n  };\n  a.b.c = {\n    y = 2;\n  };\n  a.b.d = 3;\n}",
 'attrpath_deeper_mixed': "{\n  a.b.c = 1;\n  a.b = {\n    d = 2;\n  };\n}", 'empty_formals': "{ }: x", 'empty_formals_at': "{ }@args: x", 'formals_ellipsis_only': "{ ... }: x",
}
KINDS = {
 'sp': ' ', 'sp2': '   ', 'tab': '\t', 'nl': '\n', 'nl_ind': '\n    ', 'blank': '\n\n', 'blank3': '\n\n\n  ',
 'eol_c': ' # c\n', 'own_c': '\n# c\n', 'own_c_ind': '\n      # c\n', 'own_c_blank': '\n\n# c\n\n', 'inl_b': ' /* c */ ', 'own_b': '\n/* c */\n',
 'ml_b': '\n/* a\n   b */\n', 'doc_b': '\n/** d */\n', 'hash_nospace': '\n#c\n',
 'eol_c_blank': ' # c\n\n', 'eol_b_blank': ' /* c */\n\n', 'own_c_two': '\n# c\n# d\n', 'blank_own_c': '\n\n# c\n', 'own_c_blank_after': '\n# c\n\n\n',
 'two_b': ' /* a */ /* b */ ', 'b_then_eol_c': ' /* a */ # b\n', 'two_own_b': '\n/* a */ /* b */\n',
 'tight_b': '/* c */', 'tight_eol_c': '# c\n', 'tight_b_sp': '/* c */ ',
 # multi-line block comments whose continuation lines are indented LESS than the opener (third round of seeds)
 'ml_b_tab': '\n\t/* first\n\t   second */\n', 'ml_b_tab2': '\n/* a\n\tb\n \tc */\n',
 'ml_b_under': ' /* alpha\nbeta */ ', 'ml_b_under_own': '\n    /* title\n  body line\nlast */\n', 'ml_doc_under': ' /** alpha\n beta\nc */\n',
}
TAIL_KINDS = {'tail_own_c': '\n# t\n', 'tail_eol_c': ' # t\n', 'tail_blank_own_c': '\n\n# t\n', 'tail_own_b': '\n/* t */\n', 'tail_eol_b': ' /* t */\n', 'tail_two_own_c': '\n# t\n# u\n', 'tail_own_c_noeol': '\n# t', 'tail_nl': '\n', 'tail_blank': '\n\n'}
WS_KINDS = {'tail_nl', 'tail_blank', 'sp', 'sp2', 'tab', 'nl', 'nl_ind', 'blank', 'blank3'}
LINE_LEVEL = {'tail_own_c', 'tail_eol_c', 'tail_blank_own_c', 'tail_own_b', 'tail_eol_b', 'tail_two_own_c', 'tail_own_c_noeol', 'own_c_ind', 'ml_b_tab', 'ml_b_tab2', 'ml_b_under_own', 'eol_c', 'own_c', 'own_c_blank', 'own_b', 'ml_b', 'doc_b', 'hash_nospace', 'eol_c_blank', 'eol_b_blank', 'own_c_two', 'blank_own_c', 'own_c_blank_after', 'tight_eol_c'}       # comment alone on a line or at the end of one
CONTEXTS = {'lambda_body': lambda e: 'x:\n' + e, 'top': lambda e: e, 'lead_ws': lambda e: '\n   ' + e,        # lead_ws: the file starts with whitespace (fifth round: gaps were read at shifted offsets)
            'bindval': lambda e: "{\n  v = " + e.replace("\n", "\n  ") + ";\n}", 'listitem': lambda e: "[\n  " + e.replace("\n", "\n  ") + "\n]",
            # seventh round: multi-byte characters before the construct (a reader that mixes byte offsets and character indices reads every later gap shifted)
            'utf8_lead': lambda e: "{\n  s = \"€😀é\";\n  v = " + e.replace("\n", "\n  ") + ";\n}"}
NOT_LIST_ITEMS = ('neg_path', 'neg_path_rel', 'neg_path_abs', 'neg_path_call', 'neg_path_interp', 'neg_neg', 'neg_int', 'has_attr_quoted', 'has_attr_quoted_mid', 'has_attr_interp', 'let_import', 'let_let_import', 'let_attrpath_import', 'let_let_call', 'let_let_set', 'let_let_list', 'let_let_with', 'let_let_if', 'let_let_lambda', 'let_let_select', 'let_let_binary', 'let_let_paren', 'let_let_assert', 'let_let_string', 'empty_list_call', 'import', 'import_call', 'import_nl', 'import_paren', 'let_let', 'let_let_let', 'let_empty', 'let_empty_set', 'empty_formals', 'empty_formals_at', 'formals_ellipsis_only', 'with_list', 'with_set', 'with_istr', 'with_paren', 'with_call', 'with_multi_list', 'assert_list', 'assert_set', 'lambda_list', 'lambda_set', 'lambda_formals_set', 'let_set', 'let_list', 'if_set', 'call_list', 'call_istr', 'concat_list', 'update_set', 'formal_default_list', 'formal_default_multi', 'not_paren', 'inherit_in_let', 'if_multi', 'if_chain', 'with_multi', 'assert_multi', 'lambda_nl', 'call_multi', 'binary_multi', 'call', 'with', 'assert', 'if', 'lambda_id', 'lambda_formals', 'lambda_formals_multi', 'lambda_at', 'lambda_at_pre', 'let', 'binary', 'chain', 'update', 'has_attr', 'not', 'neg', 'select_or', 'call_set')
# ---- nesting family: every sequence of up to three wrappers around a leaf, each wrapper with names of its own depth ----
WRAP = {
 'let': lambda i, e: 'let\n  v%d = %d;\nin\n%s' % (i, i, e), 'lam': lambda i, e: 'x%d: %s' % (i, e), 'formals': lambda i, e: '{ p%d }: %s' % (i, e),
 'with': lambda i, e: 'with w%d; %s' % (i, e), 'assert': lambda i, e: 'assert c%d; %s' % (i, e), 'paren': lambda i, e: '(%s)' % e,
 'list': lambda i, e: '[\n  (%s)\n  %d\n]' % (e.replace('\n', '\n  '), i), 'bind': lambda i, e: '{\n  k%d = %s;\n}' % (i, e.replace('\n', '\n  ')),
 'if': lambda i, e: 'if b%d then %s else %d' % (i, e, i), 'call': lambda i, e: 'f%d (%s)' % (i, e), 'binop': lambda i, e: '(%s) + %d' % (e, i),
}

ATOMS = [
 '""', '"a"', '"say \\"hi\\""', '"\\""', '"\\"lead"', '"tail\\\\"', '"\\\\"', '"\\n\\t\\r"', '"$"', '"$$"', '"\\${x}"', '"$${x}"', '"a${x}b"', '"${x}"', '"${"}"}"', '"${a + "b"}"', '"é→"',
 "''''", "''a''", "''\n  multi\n  line\n''", "'''' ''", "''''\\n''", "''$''", "''$${x}''", "''${x}''", "''a'''b''", "''  ''", "''\n''",
 '0', '00', '007', '1.5', '.5', '1.', '1e3', '1.0e-3', '123456789012345678901234567890',
 './p', '../p/q', '/abs/p', '~/p', './p/${x}/q', '<nixpkgs>', '<nixpkgs/lib>', 'http://example.org/a?b=c', "a'", "_", "a-b", "a.b-c", 'x.y."z w"', 'x."a.b"', 'x.${y}', 'x."${y}"',
 'true', 'false', 'null', 'builtins.x', 'or', 'a or b', '-1', '!true', '[ -1 ]' if False else '(-1)', '[ (-1) ]', '{ "a b" = 1; }', '{ "${x}" = 1; }', '{ ${x} = 1; }', '{ a."b c".d = 1; }',
]
# further positions for the literal family (fourth round of seeds): argument of a call, body of an inline lambda / with / let /
# assert, branches, operands, defaults
ATOM_CONTEXTS = {
 'callarg': lambda e: 'f ' + e, 'callarg2': lambda e: 'f x ' + e, 'lam_inline': lambda e: 'x: ' + e, 'formals_inline': lambda e: '{ a }: ' + e,
 'with_body': lambda e: 'with p; ' + e, 'let_body': lambda e: 'let\n  v = 1;\nin\n' + e, 'let_value': lambda e: 'let\n  v = ' + e.replace('\n', '\n  ') + ';\nin\nv',
 'assert_body': lambda e: 'assert c;\n' + e, 'if_then': lambda e: 'if c then ' + e + ' else y', 'if_else': lambda e: 'if c then y else ' + e,
 'paren': lambda e: '(' + e + ')', 'concat_r': lambda e: 'a ++ ' + e, 'update_r': lambda e: 'a // ' + e, 'or_default': lambda e: 'a.b or ' + e,
 'formal_default': lambda e: '{ a ? ' + e + ' }: a', 'import_arg': lambda e: 'import ' + e,
}
EMPTIES = ['[ ]', '{ }', 'rec { }', '[ a ]', '{ a = 1; }', 'null', '[ [ ] ]', '{ a = { }; }', '[]', '{}']
# hand-written documents in RFC-0166 layout that combine constructs and repeat them (C02: any number of scopes, bindings, items)
def _lets(n, body, comments=False):
    t = body
    for i in range(n, 0, -1):
        t = 'let\n' + ('  # layer %d\n' % i if comments else '') + '  v%d = %d;\nin\n' % (i, i) + t
    return t
CANON_DOCS = {
 # eleventh round: blank lines and comments inside a multi-line lambda head (formals end in `...`: a trailing comma after the last formal is a MISSING node for this grammar)
 'formals_eol_comment_blank': '{\n  lib,\n  stdenv,\n  fetchurl, # needed for src\n\n  setuptools,\n  ...\n}:\n\nstdenv.mkDerivation {\n  pname = "demo";\n}',
 'formals_comments_blanks': '{\n  lib,\n  # own\n\n  stdenv, # eol\n\n  # build\n  ...\n}:\nlib', 'formals_blank_before_ellipsis': '{\n  a, # one\n\n  ...\n}:\na',
 'nested_lets_blank_before_body': 'let\n  a = 1;\nin\nlet\n  b = 2;\n  d = 3;\nin\n\n{ c = a + b; }',
 # ninth round: blocks of two and three own-line comments in every position that takes one (a gap measured to the wrong neighbour adds or drops a blank line)
 'cblock_after_lambda_head': '{ lib, buildGoModule }:\n# first\n# second\n# third\nbuildGoModule {\n  pname = "x";\n}', 'cblock_after_in': 'let\n  a = 1;\nin\n# one\n# two\n# three\na',
 'cblock_in_set': '{\n  # one\n  # two\n  # three\n  a = 1;\n  # four\n  # five\n  b = 2;\n  # six\n  # seven\n}', 'cblock_in_list': '[\n  # one\n  # two\n  1\n  # three\n  # four\n]',
 'cblock_in_let': 'let\n  # one\n  # two\n  a = 1;\n  # three\n  # four\nin\na', 'cblock_top': '# one\n# two\n# three\n{\n  a = 1;\n}', 'cblock_after_id_lambda': 'x:\n# one\n# two\nx',
 'cblock_pkg': '{\n  stdenv,\n  fetchurl,\n  ...\n}:\n# maintainers: see below\n# second line\nstdenv.mkDerivation rec {\n  pname = "x";\n  # a\n  # b\n  version = "1";\n}',
 'lets3': _lets(3, 'v1 + v2 + v3'), 'lets4': _lets(4, '{\n  a = v1;\n}'), 'lets5_comments': _lets(5, '[\n  v1\n  v5\n]', True),
 'pkg_lets3': '# header\n{ lib, stdenv }:\n' + _lets(3, 'stdenv.mkDerivation {\n  pname = "x";\n  version = "1";\n}', True),
 'lets_blank_between': 'let\n  a = 1;\nin\n\nlet\n  b = 2;\nin\na', 'lets_comment_between': 'let\n  a = 1;\nin\n# helpers\nlet\n  b = 2;\nin\n{\n  c = a;\n}',
 'pkg_lets_blank': '{ lib }:\n\nlet\n  v = "1";\nin\n\nlet\n  p = "d";\nin\nlib.mk {\n  inherit p v;\n}', 'lets3_blank_comment': 'let\n  a = 1;\nin\n\n# two\nlet\n  b = 2;\nin\n\nlet\n  c = 3;\nin\na',
 'lambda_chain': 'a: b: c: {\n  x = a;\n}', 'lambda_chain_nl': 'a: b: c:\n{\n  x = a;\n}',
 'sets_depth5': '{\n  a = {\n    b = {\n      c = {\n        d = {\n          e = 1;\n        };\n      };\n    };\n  };\n}',
 'lists_depth4': '[\n  [\n    [\n      [\n        1\n        2\n      ]\n    ]\n  ]\n]',
 'list_of_sets': '[\n  {\n    a = 1;\n  }\n  {\n    b = 2;\n  }\n  { c = 3; }\n]',
 'many_bindings': '{\n' + ''.join('  k%d = %d;\n' % (i, i) for i in range(12)) + '}',
 'many_items': '[\n' + ''.join('  %d\n' % i for i in range(12)) + ']',
 'with_let_set': 'with pkgs;\nlet\n  a = 1;\nin\n{\n  b = a;\n}',
 'assert_chain': 'assert a;\nassert b;\nassert c;\nx',
 'if_in_binding': '{\n  v =\n    if a then\n      b\n    else if c then\n      d\n    else\n      e;\n}',
 'inherit_mix': '{\n  inherit a b;\n  inherit (pkgs) c d;\n  e = 1;\n}',
 'concat_chain4': 'a\n++ b\n++ c\n++ d',
 'comments_everywhere': '# top\n{\n  # first\n  a = 1; # eol\n\n  # second\n  b = [\n    # item\n    1 # one\n  ];\n  # last\n}',
}
def iter_cells():
    """yields (site, text, kind_name): site = [construct, slot, kind, context]"""
    for cname, expr in CONSTRUCTS.items():
        for ctx, wrap in CONTEXTS.items():
            if ctx == 'listitem' and cname in NOT_LIST_ITEMS: continue
            base = wrap(expr); toks, tail = lex(base)
            inner = lex(expr)[0]; n_in = len(inner)
            start = next(i for i in range(len(toks)) if [t[2] for t in toks[i:i + n_in]] == [t[2] for t in inner])
            for slot in range(start + 1, start + n_in):
                for kname, kval in KINDS.items():
                    parts = []
                    for i, (g, ty, tx) in enumerate(toks):
                        parts.append(kval if i == slot else g); parts.append(tx)
                    p = ''.join(parts) + tail
                    lp = lex(p)
                    if lp is None or code(lp[0]) != code(toks): continue
                    yield [cname, '%s|%s' % (toks[slot - 1][2], toks[slot][2]), kname, ctx], p, lp
    # after the LAST token of the file (tenth round): trivia between the end of the expression and the end of the file
    for cname, expr in CONSTRUCTS.items():
        for ctx in ('top', 'lambda_body', 'lead_ws'):
            base = CONTEXTS[ctx](expr); toks, tail = lex(base)
            for kname, kval in TAIL_KINDS.items():
                p = base + kval; lp = lex(p)
                if lp is None or code(lp[0]) != code(toks): continue
                yield [cname, '%s|EOF' % toks[-1][2], kname, ctx], p, lp
    for a in ATOMS + EMPTIES:
        for ctx, wrap in list(CONTEXTS.items()) + list(ATOM_CONTEXTS.items()):
            p = wrap(a) + '\n'; lp = lex(p)
            if lp is None: continue
            yield ['atom', a[:40], 'canonical', ctx], p, lp
    for depth in (2, 3):
        for seq in itertools.product(sorted(WRAP), repeat=depth):
            e = 'leaf'
            for i, w in enumerate(reversed(seq)): e = WRAP[w](depth - i, e)
            p = e + '\n'; lp = lex(p)
            if lp is None: continue
            yield ['nest', '>'.join(seq), 'canonical', 'top'], p, lp

# ---- two comments at once (seventh round of seeds): every pair of gaps of a construct, three line-level kinds each; the comments are worded
# differently (p / q) so that their order can be judged.  A pair cell is reported only when both of its single cells pass (slot_matrix.py).
PAIR_KINDS = ['own_c', 'own_c_ind', 'eol_c', 'own_c_blank']       # own_c_blank (blank lines around the comment) added in the eleventh round
def iter_pair_cells(contexts=('top',)):
    for cname, expr in CONSTRUCTS.items():
        for ctx in contexts:
            wrap = CONTEXTS[ctx]
            if ctx == 'listitem' and cname in NOT_LIST_ITEMS: continue
            base = wrap(expr); toks, tail = lex(base)
            inner = lex(expr)[0]; n_in = len(inner)
            start = next(i for i in range(len(toks)) if [t[2] for t in toks[i:i + n_in]] == [t[2] for t in inner])
            slots = list(range(start + 1, start + n_in))
            for a in range(len(slots)):
                for b in range(a + 1, len(slots)):
                    for ka in PAIR_KINDS:
                        for kb in PAIR_KINDS:
                            parts = []
                            for i, (g, ty, tx) in enumerate(toks):
                                parts.append(KINDS[ka].replace('# c', '# p') if i == slots[a] else KINDS[kb].replace('# c', '# q') if i == slots[b] else g); parts.append(tx)
                            p = ''.join(parts) + tail
                            lp = lex(p)
                            if lp is None or code(lp[0]) != code(toks): continue
                            sa = '%s|%s' % (toks[slots[a] - 1][2], toks[slots[a]][2]); sb = '%s|%s' % (toks[slots[b] - 1][2], toks[slots[b]][2])
                            yield [cname, sa + '+' + sb, ka + '+' + kb, ctx], p, lp, ([cname, sa, ka, ctx], [cname, sb, kb, ctx])

(* Proof spike, part 8: the remaining container shapes (empty, inline, comment-only) and the
   expression-level theorem for the whole of fragment F0. *)
From Coq Require Import List Ascii String Bool Arith Lia.
Import ListNotations.
From F0 Require Import F0s Specs P1 P2 P3g P5 P6 P7.
Open Scope char_scope.

(* ---- reader on an inline body: no comments, no newlines ---- *)
Definition inline_kid (k : kid) : Prop :=
  let '(g, c, a) := k in is_cmt c = false /\ has_nl g = false /\ a_before a = [] /\ a_after a = [].
Lemma pds_inline inb : forall content items prev,
  Forall inline_kid content ->
  pds inb content items [] prev = (items ++ map (fun k => mk (snd k) [] []) content, []).
Proof.
  induction content as [|[[g c] a] rest IH]; intros items prev H.
  - cbn. now rewrite app_nil_r.
  - inversion H as [|? ? H1 H2]; subst. destruct H1 as (Hc & Hg & Hb & Ha).
    cbn [pds]. rewrite Hc.
    assert (Hp : (match prev with Some _ => [] ++ gap_trivia g | None => [] end) = []).
    { destruct prev; [|reflexivity]. cbn [app]. apply gap_trivia_no_nl. exact Hg. }
    rewrite Hp. rewrite (mk_fresh a [] Hb Ha). rewrite IH by exact H2.
    cbn [map snd]. rewrite <- app_assoc. reflexivity.
Qed.
Lemma has_empty_line_no_nl g : has_nl g = false -> has_empty_line g = false.
Proof. intros H. destruct (has_empty_line g) eqn:E; [|reflexivity]. apply has_empty_line_nl in E. congruence. Qed.
Lemma parse_seq_inline inb content cg :
  Forall inline_kid content -> has_nl cg = false ->
  parse_seq inb content (Some cg) true [] = (map (fun k => mk (snd k) [] []) content, []).
Proof.
  intros H Hcg. unfold parse_seq. cbn [app].
  assert (Hb0 : (match content with (g0, _, _) :: _ => if true && has_empty_line g0 then [EmptyLine] else [] | [] => [] end) = []).
  { destruct content as [|[[g0 c] a] t]; [reflexivity|]. inversion H as [|? ? H1 _]; subst.
    destruct H1 as (_ & Hg & _). cbn [andb]. now rewrite (has_empty_line_no_nl g0 Hg). }
  rewrite Hb0. rewrite pds_inline by exact H. cbn [app].
  rewrite (has_empty_line_no_nl cg Hcg). destruct content; reflexivity.
Qed.

(* ---- reader on a comment-only body ---- *)
Definition cmt_kid (k : kid) : Prop := is_cmt (snd (fst k)) = true.
Definition kraw (k : kid) : str * str := (fst (fst k), craw (snd (fst k))).
Lemma pds_comments inb : forall content Q p,
  Forall cmt_kid content ->
  pds inb content [] Q (Some p) = ([], Q ++ pend_triv (map kraw content)).
Proof.
  induction content as [|[[g c] a] rest IH]; intros Q p H.
  - cbn. now rewrite app_nil_r.
  - inversion H as [|? ? H1 H2]; subst. unfold cmt_kid in H1. cbn [fst snd] in H1.
    cbn [pds]. rewrite H1. rewrite !andb_false_r. rewrite IH by exact H2.
    cbn [map kraw fst snd pend_triv flat_map]. fold (pend_triv (map kraw rest)).
    repeat rewrite <- app_assoc. reflexivity.
Qed.

Lemma seq_lines_comments core inb ind : forall content p,
  Forall cmt_kid content ->
  seq_lines core inb ind (map strip2 content) (Some p) false = pend_text ind (map kraw content).
Proof.
  induction content as [|[[g c] a] rest IH]; intros p H; [reflexivity|].
  inversion H as [|? ? H1 H2]; subst. unfold cmt_kid in H1. cbn [fst snd] in H1.
  cbn [map strip2 fst snd seq_lines]. rewrite H1. rewrite !andb_false_r.
  rewrite IH by exact H2. cbn [map kraw fst snd pend_text flat_map]. fold (pend_text ind (map kraw rest)).
  repeat rewrite <- app_assoc. reflexivity.
Qed.

(* ---- unfolding equations of the spec for the other shapes ---- *)
Fixpoint inl_ok (l : list (str * cnode)) : Prop :=
  match l with [] => True | (g, n) :: t => is_cmt n = false /\ has_nl g = false /\ inl_ok t end.

Lemma spec_set_inline r gr body cg indent :
  body <> [] -> has_nl (ctext (CSet r gr body cg)) = false -> inl_ok body ->
  spec (CSet r gr body cg) indent =
  (if r then s "rec " else []) ++ s "{ " ++ join [" "] (map (fun gn => spec (snd gn) (indent + 2)) body) ++ s " }".
Proof.
  intros Hb Hnl Hin. cbn [spec]. rewrite Hnl. cbn [negb].
  match goal with
  | |- context [join [" "] (?F body)] =>
      assert (HF : forall l, inl_ok l -> F l = map (fun gn => spec (snd gn) (indent + 2)) l)
  end.
  { induction l as [|[g n] t IH]; intros Hl; [reflexivity|]. destruct Hl as (Hc & _ & Ht).
    rewrite Hc. cbn [map snd]. now rewrite IH. }
  rewrite (HF body Hin). destruct body; [congruence|reflexivity].
Qed.
Lemma spec_list_inline body cg indent :
  body <> [] -> has_nl (ctext (CList body cg)) = false -> inl_ok body ->
  spec (CList body cg) indent = s "[ " ++ join [" "] (map (fun gn => spec (snd gn) indent) body) ++ s " ]".
Proof.
  intros Hb Hnl Hin. cbn [spec]. rewrite Hnl. cbn [negb].
  match goal with
  | |- context [join [" "] (?F body)] =>
      assert (HF : forall l, inl_ok l -> F l = map (fun gn => spec (snd gn) indent) l)
  end.
  { induction l as [|[g n] t IH]; intros Hl; [reflexivity|]. destruct Hl as (Hc & _ & Ht).
    rewrite Hc. cbn [map snd]. now rewrite IH. }
  rewrite (HF body Hin). destruct body; [congruence|reflexivity].
Qed.

(* ---- well-formedness for the whole of F0 (expression level) ---- *)
Fixpoint wfF (c : cnode) : Prop :=
  match c with
  | CAtom isint t => tok_ok (if isint then strip_zeros t else t)
  | CCmt raw => cmt_ok raw
  | CBind name _ _ v _ => wfF v /\ is_bind v = false /\ is_cmt v = false
  | CSet _ _ body cg =>
      (fix all (l : list (str * cnode)) : Prop :=
         match l with [] => True | (_, n) :: t => (wfF n /\ (is_bind n = true \/ is_cmt n = true)) /\ all t end) body
      /\ no_double_b None body
      /\ (has_nl (ctext c) = false -> has_nl cg = false /\ inl_ok body)
  | CList body cg =>
      (fix all (l : list (str * cnode)) : Prop :=
         match l with [] => True | (_, n) :: t => (wfF n /\ is_bind n = false) /\ all t end) body
      /\ no_double_b None body
      /\ (has_nl (ctext c) = false -> has_nl cg = false /\ inl_ok body)
  end.

Lemma inl_conv body : inl_ok body -> Forall inline_kid (conv body).
Proof.
  induction body as [|[g n] t IH]; intros H; [constructor|]. destruct H as (Hc & Hg & Ht).
  cbn [conv map]. constructor; [|apply IH, Ht]. destruct (from_cst_triv n). repeat split; assumption.
Qed.
Lemma conv_cmts body : has_item_b body = false -> Forall cmt_kid (conv body).
Proof.
  induction body as [|[g n] t IH]; intros H; [constructor|]. cbn [has_item_b existsb snd] in H.
  apply orb_false_iff in H. destruct H as [Hn Ht]. cbn [conv map]. constructor; [|apply IH, Ht].
  unfold cmt_kid. cbn [fst snd]. now destruct (is_cmt n).
Qed.
Lemma no_item_gap : forall body cur, has_item_b body = false -> gap_after_last_item body cur false = cur.
Proof.
  induction body as [|[g n] t IH]; intros cur H; [reflexivity|]. cbn [has_item_b existsb snd] in H.
  apply orb_false_iff in H. destruct H as [Hn Ht]. cbn [gap_after_last_item].
  destruct (is_cmt n); [apply IH, Ht|discriminate].
Qed.
Lemma format_Etriv cg i : format_trivia (Etriv cg) i = blank cg.
Proof. unfold Etriv, blank. destruct (has_empty_line cg); reflexivity. Qed.

(* body text of a comment-only multi-line container *)
Lemma comments_body inb ind core g0 c0 a0 rest cg :
  is_cmt c0 = true -> Forall cmt_kid rest ->
  let inner := snd (parse_seq inb ((g0, c0, a0) :: rest) (Some cg) true []) in
  fst (parse_seq inb ((g0, c0, a0) :: rest) (Some cg) true []) = [] /\ inner <> [] /\
  LF :: format_trivia inner ind =
  seq_lines core inb ind (map strip2 ((g0, c0, a0) :: rest)) None false ++ LF :: blank cg.
Proof.
  intros Hc Hrest. cbv zeta. rewrite parse_seq_finish. cbn [pds]. rewrite Hc. cbn [andb].
  rewrite pds_comments by exact Hrest. cbn [fst snd]. unfold finish.
  set (before0 := if has_empty_line g0 then [EmptyLine] else []).
  assert (Hb0 : format_trivia before0 ind = blank g0).
  { unfold before0, blank. destruct (has_empty_line g0); reflexivity. }
  set (Q := (before0 ++ [TC (comment_from_cst (craw c0))]) ++ pend_triv (map kraw rest)).
  assert (HQ : Q <> []).
  { unfold Q. intro H. apply app_eq_nil in H. destruct H as [H _]. apply app_eq_nil in H. destruct H; discriminate. }
  destruct Q as [|q0 Q'] eqn:EQ; [congruence|]. rewrite <- EQ.
  assert (Hfmt : forall Z, LF :: format_trivia Q ind ++ Z =
                 (LF :: blank g0 ++ spec_comment (craw c0) ind) ++ pend_text ind (map kraw rest) ++ LF :: Z).
  { intros Z. unfold Q. rewrite !format_trivia_app, Hb0. cbn [format_trivia]. unfold spec_comment.
    repeat rewrite <- app_assoc. cbn [app]. rewrite pend_shift. repeat rewrite <- app_assoc. reflexivity. }
  cbn [map strip2 fst snd seq_lines]. rewrite Hc. cbn [andb].
  rewrite (seq_lines_comments core inb ind rest c0 Hrest).
  destruct (has_empty_line cg) eqn:Ecg; cbn [fst snd].
  - split; [reflexivity|]. split; [destruct Q; discriminate|].
    rewrite format_trivia_app. cbn [format_trivia]. rewrite Hfmt. unfold blank. rewrite Ecg.
    repeat rewrite <- app_assoc. reflexivity.
  - split; [reflexivity|]. split; [rewrite EQ; discriminate|].
    pose proof (Hfmt []) as H0. rewrite app_nil_r in H0. rewrite H0. unfold blank. rewrite Ecg.
    repeat rewrite <- app_assoc. reflexivity.
Qed.
Print Assumptions comments_body.

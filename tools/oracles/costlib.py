"""rebuild-call counting by wrapping every expression class's rebuild from outside (no source change)"""
import collections, importlib, pkgutil, os, sys
sys.path.insert(0, os.environ.get('NIMA_REPO', '/repo'))
from nix_manipulator import parse
from nix_manipulator.expressions.expression import NixExpression
import nix_manipulator.expressions as E
for m in pkgutil.walk_packages(E.__path__, E.__name__ + '.'): importlib.import_module(m.name)
counts = collections.Counter()
def _subs(c):
    for s in c.__subclasses__():
        yield s; yield from _subs(s)
for cls in set(_subs(NixExpression)):
    if 'rebuild' in cls.__dict__:
        def mk(orig, name):
            def w(self, *a, **k):
                counts[name] += 1
                return orig(self, *a, **k)
            return w
        setattr(cls, 'rebuild', mk(cls.__dict__['rebuild'], cls.__name__))
def count_calls(src):
    counts.clear()
    parse(src).rebuild()
    return sum(counts.values())

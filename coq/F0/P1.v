(* Proof spike, part 1: algebra of trivia printing and mechanics of the sequence reader. *)
From Coq Require Import List Ascii String Bool Arith Lia.
Import ListNotations.
From F0 Require Import F0s Specs.
Open Scope char_scope.

Lemma format_trivia_app a b i : format_trivia (a ++ b) i = format_trivia a i ++ format_trivia b i.
Proof.
  induction a as [|t a IH]; [reflexivity|].
  destruct t as [| |c]; cbn [app format_trivia]; rewrite IH; try reflexivity.
  rewrite <- app_assoc. reflexivity.
Qed.

Lemma format_trivia_gap g i : format_trivia (gap_trivia g) i = blank g.
Proof. unfold gap_trivia, blank. destruct (has_empty_line g); [reflexivity|]. destruct (has_nl g); reflexivity. Qed.

(* apply_trailing only appends: factor the appended part *)
Definition T (after : list triv) (indent : nat) : str := apply_trailing [] after indent.
Lemma apply_trailing_T r a i : apply_trailing r a i = r ++ T a i.
Proof.
  unfold T, apply_trailing. destruct a as [|t a]; [now rewrite app_nil_r|].
  destruct t as [| |c]; try reflexivity. destruct (cinline c); reflexivity.
Qed.

Lemma ends_nl_snoc x c : ends_nl (x ++ [c]) = (c =c LF).
Proof. unfold ends_nl. rewrite rev_app_distr. reflexivity. Qed.
Lemma ends_nl_app x y : y <> [] -> ends_nl (x ++ y) = ends_nl y.
Proof.
  intros Hy. destruct (exists_last Hy) as [y' [c ->]]. rewrite app_assoc, !ends_nl_snoc. reflexivity.
Qed.
Lemma removelast_snoc {A} (x : list A) c : removelast (x ++ [c]) = x.
Proof. apply removelast_last. Qed.

(* append_after touches only the last element *)
Lemma append_after_snoc pre a e : append_after (pre ++ [a]) e = pre ++ [set_after a (a_after a ++ e)].
Proof. unfold append_after. rewrite rev_app_distr. cbn [rev app]. rewrite rev_involutive. reflexivity. Qed.
Lemma append_after_app pre l e : l <> [] -> append_after (pre ++ l) e = pre ++ append_after l e.
Proof.
  intros Hl. destruct (exists_last Hl) as [l' [a ->]].
  rewrite app_assoc, !append_after_snoc, app_assoc. reflexivity.
Qed.
Lemma append_after_nonempty l e : l <> [] -> append_after l e <> [].
Proof. intros Hl. destruct (exists_last Hl) as [l' [a ->]]. rewrite append_after_snoc. destruct l'; discriminate. Qed.

(* the items already completed are a frame for pds *)
Lemma pds_frame inb : forall content pre l before prev, l <> [] ->
  pds inb content (pre ++ l) before prev =
  (pre ++ fst (pds inb content l before prev), snd (pds inb content l before prev)).
Proof.
  induction content as [|[[g c] a] rest IH]; intros pre l before prev Hl.
  - reflexivity.
  - cbn [pds].
    assert (Hne : (match pre ++ l with [] => true | _ => false end) = (match l with [] => true | _ => false end)).
    { destruct l; [congruence|]. destruct pre; reflexivity. }
    rewrite Hne.
    destruct (is_cmt c).
    + match goal with |- context [if ?b then _ else _] => destruct b end.
      * rewrite append_after_app by exact Hl. apply IH. now apply append_after_nonempty.
      * apply IH. exact Hl.
    + rewrite <- app_assoc. apply IH. destruct l; discriminate.
Qed.
Print Assumptions pds_frame.

"""Effect summary of the render path, regenerated from /repo on every run (C15, purity half).  Fail closed.

Walks every function reachable (call expressions only, by name; constructor calls and model_copy reach __init__,
__post_init__, __new__) from any `rebuild`, `rebuild_scoped` or `__str__` method of the package and lists every
MUTATION SITE: attribute/subscript store, del, augmented assignment on an attribute/subscript, and calls of
append/extend/insert/pop/remove/sort/clear/update/... on anything.  For each site it records the syntactic facts the
discipline of Small/Effects.v needs:
  root_fresh   the receiver's root name is a local bound IN THE SAME FUNCTION (or, for a nested def, in the enclosing one)
               only by constructor calls, model_copy/copy/replace/list/dict/set/sorted/..., literals or comprehensions,
               or it is `self` inside __init__/__post_init__/__new__, or an element of a fresh list all of whose
               appended values are constructor calls;
  through      the mutated object is reached through an attribute/subscript of the root (a shallow copy shares those);
  refreshed    for `through` container mutations: that attribute was assigned a fresh container in the same function.
A site is DISCIPLINED when root_fresh and (not through-container or refreshed), or when it is on the justified allow list.
Output: Gallina (sites, their abstraction as heap operations of Small.Effects, the obligation data) on stdout;
with --json a machine-readable list of the reachable functions for the harness's dynamic closure check."""
import ast, json, os, sys

MUTATORS = {'append', 'extend', 'insert', 'pop', 'remove', 'sort', 'clear', 'update', 'setdefault', 'add', 'discard', 'popitem', 'reverse', '__setitem__', '__delitem__'}
FRESH_CALLS = {'model_copy', 'copy', 'deepcopy', 'replace', 'list', 'dict', 'set', 'tuple', 'sorted', 'reversed', 'split', 'splitlines', 'join', 'strip', 'rstrip', 'lstrip', 'format', 'encode', 'decode'}
CTOR_HOOKS = ('__init__', '__post_init__', '__new__')
# justified allow list: (file, function, unparsed receiver) -> reason
ALLOW = {
    ('expressions/expression.py', 'NixExpression.__post_init__', 'state.stack'): 'O-3: idempotent normalisation of the (possibly shared) ScopeState of a fresh copy: layers without a scope are dropped, which the original already did in its own __post_init__',
    ('expressions/scope.py', 'Scope.__init__', 'self.owner'): 'O-1: the back-pointer of a freshly constructed Scope',
}

def scan(repo):
    root = os.path.join(repo, 'nix_manipulator')
    funcs, byname, parent, classes = {}, {}, {}, set()
    for dp, dn, fn in os.walk(root):
        for f in sorted(fn):
            if not f.endswith('.py'): continue
            p = os.path.join(dp, f); tree = ast.parse(open(p).read()); rel = os.path.relpath(p, root)
            def visit(node, prefix, encl):
                for ch in ast.iter_child_nodes(node):
                    if isinstance(ch, (ast.FunctionDef, ast.AsyncFunctionDef)):
                        q = prefix + ch.name; funcs[(rel, q)] = ch; byname.setdefault(ch.name, []).append((rel, q)); parent[(rel, q)] = encl
                        visit(ch, q + '.', (rel, q))
                    elif isinstance(ch, ast.ClassDef): classes.add(ch.name); visit(ch, prefix + ch.name + '.', encl)
                    else: visit(ch, prefix, encl)
            visit(tree, '', None)
    def callees(node):
        out = set()
        for n in ast.walk(node):
            if isinstance(n, ast.Call):
                f = n.func
                name = f.id if isinstance(f, ast.Name) else f.attr if isinstance(f, ast.Attribute) else None
                if name is None: continue
                out.add(name)
                if name in classes or name[:1].isupper() or name in ('model_copy', 'replace'): out.update(CTOR_HOOKS)
        return out
    work = [k for k in funcs if k[1].split('.')[-1] in ('rebuild', 'rebuild_scoped', '__str__')]
    reach = set(work)
    while work:
        k = work.pop()
        for name in callees(funcs[k]):
            for k2 in byname.get(name, []):
                if k2 not in reach: reach.add(k2); work.append(k2)
    return root, funcs, parent, reach

def is_fresh_value(v):
    if isinstance(v, (ast.List, ast.Dict, ast.Set, ast.ListComp, ast.DictComp, ast.SetComp, ast.GeneratorExp, ast.Constant, ast.JoinedStr, ast.Tuple)): return True
    if isinstance(v, ast.BinOp): return is_fresh_value(v.left) or is_fresh_value(v.right)          # list + list, str + str build new objects
    if isinstance(v, ast.IfExp): return is_fresh_value(v.body) and is_fresh_value(v.orelse)
    if isinstance(v, ast.Call):
        f = v.func
        if isinstance(f, ast.Name): return f.id in FRESH_CALLS or f.id.lstrip('_')[:1].isupper()
        if isinstance(f, ast.Attribute): return f.attr in FRESH_CALLS or f.attr.lstrip('_')[:1].isupper()
    return False

def bindings_of(fn):
    """name -> list of assigned values (None for bindings that are not plain assignments: for targets, with, params)"""
    b = {}
    def own_nodes(node):
        for ch in ast.iter_child_nodes(node):
            if isinstance(ch, (ast.FunctionDef, ast.AsyncFunctionDef, ast.Lambda, ast.ClassDef)): continue
            yield ch; yield from own_nodes(ch)
    for n in own_nodes(fn):
        if isinstance(n, (ast.Assign, ast.AnnAssign)):
            tg = n.targets if isinstance(n, ast.Assign) else [n.target]
            for t in tg:
                if isinstance(t, ast.Name): b.setdefault(t.id, []).append(n.value)
                elif isinstance(t, (ast.Tuple, ast.List)):
                    for e in t.elts:
                        if isinstance(e, ast.Name): b.setdefault(e.id, []).append(None)
        elif isinstance(n, ast.AugAssign) and isinstance(n.target, ast.Name): b.setdefault(n.target.id, []).append(n.value if is_fresh_value(n.value) else None)
        elif isinstance(n, (ast.For, ast.comprehension)):
            for e in ast.walk(n.target):
                if isinstance(e, ast.Name): b.setdefault(e.id, []).append(('iter', n.iter))
        elif isinstance(n, ast.withitem) and n.optional_vars is not None:
            for e in ast.walk(n.optional_vars):
                if isinstance(e, ast.Name): b.setdefault(e.id, []).append(None)
        elif isinstance(n, ast.NamedExpr): b.setdefault(n.target.id, []).append(n.value)
    return b

def appended_values(fn, lst):
    out = []
    for n in ast.walk(fn):
        if isinstance(n, ast.Call) and isinstance(n.func, ast.Attribute) and n.func.attr in ('append', 'insert') and isinstance(n.func.value, ast.Name) and n.func.value.id == lst:
            out.append(n.args[-1] if n.args else None)
    return out

def dominating_fresh(fn, site, name):
    """nearest assignment to `name` that precedes the site in its own statement list or an enclosing one:
    True if it binds a fresh value, False if it binds anything else (or a compound statement before it rebinds it), None if none"""
    par = {}
    for n in ast.walk(fn):
        for ch in ast.iter_child_nodes(n): par[id(ch)] = n
    def assigns(node):
        return any(isinstance(x, (ast.Assign, ast.AnnAssign, ast.AugAssign, ast.For, ast.NamedExpr)) and
                   any(isinstance(e, ast.Name) and e.id == name for t in (x.targets if isinstance(x, ast.Assign) else [x.target]) for e in ast.walk(t)) for x in ast.walk(node))
    cur = site
    while id(cur) in par:
        up = par[id(cur)]
        for field in ('body', 'orelse', 'finalbody'):
            lst = getattr(up, field, None)
            if isinstance(lst, list) and any(x is cur for x in lst):
                i = next(j for j, x in enumerate(lst) if x is cur)
                for st in reversed(lst[:i]):
                    if isinstance(st, (ast.Assign, ast.AnnAssign)):
                        tg = st.targets if isinstance(st, ast.Assign) else [st.target]
                        if any(isinstance(t, ast.Name) and t.id == name for t in tg): return st.value is not None and is_fresh_value(st.value)
                    elif assigns(st): return False
        if up is fn: break
        cur = up
    return None

def root_of(e):
    through = False
    while isinstance(e, (ast.Attribute, ast.Subscript)): e = e.value; through = True
    return (e.id if isinstance(e, ast.Name) else None), through

def analyse(repo):
    root, funcs, parent, reach = scan(repo)
    sites = []
    for k in sorted(reach):
        fn = funcs[k]; chain = [fn]; p = parent.get(k)
        while p is not None: chain.append(funcs[p]); p = parent.get(p)
        binds = [bindings_of(f) for f in chain]
        params = [{a.arg for a in f.args.args + f.args.kwonlyargs + f.args.posonlyargs} | ({f.args.vararg.arg} if f.args.vararg else set()) | ({f.args.kwarg.arg} if f.args.kwarg else set()) for f in chain]
        def fresh_name(name, depth=0):
            for lvl in range(len(chain)):
                if name in params[lvl]:
                    return lvl == 0 and name == 'self' and fn.name in CTOR_HOOKS
                if name in binds[lvl]:
                    vals = binds[lvl][name]
                    ok = True
                    for v in vals:
                        if v is None: ok = False
                        elif isinstance(v, tuple):          # loop variable: an element of a fresh list whose appended values are constructor calls
                            it = v[1]
                            if isinstance(it, ast.Name) and depth < 3 and fresh_name(it.id, depth + 1):
                                av = [x for f in chain for x in appended_values(f, it.id)]
                                ok = ok and bool(av) and all(x is not None and is_fresh_value(x) for x in av)
                            else: ok = False
                        else: ok = ok and is_fresh_value(v)
                    return ok
            return False
        def refreshed(recv):
            """recv = X.attr (container reached through a fresh X): was X.attr assigned a fresh container in this function?"""
            if not (isinstance(recv, ast.Attribute) and isinstance(recv.value, ast.Name)): return False
            for f in chain:
                for n in ast.walk(f):
                    if isinstance(n, ast.Assign):
                        for t in n.targets:
                            if isinstance(t, ast.Attribute) and isinstance(t.value, ast.Name) and t.value.id == recv.value.id and t.attr == recv.attr and is_fresh_value(n.value): return True
            return False
        def own_nodes(node):
            for ch in ast.iter_child_nodes(node):
                if isinstance(ch, (ast.FunctionDef, ast.AsyncFunctionDef, ast.ClassDef)): continue
                yield ch; yield from own_nodes(ch)
        for n in own_nodes(fn):
            found = []
            if isinstance(n, (ast.Assign, ast.AugAssign, ast.AnnAssign)):
                tg = n.targets if isinstance(n, ast.Assign) else [n.target]
                for t in tg:
                    for e in (t.elts if isinstance(t, (ast.Tuple, ast.List)) else [t]):
                        if isinstance(e, (ast.Attribute, ast.Subscript)): found.append(('store', e.value if True else e, e))
            elif isinstance(n, ast.Delete):
                for t in n.targets:
                    if isinstance(t, (ast.Attribute, ast.Subscript)): found.append(('del', t.value, t))
            elif isinstance(n, ast.Call) and isinstance(n.func, ast.Attribute) and n.func.attr in MUTATORS:
                found.append((n.func.attr, n.func.value, n.func.value))
            for kind, obj_expr, shown in found:
                rname, through = root_of(obj_expr)
                if rname is None:
                    rf = is_fresh_value(obj_expr); through = False
                else:
                    rf = fresh_name(rname)
                    if not rf and dominating_fresh(fn, n, rname) is True: rf = True
                # subscript of a fresh list of fresh records: the element is fresh (operands[i].extra_before = ...)
                elem_fresh = False
                if through and isinstance(obj_expr, (ast.Attribute, ast.Subscript)):
                    base = obj_expr
                    while isinstance(base, ast.Attribute): base = base.value
                    if isinstance(base, ast.Subscript) and isinstance(base.value, ast.Name) and fresh_name(base.value.id):
                        av = [x for f in chain for x in appended_values(f, base.value.id)]
                        elem_fresh = bool(av) and all(x is not None and is_fresh_value(x) for x in av)
                ref = refreshed(obj_expr) if through else False
                recv_txt = ast.unparse(shown)[:60]
                allow = ALLOW.get((k[0], k[1], recv_txt))
                disciplined = bool(allow) or (rf and (not through or ref or elem_fresh))
                sites.append({'file': k[0], 'function': k[1], 'line': n.lineno - fn.lineno, 'kind': kind, 'receiver': recv_txt, 'root_fresh': bool(rf), 'through': bool(through),
                              'refreshed': bool(ref or elem_fresh), 'allow': allow or '', 'disciplined': bool(disciplined)})
    return sorted(reach), sites

def coq_string(s): return '"' + s.replace('"', '""') + '"'

def main():
    repo = sys.argv[1]
    try:
        reach, sites = analyse(repo)
    except Exception as e:
        print('(* UNTRANSLATABLE: effect summary: %s %s *)' % (type(e).__name__, str(e).replace('*)', '* )')[:200])); return
    if '--json' in sys.argv:
        print(json.dumps({'reachable': [list(k) for k in reach], 'sites': sites})); return
    print('(* GENERATED by tools/effects2v.py from %d functions reachable from rebuild / rebuild_scoped / __str__ *)' % len(reach))
    print('From Coq Require Import List String Bool Arith. Import ListNotations. Open Scope string_scope.')
    print('From Small Require Import Effects.')
    print('Record site := { s_file : string; s_fun : string; s_line : nat; s_kind : string; s_recv : string; s_root_fresh : bool; s_through : bool; s_refreshed : bool; s_allow : bool }.')
    print('Definition n_reachable : nat := %d.' % len(reach))
    print('Definition sites : list site := [')
    print(';\n'.join('  {| s_file := %s; s_fun := %s; s_line := %d; s_kind := %s; s_recv := %s; s_root_fresh := %s; s_through := %s; s_refreshed := %s; s_allow := %s |}' % (
        coq_string(s['file']), coq_string(s['function']), s['line'], coq_string(s['kind']), coq_string(s['receiver']),
        str(s['root_fresh']).lower(), str(s['through']).lower(), str(s['refreshed']).lower(), str(bool(s['allow'])).lower()) for s in sites))
    print('].')
    print('(* the python-side verdict per site, re-derived in Coq by Dyn.EffectsProps.disciplined *)')
    print('Definition py_verdicts : list bool := [%s].' % '; '.join(str(s['disciplined']).lower() for s in sites))

if __name__ == '__main__':
    main()

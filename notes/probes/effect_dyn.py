"""Which package functions actually run under rebuild()?  (profile hook over a corpus)"""
import sys, os, glob, collections
sys.path.insert(0, '/repo')
from nix_manipulator import parse
ran = collections.Counter()
def prof(frame, event, arg):
    if event == 'call':
        co = frame.f_code
        if '/repo/nix_manipulator/' in co.co_filename:
            ran[(os.path.relpath(co.co_filename, '/repo/nix_manipulator'), co.co_qualname if hasattr(co,'co_qualname') else co.co_name)] += 1
srcs = []
for p in glob.glob('/repo/tests/**/*.nix', recursive=True):
    try: srcs.append(open(p).read())
    except Exception: pass
import re
for p in glob.glob('/repo/tests/**/*.py', recursive=True):
    t = open(p).read()
    for m in re.finditer(r'"""(.*?)"""', t, re.S):
        if len(m.group(1)) < 3000: srcs.append(m.group(1))
ok = 0
for s in srcs:
    try: src = parse(s)
    except Exception: continue
    if getattr(src, 'contains_error', False): continue
    sys.setprofile(prof)
    try: src.rebuild(); ok += 1
    except Exception: pass
    finally: sys.setprofile(None)
print('documents rebuilt under the hook:', ok, ' functions executed:', len(ran))
import json; json.dump(sorted([list(k) for k in ran]), open('ran.json','w'))
for k, v in sorted(ran.items()): print('  %-34s %s' % k)

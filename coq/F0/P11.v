(* Proof spike, part 11: the file-level theorem  roundtrip f = spec_file f. *)
From Coq Require Import List Ascii String Bool Arith Lia.
Import ListNotations.
From F0 Require Import F0s Specs P1 P2 P3g P5 P6 P7 P8 P9 P10.
Open Scope char_scope.

(* ---- spec_file in terms of seq_lines ---- *)
Definition tail_text (t : str) : str :=
  if has_empty_line t then [LF; LF] else if has_nl t then [LF] else [].
Lemma spec_file_lines c0 rest tail :
  LF :: spec_file {| f_children := ([], c0) :: rest; f_tail := tail |}
  = seq_lines (fun n => spec n 0) false 0 (([], c0) :: rest) None false ++ tail_text tail.
Proof.
  unfold spec_file, tail_text. cbn [f_children f_tail]. cbv zeta.
  match goal with
  | |- context [?F rest (Some c0) _] =>
      assert (HF : forall l p sn, F l (Some p) sn = seq_lines (fun n => spec n 0) false 0 l (Some p) sn)
  end.
  { induction l as [|[g n] t IH]; intros p sn; [reflexivity|].
    cbn [seq_lines]. rewrite IH. destruct n; cbn [is_cmt craw andb orb negb app sp repeat];
      rewrite ?orb_true_r, ?orb_false_r; repeat rewrite <- app_assoc; try reflexivity;
      destruct (negb (has_nl g) && sn); cbn [app]; repeat rewrite <- app_assoc; reflexivity. }
  rewrite HF. cbn [seq_lines].
  destruct c0; cbn [is_cmt craw orb negb andb app sp repeat blank has_empty_line];
    repeat rewrite <- app_assoc; reflexivity.
Qed.

(* ---- counting items ---- *)
Definition count_items (content : list kid) : nat :=
  List.length (filter (fun k => negb (is_cmt (snd (fst k)))) content).
Lemma append_after_length l e : List.length (append_after l e) = List.length l.
Proof.
  destruct (last_or_nil l) as [->|[l' [x ->]]]; [reflexivity|].
  rewrite append_after_snoc, !app_length. reflexivity.
Qed.
Lemma count_cons g c a rest :
  count_items ((g, c, a) :: rest) = (if is_cmt c then 0 else 1) + count_items rest.
Proof. unfold count_items. cbn [filter fst snd]. destruct (is_cmt c); reflexivity. Qed.
Lemma pds_length inb : forall content items b p,
  List.length (fst (pds inb content items b p)) = List.length items + count_items content.
Proof.
  induction content as [|[[g c] a] rest IH]; intros items b p; [cbn; lia|].
  cbn [pds]. rewrite count_cons.
  destruct (is_cmt c).
  - match goal with |- context [if ?x then _ else _] => destruct x end; rewrite IH, ?append_after_length; reflexivity.
  - rewrite IH, app_length. cbn [List.length]. lia.
Qed.
Lemma finish0_length items b : List.length (finish0 items b) = List.length items.
Proof. unfold finish0. destruct b; [reflexivity|]. destruct items; [reflexivity|]. apply append_after_length. Qed.

(* ---- the text of a sequence does not end in a newline ---- *)
Lemma seq_lines_ends ind core R inb : forall content p sn,
  Forall (kid_ok ind core R T) content -> content <> [] ->
  ends_nl (seq_lines core inb ind (map strip2 content) p sn) = false.
Proof.
  induction content as [|[[g c] a] rest IH]; intros p sn Hk Hne; [congruence|].
  inversion Hk as [|? ? Hk1 Hk2]; subst. cbn [map strip2 fst snd seq_lines]. cbn [kid_ok] in Hk1.
  destruct rest as [|k2 rest'].
  - cbn [map seq_lines]. rewrite !app_nil_r.
    destruct (is_cmt c).
    + destruct Hk1 as (Hc1 & Hn2 & He2).
      match goal with |- context [if ?x then _ else _] => destruct x end.
      * change (" " :: spec_comment_inline (craw c)) with ([" "] ++ spec_comment_inline (craw c)).
        rewrite ends_nl_app by exact Hn2. exact He2.
      * destruct (Hc1 ind) as [Hn1 He1].
        change (LF :: blank g ++ spec_comment (craw c) ind) with ((LF :: blank g) ++ spec_comment (craw c) ind).
        rewrite ends_nl_app by exact Hn1. exact He1.
    + destruct Hk1 as (_ & _ & _ & Hn & He).
      change (LF :: blank g ++ sp ind ++ core c) with ((LF :: blank g) ++ sp ind ++ core c).
      rewrite !app_assoc. rewrite ends_nl_app by exact Hn. exact He.
  - assert (Hr : seq_lines core inb ind (map strip2 (k2 :: rest')) (Some c)
                   (if is_cmt c then sn else true) <> []) by (apply seq_lines_nonempty; discriminate).
    destruct (is_cmt c).
    + rewrite ends_nl_app by exact Hr. apply IH; [exact Hk2|discriminate].
    + change (LF :: blank g ++ sp ind ++ core c ++ seq_lines core inb ind (map strip2 (k2 :: rest')) (Some c) true)
        with ((LF :: blank g) ++ sp ind ++ core c ++ seq_lines core inb ind (map strip2 (k2 :: rest')) (Some c) true).
      rewrite !app_assoc. rewrite ends_nl_app by exact Hr. apply IH; [exact Hk2|discriminate].
Qed.

(* ---- well-formed files of fragment F0 ---- *)
Definition wf_file (f : cfile) : Prop :=
  match f_children f with
  | (g0, c0) :: rest =>
      g0 = [] /\
      Forall (fun gn => wfF (snd gn) /\ is_bind (snd gn) = false) (f_children f) /\
      no_double_b None (f_children f) /\
      count_items (conv (f_children f)) = 1
  | [] => False
  end.

Lemma kids_ok_file l :
  Forall (fun gn => wfF (snd gn) /\ is_bind (snd gn) = false) l ->
  Forall (kid_ok 0 (fun n => spec n 0) (fun a => rebuild a None 0 false) T) (conv l).
Proof.
  induction l as [|[g n] t IH]; intros Hall; [constructor|].
  inversion Hall as [|? ? [Hw Hnb] Ht]; subst. cbn [conv map]. constructor; [|apply IH, Ht].
  cbn [kid_ok snd] in *. destruct (is_cmt n) eqn:En.
  - destruct n; try discriminate. exact Hw.
  - destruct (from_cst_triv n) as [Hb Ha]. destruct (rebuild_spec_F n Hw En 0) as [[Hne Hend] HR].
    repeat split; try assumption. intros B X. rewrite (HR B X false). unfold lead, trail. rewrite Hnb.
    repeat rewrite <- app_assoc. reflexivity.
Qed.

Lemma count_has_item l : count_items l <> 0 -> has_item l = true.
Proof.
  induction l as [|[[g c] a] t IH]; intros H; [cbn in H; congruence|].
  rewrite count_cons in H. cbn [has_item existsb fst snd]. destruct (is_cmt c); [|reflexivity].
  cbn [negb orb]. apply IH. exact H.
Qed.

Theorem roundtrip_spec : forall f, wf_file f -> roundtrip f = spec_file f.
Proof.
  intros [children tail] Hwf. unfold wf_file in Hwf. cbn [f_children] in Hwf.
  destruct children as [|[g0 c0] rest]; [contradiction|].
  destruct Hwf as (-> & Hall & Hnd & Hcount).
  set (core := fun n => spec n 0). set (R := fun a => rebuild a None 0 false).
  assert (Hk : Forall (kid_ok 0 core R T) (conv (([], c0) :: rest))) by (apply kids_ok_file; exact Hall).
  assert (Hhas : has_item (conv (([], c0) :: rest)) = true).
  { apply count_has_item. intro H0. pose proof (eq_trans (eq_sym H0) Hcount) as H1. discriminate H1. }
  (* the reader's result *)
  unfold roundtrip, from_cst_file. cbn [f_children f_tail].
  change (map (fun '(g, n) => (g, n, from_cst n)) (([], c0) :: rest)) with (conv (([], c0) :: rest)).
  cbn [gap_trivia has_empty_line has_nl]. unfold parse_seq. cbn [app andb].
  assert (Hconv : conv (([], c0) :: rest) = ([], c0, from_cst c0) :: conv rest) by reflexivity.
  rewrite Hconv. rewrite <- Hconv.
  destruct (pds false (conv (([], c0) :: rest)) [] [] None) as [items before] eqn:Epds.
  pose proof (seq_flat 0 core R c0 (from_cst c0) (conv rest)) as Hflat.
  rewrite <- Hconv in Hflat. rewrite Epds in Hflat. cbn [fst snd] in Hflat.
  specialize (Hflat Hk (no_double_conv None (([], c0) :: rest) Hnd) Hhas). rewrite strip_conv in Hflat.
  pose proof (pds_length false (conv (([], c0) :: rest)) [] [] None) as Hlen. rewrite Epds, Hcount in Hlen. cbn [fst List.length Nat.add] in Hlen.
  assert (Hfin : exists x, finish0 items before = [x]).
  { pose proof (finish0_length items before) as Hl. rewrite Hlen in Hl.
    destruct (finish0 items before) as [|x [|y l]]; try discriminate. eauto. }
  destruct Hfin as [x Hx].
  assert (Hfst : (let '(items1, inner) :=
                    match before, items with
                    | [], _ => (items, [])
                    | _, _ :: _ => (append_after items before, [])
                    | _, [] => (items, before) end in (items1, inner)) = ([x], [])).
  { unfold finish0 in Hx. destruct before; [rewrite Hx; reflexivity|].
    destruct items; [discriminate|]. rewrite Hx. reflexivity. }
  rewrite Hfst. cbv beta iota zeta.
  (* text of the single expression *)
  rewrite Hx in Hflat. cbn [OUT flat_map] in Hflat. rewrite app_nil_r in Hflat.
  pose proof (spec_file_lines c0 rest tail) as Hspec. fold core in Hspec. rewrite <- Hflat in Hspec.
  cbn [app] in Hspec. inversion Hspec as [Hs]. clear Hspec.
  assert (Hends : ends_nl (LF :: R x) = false).
  { rewrite Hflat. rewrite <- (strip_conv (([], c0) :: rest)).
    apply (seq_lines_ends 0 core R false); [exact Hk|discriminate]. }
  assert (HRne : R x <> []) by (intro H0; rewrite H0 in Hends; discriminate).
  rewrite ends_nl_cons in Hends by exact HRne.
  unfold R in *. rewrite Hs. unfold rebuild_file. cbn [af_exprs af_trailing flat_map app]. rewrite app_nil_r.
  unfold tail_text, gap_trivia.
  destruct (has_empty_line tail).
  - cbn [format_trivia trim_trailing rev app is_layout negb andb].
    destruct (rebuild x None 0 false) eqn:ER; [congruence|]. reflexivity.
  - destruct (has_nl tail).
    + cbn [format_trivia trim_trailing rev app is_layout negb andb]. unfold closing_sep. rewrite Hends. reflexivity.
    + rewrite app_nil_r. reflexivity.
Qed.
Print Assumptions roundtrip_spec.

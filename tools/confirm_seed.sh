#!/bin/sh
# usage: tools/confirm_seed.sh Cxx [SRC_DIR] [NAME] — confirm a seeded change independently in a fresh scratch worktree:
# demo passes on the unchanged tree, the patch applies, the pinned suite still has 340 passed, the demo fails with it.
id="$1"; src="${2:-/tmp/wt/$id}"; name="${3:-$id}"
wt=/tmp/scratch/confirm-$name; rm -rf "$wt"; git -C /repo worktree prune
git -C /repo worktree add -q --detach "$wt" HEAD || exit 2
trap 'git -C /repo worktree remove --force "$wt"' EXIT
cp "$src/demo.py" "$wt/demo.py"
( cd "$wt" && PYTHONPATH="$wt" PYTHONDONTWRITEBYTECODE=1 /venv/bin/python demo.py >/tmp/scratch/confirm-$name.base 2>&1 ); base=$?
( cd "$wt" && git apply --3way "$src/seeded_patch.diff" 2>/dev/null || git apply "$src/seeded_patch.diff" ) || { echo "PATCH DOES NOT APPLY"; exit 2; }
tests=$(cd "$wt" && PYTHONPATH="$wt" PYTHONDONTWRITEBYTECODE=1 /venv/bin/python -m pytest -q -p no:cacheprovider --timeout=900 --continue-on-collection-errors 2>&1 | tail -1)
( cd "$wt" && PYTHONPATH="$wt" PYTHONDONTWRITEBYTECODE=1 /venv/bin/python demo.py >/tmp/scratch/confirm-$name.mut 2>&1 ); mut=$?
echo "$name: demo on unchanged tree exit=$base; with patch exit=$mut; tests: $tests"
case "$tests" in *"340 passed"*) ;; *) echo "TESTS CHANGED"; exit 1;; esac
if [ "$base" = 0 ] && [ "$mut" != 0 ]; then
  mkdir -p /verif/seeded/$name && (cd "$wt" && git diff HEAD -- nix_manipulator) > /verif/seeded/$name/patch.diff && cp "$src/demo.py" /verif/seeded/$name/demo.py && echo "kept in /verif/seeded/$name"
else echo "NOT CONFIRMED"; tail -5 /tmp/scratch/confirm-$name.base /tmp/scratch/confirm-$name.mut; exit 1; fi

(* C16 over the GENERATED arms of cli/main.py, for every library behaviour, document, path and value. *)
From Coq Require Import List String Bool. Import ListNotations. Open Scope string_scope.
From Cli Require Import CliIR.
From Dyn Require Import CliGen.

(* the text the CLI writes for a library result r *)
Definition terminate (r : string) : string := r ++ (if str_endswith r nl then "" else nl).

(* str_endswith is "some suffix equals suf" *)
Lemma endswith_spec s suf : str_endswith s suf = true <-> exists p, s = p ++ suf.
Proof.
  induction s as [|a s IH]; cbn [str_endswith].
  - destruct (String.eqb "" suf) eqn:E.
    + apply String.eqb_eq in E. subst suf. split; [exists ""; reflexivity|reflexivity].
    + split; [discriminate|]. intros [p Hp]. destruct p; cbn in Hp; [subst suf; rewrite String.eqb_refl in E; discriminate|discriminate].
  - destruct (String.eqb (String a s) suf) eqn:E.
    + apply String.eqb_eq in E. split; [exists ""; cbn; congruence|reflexivity].
    + rewrite IH. split.
      * intros [p Hp]. exists (String a p). cbn. congruence.
      * intros [p Hp]. destruct p as [|b p]; cbn in Hp; [subst suf; rewrite String.eqb_refl in E; discriminate|].
        injection Hp as -> Hs. exists p. exact Hs.
Qed.
(* C16 "adding a line terminator only when that text lacks one": the written text always ends in a newline, and a
   result that already ends in one is written unchanged (so one final newline stays one) *)
Lemma sapp_nil_r (s : string) : s ++ "" = s.
Proof. induction s as [|a s IH]; cbn; congruence. Qed.
Theorem terminate_spec r : (exists p, terminate r = p ++ nl) /\ ((exists p, r = p ++ nl) -> terminate r = r) /\
                           ((~ exists p, r = p ++ nl) -> terminate r = r ++ nl).
Proof.
  unfold terminate. destruct (str_endswith r nl) eqn:E.
  - pose proof (proj1 (endswith_spec r nl) E) as [p Hp]. rewrite sapp_nil_r. split; [exists p; exact Hp|].
    split; [reflexivity|]. intros H. exfalso. apply H. exists p. exact Hp.
  - split; [exists r; reflexivity|]. split; [|reflexivity]. intros H. apply endswith_spec in H. congruence.
Qed.

Section C16.
  Variable doc : Type.
  Variables (lib_parse : string -> doc) (lib_set : doc -> string -> string -> option string)
            (lib_rm : doc -> string -> option string) (lib_err : doc -> bool) (lib_rebuild : doc -> string).
  Notation main' := (main doc lib_parse lib_set lib_rm lib_err lib_rebuild arms).

  (* set / rm: the library's result, terminated by a newline only when it lacks one, status 0;
     a raising call prints nothing on stdout, status 1 *)
  Theorem C16_set i :
    main' "set" i =
    match lib_set (lib_parse (stdin_text i)) (a_npath i) (a_value i) with
    | Some r => Done (terminate r) false 0
    | None => Done "" true 1 end.
  Proof.
    destruct i as [txt np vl]. cbn [stdin_text a_npath a_value]. unfold terminate.
    destruct (lib_set (lib_parse txt) np vl) as [r|] eqn:E; cbv -[str_endswith]; rewrite E; cbv -[str_endswith]; [|reflexivity].
    destruct (str_endswith r _); reflexivity.
  Qed.
  Theorem C16_rm i :
    main' "rm" i =
    match lib_rm (lib_parse (stdin_text i)) (a_npath i) with
    | Some r => Done (terminate r) false 0
    | None => Done "" true 1 end.
  Proof.
    destruct i as [txt np vl]. cbn [stdin_text a_npath a_value]. unfold terminate.
    destruct (lib_rm (lib_parse txt) np) as [r|] eqn:E; cbv -[str_endswith]; rewrite E; cbv -[str_endswith]; [|reflexivity].
    destruct (str_endswith r _); reflexivity.
  Qed.
  (* test: OK/0 exactly when the text has no syntax error and is reproduced byte for byte *)
  Theorem C16_test i :
    let d := lib_parse (stdin_text i) in
    main' "test" i =
    if negb (lib_err d) && str_eq (stdin_text i) (lib_rebuild d) then Done ("OK" ++ nl) false 0 else Done ("Fail" ++ nl) false 1.
  Proof.
    destruct i as [txt np vl]. cbv zeta. cbn [stdin_text].
    destruct (lib_err (lib_parse txt)) eqn:E1; [|destruct (str_eq txt (lib_rebuild (lib_parse txt))) eqn:E2];
      cbv -[str_eq]; rewrite ?E1; cbv -[str_eq]; rewrite ?E2; reflexivity.
  Qed.
  Theorem C16_unknown i cmd : cmd <> "shell" -> cmd <> "set" -> cmd <> "rm" -> cmd <> "test" ->
    main' cmd i = Done "" true 2.
  Proof.
    intros H1 H2 H3 H4. unfold main, arm_of, arms. cbn [find fst].
    (repeat match goal with |- context [String.eqb ?c cmd] =>
      let E := fresh in destruct (String.eqb c cmd) eqn:E; [apply String.eqb_eq in E; congruence|] end).
    reflexivity.
  Qed.
End C16.
Print Assumptions C16_set. Print Assumptions C16_test. Print Assumptions C16_unknown. Print Assumptions terminate_spec.

(* C07, CLI half: a text with a syntax error is reported as Fail with status 1, whatever rebuild returns *)
Section C07.
  Variable doc : Type.
  Variables (lib_parse : string -> doc) (lib_set : doc -> string -> string -> option string)
            (lib_rm : doc -> string -> option string) (lib_err : doc -> bool) (lib_rebuild : doc -> string).
  Corollary C07_test_fails i : lib_err (lib_parse (stdin_text i)) = true ->
    main doc lib_parse lib_set lib_rm lib_err lib_rebuild arms "test" i = Done ("Fail" ++ nl) false 1.
  Proof. intros H. rewrite C16_test. cbv zeta. rewrite H. reflexivity. Qed.
End C07.
Print Assumptions C07_test_fails.

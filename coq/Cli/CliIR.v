(* Design spike for C16: the IR that cli2v.py emits for the `match args.command` arms of cli/main.py, and an
   interpreter for it, parametrised by the library (parse / set_value / remove_value / rebuild / contains_error). *)
From Coq Require Import List String Bool. Import ListNotations. Open Scope string_scope.

Inductive expr :=
| EVar (x : string) | EStr (s : string) | ENum (n : nat)
| EAttr (e : expr) (a : string)
| ECall (f : string) (args : list (string * expr))
| EMeth (e : expr) (m : string) (args : list (string * expr))
| EEq (a b : expr) | EIsNot (a b : expr) | EIfExp (c a b : expr)
| EDict (items : list (expr * expr)).
Inductive stmt :=
| SAssign (x : string) (e : expr) | SSetItem (d k v : expr) | SSkip
| SPrint (e : expr) (to_stderr : bool) | SPrintEnd (e : expr) (end_ : expr) | SExpr (e : expr) | SReturn (rc : nat)
| SIf (c : expr) (t f : list stmt).

Definition str_eq : string -> string -> bool := String.eqb.   (* Python == on str; kept folded in proofs *)
(* Python str.endswith: some suffix of s equals suf *)
Fixpoint str_endswith (s suf : string) : bool :=
  if String.eqb s suf then true else match s with EmptyString => false | String _ r => str_endswith r suf end.
Section Interp.
  Variable doc : Type.
  Variables (lib_parse : string -> doc)
            (lib_set : doc -> string -> string -> option string)      (* None = the call raises *)
            (lib_rm : doc -> string -> option string)
            (lib_err : doc -> bool) (lib_rebuild : doc -> string).
  Inductive value := VStr (s : string) | VDoc (d : doc) | VBool (b : bool) | VArgs.
  Inductive eres := EV (v : value) | ERaise | EUnsupported.
  Record io := { stdin_text : string; a_npath : string; a_value : string }.
  Definition env := list (string * value).
  Fixpoint lookup (r : env) (x : string) : option value :=
    match r with [] => None | (y, v) :: t => if String.eqb x y then Some v else lookup t x end.
  Definition kw (args : list (string * eres)) (k : string) : eres :=
    match find (fun a => String.eqb (fst a) k) args with Some (_, v) => v | None => EUnsupported end.

  Definition is_var (e : expr) (x : string) : bool := match e with EVar y => String.eqb x y | _ => false end.
  Definition is_args_attr (e : expr) (a : string) : bool :=
    match e with EAttr e1 b => is_var e1 "args" && String.eqb a b | _ => false end.
  Definition arg (args : list (string * expr)) (k : string) : option expr :=
    match find (fun a => String.eqb (fst a) k) args with Some (_, e) => Some e | None => None end.

  (* string literals are compared with String.eqb, never by pattern matching (pattern matching on string
     literals compiles into match trees too large to evaluate) *)
  Fixpoint eval (i : io) (r : env) (e : expr) : eres :=
    match e with
    | EVar x => if String.eqb x "args" then EV VArgs else match lookup r x with Some v => EV v | None => EUnsupported end
    | EStr s => EV (VStr s)
    | EAttr e1 a =>
        match eval i r e1 with
        | EV VArgs => if String.eqb a "npath" then EV (VStr (a_npath i)) else if String.eqb a "value" then EV (VStr (a_value i)) else EUnsupported
        | EV (VDoc d) => if String.eqb a "contains_error" then EV (VBool (lib_err d)) else EUnsupported
        | ERaise => ERaise
        | _ => EUnsupported end
    | EMeth e1 m args =>
        if is_args_attr e1 "file" && String.eqb m "read" && match args with [] => true | _ => false end then EV (VStr (stdin_text i))
        else if String.eqb m "endswith" then
          match args with
          | [(_, a)] => match eval i r e1, eval i r a with
                        | EV (VStr x), EV (VStr suf) => EV (VBool (str_endswith x suf))
                        | ERaise, _ | _, ERaise => ERaise
                        | _, _ => EUnsupported end
          | _ => EUnsupported end
        else if String.eqb m "rebuild" && match args with [] => true | _ => false end then
          match eval i r e1 with EV (VDoc d) => EV (VStr (lib_rebuild d)) | ERaise => ERaise | _ => EUnsupported end
        else EUnsupported
    | ECall f args =>
        if String.eqb f "parse" then
          match args with
          | [(_, a)] => match eval i r a with EV (VStr s) => EV (VDoc (lib_parse s)) | ERaise => ERaise | _ => EUnsupported end
          | _ => EUnsupported end
        else if String.eqb f "set_value" then
          match args with
          | [(k1, a); (k2, b); (k3, c)] =>
              if String.eqb k1 "source" && String.eqb k2 "npath" && String.eqb k3 "value" then
                match eval i r a, eval i r b, eval i r c with
                | EV (VDoc d), EV (VStr p), EV (VStr v) => match lib_set d p v with Some s => EV (VStr s) | None => ERaise end
                | ERaise, _, _ | _, ERaise, _ | _, _, ERaise => ERaise
                | _, _, _ => EUnsupported end
              else EUnsupported
          | _ => EUnsupported end
        else if String.eqb f "remove_value" then
          match args with
          | [(k1, a); (k2, b)] =>
              if String.eqb k1 "source" && String.eqb k2 "npath" then
                match eval i r a, eval i r b with
                | EV (VDoc d), EV (VStr p) => match lib_rm d p with Some s => EV (VStr s) | None => ERaise end
                | ERaise, _ | _, ERaise => ERaise
                | _, _ => EUnsupported end
              else EUnsupported
          | _ => EUnsupported end
        else EUnsupported
    | EEq a b =>
        match eval i r a, eval i r b with
        | EV (VStr x), EV (VStr y) => EV (VBool (str_eq x y))
        | ERaise, _ | _, ERaise => ERaise
        | _, _ => EUnsupported end
    | EIfExp c a b =>
        match eval i r c with
        | EV (VBool t) => if t then eval i r a else eval i r b
        | ERaise => ERaise
        | _ => EUnsupported end
    | _ => EUnsupported
    end.

  (* outcome of running an arm: what was written to stdout, whether stderr got anything, the exit status *)
  Inductive outcome := Done (stdout : string) (stderr_used : bool) (rc : nat) | Unsupported.
  Definition nl : string := String (Ascii.ascii_of_nat 10) EmptyString.
  (* Python: an uncaught exception prints a traceback on stderr and the interpreter exits with status 1;
     falling off the end of main returns None, i.e. status 0 *)
  Fixpoint run (fuel : nat) (i : io) (r : env) (out : string) (err : bool) (ss : list stmt) : outcome :=
    match fuel with O => Unsupported | S f =>
    match ss with
    | [] => Done out err 0
    | s :: rest =>
        match s with
        | SSkip => run f i r out err rest
        | SAssign x e =>
            match eval i r e with EV v => run f i ((x, v) :: r) out err rest | ERaise => Done out true 1 | EUnsupported => Unsupported end
        | SPrint e to_err =>
            match eval i r e with
            | EV (VStr s) => if to_err then run f i r out true rest else run f i r (out ++ s ++ nl) err rest
            | ERaise => Done out true 1
            | _ => Unsupported end
        | SPrintEnd e en =>      (* print(x, end=y): both arguments are evaluated before anything is written *)
            match eval i r e, eval i r en with
            | EV (VStr s), EV (VStr t) => run f i r (out ++ s ++ t) err rest
            | ERaise, _ | _, ERaise => Done out true 1
            | _, _ => Unsupported end
        | SReturn rc => Done out err rc
        | SIf c t e =>
            match eval i r c with
            | EV (VBool b) => if b then run f i r out err (t ++ rest) else run f i r out err (e ++ rest)   (* branch outside: evaluates under an unknown condition *)
            | ERaise => Done out true 1
            | _ => Unsupported end
        | SExpr (EMeth e1 m _) => if is_var e1 "parser" && String.eqb m "print_help" then run f i r out true rest else Unsupported
        | _ => Unsupported
        end
    end end.
  Definition arm_of (arms : list (option string * list stmt)) (cmd : string) : list stmt :=
    match find (fun a => match fst a with Some c => String.eqb c cmd | None => false end) arms with
    | Some (_, b) => b
    | None => match find (fun a => match fst a with None => true | _ => false end) arms with Some (_, b) => b | None => [] end
    end.
  Definition main (arms : list (option string * list stmt)) (cmd : string) (i : io) : outcome :=
    run 100 i [] "" false (arm_of arms cmd).
End Interp.

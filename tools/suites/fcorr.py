"""Function-level correspondence for the GENERATED string functions: the Python function in REPO and the
Gallina definition the translator produced from it are run on the same inputs — exhaustively over all strings up
to a length bound on the alphabet of characters the function distinguishes, plus seeded long strings — and
compared inside Coq, including WHICH raise site fires.   usage: fcorr.py FUNC MAXLEN NSEEDED SEED OUTDIR PREFIX"""
import itertools, random, sys, traceback
from common import cs, write_shards, summary
func, maxlen, nseeded, seed, outdir, prefix = sys.argv[1], int(sys.argv[2]), int(sys.argv[3]), int(sys.argv[4]), sys.argv[5], sys.argv[6]
from nix_manipulator.cli import manipulations as M
from nix_manipulator.expressions import binding as B
from nix_manipulator.expressions.primitive import _escape_nix_string

HDR = 'From Coq Require Import List Ascii Bool Arith. Import ListNotations.\nFrom Dyn Require Import Gen.\n'
SEGS = ('Definition seg_eqb (a b : str * bool) : bool := streq (fst a) (fst b) && Bool.eqb (snd a) (snd b).\n'
        'Fixpoint segs_eqb (a b : list (str * bool)) : bool := match a, b with [], [] => true | x :: a\', y :: b\' => seg_eqb x y && segs_eqb a\' b\' | _, _ => false end.\n')
STRS = 'Fixpoint strs_eqb (a b : list str) : bool := match a, b with [], [] => true | x :: a\', y :: b\' => streq x y && strs_eqb a\' b\' | _, _ => false end.\n'

def site(e, fn, fname):
    tb = traceback.extract_tb(e.__traceback__)
    ln = [f.lineno for f in tb if f.filename.endswith(fname)][-1]
    return ln - fn.__code__.co_firstlineno

def b(x): return 'true' if x else 'false'

if func == 'escape':
    alpha = ['\\', '"', '$', '{', 'n', 'a', '\n', '\r', '\t']
    ty = 'bool * str * str'
    okd = "Definition ok (t : bool * str * str) : bool := let '(fl, i, o) := t in streq (_escape_nix_string fl i) o.\n"
    def mk(s): return ['(%s, %s, %s)' % (b(fl), cs(s), cs(_escape_nix_string(s, escape_interpolation=fl))) for fl in (False, True)]
    def key(s): return 'special' if any(ch in s for ch in '\\"\n\r\t') or '${' in s else 'plain'
elif func == 'regex':
    alpha = ['a', 'Z', '0', '_', "'", '-', '\n', ' ', '.']
    ty = 'str * bool'
    okd = "Definition ok (t : str * bool) : bool := Bool.eqb (re_npath_ident (fst t)) (snd t).\n"
    def mk(s): return ['(%s, %s)' % (cs(s), b(M._NPATH_IDENTIFIER_RE.match(s)))]
    def key(s): return 'match' if M._NPATH_IDENTIFIER_RE.match(s) else 'nomatch'
elif func == 'parse_npath':
    alpha = ['a', '.', '"', '\\', 'n', '-', '1', '\n']
    ty = 'str * res (list (str * bool))'
    okd = SEGS + "Definition ok (t : str * res (list (str * bool))) : bool := match _parse_npath (fst t), snd t with Ok a, Ok b => segs_eqb a b | Err i, Err j => Nat.eqb i j | _, _ => false end.\n"
    def run(s):
        try: return 'Ok [' + '; '.join('(%s, %s)' % (cs(x.name), b(x.quoted)) for x in M._parse_npath(s)) + ']'
        except ValueError as e: return 'Err %d' % site(e, M._parse_npath, 'manipulations.py')
    def mk(s): return ['(%s, %s)' % (cs(s), run(s))]
    def key(s): return run(s)[:6]
elif func == 'format_attr_name':
    alpha = ['a', 'i', 'f', '_', '-', '"', '\\', '$', '{', '\n', '1', "'"]
    ty = 'str * bool * str'
    okd = "Definition ok (t : str * bool * str) : bool := let '(n, q, o) := t in streq (_format_attr_name (n, q)) o.\n"
    def mk(s): return ['(%s, %s, %s)' % (cs(s), b(q), cs(M._format_attr_name(M._NPathSegment(name=s, quoted=q)))) for q in (False, True)]
    def key(s): return 'quoted' if M._format_attr_name(M._NPathSegment(name=s, quoted=False)).startswith('"') else 'bare'
elif func == 'split_attrpath':
    alpha = ['a', '.', '"', '\\', '$', '{', '}', ' ']
    ty = 'str * res (list str)'
    okd = STRS + "Definition ok (t : str * res (list str)) : bool := match _split_attrpath (fst t), snd t with Ok a, Ok b => strs_eqb a b | Err i, Err j => Nat.eqb i j | _, _ => false end.\n"
    def run(s):
        try: return 'Ok [' + '; '.join(cs(x) for x in B._split_attrpath(s)) + ']'
        except ValueError as e: return 'Err %d' % site(e, B._split_attrpath, 'binding.py')
    def mk(s): return ['(%s, %s)' % (cs(s), run(s))]
    def key(s): return run(s)[:6]
elif func == 'split_scope':
    alpha = ['@', 'a', '.']
    ty = 'str * res (option (nat * str))'
    okd = "Definition ok (t : str * res (option (nat * str))) : bool := match _split_scope_npath (fst t), snd t with Ok None, Ok None => true | Ok (Some (a, x)), Ok (Some (b, y)) => Nat.eqb a b && streq x y | Err i, Err j => Nat.eqb i j | _, _ => false end.\n"
    def run(s):
        try:
            r = M._split_scope_npath(s)
            return 'Ok None' if r is None else 'Ok (Some (%d, %s))' % (r[0], cs(r[1]))
        except ValueError as e: return 'Err %d' % site(e, M._split_scope_npath, 'manipulations.py')
    def mk(s): return ['(%s, %s)' % (cs(s), run(s))]
    def key(s): return run(s)[:10]
elif func == 'gap':
    # the whitespace-gap helpers of expressions/trivia.py against the model's own helpers (F0.F0s): blank-line test in its three
    # implementations (regex on the text, byte offsets, Layout.from_gap), indentation after the last newline, newline count
    from nix_manipulator.expressions import trivia as T
    HDR = 'From Coq Require Import List Ascii Bool Arith. Import ListNotations.\nFrom F0 Require Import F0s.\nDefinition c (n : nat) : ascii := ascii_of_nat n.\n'
    alpha = ['\n', ' ', '\t', '\r', 'a']
    ty = 'str * option (bool * bool * nat * nat)'
    okd = ("Definition count_nl (g : str) : nat := List.length (filter (fun c => c =c LF) g).\n"
           "Definition ok (t : str * option (bool * bool * nat * nat)) : bool := match snd t with None => false | Some (nl, blank, ind, cnt) =>\n"
           "  Bool.eqb (has_nl (fst t)) nl && Bool.eqb (has_empty_line (fst t)) blank && Nat.eqb (indent_from_gap (fst t)) ind && Nat.eqb (count_nl (fst t)) cnt end.\n")
    def run(s):
        try:
            bs = s.encode(); lay = T.layout_from_gap(s)
            e1 = T.gap_has_empty_line(s); e2 = T._gap_has_empty_line_offsets(bs, 0, len(bs)) if bs else False; e3 = lay.blank_line
            with T.source_bytes_context(bs): cnt, ind2 = T._gap_line_info_from_offsets(None, 0, len(bs))
            ind = T.indent_from_gap(s)
            if not (e1 == e2 == e3) or lay.on_newline != ('\n' in s) or (lay.indent or 0) != ind or (ind2 or 0) != ind or cnt != s.count('\n'): return 'None'
            return 'Some (%s, %s, %d, %d)' % (b('\n' in s), b(e1), ind, cnt)
        except Exception: return 'None'
    def mk(s): return ['(%s, %s)' % (cs(s), run(s))] if s.isascii() else []
    def key(s): return run(s)[:12]
else:
    raise SystemExit('unknown function ' + func)

if func == 'format_attr_name':   # keywords need their letters: add every keyword and near-keyword explicitly
    extra = ['assert', 'else', 'if', 'in', 'inherit', 'let', 'rec', 'then', 'with', 'or', 'iff', 'i', 'lets', 'a\n', 'foo-bar', "a'", '1a', '']
else:
    extra = []
inputs = [''] + extra
for L in range(1, maxlen + 1):
    for t in itertools.product(alpha, repeat=L): inputs.append(''.join(t))
R = random.Random(seed)
wide = alpha + [chr(x) for x in (0, 1, 9, 10, 13, 32, 34, 36, 39, 45, 46, 64, 92, 123, 125, 127)] + ['é', '→', 'ß']
for _ in range(nseeded):
    inputs.append(''.join(R.choice(wide) for _ in range(R.randint(maxlen + 1, maxlen + 14))))
cases, keys = [], {}
for s in inputs:
    cases += mk(s)
    k = key(s); keys[k] = keys.get(k, 0) + 1
write_shards(outdir, prefix, HDR, ty, okd, cases, 16)
summary(outdir, prefix, {'inputs': len(inputs), 'cases': len(cases), 'exhaustive_up_to_length': maxlen, 'alphabet': alpha,
                         'seeded_long_inputs': nseeded, 'outcome_classes': keys},
        ['%s:%s' % (func, s) for s in inputs[:5000]],
        'all strings up to length %d over %r plus %d seeded longer strings; distinct = distinct input strings' % (maxlen, alpha, nseeded),
        [{'function': func, 'input': inputs[len(inputs) // 2], 'case': cases[len(cases) // 2][:200]}])
print(len(cases))

"""Design spike: pure transcription of the proposed heap model for attribute sets
(values tree + attrpath_order aliasing) and of set_value / remove_value, fuzzed against the code."""
import sys, random, collections, copy, re
sys.path.insert(0,'/repo')
from nix_manipulator import parse
from nix_manipulator.parser import parse_to_ast
from nix_manipulator.cli.manipulations import set_value, remove_value

# ---------------- model ----------------
class KeyErr(Exception): pass
class ValErr(Exception): pass
class St:
    def __init__(self): self.heap={}; self.next=0
    def alloc(self, name, value, nested=False):
        i=self.next; self.next+=1; self.heap[i]={'name':name,'value':value,'nested':nested}; return i
# value: ('atom', text) | ('set', {'values':[ids], 'order':[entries], 'multiline':bool})
# entry: ('plain', id) | ('path', (segs...), leaf_id)
def mkset(values, order, multiline=True): return ('set', {'values':values,'order':order,'multiline':multiline})
def is_set(v): return v[0]=='set'

def parse_set(st, node):
    """AttributeSet.from_cst: bindings in order; attrpath expansion; order computed before merging"""
    raw=[]  # list of root ids in source order
    for c in node.children:
        if c.type!='binding_set': continue
        for b in c.children:
            if b.type!='binding': continue
            ap=b.child_by_field_name('attrpath'); val=b.child_by_field_name('expression')
            segs=[a.text.decode() for a in ap.children if a.type!='.']
            v = parse_value(st, val)
            leaf = st.alloc(segs[-1], v, False)
            cur = leaf
            for seg in reversed(segs[:-1]):
                cur = st.alloc(seg, mkset([cur], [], True), True)
            raw.append(cur)
    order=[]
    for rid in raw:
        b=st.heap[rid]
        if b['nested']:
            ex = extract_leaf(st, rid)
            if ex is not None: order.append(('path', ex[0], ex[1])); continue
        order.append(('plain', rid))
    values = merge_bindings(st, raw)
    return mkset(values, order, b'\n' in node.text)
def parse_value(st, val):
    if val.type in ('attrset_expression','rec_attrset_expression'): return parse_set(st, val)
    return ('atom', ' '.join(val.text.decode().split()))
def extract_leaf(st, rid):
    b=st.heap[rid]
    if not b['nested'] or not is_set(b['value']): return None
    segs=[b['name']]; cur=b['value'][1]
    while True:
        if len(cur['values'])!=1: return None
        child=st.heap[cur['values'][0]]
        segs.append(child['name'])
        if child['nested']:
            if not is_set(child['value']): return None
            cur=child['value'][1]; continue
        return tuple(segs), cur['values'][0]
def merge_sets(st, target, incoming):
    for iid in incoming['values']:
        item=st.heap[iid]
        ex=next((v for v in target['values'] if st.heap[v]['name']==item['name']), None)
        if ex is None: target['values'].append(iid); continue
        e=st.heap[ex]
        if e['nested'] or item['nested']:
            if e['nested'] and item['nested']:
                if is_set(e['value']) and is_set(item['value']): merge_sets(st, e['value'][1], item['value'][1]); continue
                raise ValErr('dup')
            if is_set(e['value']) and is_set(item['value']): target['values'].append(iid); continue
            raise ValErr('dup')
        if is_set(e['value']) and is_set(item['value']): merge_sets(st, e['value'][1], item['value'][1]); continue
        raise ValErr('dup')
def merge_bindings(st, raw):
    merged=[]; first={}
    for rid in raw:
        item=st.heap[rid]; ex=first.get(item['name'])
        if ex is None: merged.append(rid); first[item['name']]=rid; continue
        e=st.heap[ex]
        if e['nested'] or item['nested']:
            if e['nested'] and item['nested']:
                if not is_set(e['value']) or not is_set(item['value']): raise ValErr('invalid')
                merge_sets(st, e['value'][1], item['value'][1]); continue
            if is_set(e['value']) and is_set(item['value']): merged.append(rid); continue
            raise ValErr('dup')
        merged.append(rid)
    return merged

# --- printing view: what _render_bindings emits, as nested (name, value) lists
def expand(st, bid, prefix):
    b=st.heap[bid]
    if not is_set(b['value']): raise ValErr('x')
    out=[]
    for iid in b['value'][1]['values']:
        it=st.heap[iid]
        if it['nested']:
            if not is_set(it['value']): raise ValErr('x')
            out+=expand(st, iid, prefix+[b['name']] if False else prefix+[it['name']]) if False else expand_inner(st, iid, prefix+[it['name']])
        else: out.append(('.'.join(prefix+[it['name']]), view_value(st, it['value'])))
    return out
def expand_inner(st, bid, prefix):
    b=st.heap[bid]; out=[]
    for iid in b['value'][1]['values']:
        it=st.heap[iid]
        if it['nested']:
            if not is_set(it['value']): raise ValErr('x')
            out+=expand_inner(st, iid, prefix+[it['name']])
        else: out.append(('.'.join(prefix+[it['name']]), view_value(st, it['value'])))
    return out
def view_set(st, s):
    if not s['values']: return []          # AttributeSet.rebuild tests `values` first
    rv = s['order'] if s['order'] else [('plain', i) for i in s['values']]
    out=[]
    for e in rv:
        if e[0]=='path': out.append(('.'.join(e[1]), view_value(st, st.heap[e[2]]['value'])))
        else:
            b=st.heap[e[1]]
            if b['nested']:
                try: out+=expand_inner(st, e[1], [b['name']])
                except ValErr: out.append((b['name'], view_value(st, b['value'])))
            else: out.append((b['name'], view_value(st, b['value'])))
    return out
def view_value(st, v): return v[1] if v[0]=='atom' else view_set(st, v[1])

# --- operations (cli/manipulations.py, set.py)
def find_named(st, values, key, nested=None):
    for i in values:
        b=st.heap[i]
        if b['name']!=key: continue
        if nested is None or b['nested']==nested: return i
    return None
def find_root(st, s, root):
    for i in s['values']:
        b=st.heap[i]
        if b['nested'] and b['name']==root: return i
    return None
def walk_stack(st, s, segs, leaf_nested, require_root):
    if len(segs)<2:
        if require_root: raise KeyErr(segs[0] if segs else '')
        return None
    root=find_root(st, s, segs[0])
    if root is None or not is_set(st.heap[root]['value']):
        if require_root: raise KeyErr(segs[0])
        return None
    cur=st.heap[root]['value'][1]; stack=[(s, root)]
    for idx,seg in enumerate(segs[1:], start=1):
        leaf = idx==len(segs)-1
        b=find_named(st, cur['values'], seg, leaf_nested if leaf else True)
        if b is None:
            if require_root: raise KeyErr(seg)
            return None
        stack.append((cur,b))
        if leaf: break
        if not is_set(st.heap[b]['value']):
            if require_root: raise ValErr('not set')
            return None
        cur=st.heap[b]['value'][1]
    return stack
def find_leaf(st, s, segs):
    stack=walk_stack(st, s, segs, False, False)
    return None if stack is None else stack[-1][1]
def set_getitem(st, s, key):
    for i in s['values']:
        if st.heap[i]['name']==key: return st.heap[i]['value']
    raise KeyErr(key)   # (dotted-key fallback not reachable with single identifiers)
def set_setitem(st, s, key, value):
    for i in s['values']:
        if st.heap[i]['name']==key: st.heap[i]['value']=value; return
    nb=st.alloc(key, value); s['values'].append(nb)
    if s['order']: s['order'].append(('plain', nb))
def set_delitem(st, s, key):
    for k,i in enumerate(s['values']):
        if st.heap[i]['name']==key:
            del s['values'][k]
            if s['order']:
                for j,e in enumerate(s['order']):
                    if e==('plain', i): del s['order'][j]; break
            return
    raise KeyErr(key)
def set_attrpath_value(st, s, root, segs, value):
    if not is_set(st.heap[root]['value']): raise ValErr('root')
    cur=st.heap[root]['value'][1]
    for seg in segs[1:-1]:
        b=find_named(st, cur['values'], seg, True)
        if b is None:
            if find_named(st, cur['values'], seg, False) is not None: raise ValErr('mixed')
            b=st.alloc(seg, mkset([], [], cur['multiline']), True); cur['values'].append(b)
        if not st.heap[b]['nested']: raise ValErr('mixed')
        if not is_set(st.heap[b]['value']): raise ValErr('not set')
        cur=st.heap[b]['value'][1]
    fk=segs[-1]
    if find_named(st, cur['values'], fk, True) is not None: raise ValErr('mixed')
    b=find_named(st, cur['values'], fk, False)
    if b is not None: st.heap[b]['value']=value; return
    nb=st.alloc(fk, value); cur['values'].append(nb)
    if s['order']: s['order'].append(('path', tuple(segs), nb))
def remove_attrpath_value(st, s, segs):
    stack=walk_stack(st, s, segs, False, True)
    parent, leaf = stack[-1]
    parent['values'].remove(leaf)
    if s['order']:
        for j,e in enumerate(s['order']):
            if e[0]=='path' and e[2]==leaf: del s['order'][j]; break
    for parent, b in reversed(stack[:-1]):
        v=st.heap[b]['value']
        if is_set(v) and not v[1]['values']: parent['values'].remove(b)
        else: break
def resolve_parent(st, s, segs, create):
    cur=s
    for seg in segs[:-1]:
        try: v=set_getitem(st, cur, seg)
        except KeyErr:
            if not create: raise KeyErr(seg)
            nested=mkset([], [], cur['multiline']); set_setitem(st, cur, seg, nested); cur=nested[1]; continue
        if not is_set(v): raise ValErr('not set')
        cur=v[1]
    return cur, segs[-1]
def m_set(st, s, segs, value):
    leaf=find_leaf(st, s, segs); root=find_root(st, s, segs[0])
    if leaf is not None: st.heap[leaf]['value']=value; return
    if len(segs)==1:
        if root is not None: raise ValErr('overwrite attrpath')
        b=find_named(st, s['values'], segs[0])
        if b is not None: st.heap[b]['value']=value; return
        set_setitem(st, s, segs[0], value); return
    if root is not None: set_attrpath_value(st, s, root, segs, value); return
    parent, fk = resolve_parent(st, s, segs, True)      # (inherit fallback on ValueError not modelled: re-raised)
    b=find_named(st, parent['values'], fk)
    if b is not None: st.heap[b]['value']=value; return
    set_setitem(st, parent, fk, value)
def m_rm(st, s, segs):
    leaf=find_leaf(st, s, segs); root=find_root(st, s, segs[0])
    if leaf is not None: remove_attrpath_value(st, s, segs); return
    if len(segs)==1:
        if root is not None: raise KeyErr(segs[0])
        if find_named(st, s['values'], segs[0]) is None: raise KeyErr(segs[0])
        set_delitem(st, s, segs[0]); return
    if root is not None: remove_attrpath_value(st, s, segs); return
    parent, fk = resolve_parent(st, s, segs, False)
    set_delitem(st, parent, fk)

# ---------------- implementation side ----------------
def impl_view(text):
    root=parse_to_ast(text)
    top=[c for c in root.children if c.type!='comment'][0]
    def vs(node):
        out=[]
        for c in node.children:
            if c.type!='binding_set': continue
            for b in c.children:
                if b.type!='binding': continue
                ap=b.child_by_field_name('attrpath'); val=b.child_by_field_name('expression')
                out.append((ap.text.decode(), vs(val) if val.type in ('attrset_expression','rec_attrset_expression') else ' '.join(val.text.decode().split())))
        return out
    return vs(top)

if __name__=='__main__':
    seed=int(sys.argv[1]); N=int(sys.argv[2])
    sys.argv=[sys.argv[0], str(seed), '0']
    exec(open('/verif/notes/probes/gen_canon.py').read().split('bad=0')[0])
    R2=random.Random(seed+99)
    stc=collections.Counter(); shown=collections.Counter()
    def allpaths(view, prefix=()):
        out=[]
        for n,v in view:
            p=prefix+tuple(n.split('.'))
            for k in range(len(prefix)+1, len(p)+1): out.append(p[:k])
            if isinstance(v,list): out+=allpaths(v,p)
        return out
    for it in range(N):
        d=doc()
        # identifiers as values trigger reference redirection: replace by ints to keep C11 machinery out
        root=parse_to_ast(d)
        st=St()
        try: ms=parse_set(st, [c for c in root.children if c.type!='comment'][0])
        except ValErr: stc['model-parse-dup']+=1; continue
        try: src=parse(d)
        except ValueError: stc['impl-parse-dup']+=1; continue
        if view_set(st, ms[1])!=impl_view(src.rebuild()): stc['PARSE-VIEW-DIFF']+=1; continue
        for step in range(R2.randrange(1,6)):
            view=view_set(st, ms[1]); paths=sorted(set(allpaths(view)))
            r=R2.random()
            if paths and r<0.5: p=list(R2.choice(paths))
            elif paths and r<0.8: p=list(R2.choice(paths))[:-1]+['fresh%d'%step]
            elif paths: p=list(R2.choice(paths))+['deep%d'%step] + (['x'] if R2.random()<0.3 else [])
            else: p=['k']
            op=R2.choice(['set','set','rm']); val=str(R2.randrange(1000,2000))
            def lookup(view, path):
                for n,v in view:
                    segs=tuple(n.split('.'))
                    if tuple(path[:len(segs)])==segs:
                        if len(path)==len(segs): return v
                        if isinstance(v,list): 
                            r=lookup(v, path[len(segs):])
                            if r is not None: return r
                return None
            cur=lookup(view, p)
            if op=='set' and isinstance(cur,str) and re.fullmatch(r"[A-Za-z_][A-Za-z0-9_']*", cur) and cur not in ('true','false','null'):
                stc['skip-identifier-target']+=1; continue
            before_model=copy.deepcopy((st.heap, ms))
            try:
                (m_set(st, ms[1], p, ('atom',val)) if op=='set' else m_rm(st, ms[1], p)); mres='ok'
            except KeyErr: mres='KeyError'
            except ValErr: mres='ValueError'
            before_text=src.rebuild()
            try:
                out=(set_value(src,'.'.join(p),val) if op=='set' else remove_value(src,'.'.join(p))); ires='ok'
            except KeyError: ires='KeyError'
            except ValueError: ires='ValueError'
            except Exception as e: ires='OTHER:'+type(e).__name__
            key='%s:%s/%s'%(op,mres,ires)
            if mres!=ires:
                stc['RESULT-DIFF '+key]+=1
                if shown[key]<2: shown[key]+=1; print('=== RESULT-DIFF',key); print(d); print(p)
                break
            if ires!='ok':
                if src.rebuild()!=before_text: stc['IMPL-MUTATED-ON-ERROR']+=1; print('=== impl mutated on error', repr(d), p, op)
                if (st.heap, ms)!=before_model: stc['model-mutated-on-error']+=1
                stc['agree-error']+=1; continue
            mv=view_set(st, ms[1]); iv=impl_view(out)
            if mv!=iv:
                stc['VIEW-DIFF '+op]+=1
                if shown['view']<3: shown['view']+=1; print('=== VIEW-DIFF'); print(d); print(op,p,val); print('model',mv); print('impl ',iv)
                break
            stc['agree-ok']+=1
    print(dict(stc))

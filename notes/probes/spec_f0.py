"""Design spike: executable formatter SPEC for fragment F0, written directly over the CST
(no before/after lists, no string surgery), fuzzed against the implementation.
If this holds, `rebuild (from_cst c) = spec c` is the theorem to prove (canon_gaps)."""
import sys, random, re
sys.path.insert(0,'/repo')
from nix_manipulator import parse
from nix_manipulator.parser import parse_to_ast

class Unsupported(Exception): pass
ATOMS = {'variable_expression','integer_expression','float_expression','string_expression',
         'indented_string_expression','path_expression','hpath_expression','spath_expression','select_expression'}
def has_blank(g): return re.search(r'\n[ \t]*\n', g) is not None
def has_nl(g): return '\n' in g
def sp(n): return ' '*n
def comment_text(n, indent):
    t = n.text.decode()
    if t.startswith('#'):
        if '\n' in t: raise Unsupported('ml')
        if t.startswith('#!'): return sp(indent)+t
        body = t[1:]
        if body.startswith(' '): return sp(indent)+'# '+body[1:] if body[1:] else sp(indent)+'#'
        return sp(indent)+'#'+body if body else sp(indent)+'#'
    if '\n' in t: raise Unsupported('ml block')
    doc = t.startswith('/**')
    inner = t[3 if doc else 2:-2].strip()
    return ('/** ' if doc else '/* ') + inner + ' */'      # NB: no indent (F-05)
class Spec:
    def __init__(self, src): self.b = src.encode()
    def gap(self, a, b): return self.b[a.end_byte:b.start_byte].decode()
    def expr(self, n, indent):
        """render n assuming the cursor is already at the start column; continuation lines at `indent`"""
        t = n.type
        if t in ATOMS:
            if t=='select_expression':
                if any(c.type=='comment' for c in n.children) or n.child_by_field_name('default') is not None: raise Unsupported('select')
                e = n.child_by_field_name('expression'); ap = n.child_by_field_name('attrpath')
                if e.type not in ATOMS or e.type=='select_expression': raise Unsupported('select base')
                if re.search(r'\s', ap.text.decode()) or self.gap(e, [c for c in n.children if c.type=='.'][0]) or self.gap([c for c in n.children if c.type=='.'][0], ap): raise Unsupported('select ws')
                return e.text.decode()+'.'+ap.text.decode()
            if t=='integer_expression': return str(int(n.text))
            return n.text.decode()
        if t in ('attrset_expression','rec_attrset_expression'): return self.container(n, indent, True)
        if t=='list_expression': return self.container(n, indent, False)
        raise Unsupported(t)
    def container(self, n, indent, is_set):
        text = n.text.decode()
        multiline = '\n' in text
        op, cl = ('{','}') if is_set else ('[',']')
        prefix = 'rec ' if n.type=='rec_attrset_expression' else ''
        if n.type=='rec_attrset_expression':
            if any(c.type=='comment' for c in n.children if c.start_byte < [x for x in n.children if x.type=='{'][0].start_byte): raise Unsupported('rec comment')
        opening = [c for c in n.children if c.type==op][0]; closing=[c for c in n.children if c.type==cl][-1]
        content=[]
        for c in n.children:
            if c.type in (op,cl,'rec'): continue
            if c.type=='binding_set': content.extend(c.children)
            else: content.append(c)
        items = [c for c in content if c.type!='comment']
        if not content:
            return prefix + (op+'\n\n'+sp(indent)+cl if has_blank(self.gap(opening, closing)) else op+' '+cl)
        if not multiline:
            if any(c.type=='comment' for c in content): raise Unsupported('comment in inline container')
            parts = [self.item(c, indent+2 if is_set else indent, is_set) for c in items]
            return prefix + op+' '+' '.join(parts)+' '+cl
        # multi-line
        ind = indent+2
        out = prefix + op
        prev = opening; prev_item=None
        for c in content:
            g = self.gap(prev, c)
            if c.type=='comment':
                if prev_item is not None and prev is not opening and not has_nl(g) and items and items[0].start_byte < c.start_byte:
                    if c.text.startswith(b'#') or True:
                        out += ' ' + comment_text(c, 0).lstrip()
                else:
                    out += '\n' + ('\n' if has_blank(g) else '') + (comment_text(c, ind) if c.text.startswith(b'#') else comment_text(c, ind))
            else:
                out += '\n' + ('\n' if has_blank(g) else '') + sp(ind) + self.item(c, ind, is_set)
                prev_item = c
            prev = c
        keep_blank = has_blank(self.gap(prev, closing))
        if is_set and prev.type=='comment' and prev_item is not None:
            # Binding.rebuild: when the binding's trailing trivia STARTS with a plain linebreak marker
            # (first trailing comment on the very next line, no blank line, not inline), exactly one
            # trailing newline is trimmed => a blank line before '}' is dropped.
            k = content.index(prev_item)
            first_gap = self.gap(content[k], content[k+1])
            if has_nl(first_gap) and not has_blank(first_gap): keep_blank = False
        out += '\n' + ('\n' if keep_blank else '') + sp(indent) + cl
        return out
    def item(self, c, ind, is_set):
        if not is_set: return self.expr(c, ind)
        if c.type!='binding': raise Unsupported(c.type)
        ch = c.children
        if [x.type for x in ch] != ['attrpath','=', ch[2].type, ';'] or ch[2].type=='comment': raise Unsupported('binding shape')
        name = ch[0].text.decode()
        if re.search(r'\s|#|/\*', re.sub(r'"[^"]*"', 'Q', name)): raise Unsupported('attrpath ws')
        g = self.gap(ch[1], ch[2])
        if has_nl(g):
            vi = len(g.rsplit('\n',1)[-1])
            return name+' =\n' + ('\n' if has_blank(g) else '') + sp(vi) + self.expr(ch[2], vi) + ';'
        return name+' = '+self.expr(ch[2], ind)+';'
    def file(self, root):
        ch = root.children
        if not ch: return ''
        exprs = [c for c in ch if c.type!='comment']
        if len(exprs)!=1: raise Unsupported('top')
        out=''; prev=None
        for c in ch:
            if prev is None:
                out += comment_text(c,0) if c.type=='comment' else self.expr(c,0)
            else:
                g = self.gap(prev,c)
                if c.type=='comment' and not has_nl(g) and any(e.start_byte<c.start_byte for e in exprs):
                    out += ' ' + comment_text(c,0)
                else:
                    out += '\n' + ('\n' if has_blank(g) else '') + (comment_text(c,0) if c.type=='comment' else self.expr(c,0))
            prev=c
        tail = self.b[ch[-1].end_byte:root.end_byte].decode()
        if has_blank(tail): out += '\n\n'
        elif has_nl(tail): out += '\n'
        return out
def spec(src):
    root = parse_to_ast(src)
    if root.has_error or root.start_byte!=0: raise Unsupported('error/lead')
    return Spec(src).file(root)

if __name__=='__main__':
    import collections
    seed=int(sys.argv[1]); N=int(sys.argv[2])
    sys.argv=[sys.argv[0], str(seed), '0']
    exec(open('notes/probes/gen_canon2.py').read().split('bad=0')[0])
    R2 = random.Random(seed+1000)
    OPAQ = ('string_expression','indented_string_expression','comment','path_expression','spath_expression','hpath_expression','select_expression','attrpath')
    def leaves(n,out):
        if n.type in OPAQ or n.child_count==0:
            if n.end_byte>n.start_byte: out.append(n)
            return
        for c in n.children: leaves(c,out)
    WS=[' ','  ','\t',' \t ','\n','\n\n','\n  ','\n      ',' \n ','\n\n\n   ','   \n\t\n ','\n\t']
    def perturb(s):
        root=parse_to_ast(s); out=[]; leaves(root,out); b=s.encode(); res=''; pos=0
        for i,n in enumerate(out):
            g=b[pos:n.start_byte].decode()
            if i>0:
                prevc = out[i-1].type=='comment'
                if prevc and out[i-1].text.startswith(b'#'):
                    g = R2.choice(['\n','\n\n','\n   ','\n\n\n\t'])
                elif n.type=='comment':
                    g = g if R2.random()<0.5 else (R2.choice(WS) if '\n' in g else R2.choice([' ','   ','\t']))
                elif R2.random()<0.5:
                    g = R2.choice(WS) if g else R2.choice(['',' ','\n'])
            res+=g+n.text.decode(); pos=n.end_byte
        return res+b[pos:].decode()
    st=collections.Counter(); shown=0
    for i in range(N):
        d=doc(); p = perturb(d) if R2.random()<0.8 else d
        root=parse_to_ast(p)
        if root.has_error: st['invalid']+=1; continue
        try: sp_out = spec(p)
        except Unsupported as e: st['unsupported:'+str(e)]+=1; continue
        r = parse(p).rebuild()
        if r==sp_out: st['agree']+=1
        else:
            st['DISAGREE']+=1
            if shown<4: shown+=1; print('IN  ',repr(p)); print('IMPL',repr(r)); print('SPEC',repr(sp_out))
    print(dict(st))

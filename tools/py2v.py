"""Prototype of the fail-closed Python -> Gallina translator (design spike, not framework code).
Handles: straight-line code, if/elif/else, `continue`, `raise`, list.append on a string buffer,
idiom A (for ch in s), idiom B (while i < len(s) with s[i+k] subscripts), a nested closure with
nonlocal, re.compile literals of the form ^[class][class]*$ .  Anything else -> Untranslatable."""
import ast, sys, sre_parse, sre_constants as C

class Untranslatable(Exception): pass

def ch(c): return '(c %d)' % ord(c)
def strlit(s): return '[' + '; '.join(ch(x) for x in s) + ']' if s else '[]'

class Fn:
    def __init__(self, src_path, name, config):
        self.tree = ast.parse(open(src_path).read()); self.name=name; self.cfg=config
        self.fn = next(n for n in ast.walk(self.tree) if isinstance(n, ast.FunctionDef) and n.name==name)
        self.raise_sites = 0
    # ---------- expressions ----------
    def expr(self, e, env):
        if isinstance(e, ast.Name):
            if e.id in env: return env[e.id]
            if e.id in self.cfg.get('params', {}): return e.id
            raise Untranslatable('unknown name %s' % e.id)
        if isinstance(e, ast.Constant) and e.value is None: return 'None'
        if isinstance(e, ast.Attribute) and isinstance(e.value, ast.Name) and e.value.id in self.cfg.get('records', {}):
            proj = self.cfg['records'][e.value.id].get(e.attr)
            if proj is None: raise Untranslatable('unknown field %s' % e.attr)
            return '(%s %s)' % (proj, e.value.id)
        if isinstance(e, ast.JoinedStr):
            parts = []
            for v in e.values:
                if isinstance(v, ast.Constant) and isinstance(v.value, str): parts.append(strlit(v.value))
                elif isinstance(v, ast.FormattedValue) and v.conversion == -1 and v.format_spec is None: parts.append(self.as_str(v.value, env))
                else: raise Untranslatable('f-string part')
            return '(' + ' ++ '.join(parts) + ')'
        if isinstance(e, ast.Compare) and len(e.ops)==1 and isinstance(e.ops[0], ast.In) and isinstance(e.comparators[0], ast.Name) and e.comparators[0].id in self.cfg.get('strsets', {}):
            return '(existsb (streq %s) %s)' % (self.expr(e.left, env), self.cfg['strsets'][e.comparators[0].id])
        if isinstance(e, ast.Call) and isinstance(e.func, ast.Name) and e.func.id in self.cfg.get('funcs', {}):
            sig = self.cfg['funcs'][e.func.id]
            vals = {}
            for name, a in zip(sig['py'], e.args): vals[name] = self.expr(a, env)
            for k in e.keywords: vals[k.arg] = self.expr(k.value, env)
            if set(vals) != set(sig['py']): raise Untranslatable('call arity %s' % e.func.id)
            return '(%s %s)' % (e.func.id, ' '.join(vals[n] for n in sig['coq']))
        if isinstance(e, ast.Tuple): return '(' + ', '.join(self.expr(x, env) for x in e.elts) + ')'
        if isinstance(e, ast.Subscript) and isinstance(e.slice, ast.Slice) and e.slice.upper is None and e.slice.step is None and isinstance(e.slice.lower, ast.Name) and self.cfg['types'].get(e.slice.lower.id)=='int':
            return '(skipn %s %s)' % (self.expr(e.slice.lower, env), self.expr(e.value, env))
        if isinstance(e, ast.Constant):
            if isinstance(e.value, bool): return 'true' if e.value else 'false'
            if isinstance(e.value, str): return strlit(e.value)
            if isinstance(e.value, int): return str(e.value)
        if isinstance(e, ast.BoolOp):
            op = ' && ' if isinstance(e.op, ast.And) else ' || '
            return '(' + op.join(self.cond(v, env) for v in e.values) + ')'
        if isinstance(e, ast.UnaryOp) and isinstance(e.op, ast.Not):
            return '(negb %s)' % self.cond(e.operand, env)
        if isinstance(e, ast.Compare) and len(e.ops)==1:
            l, r, op = e.left, e.comparators[0], e.ops[0]
            # index + k < len(s)  (idiom B)
            if isinstance(op, ast.Lt) and isinstance(r, ast.Call) and getattr(r.func,'id',None)=='len' and 'scan' in env:
                k = self.index_offset(l, env)
                return '(has_at %d %s)' % (k, env['scan']['rest'])
            if isinstance(op, ast.Gt) and isinstance(l, ast.Name) and self.cfg['types'].get(l.id)=='int' and isinstance(r, ast.Constant) and isinstance(r.value, int):
                return '(%d <? %s)' % (r.value, self.expr(l, env))
            if isinstance(op, (ast.Eq, ast.NotEq)) and ((isinstance(l, ast.Name) and self.cfg['types'].get(l.id)=='int') or (isinstance(r, ast.Name) and self.cfg['types'].get(r.id)=='int')):
                eq = '(Nat.eqb %s %s)' % (self.expr(l, env), self.expr(r, env))
                return eq if isinstance(op, ast.Eq) else '(negb %s)' % eq
            if isinstance(op, (ast.Eq, ast.NotEq)):
                le, re_ = self.expr(l, env), self.expr(r, env)
                if self.is_char(l, env) or self.is_char(r, env):
                    le = self.as_char(l, env); re_ = self.as_char(r, env); eq = '(%s =c %s)' % (le, re_)
                else: eq = '(streq %s %s)' % (le, re_)
                return eq if isinstance(op, ast.Eq) else '(negb %s)' % eq
            if isinstance(op, ast.In) and isinstance(r, ast.Tuple):
                le = self.as_char(l, env)
                return '(' + ' || '.join('(%s =c %s)' % (le, self.as_char(x, env)) for x in r.elts) + ')'
        if isinstance(e, ast.Subscript) and 'scan' in env and isinstance(e.value, ast.Name) and e.value.id==env['scan']['s']:
            k = self.index_offset(e.slice, env)
            return '(at_ %d %s)' % (k, env['scan']['rest'])
        if isinstance(e, ast.BinOp) and isinstance(e.op, ast.Add):
            return '(%s ++ %s)' % (self.as_str(e.left, env), self.as_str(e.right, env))
        if isinstance(e, ast.Call):
            f = e.func
            if isinstance(f, ast.Attribute) and f.attr=='strip' and not e.args:
                return '(py_strip %s)' % self.expr(f.value, env)
            if isinstance(f, ast.Attribute) and f.attr=='join' and isinstance(f.value, ast.Constant) and f.value.value=='':
                return self.expr(e.args[0], env)          # "".join(buf) with buf modelled as a string
            if isinstance(f, ast.Attribute) and f.attr=='match' and isinstance(f.value, ast.Name) and f.value.id in self.cfg.get('regexes', {}):
                return '(%s %s)' % (self.cfg['regexes'][f.value.id], self.expr(e.args[0], env))
            if isinstance(f, ast.Name) and f.id in self.cfg.get('ctors', {}):
                kws = {k.arg: self.expr(k.value, env) for k in e.keywords}
                return '(' + ', '.join(kws[a] for a in self.cfg['ctors'][f.id]) + ')'
        raise Untranslatable('expr ' + ast.dump(e)[:80])
    def cond(self, e, env):
        if isinstance(e, ast.Name) and self.cfg['types'].get(e.id) in ('str','strbuf'): return '(negb (isnil %s))' % self.expr(e, env)
        return self.expr(e, env)
    def is_char(self, e, env):
        return (isinstance(e, ast.Name) and self.cfg['types'].get(e.id)=='char') or \
               (isinstance(e, ast.Constant) and isinstance(e.value,str) and len(e.value)==1 and False) or \
               (isinstance(e, ast.Subscript) and 'scan' in env)
    def as_char(self, e, env):
        if isinstance(e, ast.Constant) and isinstance(e.value,str) and len(e.value)==1: return ch(e.value)
        return self.expr(e, env)
    def as_str(self, e, env):
        if isinstance(e, ast.Name) and self.cfg['types'].get(e.id)=='char': return '[%s]' % self.expr(e, env)
        return self.expr(e, env)
    def index_offset(self, e, env):
        i = env['scan']['i']
        if isinstance(e, ast.Name) and e.id==i: return env['scan']['k']
        if isinstance(e, ast.BinOp) and isinstance(e.op, ast.Add) and isinstance(e.left, ast.Name) and e.left.id==i and isinstance(e.right, ast.Constant):
            return env['scan']['k'] + e.right.value
        raise Untranslatable('subscript not index+c')
    # ---------- statements (continuation style) ----------
    def stmts(self, ss, env, k):
        """translate statement list; k(env) gives the expression for falling off the end"""
        if not ss: return k(env)
        s, rest = ss[0], ss[1:]
        if isinstance(s, ast.Expr) and isinstance(s.value, ast.Constant): return self.stmts(rest, env, k)   # docstring
        if isinstance(s, ast.FunctionDef) and s.name in env.get('closures', {}): return self.stmts(rest, env, k)
        if isinstance(s, ast.AnnAssign) and isinstance(s.target, ast.Name) and s.value is not None:
            s = ast.Assign(targets=[s.target], value=s.value, lineno=s.lineno)
        if isinstance(s, ast.Assign) and len(s.targets)==1 and isinstance(s.targets[0], ast.Name):
            v = s.targets[0].id
            if isinstance(s.value, ast.List) and not s.value.elts: val='[]'
            else: val = self.expr(s.value, env)
            env2 = dict(env); nm = self.fresh(v); env2[v]=nm
            ann = (' : ' + self.cfg['coqtypes'][v]) if v in self.cfg.get('coqtypes', {}) else ''
            return '(let %s%s := %s in\n%s)' % (nm, ann, val, self.stmts(rest, env2, k))
        if isinstance(s, ast.AugAssign) and isinstance(s.target, ast.Name) and 'scan' in env and s.target.id==env['scan']['i'] and isinstance(s.op, ast.Add) and isinstance(s.value, ast.Constant) and s.value.value>0:
            env2 = dict(env); env2['scan'] = dict(env['scan']); env2['scan']['k'] += s.value.value
            return self.stmts(rest, env2, k)
        if isinstance(s, ast.AugAssign) and isinstance(s.target, ast.Name) and self.cfg['types'].get(s.target.id)=='int' and isinstance(s.value, ast.Constant) and s.value.value==1 and isinstance(s.op, (ast.Add, ast.Sub)) and not ('scan' in env and s.target.id==env['scan']['i']):
            v = s.target.id; env2 = dict(env); nm = self.fresh(v); env2[v]=nm
            return '(let %s := %s in\n%s)' % (nm, ('S %s' if isinstance(s.op, ast.Add) else 'Nat.pred %s') % env[v], self.stmts(rest, env2, k))
        if isinstance(s, ast.Expr) and isinstance(s.value, ast.Call):
            c = s.value
            if isinstance(c.func, ast.Attribute) and c.func.attr=='append' and isinstance(c.func.value, ast.Name):
                v = c.func.value.id; ty = self.cfg['types'].get(v)
                arg = c.args[0]
                if ty=='strbuf': add = self.as_str(arg, env)
                elif ty=='list': add = '[%s]' % self.expr(arg, env)
                else: raise Untranslatable('append on %s' % v)
                env2 = dict(env); nm = self.fresh(v); env2[v]=nm
                return '(let %s := %s ++ %s in\n%s)' % (nm, env[v], add, self.stmts(rest, env2, k))
            if isinstance(c.func, ast.Name) and c.func.id in env.get('closures', {}):
                return env['closures'][c.func.id](env, lambda e2: self.stmts(rest, e2, k))
        if isinstance(s, ast.If):
            c = self.cond(s.test, env)
            return '(if %s\n then %s\n else %s)' % (c, self.stmts(s.body + rest, env, k), self.stmts(s.orelse + rest, env, k))
        if isinstance(s, ast.While) and 'while' in env: return env['while'](s, env, lambda e2: self.stmts(rest, e2, k))
        if isinstance(s, ast.For) and 'for' in env: return env['for'](s, env, lambda e2: self.stmts(rest, e2, k))
        if isinstance(s, ast.Continue): return env['continue'](env)
        if isinstance(s, ast.Break) and 'break' in env: return env['break'](env)
        if isinstance(s, ast.Raise):
            self.raise_sites += 1
            return 'Err %d' % self.site(s)
        if isinstance(s, ast.Return): return env['return'](self.expr(s.value, env))
        if isinstance(s, ast.Nonlocal): return self.stmts(rest, env, k)
        raise Untranslatable('stmt ' + ast.dump(s)[:80])
    def site(self, s): return s.lineno - self.fn.lineno
    def fresh(self, v):
        self.n = getattr(self,'n',0)+1; return '%s_%d' % (v, self.n)

PRELUDE = r'''From Coq Require Import List Ascii Bool Arith.
Import ListNotations.
Notation str := (list ascii).
Definition c (n : nat) : ascii := ascii_of_nat n.
Notation "a =c b" := (Ascii.eqb a b) (at level 70).
Definition at_ (k : nat) (l : str) : ascii := nth k l (c 0).
Definition has_at (k : nat) (l : str) : bool := k <? List.length l.
Definition isnil (l : str) : bool := match l with [] => true | _ => false end.
(* Python str.strip() on ASCII: characters for which str.isspace() holds *)
Definition py_space (x : ascii) : bool := let n := nat_of_ascii x in ((9 <=? n) && (n <=? 13)) || ((28 <=? n) && (n <=? 32)).
Fixpoint py_lstrip (l : str) : str := match l with x :: r => if py_space x then py_lstrip r else l | [] => [] end.
Definition py_strip (l : str) : str := rev (py_lstrip (rev (py_lstrip l))).
Fixpoint streq (a b : str) : bool := match a, b with [], [] => true | x :: a', y :: b' => (x =c y) && streq a' b' | _, _ => false end.
Inductive res (A : Type) := Ok (a : A) | Err (site : nat).
Arguments Ok {A} a. Arguments Err {A} site.
'''

def gen_escape(path):
    f = Fn(path, '_escape_nix_string', {'params': {'value':'str','escape_interpolation':'bool'},
                                         'types': {'escaped':'strbuf','ch':'char','value':'str'}})
    body = [s for s in f.fn.body if not (isinstance(s, ast.Expr) and isinstance(s.value, ast.Constant))]
    # expected shape: escaped = []; index = 0; while index < len(value): ...; return "".join(escaped)
    if not (isinstance(body[0], (ast.Assign, ast.AnnAssign)) and isinstance(body[1], (ast.Assign, ast.AnnAssign)) and isinstance(body[2], ast.While) and isinstance(body[3], ast.Return)):
        raise Untranslatable('escape: unexpected top-level shape')
    w = body[2]
    t = w.test
    if not (isinstance(t, ast.Compare) and isinstance(t.left, ast.Name) and t.left.id=='index' and isinstance(t.ops[0], ast.Lt)
            and isinstance(t.comparators[0], ast.Call) and t.comparators[0].func.id=='len' and t.comparators[0].args[0].id=='value'):
        raise Untranslatable('escape: loop test')
    call = lambda env: '_escape_nix_string_loop fuel\' escape_interpolation (skipn %d rest) %s' % (env['scan']['k'], env['escaped'])
    env = {'escaped':'escaped', 'scan': {'i':'index','s':'value','rest':'rest','k':0}, 'continue': call}
    loop_body = f.stmts(w.body, env, call)
    out  = 'Fixpoint _escape_nix_string_loop (fuel : nat) (escape_interpolation : bool) (rest : str) (escaped : str) : str :=\n'
    out += '  match fuel with O => escaped | S fuel\' =>\n  if has_at 0 rest then\n' + loop_body + '\n  else escaped end.\n'
    out += 'Definition _escape_nix_string (escape_interpolation : bool) (value : str) : str :=\n  _escape_nix_string_loop (List.length value) escape_interpolation value [].\n'
    return out


def gen_fold(path, name, params, types, ctors, regexes, state, ret_ty, coqtypes, ret_some=False):
    """idiom A: prelude; nested defs with nonlocal; `for ch in <param>:` over a state tuple; postlude"""
    f = Fn(path, name, {'params': params, 'types': types, 'ctors': ctors, 'regexes': regexes, 'coqtypes': coqtypes})
    closures = {}
    for st in f.fn.body:
        if isinstance(st, ast.FunctionDef):
            if st.args.args or any(not isinstance(x, (ast.Nonlocal, ast.Assign, ast.If, ast.Expr, ast.Raise)) for x in st.body):
                raise Untranslatable('closure shape ' + st.name)
            closures[st.name] = (lambda body: (lambda env, k2: f.stmts(body, env, k2)))(st.body)
    tup = lambda env: env[state[0]] if len(state) == 1 else '(' + ', '.join(env[v] for v in state) + ')'
    pieces = {}
    def do_for(node, env, k_after):
        if not (isinstance(node.target, ast.Name) and isinstance(node.iter, ast.Name) and node.iter.id in params and not node.orelse):
            raise Untranslatable('for shape')
        chv = node.target.id
        if types.get(chv) != 'char': raise Untranslatable('loop variable type')
        env_in = dict(env); 
        for v in state: env_in[v] = v
        env_in[chv] = chv
        has_break = any(isinstance(x, ast.Break) for x in ast.walk(node))
        pieces['break'] = has_break
        nxt = (lambda e: 'Ok (true, %s)' % tup(e)) if has_break else (lambda e: 'Ok ' + tup(e))
        env_in['continue'] = nxt
        if has_break: env_in['break'] = lambda e: 'Ok (false, %s)' % tup(e)
        env_in.pop('for', None)
        pieces['step'] = f.stmts(node.body, env_in, nxt)
        env_out = dict(env)
        for v in state: env_out[v] = v + "'"
        tup1 = lambda env: env[state[0]] if len(state) == 1 else tup(env)
        pat_out = (state[0] + "'") if len(state) == 1 else "'(%s)" % ', '.join(v + "'" for v in state)
        return ('(match %s_loop %s %s with\n | Err e => Err e\n | Ok st => let %s := st in\n%s end)'
                % (name, tup1(env), node.iter.id, pat_out, k_after(env_out)))
    env = {'closures': closures, 'for': do_for, 'return': (lambda e: 'Ok ' + (e if e == 'None' or not ret_some else '(Some %s)' % e))}
    body = f.stmts(f.fn.body, env, lambda e: (_ for _ in ()).throw(Untranslatable('falls off the end')))
    st_ty = 'STATE_' + name
    pat = (lambda vs: vs[0] if len(vs) == 1 else "'(%s)" % ', '.join(vs))(state)
    step_ty = ('(bool * %s)' % st_ty) if pieces['break'] else st_ty
    out  = 'Definition %s_step (st : %s) (%s : ascii) : res %s :=\n  let %s := st in\n%s.\n' % (name, st_ty, 'ch', step_ty, pat, pieces['step'])
    if pieces['break']:
        out += ('Fixpoint %s_loop (st : %s) (s : str) : res %s :=\n  match s with [] => Ok st | ch :: r => match %s_step st ch with Ok (true, st\') => %s_loop st\' r | Ok (false, st\') => Ok st\' | Err e => Err e end end.\n'
                % (name, st_ty, st_ty, name, name))
    else:
        out += ('Fixpoint %s_loop (st : %s) (s : str) : res %s :=\n  match s with [] => Ok st | ch :: r => match %s_step st ch with Ok st\' => %s_loop st\' r | Err e => Err e end end.\n'
                % (name, st_ty, st_ty, name, name))
    out += 'Definition %s %s : res %s :=\n%s.\n' % (name, ' '.join('(%s : %s)' % (p, t) for p, t in params.items()), ret_ty, body)
    return out, f.raise_sites

def gen_scan(path, name, params, types, ctors, regexes, state, ret_ty, coqtypes, index, subject):
    """idiom B over a state tuple: prelude; `while index < len(subject):` with subject[index+c] reads and
    index += k (k>0) on every path; postlude."""
    f = Fn(path, name, {'params': params, 'types': types, 'ctors': ctors, 'regexes': regexes, 'coqtypes': coqtypes})
    tup = lambda env: '(' + ', '.join(env[v] for v in state) + ')'
    pieces = {}
    def do_while(node, env, k_after):
        t = node.test
        if not (isinstance(t, ast.Compare) and isinstance(t.left, ast.Name) and t.left.id==index and isinstance(t.ops[0], ast.Lt)
                and isinstance(t.comparators[0], ast.Call) and getattr(t.comparators[0].func,'id',None)=='len'
                and t.comparators[0].args[0].id==subject and not node.orelse):
            raise Untranslatable('while shape')
        env_in = dict(env)
        for v in state: env_in[v] = v
        def call(e):
            if e['scan']['k'] <= 0: raise Untranslatable('index does not advance on some path')
            return "%s_loop fuel' (skipn %d rest) %s" % (name, e['scan']['k'], tup(e))
        env_in['scan'] = {'i': index, 's': subject, 'rest': 'rest', 'k': 0}
        env_in['continue'] = call
        env_in.pop('while', None)
        pieces['body'] = f.stmts(node.body, env_in, call)
        env_out = dict(env)
        for v in state: env_out[v] = v + "'"
        return ('(match %s_loop (List.length %s) %s %s with\n | Err e => Err e\n | Ok st => let \'(%s) := st in\n%s end)'
                % (name, subject, subject, tup(env), ', '.join(v + "'" for v in state), k_after(env_out)))
    env = {'while': do_while, 'return': lambda e: 'Ok ' + e}
    body_stmts = [s for s in f.fn.body if not (isinstance(s, (ast.Assign, ast.AnnAssign)) and getattr(getattr(s, 'targets', [getattr(s, 'target', None)])[0], 'id', None) == index)]
    body = f.stmts(body_stmts, env, lambda e: (_ for _ in ()).throw(Untranslatable('falls off the end')))
    st_ty = 'STATE_' + name
    out  = ('Fixpoint %s_loop (fuel : nat) (rest : str) (st : %s) : res %s :=\n  match fuel with O => (if has_at 0 rest then Err 0 else Ok st) | S fuel\' =>\n  if has_at 0 rest then\n  let \'(%s) := st in\n%s\n  else Ok st end.\n'
            % (name, st_ty, st_ty, ', '.join(state), pieces['body']))
    out += 'Definition %s %s : res %s :=\n%s.\n' % (name, ' '.join('(%s : %s)' % (p, t) for p, t in params.items()), ret_ty, body)
    return out, f.raise_sites

def gen_regex(name, pattern):
    p = sre_parse.parse(pattern)
    items = list(p)
    def cls(node):
        op, av = node
        if op != C.IN: raise Untranslatable('regex item %s' % op)
        parts=[]
        for o,a in av:
            if o==C.RANGE: parts.append('((%d <=? nat_of_ascii x) && (nat_of_ascii x <=? %d))' % a)
            elif o==C.LITERAL: parts.append('(x =c c %d)' % a)
            else: raise Untranslatable('regex class %s' % o)
        return '(fun x => ' + ' || '.join(parts) + ')'
    if items[0] != (C.AT, C.AT_BEGINNING) or items[-1] not in ((C.AT, C.AT_END), (C.AT, C.AT_END_STRING)) or len(items) != 4: raise Untranslatable('regex anchors')
    dollar = items[-1] == (C.AT, C.AT_END)
    first = cls(items[1])
    op, (lo, hi, sub) = items[2]
    if op != C.MAX_REPEAT or lo != 0 or hi != C.MAXREPEAT: raise Untranslatable('regex repeat')
    restc = cls(list(sub)[0])
    # Python: `$` matches at the end or just before a final newline; `match` anchors at the start only
    last = ('%s x || (x =c c 10)' % restc) if dollar else ('%s x' % restc)   # `\Z`: the very end only
    return ('Fixpoint %s_tail (l : str) : bool :=\n  match l with\n  | [] => true\n  | [x] => %s\n  | x :: l\' => %s x && %s_tail l\'\n  end.\n'
            'Definition %s (l : str) : bool := match l with x :: l\' => %s x && %s_tail l\' | [] => false end.\n') % (name, last, restc, name, name, first, name)


def gen_simple(path, name, params, cfg, ret_ty):
    """straight-line function: if / return only"""
    c = dict(cfg); c['params'] = params
    f = Fn(path, name, c)
    body = f.stmts(f.fn.body, {'return': lambda e: e}, lambda e: (_ for _ in ()).throw(Untranslatable('falls off the end')))
    return 'Definition %s %s : %s :=\n%s.\n' % (name, ' '.join('(%s : %s)' % (p, t) for p, t in params.items()), ret_ty, body)

def gen_strset(tree, name):
    for n in tree.body:
        if isinstance(n, ast.Assign) and getattr(n.targets[0], 'id', None) == name:
            v = n.value
            if isinstance(v, ast.Call) and getattr(v.func, 'id', None) == 'frozenset' and len(v.args) == 1: v = v.args[0]
            if isinstance(v, (ast.Set, ast.Tuple, ast.List)) and all(isinstance(x, ast.Constant) and isinstance(x.value, str) for x in v.elts):
                return 'Definition %s : list str := [%s].\n' % (name, '; '.join(strlit(x.value) for x in sorted(v.elts, key=lambda x: x.value)))
            raise Untranslatable('%s is not a literal set of strings' % name)
    return 'Definition %s : list str := [].  (* no such table in the source: no name is treated as a keyword *)\n' % name

def guarded(label, thunk):
    """fail closed: an untranslatable function leaves a marker and no definition"""
    try:
        return thunk()
    except Untranslatable as e:
        return '(* UNTRANSLATABLE: %s: %s *)\n' % (label, str(e).replace('*)', '* )'))
    except Exception as e:   # unexpected source shape
        return '(* UNTRANSLATABLE: %s: %s %s *)\n' % (label, type(e).__name__, str(e).replace('*)', '* )')[:200])

def main(repo):
    out = [PRELUDE]
    prim = repo + '/nix_manipulator/expressions/primitive.py'
    man = repo + '/nix_manipulator/cli/manipulations.py'
    bnd = repo + '/nix_manipulator/expressions/binding.py'
    out.append('(* GENERATED from expressions/primitive.py:_escape_nix_string (idiom B) *)')
    out.append(guarded('_escape_nix_string', lambda: gen_escape(prim)))
    tree = ast.parse(open(man).read())
    def regex():
        for n in tree.body:
            if isinstance(n, ast.Assign) and getattr(n.targets[0], 'id', None) == '_NPATH_IDENTIFIER_RE':
                pat = n.value.args[0].value
                return '(* GENERATED from _NPATH_IDENTIFIER_RE = re.compile(%r) *)\n' % pat + gen_regex('re_npath_ident', pat)
        raise Untranslatable('_NPATH_IDENTIFIER_RE not found')
    out.append(guarded('_NPATH_IDENTIFIER_RE', regex))
    out.append('(* GENERATED from cli/manipulations.py:_NIX_KEYWORDS *)')
    out.append(guarded('_NIX_KEYWORDS', lambda: gen_strset(tree, '_NIX_KEYWORDS')))
    out.append('(* GENERATED from cli/manipulations.py:_parse_npath (idiom A) *)')
    out.append('Definition STATE__parse_npath : Type := (list (str * bool) * str * bool * bool * bool)%type.')
    def pn():
        o, nraise = gen_fold(man, '_parse_npath', params={'npath': 'str'},
                   types={'npath':'str','buffer':'strbuf','segments':'list','ch':'char','name':'str'},
                   ctors={'_NPathSegment': ['name','quoted']}, regexes={'_NPATH_IDENTIFIER_RE': 're_npath_ident'},
                   state=['segments','buffer','in_quotes','quoted_segment','escape'], ret_ty='(list (str * bool))',
                   coqtypes={'segments': 'list (str * bool)', 'buffer': 'str'})
        return o + '(* raise sites: %d *)\n' % nraise
    out.append(guarded('_parse_npath', pn))
    out.append('(* GENERATED from cli/manipulations.py:_format_attr_name *)')
    out.append(guarded('_format_attr_name', lambda: gen_simple(man, '_format_attr_name', {'segment': '(str * bool)'},
                   {'types': {'escaped': 'str'}, 'records': {'segment': {'name': 'fst', 'quoted': 'snd'}},
                    'strsets': {'_NIX_KEYWORDS': '_NIX_KEYWORDS'}, 'regexes': {'_NPATH_IDENTIFIER_RE': 're_npath_ident'},
                    'funcs': {'_escape_nix_string': {'py': ['value', 'escape_interpolation'], 'coq': ['escape_interpolation', 'value']}}},
                   'str')))
    out.append('(* GENERATED from cli/manipulations.py:_split_scope_npath (idiom A with break) *)')
    out.append('Definition STATE__split_scope_npath : Type := nat.')
    def ss():
        o, nraise = gen_fold(man, '_split_scope_npath', params={'npath': 'str'}, types={'npath':'str','ch':'char','depth':'int','remainder':'str'},
                   ctors={}, regexes={}, state=['depth'], ret_ty='(option (nat * str))', coqtypes={}, ret_some=True)
        return o + '(* raise sites: %d *)\n' % nraise
    out.append(guarded('_split_scope_npath', ss))
    out.append('(* GENERATED from expressions/binding.py:_split_attrpath (idiom B over a state tuple) *)')
    out.append('Definition STATE__split_attrpath : Type := (list str * str * bool * bool * nat * bool * bool)%type.')
    def sa():
        o, nraise = gen_scan(bnd, '_split_attrpath', params={'text': 'str'},
                   types={'text':'str','buffer':'strbuf','segments':'list','ch':'char','segment':'str','interp_depth':'int'},
                   ctors={}, regexes={},
                   state=['segments','buffer','in_quotes','escape','interp_depth','interp_in_quotes','interp_escape'],
                   ret_ty='(list str)', coqtypes={'segments': 'list str', 'buffer': 'str'}, index='index', subject='text')
        return o + '(* raise sites: %d *)\n' % nraise
    out.append(guarded('_split_attrpath', sa))
    return '\n'.join(out)

if __name__=='__main__':
    print(main(sys.argv[1]))

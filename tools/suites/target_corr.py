"""Correspondence for the regenerated wrapper traversal (tools/target2v.py -> Dyn/TargetGen.v): `_resolve_target_set(source)` of the implementation
is run on generated documents with its direct collaborators wrapped (scopes_for_owner, set_resolution_context, attach_resolution_context,
Identifier.value as called from cli/manipulations.py); what they returned is written down as a TABLE world (Dyn/TargetProps.v: nodes, chains and
store versions are numbers), and Coq evaluates the regenerated function in that world: outcome (the set that was found / ValueError / another
exception) and the number of context mutations must be the implementation's.                usage: target_corr.py SEED N OUTDIR PREFIX"""
import sys, random, collections, os, json
from common import write_shards
from nix_manipulator import parse
import nix_manipulator.cli.manipulations as M
from nix_manipulator.expressions import AttributeSet, FunctionCall, FunctionDefinition, Identifier, Select, WithStatement
from nix_manipulator.expressions.assertion import Assertion
from nix_manipulator.expressions.let import LetExpression
from nix_manipulator.expressions.parenthesis import Parenthesis
MODE = 'mapping' if 'mapping' in sys.argv[3:] else 'cli'
args_ = [a for a in sys.argv[1:] if a != 'mapping']
R = random.Random(int(args_[0])); NCASES = int(args_[1]); outdir, prefix = args_[2], args_[3]
if MODE == 'mapping': import nix_manipulator.expressions.source_code as SCM
ORDER = [(Assertion, 'CAssertion'), (LetExpression, 'CLet'), (FunctionDefinition, 'CFunDef'), (WithStatement, 'CWith'), (Identifier, 'CIdent'),
         (Parenthesis, 'CParen'), (AttributeSet, 'CSet'), (FunctionCall, 'CCall')]
def cls(o):
    for c, n in ORDER:
        if isinstance(o, c): return n
    return 'COther'
ATTR = {'body': ('CAssertion', 'CWith'), 'value': ('CLet', 'CParen'), 'output': ('CFunDef',), 'argument': ('CCall',)}

# ---------------------------------------------------------------- documents
SETS = ['{ }', '{ a = 1; }', '{ a = 1; b = { c = 2; }; }', 'rec { a = 1; b = a; }', '{ inherit x; y = 2; }']
ENDS = ['1', '[ 1 ]', '"s"', 'x', 'null', 'a.b', 'if c then { } else { }', './p.nix']
def body(d, names):
    """an expression that may or may not lead to a set; names: let-bound names in scope with what they are bound to"""
    r = R.random()
    if d <= 0 or r < 0.12:
        r2 = R.random()
        if r2 < 0.62: return R.choice(SETS)
        if r2 < 0.8 and names: return R.choice(names)
        return R.choice(ENDS)
    k = R.choice(['assert', 'let', 'let', 'lam', 'lamset', 'with', 'paren', 'call', 'call', 'callp', 'curried', 'ident', 'callid', 'letchain'])
    if k == 'assert': return 'assert %s; %s' % (R.choice(['true', 'x != null', 'a == 1']), body(d - 1, names))
    if k == 'let':
        n = R.choice(['cfg', 'v', 'w']); bound = R.choice([R.choice(SETS), '1', R.choice(names) if names else '2', '(%s)' % R.choice(SETS)])
        return 'let %s = %s; in %s' % (n, bound, body(d - 1, names + [n]))
    if k == 'letchain':
        return 'let p = q; q = %s; in %s' % (R.choice(['p', R.choice(SETS), 'r', '(q)']), body(d - 1, names + ['p', 'q']))
    if k == 'lam': return '%s: %s' % (R.choice(['x', 'self', 'args@{ ... }']), body(d - 1, names))
    if k == 'lamset': return '{ pkgs, lib ? null, ... }: %s' % body(d - 1, names)
    if k == 'with': return 'with %s; %s' % (R.choice(['pkgs', 'lib', '{ z = 1; }'] + names), body(d - 1, names))
    if k == 'paren': return '(%s)' % body(d - 1, names)
    if k == 'call': return '%s %s' % (R.choice(['mk', 'pkgs.mkDerivation', 'f a', '(x: x)', '(mk)', '1', '"s"', '[ ]', 'import ./x.nix']), arg(d - 1, names))
    if k == 'callp': return '%s (%s)' % (R.choice(['mk', 'lib.mk', '((f))']), body(d - 1, names))
    if k == 'curried': return 'f %s %s' % (arg(d - 1, names), arg(d - 1, names))
    if k == 'ident' and names: return R.choice(names)
    if k == 'callid' and names: return 'mk %s' % R.choice(names)
    return body(d - 1, names)
def arg(d, names):
    r = R.random()
    if r < 0.45: return R.choice(SETS)
    if r < 0.6 and names: return R.choice(names)
    if r < 0.85: return '(%s)' % body(d, names)
    return R.choice(['1', '[ ]', 'x'])
def document():
    r = R.random()
    if r < 0.03: return ''
    if r < 0.06: return '# only a comment\n'
    return body(R.randrange(0, 6), []) + '\n'

# ---------------------------------------------------------------- instrumented run
class Rec:
    def __init__(self):
        self.objs = []; self.ids = {}; self.version = 0; self.scopes = []; self.values = []; self.truthy = [False]; self.depth = 0
    def nid(self, o):
        if id(o) not in self.ids: self.ids[id(o)] = len(self.objs); self.objs.append(o)
        return self.ids[id(o)]
def run_case(text):
    try: src = parse(text)
    except Exception: KIND['(document not parsed: skipped)'] += 1; return None
    if getattr(src, 'contains_error', False): return None
    rec = Rec()
    MOD = SCM if MODE == 'mapping' else M
    orig = {n: getattr(MOD, n) for n in ('scopes_for_owner', 'set_resolution_context', 'attach_resolution_context')}
    prop = Identifier.__dict__.get('value') or next(c.__dict__['value'] for c in Identifier.__mro__ if 'value' in c.__dict__)
    owner_cls = next(c for c in Identifier.__mro__ if 'value' in c.__dict__)
    def w_scopes(owner):
        rec.depth += 1; v = rec.version       # Identifier.value calls made from inside are the look-up's own business
        try:
            try: r = orig['scopes_for_owner'](owner)
            except ValueError: rec.scopes.append((rec.nid(owner), v, 'RErrV')); raise
            except Exception: rec.scopes.append((rec.nid(owner), v, 'RErrO')); raise
        finally: rec.depth -= 1
        rec.truthy.append(bool(r)); rec.scopes.append((rec.nid(owner), v, '(RVal %d)' % (len(rec.truthy) - 1))); return r
    def w_set(node, scopes): rec.version += 1; return orig['set_resolution_context'](node, scopes)
    def w_attach(node, **kw): rec.version += 1; return orig['attach_resolution_context'](node, **kw)
    def getter(self_):
        if rec.depth: return prop.fget(self_)
        rec.depth += 1; v = rec.version
        try:
            try: r = prop.fget(self_)
            except ValueError: rec.values.append((rec.nid(self_), v, 'RErrV')); raise
            except Exception: rec.values.append((rec.nid(self_), v, 'RErrO')); raise
            rec.values.append((rec.nid(self_), v, '(RVal %d)' % rec.nid(r))); return r
        finally: rec.depth -= 1
    MOD.scopes_for_owner, MOD.set_resolution_context, MOD.attach_resolution_context = w_scopes, w_set, w_attach
    setattr(owner_cls, 'value', property(getter, prop.fset))
    try:
        exprs = [rec.nid(e) for e in src.expressions]
        try: out = '(RVal %d)' % rec.nid(src._resolve_target_set() if MODE == 'mapping' else M._resolve_target_set(src)); KIND['set'] += 1
        except ValueError: out = 'RErrV'; KIND['ValueError'] += 1
        except RecursionError: return None
        except Exception as e: out = 'RErrO'; KIND[type(e).__name__] += 1
    finally:
        for n, f in orig.items(): setattr(MOD, n, f)
        setattr(owner_cls, 'value', prop)
    # close the node table under the attributes the traversal may read
    i = 0; rows = []
    while i < len(rec.objs):
        o = rec.objs[i]; c = cls(o); row = {'cls': c}
        for a, owners in ATTR.items():
            ch = getattr(o, a, None) if c in owners else None
            row[a] = 'None' if ch is None else '(Some %d)' % rec.nid(ch)
        row['strip'] = rec.nid(M._strip_parentheses(o))
        row['supports'] = 'true' if (c == 'CCall' and M._supports_attrset_argument(o.name)) else 'false'
        nm = getattr(o, 'name', None) if c == 'CCall' else None
        row['name'] = 'None' if (nm is None or isinstance(nm, str)) else '(Some %d)' % rec.nid(nm)
        row['select'] = 'true' if isinstance(o, Select) else 'false'
        rows.append(row); i += 1
    for r in rows: CLSES[r['cls']] += 1
    def L(xs): return '[' + '; '.join(str(x) for x in xs) + ']'
    tb = ('{| t_cls := %s; t_body := %s; t_value := %s; t_output := %s; t_argument := %s; t_strip := %s; t_supports := %s; t_name := %s; t_select := %s; t_truthy := %s; t_scopes := %s; t_values := %s |}'
          % (L(r['cls'] for r in rows), L(r['body'] for r in rows), L(r['value'] for r in rows), L(r['output'] for r in rows), L(r['argument'] for r in rows),
             L(r['strip'] for r in rows), L(r['supports'] for r in rows), L(r['name'] for r in rows), L(r['select'] for r in rows), L('true' if t else 'false' for t in rec.truthy),
             L('(%d, %d, %s)' % s for s in rec.scopes), L('(%d, %d, %s)' % v for v in rec.values)))
    SIZES[min(len(rows), 12)] += 1; MUT[min(rec.version, 6)] += 1
    return '(%s, %s, %s, %d)' % (tb, L(exprs), out, rec.version)

KIND = collections.Counter(); CLSES = collections.Counter(); SIZES = collections.Counter(); MUT = collections.Counter()
CORE = ['{ a = 1; }\n', '{ pkgs }: assert true; let v = 1; in ({ a = v; })\n', 'let cfg = { a = 1; }; in cfg\n', 'let cfg = { a = 1; }; in mk cfg\n', 'let a = b; b = a; in a\n',
        '{ pkgs }: with pkgs; mk { a = 1; }\n', 'x: y: { a = 1; }\n', '1 { a = 1; }\n', 'mk (mk2 (let s = { }; in s))\n', '[ 1 ]\n', '', 'with { z = 1; }; let q = z; in q\n',
        '{ pkgs }: pkgs.mk (import ./x.nix) { a = 1; }\n', 'let p = q; q = (q); in { pkgs }: mk p\n', 'f: (f)\n', 'let s = { a = 1; }; in x: assert s.a == 1; s\n']
cases = []; seen = set(); tries = 0
for t in CORE:
    c = run_case(t)
    if c is None: raise SystemExit('core document rejected: %r' % t)
    cases.append(c); seen.add(t)
while len(cases) < NCASES and tries < NCASES * 30:
    tries += 1; t = document()
    if t in seen: continue
    try: c = run_case(t)
    except Exception as e:
        if type(e).__name__ in ('NixSyntaxError',): continue
        raise
    if c is None: continue
    seen.add(t); cases.append(c)
HDR = 'From Coq Require Import List Arith Bool. Import ListNotations.\nFrom Dyn Require Import TargetGen TargetProps%s.\n' % (' MapTargetGen MapTargetProps' if MODE == 'mapping' else '')
OK = ('Definition res_eqb (a b : res nat) : bool := match a, b with RVal x, RVal y => Nat.eqb x y | RErrV, RErrV | RErrO, RErrO => true | _, _ => false end.\n'
      'Definition ok (c : table * list nat * res nat * nat) : bool := match c with (tb, es, r, v) => let o := %s tb es in res_eqb (fst o) r && Nat.eqb (snd o) v && tb_helpers_ok tb end.\n' % ('map_table_run' if MODE == 'mapping' else 'table_run'))
write_shards(outdir, prefix, HDR, 'table * list nat * res nat * nat', OK, cases, 8)
json.dump({'stats': {'outcomes': dict(KIND), 'node_classes': dict(CLSES), 'table_sizes': {str(k): v for k, v in sorted(SIZES.items())}, 'context_mutations': {str(k): v for k, v in sorted(MUT.items())}},
           'keys': sorted(KIND), 'distinct_count': len(seen),
           'rule': ('[mapping API: NixSourceCode._resolve_target_set] ' if MODE == 'mapping' else '') + 'documents: random stacks (depth 0-5) of assert / let / lambda / with / parentheses / calls (plain, parenthesised, curried, unsupported callees) / let-bound names (chains, cycles, unbound) over sets and non-sets; '
                   'the regenerated _resolve_target_set evaluated in the recorded table world must give the implementation\'s outcome and number of context mutations; the recorded _strip_parentheses / _supports_attrset_argument of every node must be what the regenerated helpers compute',
           'samples': [cases[1][:400]]}, open(os.path.join(outdir, prefix + '_summary.json'), 'w'))
print(len(cases))

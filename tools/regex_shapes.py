"""Every regular expression the package hands to `re` must have star height <= 1: no unbounded repetition nested inside a repetition
(the shape that makes a backtracking matcher exponential).  Fail closed: a pattern that is not a string literal, or that cannot be
parsed, fails the obligation.  usage: regex_shapes.py REPO  -> one line per pattern; exit 1 when any pattern is refused."""
import ast, os, sys
import re._parser as sp
from re._constants import MAX_REPEAT, MIN_REPEAT, POSSESSIVE_REPEAT, MAXREPEAT, SUBPATTERN, BRANCH, ASSERT, ASSERT_NOT, GROUPREF_EXISTS, ATOMIC_GROUP
FUNCS = {'compile', 'search', 'match', 'fullmatch', 'sub', 'subn', 'split', 'findall', 'finditer'}
def nested(items, inside):
    """True when a repetition with max > 1 occurs inside another one, one of them unbounded"""
    for op, av in items:
        if op in (MAX_REPEAT, MIN_REPEAT, POSSESSIVE_REPEAT):
            lo, hi, sub = av
            if hi > 1:
                if inside is not None and (hi == MAXREPEAT or inside == MAXREPEAT): return True
                if nested(sub, hi if inside is None else max(hi, inside)): return True
            elif nested(sub, inside): return True
        elif op == SUBPATTERN:
            if nested(av[3], inside): return True
        elif op == BRANCH:
            if any(nested(b, inside) for b in av[1]): return True
        elif op in (ASSERT, ASSERT_NOT):
            if nested(av[1], inside): return True
        elif op == ATOMIC_GROUP:
            if nested(av, inside): return True
        elif op == GROUPREF_EXISTS:
            if any(b is not None and nested(b, inside) for b in av[1:]): return True
    return False
bad = 0; n = 0
root = os.path.join(sys.argv[1], 'nix_manipulator')
for dp, _, fs in sorted(os.walk(root)):
    for f in sorted(fs):
        if not f.endswith('.py'): continue
        path = os.path.join(dp, f); tree = ast.parse(open(path).read())
        for node in ast.walk(tree):
            if isinstance(node, ast.Call) and isinstance(node.func, ast.Attribute) and isinstance(node.func.value, ast.Name) and node.func.value.id == 're' and node.func.attr in FUNCS:
                n += 1; where = '%s:%d' % (os.path.relpath(path, sys.argv[1]), node.lineno)
                if not node.args or not (isinstance(node.args[0], ast.Constant) and isinstance(node.args[0].value, str)):
                    print('REFUSED %s: the pattern is not a string literal' % where); bad += 1; continue
                pat = node.args[0].value
                try: items = sp.parse(pat)
                except Exception as ex: print('REFUSED %s: %r does not parse (%s)' % (where, pat, ex)); bad += 1; continue
                if nested(list(items), None): print('REFUSED %s: %r nests an unbounded repetition inside a repetition' % (where, pat)); bad += 1
                else: print('ok %s: %r' % (where, pat))
            elif isinstance(node, ast.ImportFrom) and node.module == 're':
                print('REFUSED %s:%d: `from re import …` hides the calls from this scan' % (os.path.relpath(path, sys.argv[1]), node.lineno)); bad += 1
print('%d patterns, %d refused' % (n, bad))
sys.exit(1 if bad else 0)

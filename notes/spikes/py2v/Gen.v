From Coq Require Import List Ascii Bool Arith.
Import ListNotations.
Notation str := (list ascii).
Definition c (n : nat) : ascii := ascii_of_nat n.
Notation "a =c b" := (Ascii.eqb a b) (at level 70).
Definition at_ (k : nat) (l : str) : ascii := nth k l (c 0).
Definition has_at (k : nat) (l : str) : bool := k <? List.length l.
Definition isnil (l : str) : bool := match l with [] => true | _ => false end.
Fixpoint streq (a b : str) : bool := match a, b with [], [] => true | x :: a', y :: b' => (x =c y) && streq a' b' | _, _ => false end.
Inductive res (A : Type) := Ok (a : A) | Err (site : nat).
Arguments Ok {A} a. Arguments Err {A} site.

(* GENERATED from /repo/nix_manipulator/expressions/primitive.py:_escape_nix_string *)
Fixpoint _escape_nix_string_loop (fuel : nat) (escape_interpolation : bool) (rest : str) (escaped : str) : str :=
  match fuel with O => escaped | S fuel' =>
  if has_at 0 rest then
(let ch_1 := (at_ 0 rest) in
(if (ch_1 =c (c 92))
 then (let escaped_2 := escaped ++ [(c 92); (c 92)] in
_escape_nix_string_loop fuel' escape_interpolation (skipn 1 rest) escaped_2)
 else (if (ch_1 =c (c 34))
 then (let escaped_3 := escaped ++ [(c 92); (c 34)] in
_escape_nix_string_loop fuel' escape_interpolation (skipn 1 rest) escaped_3)
 else (if (ch_1 =c (c 10))
 then (let escaped_4 := escaped ++ [(c 92); (c 110)] in
_escape_nix_string_loop fuel' escape_interpolation (skipn 1 rest) escaped_4)
 else (if (ch_1 =c (c 13))
 then (let escaped_5 := escaped ++ [(c 92); (c 114)] in
_escape_nix_string_loop fuel' escape_interpolation (skipn 1 rest) escaped_5)
 else (if (ch_1 =c (c 9))
 then (let escaped_6 := escaped ++ [(c 92); (c 116)] in
_escape_nix_string_loop fuel' escape_interpolation (skipn 1 rest) escaped_6)
 else (if (escape_interpolation && (ch_1 =c (c 36)) && (has_at 1 rest) && ((at_ 1 rest) =c (c 123)))
 then (let escaped_7 := escaped ++ [(c 92); (c 36); (c 123)] in
_escape_nix_string_loop fuel' escape_interpolation (skipn 2 rest) escaped_7)
 else (let escaped_8 := escaped ++ [ch_1] in
_escape_nix_string_loop fuel' escape_interpolation (skipn 1 rest) escaped_8))))))))
  else escaped end.
Definition _escape_nix_string (escape_interpolation : bool) (value : str) : str :=
  _escape_nix_string_loop (List.length value) escape_interpolation value [].

(* GENERATED from _NPATH_IDENTIFIER_RE = re.compile("^[A-Za-z_][A-Za-z0-9_']*$") *)
Fixpoint re_npath_ident_tail (l : str) : bool :=
  match l with
  | [] => true
  | [x] => (fun x => ((65 <=? nat_of_ascii x) && (nat_of_ascii x <=? 90)) || ((97 <=? nat_of_ascii x) && (nat_of_ascii x <=? 122)) || ((48 <=? nat_of_ascii x) && (nat_of_ascii x <=? 57)) || (x =c c 95) || (x =c c 39)) x || (x =c c 10)
  | x :: l' => (fun x => ((65 <=? nat_of_ascii x) && (nat_of_ascii x <=? 90)) || ((97 <=? nat_of_ascii x) && (nat_of_ascii x <=? 122)) || ((48 <=? nat_of_ascii x) && (nat_of_ascii x <=? 57)) || (x =c c 95) || (x =c c 39)) x && re_npath_ident_tail l'
  end.
Definition re_npath_ident (l : str) : bool := match l with x :: l' => (fun x => ((65 <=? nat_of_ascii x) && (nat_of_ascii x <=? 90)) || ((97 <=? nat_of_ascii x) && (nat_of_ascii x <=? 122)) || (x =c c 95)) x && re_npath_ident_tail l' | [] => false end.


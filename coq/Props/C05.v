(* C05 — a successful edit yields exactly the requested attribute change (model level), and the repaired
   re-targeting of paths through explicit nested sets (finding F-23, fixed). *)
From Coq Require Import List Ascii String Bool Arith.
Import ListNotations.
From E Require Import EditModel EditRun EditProofs EditFrame EditAppend EditClosed EditClosedOps EditFindings.
Open Scope string_scope.

(* read-back: after a successful set on an existing leaf the same path addresses the same binding, holding VALUE *)
Theorem C05_leaf_readback : forall s segs l t0 t,
  find_leaf s SRoot segs = Some l -> val_of s l = VAt t0 -> hget (hp s) l <> None ->
  let s' := fst (m_set s segs (VAt t)) in
  find_leaf s' SRoot segs = Some l /\ val_of s' l = VAt t.
Proof. exact EditFrame.C05_leaf_readback. Qed.
Print Assumptions C05_leaf_readback.

(* a new binding goes last and nothing else changes (root of any parsed document) *)
Theorem C05_new_binding_last : forall d s k t, parse_doc d = Ok s -> (rvals s = [] -> rorder s = []) ->
  find_by_name s (rvals s) k = None ->
  view (set_setitem s SRoot k (VAt t)) = TS (items_of (view s) ++ [(k, TA t)]).
Proof. exact EditClosed.C04_fresh_root_parsed. Qed.
Print Assumptions C05_new_binding_last.

(* paths through explicit nested sets (E.EditDeep, mirrors the repair 99873d2): outside the re-targeting branch the edit IS the root-level step the
   theorems above speak about; inside it, it is the root-level step of the inner set, written back *)
From E Require Import EditDeep.
Theorem C05_deep_is_root_step : forall f s segs v, inner_target s segs = None -> m_set_deep f s segs v = m_set s segs v.
Proof. exact set_deep_shallow. Qed.
Print Assumptions C05_deep_is_root_step.
Theorem C05_deep_leaf_is_root_step : forall f s segs v l, find_leaf s SRoot segs = Some l -> m_set_deep f s segs v = m_set s segs v.
Proof. exact set_deep_leaf. Qed.
Print Assumptions C05_deep_leaf_is_root_step.
Theorem C05_deep_retarget : forall f s segs v i vs o m,
  find_leaf s SRoot segs = None -> inner_target s segs = Some i -> val_of s i = VSet vs o m ->
  m_set_deep (S f) s segs v = (unfocus s i (fst (m_set_deep f (focus s vs o m) (tl segs) v)), snd (m_set_deep f (focus s vs o m) (tl segs) v)).
Proof. exact set_deep_retarget. Qed.
Print Assumptions C05_deep_retarget.
(* the witness of finding F-23 ("success reported, printed document unchanged"), evaluated on the repaired functions: the edit shows *)
Theorem C05_F23_repaired :
  match after23 with
  | Some (st1, Ok tt) => tree_eqb 100 (view st1) (TS [(s "meta", TS [(s "foo.version", TA (s "true")); (s "foo.z", TA (s "7"))])]) = true
  | _ => False end.
Proof. exact F23_repaired. Qed.
Print Assumptions C05_F23_repaired.
(* FULL statement, still open in general (proved: leaf overwrite, root insertion, removal at the root; checked by correspondence elsewhere) *)
Definition C05_success_visible_full : Prop :=
  forall d s0 segs t, parse_doc d = Ok s0 -> snd (set_deep s0 segs (VAt t)) = Ok tt ->
  tree_eqb 100 (view (fst (set_deep s0 segs (VAt t)))) (view s0) = false \/ exists l, find_leaf s0 SRoot segs = Some l.

(* removal: the binding is gone, every other top-level binding prints as before (see C04_rm_plain_root for the full
   statement); a name that is not bound is refused with KeyError and the state is unchanged *)
From E Require Import EditRemove EditMapSpec EditLaws.
Theorem C05_rm_missing : forall s k, find_by_name s (rvals s) k = None -> m_rm s [k] = (s, Err KeyErr).
Proof. exact EditRemove.rm_missing_root. Qed.
Print Assumptions C05_rm_missing.
Theorem C05_rm_then_absent : forall s k, uniq_names (abs s) -> snd (set_delitem s SRoot k) = Ok tt ->
  getitem (fst (set_delitem s SRoot k)) SRoot k = None.
Proof. exact EditMapSpec.get_after_del. Qed.
Print Assumptions C05_rm_then_absent.

(* the model's binding look-ups are the source's: find_by_name / find_named / find_root of the edit heap model equal
   _find_binding / _find_named_binding / _find_attrpath_root REGENERATED from cli/manipulations.py on every run *)
From Dyn Require Import FindGen FindProps.
Theorem C05_lookup_is_source_lookup : forall s ids key nested,
  _find_binding nat (fun _ => true) (name_of s) ids key = find_by_name s ids key /\
  _find_named_binding nat (fun _ => true) (name_of s) (nested_of s) ids key nested = find_named s ids key nested /\
  _find_attrpath_root nat (fun _ => true) (name_of s) (nested_of s) ids key = find_root s ids key.
Proof. exact (fun s ids key nested => conj (find_binding_refines s ids key) (conj (find_named_refines s ids key nested) (find_root_refines s ids key))). Qed.
Print Assumptions C05_lookup_is_source_lookup.

(* the wrapper traversal that picks the set an edit may mutate — `_resolve_target_set_from_expr` REGENERATED from cli/manipulations.py on every run
   (tools/target2v.py) — for every world of nodes, classes, attributes, scope look-ups, context store and Identifier.value behaviour:
   what it returns is an attribute set, and a stack of assert / let / parenthesis wrappers of any height around a set yields that very set
   ("an edit is refused only for the documented reasons, never because of the wrappers") *)
From Dyn Require Import TargetGen TargetProps.
Close Scope string_scope. Open Scope list_scope.
Theorem C05_target_is_a_set : forall (w : world) fuel es s r s', target_top w fuel es s = (RVal r, s') -> w_cls w r = CSet.
Proof. exact target_top_is_a_set. Qed.
Print Assumptions C05_target_is_a_set.
Theorem C05_wrappers_transparent : forall (w : world) ws r sc v st,
  linked (wN w) (w_cls w) (w_body w) (w_value w) ws r -> w_cls w r = CSet -> NoDup (ws ++ [r]) -> (forall x, In x (ws ++ [r]) -> ~ In x v) ->
  (forall x, In x (ws ++ [r]) -> scopes_ok (wN w) (wSC w) (w_store w) (w_scopes w) x sc st) ->
  target w (S (List.length ws)) (hd r ws) sc (v, st) = (RVal r, (r :: rev ws ++ v, st)).
Proof. exact target_wrappers_transparent. Qed.
Print Assumptions C05_wrappers_transparent.
(* the helpers behind the traversal's call handling, regenerated as well (frames matched literally): parentheses are formatting only, and the
   argument of a call is a target only when the head of the (curried, parenthesised) callee is a lambda, an identifier or a select *)
Theorem C05_strip_not_paren : forall N (cls_of : N -> cls) attr_value fuel e r, strip_parentheses N cls_of attr_value fuel e = RVal r -> cls_of r <> CParen.
Proof. exact strip_not_paren. Qed.
Print Assumptions C05_strip_not_paren.
Theorem C05_callee_head_decides : forall N (cls_of : N -> cls) attr_value attr_name is_select f c, cls_of c <> CParen -> cls_of c <> CCall ->
  supports_attrset_argument N cls_of attr_value attr_name is_select (S (S f)) (Some c) = RVal (is_cls N cls_of c CFunDef || is_cls N cls_of c CIdent || is_select c).
Proof. exact supports_head. Qed.
Print Assumptions C05_callee_head_decides.
Theorem C05_callee_curried : forall N (cls_of : N -> cls) attr_value attr_name is_select f c, cls_of c = CCall ->
  supports_attrset_argument N cls_of attr_value attr_name is_select (S (S f)) (Some c) = supports_attrset_argument N cls_of attr_value attr_name is_select (S f) (attr_name c).
Proof. exact supports_curried. Qed.
Print Assumptions C05_callee_curried.

(* C04 / C05 for removal: `rm k` of a plain top-level binding in a set without attrpath-derived entries
   (rorder = [] — preserved by every set/rm on such a set) removes from the printed structure exactly the entries
   printed for that binding; every entry before and after it is printed as before, in the same order, with the same
   nested contents.  Holds for any number of bindings and any nesting inside the values. *)
From Coq Require Import List Ascii String Bool Arith Lia.
Import ListNotations.
From E Require Import EditModel EditProofs EditFrame EditLaws EditAppend EditUndo.

(* EditAppend.render_entry ar f s e is what the printed view emits for one entry of a set *)
Notation entry_items := render_entry.

Lemma entry_items_heap ar f s1 s2 e : hp s1 = hp s2 -> entry_items ar f s1 e = entry_items ar f s2 e.
Proof.
  intros Hh. pose proof (view_set_unfold ar f s1 None [0] [e] true) as H1. pose proof (view_set_unfold ar f s2 None [0] [e] true) as H2.
  specialize (H1 ltac:(discriminate)). specialize (H2 ltac:(discriminate)).
  rewrite (view_heap ar s1 s2 Hh) in H1. rewrite H1 in H2. cbn [flat_map] in H2. rewrite !app_nil_r in H2. now injection H2.
Qed.

Lemma find_split s : forall l k i, find_by_name s l k = Some i ->
  exists l1 l2, l = l1 ++ i :: l2 /\ remove_first l i = l1 ++ l2 /\ find_by_name s l1 k = None.
Proof.
  induction l as [|y t IH]; intros k i H; [discriminate|]. cbn [find_by_name] in H. destruct (streq (name_of s y) k) eqn:E.
  - injection H as <-. exists [], t. cbn [app remove_first]. rewrite Nat.eqb_refl. auto.
  - destruct (IH k i H) as (l1 & l2 & -> & Hr & Hn). destruct (find_by_name_in _ _ _ _ H) as [_ Hni].
    exists (y :: l1), l2. cbn [app remove_first find_by_name]. rewrite E.
    destruct (y =? i) eqn:Ey; [apply Nat.eqb_eq in Ey; subst; congruence|]. rewrite Hr. auto.
Qed.

(* no attrpath-derived entries at this level: the order list is absent (a set built through the API) or lists the
   bindings themselves, in order (a parsed set whose bindings all have single-segment names) *)
Definition plain_order (s : st) : Prop := rorder s = [] \/ rorder s = map OPlain (rvals s).
Lemma remove_plain_map l i : remove_plain (map OPlain l) i = map OPlain (remove_first l i).
Proof. induction l as [|y t IH]; [reflexivity|]. cbn [map remove_plain remove_first]. destruct (y =? i); [reflexivity|]. cbn [map]. now rewrite IH. Qed.
Lemma rv_plain (s : st) : plain_order s -> match rorder s with [] => map OPlain (rvals s) | _ => rorder s end = map OPlain (rvals s).
Proof. intros [->| ->]; [reflexivity|]. destruct (rvals s); reflexivity. Qed.

Theorem rm_plain_root s k i : plain_order s -> find_by_name s (rvals s) k = Some i -> find_root s (rvals s) k = None ->
  exists l1 l2,
    rvals s = l1 ++ i :: l2 /\ find_by_name s l1 k = None /\
    snd (m_rm s [k]) = Ok tt /\
    items_of (view s) =
      flat_map (entry_items (fun _ t => t) 999 s) (map OPlain l1) ++ entry_items (fun _ t => t) 999 s (OPlain i) ++
      flat_map (entry_items (fun _ t => t) 999 s) (map OPlain l2) /\
    items_of (view (fst (m_rm s [k]))) =
      flat_map (entry_items (fun _ t => t) 999 s) (map OPlain l1) ++ flat_map (entry_items (fun _ t => t) 999 s) (map OPlain l2).
Proof.
  intros Hord Hf Hroot. destruct (find_split s _ _ _ Hf) as (l1 & l2 & Hv & Hr & Hn). exists l1, l2.
  split; [exact Hv|]. split; [exact Hn|].
  assert (Erm : m_rm s [k] = (put_set s SRoot (remove_first (rvals s) i) (remove_plain (rorder s) i) (rml s), Ok tt)).
  { unfold m_rm, find_leaf, walk_stack. cbv iota beta. rewrite Hroot. unfold set_delitem. cbn [get_set]. rewrite Hf. reflexivity. }
  rewrite Erm. cbn [fst snd]. split; [reflexivity|]. split.
  - unfold view, view_value. change 1000 with (S 999). rewrite view_set_unfold by (rewrite Hv; destruct l1; discriminate).
    rewrite (rv_plain s Hord), Hv. cbn [items_of]. rewrite map_app, flat_map_app. cbn [map flat_map]. reflexivity.
  - unfold view, view_value, put_set. change 1000 with (S 999). cbn [rvals rorder rml]. rewrite Hr.
    set (s' := {| hp := hp s; nxt := nxt s; rvals := l1 ++ l2; rorder := remove_plain (rorder s) i; rml := rml s |}).
    assert (Hord' : plain_order s').
    { unfold plain_order, s'. cbn [rorder rvals]. destruct Hord as [->| ->]; [now left|right]. now rewrite remove_plain_map, Hr. }
    change (l1 ++ l2) with (rvals s'). change (remove_plain (rorder s) i) with (rorder s').
    assert (Hh : hp s' = hp s) by reflexivity.
    destruct (rvals s') as [|x t] eqn:E.
    + unfold s' in E. cbn [rvals] in E. apply app_eq_nil in E. destruct E as [-> ->]. rewrite view_set_empty. reflexivity.
    + rewrite view_set_unfold by discriminate. rewrite <- E, (rv_plain s' Hord'). cbn [items_of]. change (rvals s') with (l1 ++ l2). rewrite map_app, flat_map_app.
      assert (He : forall e, render_entry (fun _ t0 => t0) 999 s' e = render_entry (fun _ t0 => t0) 999 s e) by (intros e; apply entry_items_heap, Hh).
      rewrite (flat_map_ext _ _ He (map OPlain l1)), (flat_map_ext _ _ He (map OPlain l2)). reflexivity.
Qed.
Print Assumptions rm_plain_root.

(* the hypothesis is preserved by deletion at the root *)
Lemma plain_order_del s k : plain_order s -> plain_order (fst (set_delitem s SRoot k)).
Proof.
  intros H. unfold set_delitem. cbn [get_set]. destruct (find_by_name s (rvals s) k); [|exact H]. cbn [fst put_set]. unfold plain_order. cbn [rorder rvals].
  destruct H as [->| ->]; [now left|right; apply remove_plain_map].
Qed.

(* removing a name that is not bound at the top level is refused with KeyError and changes nothing *)
Theorem rm_missing_root s k : find_by_name s (rvals s) k = None -> m_rm s [k] = (s, Err KeyErr).
Proof.
  intros Hf. pose proof (find_root_none_of_name s (rvals s) k Hf) as Hroot.
  unfold m_rm, find_leaf, walk_stack. cbv iota beta. rewrite Hroot. unfold set_delitem. cbn [get_set]. now rewrite Hf.
Qed.
Print Assumptions rm_missing_root.

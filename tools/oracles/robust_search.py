"""C20 search (labelled test): parse followed by rebuild either returns or raises ValueError (incl. NixSyntaxError)
with the input untouched — never IndexError, AttributeError, AssertionError, TypeError, ... — on damaged programs,
random UTF-8 text, every slot-matrix cell and nesting of every family up to depth 60.
usage: robust_search.py SEED N"""
import json, os, random, sys
sys.path.insert(0, os.path.join(os.path.dirname(os.path.abspath(__file__)), '..', 'suites'))
from matrix_cells import iter_cells
from costfam import FAM, LEAVES
from gen_docs import DocGen2, PkgGen
from nix_manipulator import parse
from nix_manipulator.parser import parse_to_ast
seed, N = int(sys.argv[1]), int(sys.argv[2])
R = random.Random(seed * 23 + 20)
viol, dist, known = [], {}, {}
def leaves(n, out):
    if n.child_count == 0 or n.type in ('string_expression', 'indented_string_expression', 'comment'):
        if n.end_byte > n.start_byte: out.append(n)
        return
    for c in n.children: leaves(c, out)
INS = ['{', '}', ';', '=', '(', ')', '[', ']', 'in', 'let', '"', "''", '${', ':', ',', '@', '?', '..', 'rec', 'inherit', 'with', 'assert', 'if', 'then', 'else', 'or', '//', '++', '->', '!', '-']
G1 = DocGen2(R); G2 = PkgGen(R)
def texts():
    cells = [p for _, p, _ in iter_cells()]
    for p in cells: yield 'matrix-cell', p            # every cell: the matrix is cheap
    for k, w in FAM.items():
        for leafname, leaf in LEAVES.items():
            s = leaf
            for n in range(1, 61):
                s = w(s)
                if k in ('lam', 'formals', 'inherit', 'with', 'concat_nl', 'concat_chain_r', 'update_chain_r', 'impl_chain_r', 'lam_nl', 'with_nl') and n > 12: break        # exponential families (multiplicity 2 in Small.CostFam.table): finding F-19, bounded here
                if n in (1, 2, 5, 12, 30, 60): yield 'nest-%s' % k, s
    # width / indentation family (ninth round): the cost of reading a gap must not grow faster than its length — runs of spaces between any two tokens
    # of a lambda head, a set, a list, a call; the same constructs pushed to column 2·d by d enclosing multi-line sets
    for k_ in (1, 2, 8, 16, 24, 32, 48, 64):
        pad = ' ' * k_
        for tpl in ['{ a,@b }: a', '{ a@, b }: a', '{ a ?@1, ... }: a', '{@a, ... }: a', '{ a, ...@}: a', '{ a =@1; }', '[ 1@2 ]', 'f@x', 'a:@a', 'let a =@1; in@a', 'inherit@a;', '{ inherit (p)@a; }', 'a +@b', 'if a@then b else c', 'with a;@b', 'a.b or@c']:
            yield 'space-run', tpl.replace('@', pad)
            if k_ >= 16: yield 'space-run-ff', tpl.replace('@', '\n' + pad + '\f\n' + pad); yield 'space-run-vt', tpl.replace('@', '\n\n' + pad + '\v' + pad + '\n')
            yield 'space-run-nl', tpl.replace('@', '\n' + pad)
            # twelfth round: the same runs with a comment inside the gap (the readers that look for a blank line around a comment see the run on both sides of it)
            yield 'space-run-nl-c', tpl.replace('@', '\n' + pad + '# c\n' + pad); yield 'space-run-c', tpl.replace('@', pad + '/* c */' + pad)
            if k_ >= 16: yield 'space-run-tab-c', tpl.replace('@', '\n' + '\t' * k_ + '# c\n' + '\t' * k_)
    for d_ in (1, 4, 8, 10, 12, 14, 16, 20, 24, 32):
        for inner in ['{\n@  x,\n@  ...\n@}:\n@x', '{\n@  x ? 1,\n@  y,\n@  ...\n@}@args:\n@x', '[\n@  1\n@  2\n@]', 'let\n@  a = 1;\n@in\n@a', 'f {\n@  a = 1;\n@}', 'if a then\n@  b\n@else\n@  c']:
            ind = '  ' * d_
            s_ = inner.replace('@', ind)
            doc = s_
            for j in range(d_, 0, -1): doc = '{\n' + '  ' * j + 'a%d =\n' % j + ('  ' * (j + 1)) + doc + ';\n' + '  ' * (j - 1) + '}'
            yield 'deep-indent', doc
    # character-level family (fourth round of seeds): CR / CRLF line ends, every short tail of line terminators and blanks after
    # the last token and before the first one, form feed / vertical tab / NUL / BOM / non-ASCII in the same places
    TAILS = ['', '\n', '\r\n', '\r', '\n\n', '\r\n\r\n', '\n\r\n', '\r\n\n', '\r\r', '\n\r', ' \r\n \r\n', '\t\r\n\t', '\n\n\n', '\r\n\r\n\r\n', '\f', '\v\n', '\x00', '\ufeff', '\u00a0\n', '\u2028', ' ', '\t']
    BASES = ['{ a = 1; }', '1', '# header\n{ pkgs }:\npkgs.hello', '{\n  a = 1;\n\n  b = [\n    1\n  ];\n}', 'let\n  a = 1;\nin\na', '[ 1 2 ]', '"s"', "''\n  x\n''", 'x: x # c', '/* c */ 1',
             # eighth round: constructs whose readers keep only some of the children (interpolated names of an inherit, empty containers with trivia)
             '{ inherit (pkgs) ${a}; }', '{ inherit (pkgs) ${a} ${b}; x = 1; }', 'let inherit (pkgs) ${name}; in 1', '{ inherit ${a}; }', '{ inherit (p) "a"; }', '{ x = [ /* c */ ]; }', 'f { /* c */ }']
    for bse in BASES:
        for crlf in (False, True):
            b2 = bse.replace('\n', '\r\n') if crlf else bse
            for tl in TAILS:
                yield 'lineend-tail', b2 + tl
                yield 'lineend-head', tl + b2 + '\n'
                if tl in (' ', '\n', '\r\n', '\t'): 
                    for tl2 in ('\r\n\r\n', '\n\r\n', '\n\n', '\r'): yield 'lineend-both', tl + b2 + tl2
    # quoted attribute names over every character class, in every place a name can stand (fifth round of seeds: a lone `$` in a
    # quoted name made the attrpath scanner spin); deterministic short names plus seeded longer ones
    NCH = ['a', '$', '{', '}', '"', '\\\\', '.', ' ', "'", '#', '/', '*', '=', ';', 'é', '\\n', '-', '0']
    def esc(ch): return '\\"' if ch == '"' else ch
    names = [esc(a) for a in NCH] + [esc(a) + esc(b) for a in NCH for b in NCH]
    for _ in range(150): names.append(''.join(esc(R.choice(NCH)) for _ in range(R.randint(3, 7))))
    for nm in names:
        if '${' in nm: nm = nm.replace('${', '$ {')           # keep it a plain (non-interpolated) name: `$` followed by something else
        for tpl in ('{ "%s" = 1; }', '{ "%s".c = 1; }', '{ a."%s" = 1; }', 'x."%s"', 'x ? "%s"', '{ inherit "%s"; }', '{ "%s" = 1; "z" = 2; }'):
            yield 'quoted-name', tpl % nm
    for _ in range(N):
        base = G1.doc() if R.random() < 0.5 else G2.doc()
        b = base.encode(); ls = []; leaves(parse_to_ast(base), ls)
        how = R.choice(['delete', 'dup', 'insert', 'truncate', 'swap', 'random', 'valid'])
        if how == 'valid' or not ls: t = b; how = 'valid'
        elif how == 'delete': n = R.choice(ls); t = b[:n.start_byte] + b[n.end_byte:]
        elif how == 'dup': n = R.choice(ls); t = b[:n.end_byte] + b' ' + n.text + b[n.end_byte:]
        elif how == 'insert': n = R.choice(ls); t = b[:n.start_byte] + R.choice(INS).encode() + b' ' + b[n.start_byte:]
        elif how == 'swap': a, c = R.choice(ls), R.choice(ls); t = b.replace(a.text, b'\0', 1).replace(c.text, a.text, 1).replace(b'\0', c.text, 1)
        elif how == 'truncate': t = b[:R.randrange(0, len(b))]
        else: t = ''.join(R.choice('{}[]();=.:,@?"\'$ \n\tabc019#/*-+<>!&|\\é→') for _ in range(R.randrange(1, 40))).encode()
        try: td = t.decode()
        except UnicodeDecodeError: continue
        if R.random() < 0.15: td = td.replace('\n', '\r\n') + R.choice(['', '\r\n', '\r\n\r\n', '\n\r\n'])       # CRLF spelling of the same text
        yield how, td
import signal
class _Slow(Exception): pass
def _alarm(sig, frm): raise _Slow()
signal.signal(signal.SIGALRM, _alarm)
slow = 0
for kind, t in texts():
    dist[kind.split('-')[0]] = dist.get(kind.split('-')[0], 0) + 1
    if slow >= 3: break            # a family that does not terminate quickly has been shown: stop instead of waiting
    signal.alarm(10)
    try:
        d = parse(t); d.rebuild()
    except _Slow:
        slow += 1; viol.append({'what': 'parse/rebuild did not finish within 10 s on a %d-byte input of the linear families' % len(t), 'input': t[:300], 'kind': kind}); continue
    except ValueError: dist['raises ValueError'] = dist.get('raises ValueError', 0) + 1
    except RecursionError: viol.append({'what': 'RecursionError inside the nesting bound', 'input': t[:300], 'kind': kind})
    except IndexError as e:
        if t[:1].isspace() and '\r' in t: known['F-49'] = known.get('F-49', 0) + 1          # listed: leading whitespace shifts the offsets, a CR in the final gap runs off the end
        else: viol.append({'what': 'parse/rebuild raises IndexError: %s' % str(e)[:100], 'input': t[:400], 'kind': kind})
    except Exception as e: viol.append({'what': 'parse/rebuild raises %s: %s' % (type(e).__name__, str(e)[:100]), 'input': t[:400], 'kind': kind})
    finally: signal.alarm(0)
print(json.dumps({'evaluations': sum(v for k, v in dist.items() if k != 'raises ValueError'), 'distinct': len(dist), 'distribution': dist, 'violations': viol[:5], 'n_violations': len(viol), 'known_hits': known, 'samples': [{'kind': 'insert', 'input': '{ a = in 1; }'}]}))

#!/bin/sh
# usage: tools/try_patch.sh PATCH Cxx [Cyy ...]  — apply a patch to /repo's working tree, run the quick checks, undo it.
patch="$1"; shift
git -C /repo apply "$patch" || { echo "patch does not apply"; exit 2; }
trap 'git -C /repo checkout -- . ; git -C /repo clean -fdq' EXIT
export VERIF_EVIDENCE_DIR=/verif/build/evidence-under-patch
for p in "$@"; do /verif/check "$p" --tier quick 2>&1 | grep -v "^WARNING conda" | tail -${TAIL:-8}; echo "exit=$?"; done

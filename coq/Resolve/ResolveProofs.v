(* C10 spike: the lookup always terminates with an answer or an explicit error — the fuel of resolve_top is never
   exhausted.  Measure: entries of the current chain not yet in the visited sets. *)
From Coq Require Import List Ascii String Bool Arith Lia.
Import ListNotations.
From R Require Import ResolveCore.

Definition fresh (vis ivis : list nat) (e : entry) : bool :=
  match e with EBind b _ _ => negb (mem b vis) | EInh i _ => negb (mem i ivis) end.
Definition cnt (vis ivis : list nat) (sc : scope) : nat := List.length (filter (fresh vis ivis) sc).
Fixpoint M (vis ivis : list nat) (rc : list scope) : nat :=
  match rc with [] => 0 | sc :: t => cnt vis ivis sc + M vis ivis t end.

Lemma mem_cons x y l : mem x (y :: l) = Nat.eqb x y || mem x l.
Proof. reflexivity. Qed.
Lemma fresh_mono_b vis ivis b e : fresh (b :: vis) ivis e = true -> fresh vis ivis e = true.
Proof. destruct e as [b' n v|i ns]; cbn [fresh]; [|auto]. rewrite mem_cons, negb_orb. intros H. apply andb_prop in H. apply H. Qed.
Lemma fresh_mono_i vis ivis i e : fresh vis (i :: ivis) e = true -> fresh vis ivis e = true.
Proof. destruct e as [b' n v|i' ns]; cbn [fresh]; [auto|]. rewrite mem_cons, negb_orb. intros H. apply andb_prop in H. apply H. Qed.

Lemma filter_len_le {A} (f g : A -> bool) l : (forall x, f x = true -> g x = true) -> List.length (filter f l) <= List.length (filter g l).
Proof.
  intros H. induction l as [|x l IH]; [reflexivity|]. cbn [filter]. destruct (f x) eqn:E.
  - rewrite (H x E). cbn [List.length]. lia.
  - destruct (g x); cbn [List.length]; lia.
Qed.
Lemma filter_len_lt {A} (f g : A -> bool) l x0 : (forall x, f x = true -> g x = true) -> In x0 l -> f x0 = false -> g x0 = true ->
  List.length (filter f l) < List.length (filter g l).
Proof.
  intros H Hin Hf Hg. induction l as [|x l IH]; [destruct Hin|]. cbn [filter]. destruct Hin as [->|Hin].
  - rewrite Hf, Hg. cbn [List.length]. pose proof (filter_len_le f g l H). lia.
  - specialize (IH Hin). destruct (f x) eqn:E; [rewrite (H x E); cbn [List.length]; lia|].
    destruct (g x); cbn [List.length]; lia.
Qed.

Lemma M_mono_b vis ivis b rc : M (b :: vis) ivis rc <= M vis ivis rc.
Proof. induction rc as [|sc t IH]; [reflexivity|]. cbn [M]. unfold cnt at 1 2.
  pose proof (filter_len_le (fresh (b :: vis) ivis) (fresh vis ivis) sc (fresh_mono_b vis ivis b)). lia. Qed.
Lemma M_mono_i vis ivis i rc : M vis (i :: ivis) rc <= M vis ivis rc.
Proof. induction rc as [|sc t IH]; [reflexivity|]. cbn [M]. unfold cnt at 1 2.
  pose proof (filter_len_le (fresh vis (i :: ivis)) (fresh vis ivis) sc (fresh_mono_i vis ivis i)). lia. Qed.

Lemma find_bind_in sc name b v : find_bind sc name = Some (b, v) -> exists n, In (EBind b n v) sc.
Proof.
  induction sc as [|e t IH]; [discriminate|]. cbn [find_bind]. destruct e as [b' n' v'|i ns].
  - destruct (streq n' name); [intros H; inversion H; subst; exists n'; now left|intros H; destruct (IH H) as [n Hn]; exists n; now right].
  - intros H. destruct (IH H) as [n Hn]. exists n. now right.
Qed.
Lemma find_quoted_in sc name b v : find_quoted sc name = Some (b, v) -> exists n, In (EBind b n v) sc.
Proof.
  induction sc as [|e t IH]; [discriminate|]. cbn [find_quoted]. destruct e as [b' n' v'|i ns].
  - destruct (streq (strip_q n') name); [intros H; inversion H; subst; exists n'; now left|intros H; destruct (IH H) as [n Hn]; exists n; now right].
  - intros H. destruct (IH H) as [n Hn]. exists n. now right.
Qed.
Lemma find_inh_in sc name i : find_inh sc name = Some i -> exists ns, In (EInh i ns) sc.
Proof.
  induction sc as [|e t IH]; [discriminate|]. cbn [find_inh]. destruct e as [b' n' v'|i' ns'].
  - intros H. destruct (IH H) as [ns Hn]. exists ns. now right.
  - destruct (existsb (fun n => streq n name) ns'); [intros H; inversion H; subst; exists ns'; now left|intros H; destruct (IH H) as [ns Hn]; exists ns; now right].
Qed.

Lemma cnt_visit_b vis ivis sc b n v : In (EBind b n v) sc -> mem b vis = false -> cnt (b :: vis) ivis sc < cnt vis ivis sc.
Proof.
  intros Hin Hm. unfold cnt. apply (filter_len_lt _ _ sc (EBind b n v) (fresh_mono_b vis ivis b) Hin).
  - cbn [fresh]. rewrite mem_cons, Nat.eqb_refl. reflexivity.
  - cbn [fresh]. now rewrite Hm.
Qed.
Lemma cnt_has_i vis ivis sc i ns : In (EInh i ns) sc -> mem i ivis = false -> 0 < cnt vis ivis sc.
Proof.
  intros Hin Hm. unfold cnt. induction sc as [|e t IH]; [destruct Hin|]. cbn [filter]. destruct Hin as [->|Hin].
  - cbn [fresh]. rewrite Hm. cbn. lia.
  - specialize (IH Hin). destruct (fresh vis ivis e); cbn [List.length]; lia.
Qed.

Theorem resolve_total : forall fuel name rc vis ivis, M vis ivis rc < fuel -> resolve fuel name rc vis ivis <> RErr OutOfFuel.
Proof.
  induction fuel as [|f IH]; intros name rc vis ivis HM; [lia|]. cbn [resolve].
  (* the scan runs over suffixes of rc; their measure is bounded by that of rc *)
  assert (Hscan : forall rc', M vis ivis rc' <= M vis ivis rc ->
    (fix scan (rc0 : list scope) : rres :=
       match rc0 with
       | [] => RErr Unbound
       | sc :: outer =>
           match (match find_bind sc name with Some x => Some x | None => find_quoted sc name end) with
           | Some (bid, v) =>
               if mem bid vis then RErr CyclicRef
               else match v with
                    | VId n2 => resolve f n2 (sc :: outer) (bid :: vis) ivis
                    | VOther tag => Found tag bid end
           | None =>
               match find_inh sc name with
               | Some iid =>
                   if mem iid ivis then RErr CyclicInh
                   else match outer with [] => RErr Unbound | _ => resolve f name outer vis (iid :: ivis) end
               | None => scan outer
               end
           end
       end) rc' <> RErr OutOfFuel).
  { induction rc' as [|sc outer IHs]; intros Hle; [discriminate|].
    destruct (match find_bind sc name with Some x => Some x | None => find_quoted sc name end) as [[bid v]|] eqn:Ef.
    - destruct (mem bid vis) eqn:Em; [discriminate|]. destruct v as [n2|tag]; [|discriminate].
      apply IH.
      assert (Hin : exists n, In (EBind bid n (VId n2)) sc).
      { destruct (find_bind sc name) as [x|] eqn:E1; [inversion Ef; subst; eapply find_bind_in; eassumption|eapply find_quoted_in; eassumption]. }
      destruct Hin as [n Hin]. cbn [M] in *. pose proof (cnt_visit_b vis ivis sc bid n (VId n2) Hin Em).
      pose proof (M_mono_b vis ivis bid outer). lia.
    - destruct (find_inh sc name) as [iid|] eqn:Ei.
      + destruct (mem iid ivis) eqn:Em; [discriminate|]. destruct outer as [|o1 outer']; [discriminate|].
        apply IH. destruct (find_inh_in sc name iid Ei) as [ns Hin]. cbn [M] in Hle.
        pose proof (cnt_has_i vis ivis sc iid ns Hin Em). pose proof (M_mono_i vis ivis iid (o1 :: outer')). cbn [M] in *. lia.
      + apply IHs. cbn [M] in Hle. lia. }
  apply Hscan. lia.
Qed.

Lemma M_le_entries vis ivis rc : M vis ivis rc <= entries rc.
Proof.
  unfold entries. induction rc as [|sc t IH]; [reflexivity|]. cbn [M List.concat]. rewrite app_length.
  unfold cnt. pose proof (filter_len_le (fresh vis ivis) (fun _ => true) sc (fun _ _ => eq_refl)) as H.
  assert (E : filter (fun _ : entry => true) sc = sc) by (clear; induction sc as [|x l IHl]; [reflexivity|cbn [filter]; now rewrite IHl]).
  rewrite E in H. lia.
Qed.

(* C10 (termination half) for the core: every lookup answers or fails explicitly *)
Theorem C10_terminates name rc : resolve_top name rc <> RErr OutOfFuel.
Proof. unfold resolve_top. apply resolve_total. pose proof (M_le_entries [] [] rc). lia. Qed.
Print Assumptions C10_terminates.

(* and a cycle is reported as such (non-vacuity of the error branch): let a = b; b = a; in a *)
Example cycle_reported :
  resolve_top ["a"%char] [[EBind 1 ["a"%char] (VId ["b"%char]); EBind 2 ["b"%char] (VId ["a"%char])]] = RErr CyclicRef.
Proof. reflexivity. Qed.

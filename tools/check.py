"""Driver: ./check Cxx --tier quick|thorough.  One function per property assembles that property's obligations
(generated models, proof files, Props/Cxx.v, correspondence suites), replays the listed findings and runs the
searches; vlib.Run turns that into the verdict and the evidence file."""
import argparse, json, os, sys
sys.path.insert(0, os.path.dirname(os.path.abspath(__file__)))
import vlib
from vlib import Run, sh, PY, VERIF, REPO

ORACLES = os.path.join(VERIF, 'tools', 'oracles')

def oracle(run, name, script, args, timeout=900):
    """run a search script (labelled test); returns its JSON; violations it reports become VIOLATIONs"""
    rc, out = sh([PY, os.path.join(ORACLES, script)] + [str(a) for a in args], timeout=timeout, cwd=ORACLES)
    try:
        res = json.loads(out.strip().split('\n')[-1])
    except Exception:
        run.oblige('search:' + name, False, 'search harness failed: ' + out[-1200:])
        return None
    run.search[name] = {k: v for k, v in res.items() if k not in ('violations', 'samples')}
    run.evaluations += res.get('evaluations', 0)
    for k in res.get('keys', []): run.distinct.add(name + ':' + str(k))
    if 'distinct' in res: run.distinct.update('%s:#%d' % (name, i) for i in range(res['distinct']))
    for s in res.get('samples', [])[:2]: run.samples.append({'search': name, 'case': s})
    for v in res.get('violations', [])[:3]:
        run.violation(v.get('what', 'property fails'), {'kind': 'input', 'search': name, 'case': v})
    return res

def gen_strings(run):
    ok = run.generate('py2v(_escape_nix_string,_NPATH_IDENTIFIER_RE,_NIX_KEYWORDS,_parse_npath,_format_attr_name,_split_scope_npath,_split_attrpath)',
                      ['-W', 'ignore', os.path.join(VERIF, 'tools', 'py2v.py'), REPO], 'Gen.v')
    return ok

# ------------------------------------------------------------------------------------------ C12
def C12(run):
    run.static()
    gen_strings(run)
    run.dyn_compile(['Gen', 'Refine', 'NPathProofs', 'SplitProofs', 'AttrName', 'NPathInv'])
    run.props()
    big = run.tier == 'thorough'
    for func, ml, ns in [('escape', 4 if big else 3, 400), ('regex', 4 if big else 3, 200), ('parse_npath', 5 if big else 4, 400),
                         ('format_attr_name', 4 if big else 3, 300), ('split_attrpath', 5 if big else 4, 400)]:
        run.suite('gen=' + func, 'fcorr.py', [func, ml, ns * (4 if big else 1), run.seed], 'FC_' + func)
    res = oracle(run, 'names-roundtrip', 'c12_names.py', [run.seed, 6000 if big else 800])
    for f in run.findings():
        r = oracle_finding(run, f)
    run.assumptions += ['Lex.NixLex / Lex.NixAttr are the meaning of "Nix reads back" (hand-written from Nix\'s lexer rules)',
                        'the translator py2v.py renders the Python functions faithfully (validated on this run by the gen=* correspondences)']

def oracle_finding(run, f):
    rc, out = sh([PY, os.path.join(ORACLES, 'replay_finding.py')], stdin=json.dumps(f), timeout=300, cwd=ORACLES)
    try:
        res = json.loads(out.strip().split('\n')[-1])
    except Exception:
        run.oblige('finding:' + f['id'], False, 'replay harness failed: ' + out[-800:])
        return None
    run.known_finding(f, res.get('still_fails', False), res.get('detail', ''))
    return res

# ------------------------------------------------------------------------------------------ C16
def gen_layers(run):
    ok = run.generate('layers2v(_collect_scope_layers,_write_scope_layers,layer selection of set_value/remove_value)',
                      ['-W', 'ignore', os.path.join(VERIF, 'tools', 'layers2v.py'), REPO], 'LayersGen.v')
    run.dyn_compile(['LayersGen', 'LayersGenProps'])
    return ok

def gen_find(run):
    ok = run.generate('find2v(_find_binding,_find_named_binding,_find_attrpath_root)', ['-W', 'ignore', os.path.join(VERIF, 'tools', 'find2v.py'), REPO], 'FindGen.v')
    run.dyn_compile(['FindGen', 'FindProps'])
    return ok

def gen_gap(run):
    ok = run.generate('gap2v(trivia.py: blank-line tests, indent, Layout.from_gap, separators, append_gap_trivia, byte-offset twins)',
                      ['-W', 'ignore', os.path.join(VERIF, 'tools', 'gap2v.py'), REPO], 'GapGen.v')
    run.dyn_compile(['GapGen', 'GapGenProps'])
    return ok

def gen_fmt(run):
    ok = run.generate('fmt2v(trivia.py: format_trivia, trim_trailing_layout_newline)', ['-W', 'ignore', os.path.join(VERIF, 'tools', 'fmt2v.py'), REPO], 'FmtGen.v')
    run.dyn_compile(['FmtGen', 'FmtGenProps'])
    return ok

def gen_scopes(run):
    ok = run.generate('scopes2v(resolution.py: _collect_scopes_from_layers, scopes_for_owner for attribute-set owners)', ['-W', 'ignore', os.path.join(VERIF, 'tools', 'scopes2v.py'), REPO], 'ScopesGen.v')
    run.dyn_compile(['ScopesGen', 'ScopesProps'])
    return ok

def gen_target(run, n=240):
    """the wrapper traversal that picks the set `set` / `rm` may mutate: regenerated, proved about, and run against the implementation in recorded table worlds"""
    ok = run.generate('target2v(cli/manipulations.py: _resolve_target_set_from_expr with its nested helpers, _resolve_identifier_target, _resolve_target_set)',
                      ['-W', 'ignore', os.path.join(VERIF, 'tools', 'target2v.py'), REPO], 'TargetGen.v')
    run.dyn_compile(['TargetGen', 'TargetProps'])
    if ok: run.suite('target', 'target_corr.py', [run.seed, n * (5 if run.tier == 'thorough' else 1)], 'TG')
    return ok

def gen_maptarget(run, n=240):
    """the mapping API's copy of the wrapper walk (NixSourceCode._resolve_target_set): frame matched literally, model proved about and run against the implementation"""
    ok = run.generate('maptarget2v(expressions/source_code.py: NixSourceCode._resolve_target_set, frame matched literally)',
                      ['-W', 'ignore', os.path.join(VERIF, 'tools', 'maptarget2v.py'), REPO], 'MapTargetGen.v')
    run.dyn_compile(['MapTargetGen', 'MapTargetProps'])
    run.suite('mapping-target', 'target_corr.py', [run.seed, n * (5 if run.tier == 'thorough' else 1), 'mapping'], 'TM')
    return ok

def gen_cli(run):
    return run.generate('cli2v(cli/main.py:main match arms)', ['-W', 'ignore', os.path.join(VERIF, 'tools', 'cli2v.py'), REPO], 'CliGen.v')

def C16(run):
    run.static()
    gen_cli(run)
    run.dyn_compile(['CliGen', 'CliProps'])
    run.props()
    run.suite('cli', 'cli_corr.py', [run.seed, 1500 if run.tier == 'thorough' else 240], 'CLI')
    for f in run.findings():
        run.known_finding(f, run.known_hits.get(f['id'], 0) > 0, 'not reproduced by the cli suite on this run')
    run.assumptions += ['Python facts written as definitions of the IR interpreter (Cli/CliIR.v): print(x) writes x and a newline, print(x, end=y) writes x then y, '
                        'an uncaught exception leaves stdout as it was and exits with status 1, arguments are evaluated before the call',
                        'the library (parse/set_value/remove_value/rebuild/contains_error) is abstract in the theorems: they hold for every library behaviour']

# ------------------------------------------------------------------------------------------ C17
def C17(run):
    run.static()
    run.props()
    run.suite('paths', 'paths_corr.py', [run.seed, 2400 if run.tier == 'thorough' else 360], 'PATHS')
    run.assumptions += ['pathlib facts written as definitions (parts drop "" and ".", keep ".."; parent; absolute right operand wins); the OS resolves ".." physically',
                        'no symlinks and a case-sensitive file system (outside the model); tree-sitter/parse of the import expression is observed by the suite']

# ------------------------------------------------------------------------------------------ edit family
EDIT_ASSUME = ['the edit heap model (coq/Edit/EditModel.v) is hand-written: identifier paths without scope selectors, atom values; it is tied to '
               'cli/manipulations.py + expressions/set.py by the in-Coq `edit` correspondence (view after every call, also refused ones)',
               'scope selectors, reference redirection (C11), quoted segments and the byte-level text are covered by the searches (tests), not by the theorems']
def edit_family(run, search_prop, n_quick=900, n_thorough=6000, corr=True, pre=None):
    run.static()
    gen_find(run)           # the model's look-ups are proved equal to the look-ups regenerated from the source
    if pre: pre(run)
    run.props()
    big = run.tier == 'thorough'
    if corr:
        run.suite('edit', 'edit_corr.py', [run.seed, 4800 if big else 800], 'ED')
    res = oracle(run, 'edit-search', 'edit_search.py', [search_prop, run.seed, n_thorough if big else n_quick], timeout=3000)
    hits = dict(res.get('known_hits', {})) if res else {}
    for f in run.findings():
        r = oracle_finding(run, f)
    run.assumptions += EDIT_ASSUME

def C08(run): edit_family(run, 'C08', pre=gen_target)
def C04(run):
    edit_family(run, 'C04', pre=lambda r: (gen_layers(r), gen_target(r)))
    # edits whose path holds a reference: only the defining binding may change (the same search as C05/C11, judged as "touches only …")
    oracle(run, 'reference-edit-search', 'resolve_search.py', ['C04', run.seed, 3000 if run.tier == 'thorough' else 500], timeout=3000)
def C05(run):
    edit_family(run, 'C05', pre=gen_target)
    # edits whose path holds a reference (let layers, shadowing, alias chains): the binding that is rewritten must be the defining one, nothing else changes
    oracle(run, 'reference-edit-search', 'resolve_search.py', ['C05', run.seed, 3000 if run.tier == 'thorough' else 500], timeout=3000)
def C19(run): edit_family(run, 'C19', n_quick=1500, n_thorough=10000)

def C09(run):
    run.static()
    gen_strings(run)
    run.dyn_compile(['Gen', 'ScopeSel'])
    gen_layers(run)
    run.props()
    big = run.tier == 'thorough'
    run.suite('gen=split_scope', 'fcorr.py', ['split_scope', 8 if big else 7, 300, run.seed], 'FC_split_scope')
    run.suite('layers', 'layers_corr.py', [run.seed, 4800 if big else 800], 'LY')
    oracle(run, 'edit-search', 'edit_search.py', ['C09', run.seed, 6000 if big else 900], timeout=3000)
    for f in run.findings(): oracle_finding(run, f)
    run.assumptions += ['theorems cover the selector syntax (generated), the layer choice and the layer state machine L.LayerModel (index, creation, refusal, pruning, frame, no empty wrapper), which is hand-written and tied to the code by the layers correspondence on bare / lambda / parenthesised wrappers; that the BODY and the text of untouched layers keep their bytes is checked by the suite, not proved',
                        'wrappers between the let and the set (call, assert, with) are outside the domain: findings F-06, F-27']

def C14(run):
    run.static()
    gen_find(run)
    gen_target(run, 120); gen_maptarget(run)      # text edits and mapping edits pick their set by two copies of one walk: both tied, agreement proved on wrapper stacks
    run.props()
    big = run.tier == 'thorough'
    run.suite('mapping', 'map_corr.py', [run.seed, 4800 if big else 800], 'MP')
    run.suite('edit', 'edit_corr.py', [run.seed, 2400 if big else 400], 'ED')
    oracle(run, 'mapping-search', 'mapping_search.py', [run.seed, 5000 if big else 700], timeout=3000)
    for f in run.findings(): oracle_finding(run, f)
    run.assumptions += EDIT_ASSUME + ['the dictionary laws are proved for the top-level set of the heap model; nested sets and the scope mapping are covered by the mapping search (test)']

# ------------------------------------------------------------------------------------------ layout family
F0_ASSUME = ['fragment F0 (sets, rec, lists, bindings with bare/quoted/dotted names, opaque atoms, single-line comments in item slots, arbitrary whitespace in every gap): '
             'theorems are about the hand-written reader/printer model coq/F0/F0s.v, tied to from_cst/rebuild by the in-Coq render correspondence on REAL tree-sitter CSTs',
             'parser hypotheses: an error-free CST tiles its source (checked on every converted CST); the printed text of a canonical tree parses back to that tree (sampled by re-parsing outputs)',
             'constructs outside F0 (lambda heads, let, call, with, if, assert, operators, select, inherit) are covered by the slot matrix and the seeded search (tests), not by the theorems']
def matrix(run, prop):
    rc, out = sh([PY, os.path.join(ORACLES, 'slot_matrix.py'), prop], timeout=1200, cwd=ORACLES)
    try: res = json.loads(out.strip().split('\n')[-1])
    except Exception:
        run.oblige('search:slot-matrix', False, 'matrix harness failed: ' + out[-1200:]); return
    fs = [f for f in run.findings() if f.get('kind') == 'matrix']
    hits, unmatched = {}, []
    for x in res['failing']:
        m = [f for f in fs for s in f['sites'] if x[0] == s[0] and x[1] == s[1] and x[2] in s[2] and x[3] == s[3] and (len(s) < 5 or x[4] == s[4])]      # the same cell failing in a different way is not the listed finding
        if m: hits[m[0]['id']] = hits.get(m[0]['id'], 0) + 1
        else: unmatched.append(x)
    run.search['slot-matrix'] = {'cells': res['cells'], 'judged': res['judged'], 'failing_cells': len(res['failing']), 'matched_to_listed_findings': hits, 'unlisted': len(unmatched), 'exhaustive': True}
    run.evaluations += res['judged']
    for i in range(res['judged']): run.distinct.add('cell#%d' % i)
    run.samples.append({'search': 'slot-matrix', 'case': {'construct': 'set_multi', 'slot': 'a|=', 'kind': 'own_c', 'context': 'bindval'}})
    for x in unmatched[:3]:
        run.violation(x[4], {'kind': 'input', 'search': 'slot-matrix', 'case': {'construct': x[0], 'slot': x[1], 'trivia': x[2], 'context': x[3], 'input': x[5], 'output': x[6]}})
    for f in fs:
        run.known_finding(f, hits.get(f['id'], 0) > 0, 'no matrix cell of this finding fails any more')

def layout(run, prop, with_matrix=True):
    run.static()
    gen_gap(run)
    gen_fmt(run)
    run.props()
    big = run.tier == 'thorough'
    run.suite('render', 'f0_corr.py', [run.seed, 4800 if big else 800], 'F0')
    run.suite('gap-helpers', 'fcorr.py', ['gap', 7 if big else 6, 300, run.seed], 'FC_gap')      # trivia.py's gap helpers = the model's, exhaustively on short gaps
    if with_matrix: matrix(run, prop)
    res = oracle(run, 'render-search', 'render_search.py', [prop, run.seed, 6000 if big else 900], timeout=3000)
    hits = res.get('known_hits', {}) if res else {}
    for f in run.findings():
        if f.get('kind') != 'matrix':
            oracle_finding(run, f)
    run.assumptions += F0_ASSUME

def C01(run): layout(run, 'C01')
def C02(run): layout(run, 'C02')   # matrix for C02 = the canonical family (construct texts, atoms; byte identity)
def C03(run): layout(run, 'C03')
def C18(run): layout(run, 'C18')
def C06(run):
    layout(run, 'C06')
    oracle(run, 'edit-search', 'edit_search.py', ['C06', run.seed, 4000 if run.tier == 'thorough' else 500], timeout=3000)

def C07(run):
    run.static()
    gen_cli(run)
    run.dyn_compile(['CliGen', 'CliProps'])
    run.props()
    big = run.tier == 'thorough'
    run.suite('errors', 'errors_corr.py', [run.seed, 6000 if big else 900], 'ER')
    run.suite('cli', 'cli_corr.py', [run.seed, 800 if big else 160], 'CLI')
    for f in run.findings(): oracle_finding(run, f)
    run.assumptions += ['WHICH texts have a syntax error is tree-sitter\'s verdict (incl. MISSING nodes): trusted and observed, not modelled',
                        'the gate model Small/Gate.v is hand-written; it is tied to parser.parse / NixSourceCode.from_cst / set_value / remove_value by the errors correspondence (documents and VALUES)']

def C13(run):
    run.static()
    gen_strings(run)
    run.dyn_compile(['Gen', 'Refine', 'DataRender'])
    run.props()
    big = run.tier == 'thorough'
    run.suite('gen=escape', 'fcorr.py', ['escape', 4 if big else 3, 400, run.seed], 'FC_escape')
    run.suite('data', 'data_corr.py', [run.seed, 4000 if big else 700], 'DATA')
    res = oracle(run, 'data-search', 'c13_search.py', [run.seed, 12000 if big else 2000], timeout=3000)
    for f in run.findings(): oracle_finding(run, f)
    run.assumptions += ['floats are outside the model (CPython repr(float) is not modelled): search only, finding F-15 listed',
                        'of_py is a hand-written model of coerce_expression + constructors at the level of the emitted token tree; tied to the code by the data correspondence (tree-sitter tokenisation of the emitted text)',
                        'layout stability of constructed values (render twice, parse/rebuild stable) is covered by the data search (test)']

RES_ASSUME = ['three hand-written models (resolver core, chain-construction state machine, registry) each tied to the code by an in-Coq correspondence; '
              'with-environments, inherit (src), call parameters and import hops are outside the models (search / listed findings)',
              'Nix scoping itself is represented by the registry-free positional traversal (access_pure) inside the rec-free domain and by the reference resolver of the search']
def C10(run):
    run.static()
    gen_scopes(run)
    run.props()
    big = run.tier == 'thorough'
    run.suite('resolver-core', 'res_corr.py', [run.seed, 6000 if big else 1200], 'RS')
    run.suite('chain-histories', 'chain_corr.py', [run.seed, 3200 if big else 640], 'CH')
    oracle(run, 'resolve-search', 'resolve_search.py', ['C10', run.seed, 40000 if big else 6000], timeout=3000)
    for f in run.findings(): oracle_finding(run, f)
    run.assumptions += RES_ASSUME
def C11(run):
    run.static()
    gen_scopes(run)
    run.props()
    big = run.tier == 'thorough'
    run.suite('assign-through', 'c11_corr.py', [run.seed, 6000 if big else 1200], 'CE')
    run.suite('resolver-core', 'res_corr.py', [run.seed, 3000 if big else 600], 'RS')
    oracle(run, 'resolve-search', 'resolve_search.py', ['C11', run.seed, 40000 if big else 6000], timeout=3000)
    for f in run.findings(): oracle_finding(run, f)
    run.assumptions += RES_ASSUME + ['the case "a sibling of that name exists in a non-recursive set" is bound in neither sense of the property text: the model states what the code does, the search does not judge it']

def C15(run):
    run.static()
    run.generate('effects2v(mutation sites reachable from rebuild)', ['-W', 'ignore', os.path.join(VERIF, 'tools', 'effects2v.py'), REPO], 'EffectsGen.v')
    run.dyn_compile(['EffectsGen', 'EffectsProps'])
    run.props()
    big = run.tier == 'thorough'
    run.suite('chain-histories', 'chain_corr.py', [run.seed, 1600 if big else 320], 'CH')
    oracle(run, 'purity-determinism', 'purity_search.py', [run.seed, 9000 if big else 1500], timeout=3000)
    for f in run.findings(): oracle_finding(run, f)
    run.assumptions += ['the step from the syntactic facts of a mutation site (fresh root, refreshed container) to "the write targets an object allocated during the call" is the translator\'s and is trusted; '
                        'it is backed on every run by object-graph snapshots before/after rebuild on every matrix cell and by the dynamic closure check (functions executed under rebuild are inside the summarised set)',
                        'the models cannot exhibit data races inside tree-sitter\'s C code or a free-threaded interpreter: threads, hash seed and cwd are compared by the search (test)']

def C20(run):
    run.static()
    gen_target(run, 120)  # the wrapper traversal terminates on every document (C20_target_total)
    gen_gap(run)          # the blank-line pattern is of the shape literal class* literal (no nested quantifier): regenerated and proved equal to a structural scan
    rc, out = sh([PY, '-W', 'ignore', os.path.join(VERIF, 'tools', 'regex_shapes.py'), REPO], timeout=120)      # twelfth round: every pattern the package hands to `re`, not only the one gap2v translates
    run.oblige('scan:regex-star-height(every pattern passed to re.*: no unbounded repetition nested in a repetition; non-literal patterns refused)', rc == 0,
               '; '.join(l for l in out.split('\n') if l.startswith('REFUSED'))[:1500] if rc else out.strip().split('\n')[-1])
    run.props()
    big = run.tier == 'thorough'
    run.suite('cost', 'cost_corr.py', [run.seed, 12 if big else 10], 'CO')
    run.suite('errors', 'errors_corr.py', [run.seed, 3000 if big else 500], 'ER')
    oracle(run, 'robustness', 'robust_search.py', [run.seed, 20000 if big else 3000], timeout=3000)
    for f in run.findings(): oracle_finding(run, f)
    run.assumptions += ['cost = number of rebuild invocations, counted by wrapping every class\'s rebuild from the harness; wall-clock time is never compared',
                        'the recurrences are per nesting family (one wrapper repeated); mixed nestings are not composed in the model',
                        'crash freedom on arbitrary text depends on tree-sitter never producing an error-free tree outside the shapes the readers expect: sampled by the robustness search, not proved',
                        'Python\'s recursion limit (RecursionError beyond ~200 nested parentheses) is outside the nesting bound']

PROPS = {'C20': C20, 'C15': C15, 'C10': C10, 'C11': C11, 'C13': C13, 'C07': C07, 'C01': C01, 'C02': C02, 'C03': C03, 'C06': C06, 'C18': C18, 'C14': C14, 'C09': C09, 'C12': C12, 'C16': C16, 'C17': C17, 'C08': C08, 'C04': C04, 'C05': C05, 'C19': C19}

def main():
    ap = argparse.ArgumentParser()
    ap.add_argument('prop')
    ap.add_argument('--tier', default=os.environ.get('VERIF_TIER', 'quick'), choices=['quick', 'thorough'])
    ap.add_argument('--replay')
    a = ap.parse_args()
    seed = int(os.environ.get('VERIF_SEED', '20260101'))
    if a.replay:
        body = json.load(open(a.replay))
        rc, out = sh([PY, os.path.join(ORACLES, 'replay_case.py')], stdin=json.dumps(body), timeout=600, cwd=ORACLES)
        print(out)
        sys.exit(rc)
    run = Run(a.prop, a.tier, seed)
    try:
        PROPS[a.prop](run)
    except Exception as e:
        import traceback
        run.oblige('driver', False, traceback.format_exc()[-1500:])
    sys.exit(run.finish())

if __name__ == '__main__':
    main()

"""C13 search (labelled test): nested Python values in the stated domain are handed to the construction API in
every container context; the rendered text must parse, read back (independent data reader) to the same value, render
the same twice, and be stable under parse/rebuild.   usage: c13_search.py SEED N"""
import json, math, random, struct, sys
from nixdata import read_text, NotData
from nix_manipulator import parse
from nix_manipulator.expressions.set import AttributeSet
from nix_manipulator.expressions.list import NixList
from nix_manipulator.expressions.binding import Binding
seed, N = int(sys.argv[1]), int(sys.argv[2])
R = random.Random(seed * 13 + 13)
viol, dist, known, samples = [], {}, {}, []
CH = list('ab \t\n\r"\\$\'{}#;=.-é→') + ['$$', "''", '\\n', '$ {', '$"', '$\\', '\x7f', '\x1b', '\x08', '\x0c', '\x01', '\x0b']
KEYS = ['a', 'b', 'name', 'meta', 'x1', "k'", '_u', 'version']
def string(): return ''.join(R.choice(CH) for _ in range(R.randint(0, 8))).replace('${', '$ {')
def integer(): return R.choice([0, 1, -1, 7, 42, -42, 10 ** 6, -10 ** 9, 2 ** 62, -2 ** 62, R.randrange(-1000, 1000)])
def flt():
    k = R.random()
    if k < 0.4: return R.choice([0.5, 1.5, -2.25, 3.0, 100.125, 0.1, 123456.789, 1.5e-07, -1.5e-09, 2.5e-05, 1.25e-06, 1.234567e-05, 6.62607015e-34, 1.5e+22, 2.5e+300, 4.5e-06])
    if k < 0.7: return round(R.uniform(-1000, 1000), R.randint(1, 6))
    return struct.unpack('d', struct.pack('Q', R.getrandbits(64)))[0]
def scalar():
    k = R.randrange(6)
    return [string, integer, lambda: R.random() < 0.5, lambda: None, flt, string][k]()
def lst(depth): return [scalar() if depth <= 0 or R.random() < 0.8 else lst(depth - 1) for _ in range(R.randint(0, 4))]
def dct(depth):
    out = {}
    for k in R.sample(KEYS, R.randint(0, 4)):
        r = R.random()
        out[k] = scalar() if r < 0.55 else lst(1) if r < 0.8 else dct(depth - 1) if depth > 0 else scalar()
    return out
import re
NIX_FLOAT = re.compile(r'(([1-9][0-9]*\.[0-9]*)|(0?\.[0-9]+))([Ee][+-]?[0-9]+)?')
def classify(v):
    """known findings: negative numbers as list elements (F-14), floats whose repr is not a Nix literal (F-15), NUL in strings (F-16)"""
    hits = set()
    def w(x, in_list):
        if isinstance(x, bool) or x is None: return
        if isinstance(x, (int, float)) and x < 0 and in_list: hits.add('F-14')
        if isinstance(x, float) and not NIX_FLOAT.fullmatch(repr(abs(x))): hits.add('F-15')          # repr is not a Nix float literal (1e-07, 1e+22, inf, nan); 1.5e-07 IS one
        if isinstance(x, int) and not isinstance(x, bool) and not (-2 ** 63 <= x < 2 ** 63): hits.add('F-24')
        if isinstance(x, str) and '\x00' in x: hits.add('F-16')         # NUL only: every other control character is emitted raw and read back unchanged (eighth round: the domain had been all of 0x01-0x1f)
        if isinstance(x, list): [w(y, True) for y in x]
        if isinstance(x, dict): [w(y, False) for y in x.values()]
    w(v, False); return hits
def same(a, b):
    if isinstance(a, float) or isinstance(b, float):
        return isinstance(a, (int, float)) and isinstance(b, (int, float)) and not isinstance(a, bool) and not isinstance(b, bool) and float(a) == float(b) and math.copysign(1, a) == math.copysign(1, b)
    if type(a) != type(b): return False
    if isinstance(a, list): return len(a) == len(b) and all(same(x, y) for x, y in zip(a, b))
    if isinstance(a, dict): return list(a) == list(b) and all(same(a[k], b[k]) for k in a)
    return a == b
for it in range(N):
    ctx = R.choice(['set_top', 'set_top', 'binding_value', 'list_element', 'item_assign', 'nested_assign', 'binding_ctor', 'from_dict', 'ctor_then_assign', 'ctor_then_assign', 'empty_then_assign', 'overwrite_parsed', 'overwrite_parsed'])
    try:
        if ctx == 'set_top': v = dct(2); make = lambda: AttributeSet(values=v).rebuild(); want = v
        elif ctx == 'from_dict': v = dct(2); make = lambda: AttributeSet.from_dict(v).rebuild(); want = v
        elif ctx == 'binding_value': x = R.choice([scalar, lambda: lst(1), lambda: dct(1)])(); v = {'k': x}; make = lambda: AttributeSet(values={'k': x}).rebuild(); want = v
        elif ctx == 'list_element': x = lst(2); v = x; make = lambda: NixList(value=x).rebuild(); want = x
        elif ctx == 'binding_ctor': x = R.choice([scalar, lambda: lst(1), lambda: dct(1)])(); v = {'k': x}; make = lambda: AttributeSet(values=[Binding(name='k', value=x)]).rebuild(); want = v
        elif ctx == 'ctor_then_assign':
            base = dct(1); extra = {k: scalar() for k in R.sample(['n1', 'n2', 'n3'], R.randint(1, 2))}; how = R.choice(['from_dict', 'values_dict', 'bindings', 'nested'])
            def make():
                if how == 'from_dict': s = AttributeSet.from_dict(dict(base))
                elif how == 'values_dict': s = AttributeSet(values=dict(base))
                elif how == 'bindings': s = AttributeSet(values=[Binding(name=k, value=x) for k, x in base.items()])
                else:
                    top = parse('{ outer = 0; }'); top['outer'] = dict(base)
                    for k, x in extra.items(): top['outer'][k] = x
                    return top.rebuild()
                for k, x in extra.items(): s[k] = x
                return s.rebuild()
            v = dict(base); v.update(extra); want = v if how != 'nested' else {'outer': v}; v = want
        elif ctx == 'empty_then_assign':
            extra = {k: scalar() for k in R.sample(['a', 'b', 'c'], R.randint(1, 3))}
            def make():
                s = parse('')
                for k, x in extra.items(): s[k] = x
                return s.rebuild()
            v = dict(extra); want = v
        elif ctx == 'overwrite_parsed':
            # item assignment over values that came from PARSED text (string, int, bool, null, list, nested set), same or other type
            BASE = '{\n  s = "old";\n  i = 1;\n  b = true;\n  n = null;\n  l = [ 1 ];\n  d = {\n    s = "in";\n    i = 2;\n  };\n}\n'
            base_v = {'s': 'old', 'i': 1, 'b': True, 'n': None, 'l': [1], 'd': {'s': 'in', 'i': 2}}
            ups = [(R.choice([('s',), ('i',), ('b',), ('n',), ('l',), ('d', 's'), ('d', 'i'), ('s',), ('d', 's')]), R.choice([scalar, string, string, lambda: lst(1)])()) for _ in range(R.randint(1, 3))]
            def make():
                src = parse(BASE)
                for path, x in ups:
                    if len(path) == 1: src[path[0]] = x
                    else: src[path[0]][path[1]] = x
                return src.rebuild()
            import copy
            v = copy.deepcopy(base_v)
            for path, x in ups:
                if len(path) == 1: v[path[0]] = x
                else: v[path[0]][path[1]] = x
            want = v
        elif ctx == 'item_assign':
            x = R.choice([scalar, lambda: lst(1), lambda: dct(1)])(); v = {'a': 1, 'k': x}
            def make():
                s = parse('{ a = 1; }'); s['k'] = x; return s.rebuild()
            want = v
        else:
            x = R.choice([scalar, lambda: lst(1)])(); v = {'m': {'q': 0, 'k': x}}
            def make():
                s = parse('{\n  m = {\n    q = 0;\n  };\n}\n'); s['m']['k'] = x; return s.rebuild()
            want = v
    except Exception as e:
        continue
    hits = classify(v)
    dist[ctx] = dist.get(ctx, 0) + 1
    if hits:
        for h in hits: known[h] = known.get(h, 0) + 1
        continue
    case = {'context': ctx, 'value': repr(v)}
    try: t1 = make(); t2 = make()
    except Exception as e:
        viol.append(dict(case, what='construction/render raises %s: %s' % (type(e).__name__, e))); continue
    if t1 != t2: viol.append(dict(case, what='rendering the same value twice gives different text', t1=t1, t2=t2)); continue
    try: back = read_text(t1)
    except NotData as e:
        viol.append(dict(case, what='rendered text does not read back as data: %s' % e, text=t1)); continue
    if not same(back, want): viol.append(dict(case, what='rendered text denotes a different value', text=t1, read_back=repr(back))); continue
    try:
        if parse(t1).rebuild() != t1: viol.append(dict(case, what='re-parsing and rebuilding the rendered text is not stable', text=t1, again=parse(t1).rebuild()))
    except Exception as e: viol.append(dict(case, what='re-parsing the rendered text raises %s' % type(e).__name__, text=t1))
    if len(samples) < 3: samples.append(dict(case, text=t1))
# thirteenth round (unconditional): values that are integers / strings by SUBCLASS (enum members, user subclasses) are integers / strings of the domain:
# they must render exactly like the plain value they equal, in every construction context
import enum
class _Level(enum.IntEnum): LOW = 1; HIGH = 3
class _Mode(str, enum.Enum): FAST = 'fa"st\\'; SLOW = 'slow'
class _Tagged(str): pass
class _Count(int): pass
for sub, plain in [(_Level.HIGH, 3), (_Mode.FAST, 'fa"st\\'), (_Tagged('a\tb'), 'a\tb'), (_Count(7), 7), (_Tagged(''), '')]:
    for name, mk in [('from_dict', lambda x: AttributeSet.from_dict({'k': x}).rebuild()), ('values_dict', lambda x: AttributeSet(values={'k': x}).rebuild()),
                     ('list_element', lambda x: NixList(value=[x, x]).rebuild()), ('binding_ctor', lambda x: AttributeSet(values=[Binding(name='k', value=x)]).rebuild()),
                     ('item_assign', lambda x: (lambda s_: (s_.__setitem__('k', x), s_.rebuild())[1])(parse('{ a = 1; }'))),
                     ('ctor_then_assign', lambda x: (lambda s_: (s_.__setitem__('a', x), s_.rebuild())[1])(AttributeSet.from_dict({'a': 1, 'b': 2})))]:
        dist['subclass/' + name] = dist.get('subclass/' + name, 0) + 1
        case = {'context': name, 'value': '%s (%s, a subclass of %s)' % (repr(plain), type(sub).__name__, type(plain).__name__)}
        try: want_text = mk(plain)
        except Exception: continue
        try: got_text = mk(sub)
        except Exception as e: viol.append(dict(case, what='construction/render of a value of the domain raises %s: %s' % (type(e).__name__, e))); continue
        if got_text != want_text: viol.append(dict(case, what='a subclass instance renders differently from the value it equals', text=got_text, expected=want_text))
print(json.dumps({'evaluations': sum(dist.values()), 'distinct': sum(dist.values()), 'distribution': dist, 'violations': viol[:6], 'n_violations': len(viol), 'known_hits': known, 'samples': samples}))

(* C06 — rebuilt text is a fixed point (fragment F0, model level): the output is the text of the canonicalised tree,
   and that tree is reproduced byte for byte.  With the parser hypothesis ts_stable (the printed text of a canonical
   tree parses back to that tree — validated on every run by re-parsing the implementation's output) this is
   idempotence of formatting for every well-formed F0 document. *)
From Coq Require Import List Ascii String Bool Arith.
Import ListNotations.
From F0 Require Import F0s Specs P1 P2 P3g P5 P6 P7 P8 P9 P10 P11 Canon P12 P13 Canonize P14 P15 P16a P16 P17 P18 P19 P20.

Theorem C06_fixed_point : forall f, wf_file f ->
  roundtrip f = ftext (canon_file f) /\ roundtrip (canon_file f) = ftext (canon_file f).
Proof. exact C06_F0. Qed.
Print Assumptions C06_fixed_point.

Theorem C06_checked : forall f, wf_fileb f = true ->
  roundtrip f = ftext (canon_file f) /\ roundtrip (canon_file f) = ftext (canon_file f) /\ canonical_file (canon_file f) = true.
Proof. exact F0_checked. Qed.
Print Assumptions C06_checked.

(* the canonicalised tree is again inside the domain, so the statement can be iterated *)
Theorem C06_domain_closed : forall f, wf_file f -> wf_file (canon_file f).
Proof. exact canon_file_wf. Qed.
Print Assumptions C06_domain_closed.

(* end to end over the external parser: for ANY function ts_parse satisfying the two hypotheses the render
   correspondence validates on every run (tiling; the canonical form of a parsed tree, printed, parses back to that canonical form — checked on every case by re-parsing the implementation's output with tree-sitter), the rebuilt
   text parses and rebuilding it again changes nothing *)
Theorem C06_source : forall ts_parse : str -> option cfile,
  (forall src f, ts_parse src = Some f -> ftext f = src) ->
  (forall src f, ts_parse src = Some f -> wf_file f -> ts_parse (ftext (canon_file f)) = Some (canon_file f)) ->
  forall src f, ts_parse src = Some f -> wf_file f ->
  exists f', ts_parse (roundtrip f) = Some f' /\ roundtrip f' = roundtrip f.
Proof. exact (fun ts _ Hstable => P20.C06_source ts Hstable). Qed.
Print Assumptions C06_source.

(* the hypotheses are jointly satisfiable by a parser that accepts a non-trivial document *)
Example C06_source_nonvacuous :
  (forall src f, toy_parse src = Some f -> ftext f = src) /\
  (forall src f, toy_parse src = Some f -> wf_file f -> toy_parse (ftext (canon_file f)) = Some (canon_file f)) /\
  toy_parse (ftext (canon_file demo)) = Some (canon_file demo) /\ wf_file (canon_file demo).
Proof. exact (conj toy_tiling (conj toy_stable toy_accepts)). Qed.
Print Assumptions C06_source_nonvacuous.

From Coq Require Import ZArith.
From F0 Require Import GapLib.
From Dyn Require Import GapGen GapGenProps.

(* over the REGENERATED gap helpers of expressions/trivia.py: reading back a separator that was emitted for a gap gives the layout it
   was emitted from — the fixed point at the level of a single gap, for every gap with a line break *)
Theorem C06_gap_fixed_point : forall g ind isep,
  has_nl g = true -> layout_from_gap (separator_from_layout (layout_from_gap g) ind isep) = layout_from_gap g.
Proof. exact layout_fixed_point. Qed.
Print Assumptions C06_gap_fixed_point.

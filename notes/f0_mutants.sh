#!/bin/bash
# usage: mutants.sh NAME FILE 'python-regex-sub-expr'
set -e
name=$1; file=$2; old=$3; new=$4
cd /tmp/scratch/repo-copy && git checkout -q .
/venv/bin/python - "$file" "$old" "$new" <<'PY'
import sys, pathlib
p = pathlib.Path(sys.argv[1]); s = p.read_text()
old, new = sys.argv[2].encode().decode('unicode_escape'), sys.argv[3].encode().decode('unicode_escape')
assert s.count(old) >= 1, "pattern not found"
p.write_text(s.replace(old, new, 1))
PY
res=$(/venv/bin/python -m pytest -q -p no:cacheprovider --timeout=900 --continue-on-collection-errors 2>&1 | tail -1)
echo "[$name] tests: $res"
cd /tmp/scratch/f0
NIMA_REPO=/tmp/scratch/repo-copy /venv/bin/python cst2coq.py 77 150 Mut_$name.v 2>&1 | grep -v WARN
sed -i 's/From F0 Require Import F0\./From F0 Require Import F0s./' Mut_$name.v
out=$(timeout 900 coqc -Q . F0 Mut_$name.v 2>&1 | grep -v "^ *: list" | tr -d '\n' | cut -c1-160)
echo "[$name] correspondence mismatches: $out"
cd /tmp/scratch/repo-copy && git checkout -q .

(* C12: invariants of the GENERATED _parse_npath — what an accepted path looks like, and the malformed classes *)
From Coq Require Import List Ascii Bool Arith Lia.
Import ListNotations.
From Dyn Require Import Gen NPathProofs.

Definition seg_ok (sg : str * bool) : Prop := snd sg = false -> re_npath_ident (fst sg) = true.
Definition st_segs (st : STATE__parse_npath) : list (str * bool) := let '(s, _, _, _, _) := st in s.

Lemma step_inv st ch st' : _parse_npath_step st ch = Ok st' -> Forall seg_ok (st_segs st) -> Forall seg_ok (st_segs st').
Proof.
  destruct st as [[[[segs buf] inq] qs] esc]. unfold _parse_npath_step. cbv zeta. intros H Hinv. cbn [st_segs] in Hinv.
  repeat match type of H with
  | (if ?b then _ else _) = _ => let E := fresh "E" in destruct b eqn:E
  end; try discriminate; injection H as <-; cbn [st_segs]; try exact Hinv.
  apply Forall_app. split; [exact Hinv|]. constructor; [|constructor].
  unfold seg_ok. cbn [fst snd]. intros Hq. subst qs. cbn [negb andb] in *.
  match goal with E1 : streq buf [] = false, E2 : _ && negb (re_npath_ident buf) = false |- _ =>
    destruct buf; [discriminate|]; cbn [isnil negb andb] in E2; apply negb_false_iff in E2; exact E2 end.
Qed.
Lemma loop_inv : forall s st st', _parse_npath_loop st s = Ok st' -> Forall seg_ok (st_segs st) -> Forall seg_ok (st_segs st').
Proof.
  induction s as [|ch r IH]; intros st st' H Hinv; [injection H as <-; exact Hinv|].
  rewrite loop_cons in H. destruct (_parse_npath_step st ch) as [st1|e] eqn:E; [|discriminate].
  apply (IH st1 st' H). apply (step_inv st ch st1 E Hinv).
Qed.

Theorem accepted_wellformed : forall p segs, _parse_npath p = Ok segs ->
  p <> [] /\ segs <> [] /\ Forall seg_ok segs.
Proof.
  intros p segs H. unfold _parse_npath in H. destruct p as [|x p']; [discriminate|]. cbn [isnil negb] in H. cbv iota zeta in H.
  split; [discriminate|].
  destruct (_parse_npath_loop ([], [], false, false, false) (x :: p')) as [st|e] eqn:E; [|discriminate].
  pose proof (loop_inv _ _ _ E (Forall_nil _)) as Hinv.
  destruct st as [[[[segs' buf] inq] qs] esc]. cbn [st_segs] in Hinv.
  repeat match type of H with
  | (if ?b then _ else _) = _ => let E := fresh "E" in destruct b eqn:E
  end; try discriminate. injection H as <-.
  split; [destruct segs'; discriminate|].
  apply Forall_app. split; [exact Hinv|]. constructor; [|constructor].
  unfold seg_ok. cbn [fst snd]. intros Hq. subst qs. cbn [negb andb] in *.
  match goal with E1 : streq buf [] = false, E2 : _ && negb (re_npath_ident buf) = false |- _ =>
    destruct buf; [discriminate|]; cbn [isnil negb andb] in E2; apply negb_false_iff in E2; exact E2 end.
Qed.
Print Assumptions accepted_wellformed.

Lemma loop_nil st : _parse_npath_loop st [] = Ok st.
Proof. reflexivity. Qed.

Theorem malformed_rejected : forall name : str,
  _parse_npath [] = Err 3 /\
  _parse_npath (dq :: enc name) = Err 62 /\
  _parse_npath (dq :: enc name ++ [bs]) = Err 60 /\
  _parse_npath (c 97 :: quote name) = Err 52.
Proof.
  intros name. split; [reflexivity|]. split; [|split].
  - unfold _parse_npath. cbn [isnil negb]. cbv iota zeta. rewrite loop_cons. unfold _parse_npath_step at 1. cbv iota beta.
    change (dq =c c 46) with false. change (dq =c c 34) with true. cbn [isnil negb]. cbv iota zeta.
    rewrite <- (app_nil_r (enc name)). rewrite in_quotes_decodes. rewrite loop_nil. reflexivity.
  - unfold _parse_npath. cbn [isnil negb]. cbv iota zeta. rewrite loop_cons. unfold _parse_npath_step at 1. cbv iota beta.
    change (dq =c c 46) with false. change (dq =c c 34) with true. cbn [isnil negb]. cbv iota zeta.
    rewrite in_quotes_decodes. rewrite loop_cons. unfold _parse_npath_step at 1. cbv iota beta.
    change (bs =c c 92) with true. cbv iota zeta. rewrite loop_nil. reflexivity.
  - unfold _parse_npath. cbn [isnil negb]. cbv iota zeta. rewrite loop_cons. unfold _parse_npath_step at 1. cbv iota beta.
    change (c 97 =c c 46) with false. change (c 97 =c c 34) with false. cbv iota zeta.
    unfold quote. rewrite loop_cons. unfold _parse_npath_step at 1. cbv iota beta.
    change (dq =c c 46) with false. change (dq =c c 34) with true. cbn [app isnil negb]. cbv iota. reflexivity.
Qed.
Print Assumptions malformed_rejected.

(* F-13: the two spellings of one name are written differently (and every lookup compares written text) *)
Theorem one_spelling_refuted : ~ (forall a b : str * bool, fst a = fst b -> _format_attr_name a = _format_attr_name b).
Proof.
  intros H. specialize (H ([c 97], true) ([c 97], false) eq_refl). vm_compute in H. discriminate.
Qed.

#!/bin/sh
# Rebuild every design spike from the committed sources in a scratch directory (nothing is built by any check).
# usage: notes/spikes/build_all.sh   — prints one line per spike; removes the scratch directory afterwards.
set -e
here=$(cd "$(dirname "$0")" && pwd)
tmp=$(mktemp -d)
trap 'rm -rf "$tmp"' EXIT
run() { ( cd "$1" && shift && timeout 600 "$@" ) >"$tmp/log" 2>&1 || { echo "FAILED: $*"; grep -v '^WARNING' "$tmp/log" | tail -5; exit 1; }; }
cp -r "$here/f0" "$tmp/f0"
for f in F0s Specs P1 P2 P3g P5 P6 P7 P8 P9 P10 P11 Canon P12 P13 Canonize P14 P15 P16a P16 P17 P18; do run "$tmp/f0" coqc -Q . F0 $f.v; done
echo "f0: ok"
cp -r "$here/edit" "$tmp/edit"
for f in EditModel EditRun EditProofs EditFrame EditLaws EditParse EditFindings EditAppend EditClosed EditClosedOps; do run "$tmp/edit" coqc -Q . E $f.v; done
echo "edit: ok"
cp -r "$here/py2v" "$tmp/py2v"
for f in Gen NixLex Refine NPathProofs SplitProofs ScopeSel; do run "$tmp/py2v" coqc $f.v; done
echo "py2v: ok"
cp -r "$here/resolve" "$tmp/resolve"
for f in ResolveCore ResolveProofs AssignThrough; do run "$tmp/resolve" coqc -Q . R $f.v; done
echo "resolve: ok"
cp -r "$here/chain" "$tmp/chain"
for f in ChainModel ChainProps ChainInv; do run "$tmp/chain" coqc -Q . C $f.v; done
echo "chain: ok"
cp -r "$here/cli" "$tmp/cli"
for f in CliIR CliGen CliProps; do run "$tmp/cli" coqc $f.v; done
echo "cli: ok"
cp -r "$here/small" "$tmp/small"
for f in "$tmp"/small/*.v; do run "$tmp/small" coqc "$(basename "$f")"; done
echo "small: ok"
if grep -rn 'Admitted\|admit\.\|^Axiom\|^Parameter\|^Conjecture' "$here" --include='*.v' ; then echo "FORBIDDEN KEYWORD"; exit 1; fi
echo "no Admitted/admit/Axiom/Parameter/Conjecture in any spike"

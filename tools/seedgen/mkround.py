"""usage: mkround.py N — prepare seed round N: one scratch worktree of /repo per property under /tmp/wtN/Cxx and one self-contained
prompt /tmp/wtN/Cxx.agent.txt for a fresh sub-agent (property text only; the files and functions earlier seeds of that property
touched are named as out of bounds).  Nothing from /verif is shown to the agent."""
import json, re, subprocess, os, sys, glob
n = sys.argv[1]; root = '/tmp/wt%s' % n; os.makedirs(root, exist_ok=True)
props = [json.loads(l) for l in open('/verif/properties.jsonl')]
tmpl = open(os.path.join(os.path.dirname(__file__), 'template.txt')).read()
def touched(d):
    txt = open(d + '/patch.diff').read()
    files = [f.replace('nix_manipulator/', '') for f in re.findall(r'^\+\+\+ b/(\S+)', txt, re.M)]
    funcs = set(re.findall(r'^@@.*@@\s*(?:async\s+)?(?:def|class)\s+(\w+)', txt, re.M))
    return ', '.join(files) + ((' (' + ', '.join(sorted(funcs)) + ')') if funcs else '')
for pr in props:
    pid = pr['id']; wt = '%s/%s' % (root, pid)
    if not os.path.isdir(wt): subprocess.run(['git', '-C', '/repo', 'worktree', 'add', '--detach', wt, 'HEAD'], capture_output=True)
    prev = sorted({touched(d) for d in sorted(glob.glob('/verif/seeded/%s*' % pid)) if os.path.exists(d + '/patch.diff')})
    text = pr['title'] + '\n\n' + pr['statement'] + '\n\nQuantified over: ' + pr['quantifier']['text']
    t = tmpl.replace('@WT@', wt).replace('@PROPERTY@', text).replace('@PREVIOUS@', '; and in '.join(prev))
    open('%s/%s.agent.txt' % (root, pid), 'w').write(t)
print('prepared', root)

"""Fail-closed translator: expressions/trivia.py:format_trivia (the loop that renders every list of comments and layout markers),
trim_trailing_layout_newline and apply_trailing_trivia -> Gallina (Dyn/FmtGen.v) over coq/F0/FmtLib.v.  The `for index, item in
enumerate(trivia_list)` loop becomes a structural Fixpoint over the list whose state is the text assembled so far, whether any part
has been appended (`parts` as a truth value), and `ends_with_newline`; `trivia_list[index + 1] if index + 1 < len(trivia_list) else None`
is the head of the rest of the list; `continue` and falling off the body recurse; `raise` gives None.  Statements are translated with the
rest of the block duplicated into both arms of every `if`.  Anything outside the vocabulary raises Untranslatable.   usage: fmt2v.py REPO"""
import ast, sys, os
sys.path.insert(0, os.path.dirname(os.path.abspath(__file__)))
from gap2v import Untranslatable, U, strlit, ch, one_char, guarded, find_fn

MARK = {'empty_line': 'is_empty_item', 'linebreak': 'is_line_item', 'comma': 'is_comma_item'}
def is_item_types(e):
    names = [e] if isinstance(e, ast.Name) else (list(e.elts) if isinstance(e, ast.Tuple) else None)
    return names is not None and all(isinstance(n, ast.Name) and n.id in ('Comment', 'MultilineComment', 'Assertion') for n in names) and any(n.id == 'Comment' for n in names)

class Loop:
    def __init__(self, seq, idx, item): self.seq, self.idx, self.item = seq, idx, item
    def ex(self, e, env):
        """(text, type) with types str | bool | nat | item | optitem"""
        if isinstance(e, ast.Name):
            if e.id in env: return env[e.id]
            U('unknown name', e)
        if isinstance(e, ast.Constant):
            if isinstance(e.value, bool): return ('true' if e.value else 'false'), 'bool'
            if isinstance(e.value, str): return strlit(e.value), 'str'
            U('constant', e)
        if isinstance(e, ast.IfExp):
            # trivia_list[index + 1] if index + 1 < len(trivia_list) else None
            if ast.unparse(e) == '%s[%s + 1] if %s + 1 < len(%s) else None' % (self.seq, self.idx, self.idx, self.seq): return '(hd_error rest)', 'optitem'
            a, ta = self.ex(e.body, env); b, tb = self.ex(e.orelse, env)
            if ta != tb: U('conditional arms', e)
            return '(if %s then %s else %s)' % (self.cond(e.test, env), a, b), ta
        if isinstance(e, ast.BinOp) and isinstance(e.op, ast.Mult) and one_char(e.left):
            n, tn = self.ex(e.right, env)
            if tn != 'nat': U('repetition count', e)
            return '(py_times %s %s)' % (one_char(e.left), n), 'str'
        if isinstance(e, ast.Call):
            f = e.func
            if isinstance(f, ast.Name) and f.id == 'replace' and len(e.args) == 1 and len(e.keywords) == 1 and e.keywords[0].arg == 'inline' and isinstance(e.keywords[0].value, ast.Constant) and e.keywords[0].value.value is False:
                a, ta = self.ex(e.args[0], env)
                if ta != 'item': U('replace on a non-item', e)
                return '(item_not_inline %s)' % a, 'item'
            if isinstance(f, ast.Attribute) and f.attr == 'rebuild' and not e.args and len(e.keywords) == 1 and e.keywords[0].arg == 'indent':
                a, ta = self.ex(f.value, env); n, tn = self.ex(e.keywords[0].value, env)
                if ta != 'item' or tn != 'nat': U('rebuild call', e)
                return '(item_rebuild %s %s)' % (a, n), 'str'
            if isinstance(f, ast.Name) and f.id == 'getattr' and len(e.args) == 3 and isinstance(e.args[1], ast.Constant) and e.args[1].value == 'inline' and isinstance(e.args[2], ast.Constant) and e.args[2].value is False:
                a, ta = self.ex(e.args[0], env)
                if ta != 'item': U('getattr on a non-item', e)
                return '(item_inline %s)' % a, 'bool'
            if isinstance(f, ast.Name) and f.id == 'isinstance' and len(e.args) == 2 and is_item_types(e.args[1]):
                a, ta = self.ex(e.args[0], env)
                if ta == 'item': return '(is_cmt_item %s)' % a, 'bool'
                if ta == 'optitem': return '(opt_is is_cmt_item %s)' % a, 'bool'
            U('call', e)
        if isinstance(e, ast.Attribute) and e.attr == 'inline':
            a, ta = self.ex(e.value, env)
            if ta == 'item': return '(item_inline %s)' % a, 'bool'
            if ta == 'optitem': return '(opt_is item_inline %s)' % a, 'bool'       # only reached behind isinstance(next_item, Comment) and …
            U('inline of %s' % ta, e)
        if isinstance(e, ast.Compare) and len(e.ops) == 1 and isinstance(e.ops[0], ast.Is):
            a, ta = self.ex(e.left, env); r = e.comparators[0]
            if isinstance(r, ast.Name) and r.id in MARK:
                if ta == 'item': return '(%s %s)' % (MARK[r.id], a), 'bool'
                if ta == 'optitem': return '(opt_is %s %s)' % (MARK[r.id], a), 'bool'
            if isinstance(r, ast.Constant) and r.value is None and ta == 'optitem': return '(opt_none %s)' % a, 'bool'
            U('identity test', e)
        if isinstance(e, ast.BoolOp):
            return '(' + (' && ' if isinstance(e.op, ast.And) else ' || ').join(self.cond(v, env) for v in e.values) + ')', 'bool'
        if isinstance(e, ast.UnaryOp) and isinstance(e.op, ast.Not): return '(negb %s)' % self.cond(e.operand, env), 'bool'
        U('expression', e)
    def cond(self, e, env):
        t, ty = self.ex(e, env)
        if ty == 'bool': return t
        if ty == 'nat': return '(py_truthy %s)' % t
        if ty == 'parts': return 'parts_ne'
        if ty == 'str': return '(negb (match %s with [] => true | _ => false end))' % t
        U('truthiness of %s' % ty, e)
    def block(self, stmts, env, fall):
        if not stmts: return fall(env)
        s, rest = stmts[0], stmts[1:]
        if isinstance(s, ast.Continue): return fall(env)
        if isinstance(s, ast.Raise): return 'None'
        if isinstance(s, ast.Expr) and isinstance(s.value, ast.Call) and ast.unparse(s.value.func) == 'parts.append' and len(s.value.args) == 1:
            t, ty = self.ex(s.value.args[0], env)
            if ty != 'str': U('append of %s' % ty, s)
            return 'let parts := parts ++ %s in let parts_ne := true in\n%s' % (t, self.block(rest, env, fall))
        if isinstance(s, ast.Assign) and len(s.targets) == 1 and isinstance(s.targets[0], ast.Name):
            x = s.targets[0].id; t, ty = self.ex(s.value, env)
            if x == 'parts': U('assignment to parts', s)
            env2 = dict(env); env2[x] = (x, ty)
            return 'let %s := %s in\n%s' % (x, t, self.block(rest, env2, fall))
        if isinstance(s, ast.If):
            return '(if %s\n then %s\n else %s)' % (self.cond(s.test, env), self.block(list(s.body) + rest, env, fall), self.block(list(s.orelse) + rest, env, fall))
        U('statement', s)

def gen_format_trivia(tree):
    f = find_fn(tree, 'format_trivia')
    if [a.arg for a in f.args.args] != ['trivia_list', 'indent']: U('format_trivia signature')
    body = [s for s in f.body if not (isinstance(s, ast.Expr) and isinstance(s.value, ast.Constant)) and not isinstance(s, ast.ImportFrom)]
    # expected frame: if not trivia_list: return "" ; parts = [] ; ends_with_newline = True ; indent_str = … ; for … ; return "".join(parts)
    if not (len(body) == 6 and ast.unparse(body[0]) == "if not trivia_list:\n    return ''" and isinstance(body[1], ast.AnnAssign) and ast.unparse(body[1].target) == 'parts' and ast.unparse(body[1].value) == '[]'
            and ast.unparse(body[2]) == 'ends_with_newline = True' and isinstance(body[3], ast.Assign) and ast.unparse(body[3].targets[0]) == 'indent_str'
            and isinstance(body[4], ast.For) and ast.unparse(body[4].target) == '(index, item)' and ast.unparse(body[4].iter) == 'enumerate(trivia_list)' and not body[4].orelse
            and ast.unparse(body[5]) == "return ''.join(parts)"): U('format_trivia frame')
    L = Loop('trivia_list', 'index', 'item')
    env0 = {'indent': ('indent', 'nat')}
    indent_str, ty = L.ex(body[3].value, env0)
    if ty != 'str': U('indent_str')
    env = {'indent': ('indent', 'nat'), 'indent_str': ('indent_str', 'str'), 'item': ('item', 'item'), 'parts': ('parts', 'parts'), 'ends_with_newline': ('ends_with_newline', 'bool')}
    rec = lambda e2: 'format_trivia_loop rest indent indent_str parts parts_ne %s' % e2['ends_with_newline'][0]
    loop = L.block(list(body[4].body), env, rec)
    return ('Fixpoint format_trivia_loop (trivia_list : list titem) (indent : nat) (indent_str parts : str) (parts_ne ends_with_newline : bool) {struct trivia_list} : option str :=\n'
            '  match trivia_list with\n  | [] => Some parts\n  | item :: rest =>\n%s\n  end.\n'
            'Definition format_trivia_gen (trivia_list : list titem) (indent : nat) : option str :=\n'
            '  match trivia_list with [] => Some [] | _ => format_trivia_loop trivia_list indent %s [] false true end.\n' % (loop, indent_str))

def gen_trim(tree):
    f = find_fn(tree, 'trim_trailing_layout_newline')
    body = [s for s in f.body if not (isinstance(s, ast.Expr) and isinstance(s.value, ast.Constant))]
    if [a.arg for a in f.args.args] != ['trivia_list', 'rendered'] or len(body) != 2 or not isinstance(body[0], ast.If) or body[0].orelse or ast.unparse(body[1]) != 'return rendered' \
       or ast.unparse(body[0].body[0]) != 'return rendered[:-1]': U('trim_trailing_layout_newline frame')
    t = body[0].test
    if not (isinstance(t, ast.BoolOp) and isinstance(t.op, ast.And) and [ast.unparse(v) for v in t.values] == ['trivia_list', 'trivia_list[-1] not in (linebreak, empty_line)', "rendered.endswith('\\n')"]): U('trim test')
    return ('Definition trim_trailing_layout_newline_gen (trivia_list : list titem) (rendered : str) : str :=\n'
            '  if negb (match trivia_list with [] => true | _ => false end) && negb (existsb (fun p => opt_is p (hd_error (rev trivia_list))) [is_line_item; is_empty_item]) && py_endswith1 (c 10) rendered\n'
            '  then removelast rendered else rendered.\n')

def main(repo):
    tree = ast.parse(open(repo + '/nix_manipulator/expressions/trivia.py').read())
    out = ['From Coq Require Import List Ascii Bool Arith.\nImport ListNotations.\nFrom F0 Require Import F0s GapLib FmtLib.\n']
    out.append('(* GENERATED from expressions/trivia.py:format_trivia *)\n' + guarded('format_trivia', lambda: gen_format_trivia(tree)))
    out.append('(* GENERATED from expressions/trivia.py:trim_trailing_layout_newline *)\n' + guarded('trim_trailing_layout_newline', lambda: gen_trim(tree)))
    return '\n'.join(out)

if __name__ == '__main__':
    print(main(sys.argv[1]))

(* Design spike for C20: the deterministic cost counter (number of rebuild invocations), the
   exponential family, and "not bounded by any polynomial" as a theorem.
   The multiplicities are those measured on the pinned tree by cost_probe.py (wrapping every
   class's rebuild from outside): a lambda (identifier or formals head) and a `with` whose body is
   multi-line render their body twice (preview + final) and their head once. *)
From Coq Require Import List Arith Lia.
Import ListNotations.

Inductive e := Leaf | Lam (body : e) | Wrap (body : e).      (* Wrap: list / parenthesis: child rendered once *)
Fixpoint size (x : e) : nat := match x with Leaf => 1 | Lam b | Wrap b => S (size b) end.
Fixpoint calls (x : e) : nat :=
  match x with
  | Leaf => 1
  | Wrap b => 1 + calls b
  | Lam b => 1 (* the lambda *) + 1 (* its parameter *) + 2 * calls b
  end.
Fixpoint nest (w : e -> e) (n : nat) : e := match n with O => Leaf | S k => w (nest w k) end.

(* the numbers printed by cost_probe.py for  a: a: … x  and  [ [ … x ] ]  (depth 1..8) *)
Example table_lam : map (fun n => calls (nest Lam n)) [1;2;3;4;5;6;7;8] = [4;10;22;46;94;190;382;766].
Proof. reflexivity. Qed.
Example table_wrap : map (fun n => calls (nest Wrap n)) [1;2;3;4;5;6;7;8] = [2;3;4;5;6;7;8;9].
Proof. reflexivity. Qed.

Lemma size_nest w n : (forall b, size (w b) = S (size b)) -> size (nest w n) = S n.
Proof. intros H. induction n as [|n IH]; [reflexivity|]. cbn [nest]. now rewrite H, IH. Qed.
Lemma calls_wrap n : calls (nest Wrap n) = S n.
Proof. induction n as [|n IH]; [reflexivity|]. cbn [nest calls]. lia. Qed.
Lemma calls_lam n : calls (nest Lam n) + 2 = 3 * 2 ^ n.
Proof. induction n as [|n IH]; [reflexivity|]. cbn [nest calls]. rewrite Nat.pow_succ_r'. lia. Qed.
Lemma calls_lam_ge n : 2 ^ n <= calls (nest Lam n).
Proof. pose proof (calls_lam n). assert (1 <= 2 ^ n) by (apply Nat.neq_0_lt_0, Nat.pow_nonzero; lia). lia. Qed.

(* 2^n is not bounded by c * (n+1)^k *)
Lemma exp_beats_poly : forall k c, exists n, c * (S n) ^ k < 2 ^ n.
Proof.
  induction k as [|k IH]; intros c.
  - exists c. rewrite Nat.pow_0_r, Nat.mul_1_r. apply Nat.pow_gt_lin_r. lia.
  - destruct (IH (c * 2 ^ S k)) as [n Hn]. exists (2 * n).
    assert (Hlin' : S n <= 2 ^ n) by (pose proof (Nat.pow_gt_lin_r 2 n ltac:(lia)); lia).
    replace (2 ^ (2 * n)) with (2 ^ n * 2 ^ n) by (rewrite <- Nat.pow_add_r; f_equal; lia).
    assert (Hstep : c * S (2 * n) ^ S k <= c * (2 ^ S k * S n ^ S k)).
    { apply Nat.mul_le_mono_l. rewrite <- Nat.pow_mul_l. apply Nat.pow_le_mono_l. lia. }
    assert (Hmid : c * (2 ^ S k * S n ^ S k) = (c * 2 ^ S k * S n ^ k) * S n).
    { rewrite (Nat.pow_succ_r' (S n) k). ring. }
    assert (Hbig : (c * 2 ^ S k * S n ^ k) * S n < 2 ^ n * 2 ^ n).
    { apply Nat.le_lt_trans with ((c * 2 ^ S k * S n ^ k) * 2 ^ n).
      - apply Nat.mul_le_mono_l. exact Hlin'.
      - apply Nat.mul_lt_mono_pos_r; [|exact Hn]. apply Nat.neq_0_lt_0, Nat.pow_nonzero. lia. }
    lia.
Qed.

(* C20's polynomial bound is false of the model, for every degree and constant *)
Theorem C20_poly_refuted : forall k c, exists x, c * size x ^ k < calls x.
Proof.
  intros k c. destruct (exp_beats_poly k c) as [n Hn]. exists (nest Lam n).
  rewrite (size_nest Lam n (fun b => eq_refl)). pose proof (calls_lam_ge n). lia.
Qed.
(* while the constructs that render each child once are linear *)
Theorem C20_linear_wrap : forall n, calls (nest Wrap n) = size (nest Wrap n).
Proof. intros n. rewrite calls_wrap, (size_nest Wrap n (fun b => eq_refl)). reflexivity. Qed.
Print Assumptions C20_poly_refuted.

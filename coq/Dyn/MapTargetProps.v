(* Proofs over the model of the mapping API's wrapper walk (Dyn/MapTargetGen.v: NixSourceCode._resolve_target_set, frame matched literally by
   tools/maptarget2v.py, tied by the table-world correspondence in mode `mapping`), for every world of observations:
     map_target_is_a_set        whatever doc[key] / doc[key] = v / del doc[key] operate on is an attribute set
     map_through_*              assert / let / parenthesis wrappers hand on to their body
     map_wrappers_transparent   a stack of such wrappers of any height around a set yields that set
     targets_agree_under_lambda the same under a lambda head — the package idiom `{ pkgs }: … { … }`: both walks return the set
     targets_agree_on_wrappers  … and it is the set the CLI's traversal (Dyn/TargetGen.v, regenerated) finds: text edits and mapping edits address
                                the same set through such stacks (C14: "text and mapping agree")
   Since the repair of F-64 the wrappers of the mapping's walk hand on the chain they were given, as the CLI's do. *)
From Coq Require Import List Bool Arith Lia.
Import ListNotations.
From Dyn Require Import TargetGen TargetProps MapTargetGen.
Set Default Timeout 120.

Definition map_target (w : world) :=
  resolve_from_expr (wN w) (w_eqb w) (wSC w) (w_truthy w) (w_store w) (w_cls w) (w_body w) (w_value w) (w_output w) (w_argument w)
    (w_strip w) (w_scopes w) (w_set_ctx w) (w_attach w) (w_ident_value w).
Definition map_target_top (w : world) :=
  map_resolve_target_set (wN w) (w_eqb w) (wSC w) (w_truthy w) (w_store w) (w_cls w) (w_body w) (w_value w) (w_output w) (w_argument w)
    (w_strip w) (w_scopes w) (w_set_ctx w) (w_attach w) (w_ident_value w).

Section W.
Variable w : world.
Local Notation N := (wN w).
Local Notation store := (w_store w).
Local Notation is_set := (fun n : N => w_cls w n = CSet).
Local Notation goodw := (good N store).

Lemma good_call_argument k sc arg :
  goodw k (fun o : option N => forall n, o = Some n -> is_set n)
    (call_argument N (wSC w) (w_truthy w) store (w_cls w) (w_strip w) (w_set_ctx w) (w_ident_value w) sc arg).
Proof.
  unfold call_argument. destruct (option_map (w_strip w) arg) as [a|]; [|apply good_ret; intros n Hn; discriminate].
  eapply good_bind with (Q1 := fun _ => True).
  - destruct (is_cls N (w_cls w) a CIdent && w_truthy w sc); [|apply good_ret; exact I].
    eapply good_bind; [apply good_set_ctx|]. intros _ _. apply good_get_value. apply (w_ident_no_fuel w).
  - intros a1 _. destruct (is_cls N (w_cls w) a1 CSet) eqn:Hs; [|apply good_ret; intros n Hn; discriminate].
    apply good_ret. intros n Hn. inversion Hn; subst. apply (is_cls_true N (w_cls w)), Hs.
Qed.

Theorem map_target_spec fuel : forall t sc, goodw fuel is_set (map_target w fuel t sc).
Proof.
  induction fuel as [|f IH]; intros t sc.
  - intros s r s' E. cbn in E. inversion E; subst. split; [apply ext_refl|]. split; [intros _; lia|discriminate].
  - intros s r s' E. unfold map_target in E. cbn [resolve_from_expr] in E.
    unfold TargetGen.bind at 1, is_visited at 1 in E. cbn beta iota in E.
    destruct (existsb (w_eqb w t) (fst s)) eqn:Hseen.
    { inversion E; subst. split; [apply ext_refl|]. split; discriminate. }
    unfold TargetGen.bind at 1, visit at 1 in E. cbn beta iota in E.
    assert (X0 : ext N store s (t :: fst s, snd s)).
    { exists [t]. split; [reflexivity|]. intros D. cbn. constructor; [|exact D]. intros Hin.
      assert (existsb (w_eqb w t) (fst s) = true) by (apply existsb_exists; exists t; split; [exact Hin|apply (w_eqb_spec w); reflexivity]). congruence. }
    cut (ext N store (t :: fst s, snd s) s' /\ (r = RFuel -> List.length (fst (t :: fst s, snd s)) + f <= List.length (fst s')) /\ (forall a, r = RVal a -> is_set a)).
    { intros [X [F V]]. split; [eapply ext_trans; eauto|]. split; [|exact V]. intros Hr. specialize (F Hr). cbn in F. lia. }
    revert E. generalize (t :: fst s, snd s). intros s1 E. revert s1 r s' E.
    match goal with |- forall s1 r s', ?m s1 = (r, s') -> _ => change (goodw f is_set m) end.
    fold (map_target w f) in *.
    eapply good_bind with (Q1 := fun _ => True).
    { destruct sc; [apply good_ret; exact I|]. apply good_get_scopes. apply (w_scopes_no_fuel w). }
    intros sc1 _.
    destruct (w_cls w t) eqn:Hc.
    + destruct (w_body w t); [apply IH|apply good_raise].
    + destruct (w_value w t); [apply IH|apply good_raise].
    + eapply good_bind with (Q1 := fun o : option N => forall n, o = Some n -> is_set n).
      * destruct (w_output w t) as [o|]; [|apply good_ret; intros n Hn; discriminate].
        destruct (is_cls N (w_cls w) o CCall); [apply good_call_argument|apply good_ret; intros n Hn; discriminate].
      * intros [x|] Hx; [apply good_ret; apply Hx; reflexivity|].
        destruct (w_output w t) as [o|]; [|apply good_raise]. apply good_try; [apply IH|apply good_raise].
    + eapply good_bind; [apply good_get_scopes; apply (w_scopes_no_fuel w)|]. intros v _.
      destruct (w_body w t) as [b|]; [|apply good_raise].
      eapply good_bind; [apply good_attach|]. intros _ _. apply IH.
    + eapply good_bind with (Q1 := fun _ => True).
      { destruct (w_truthy w sc1); [apply good_ret; exact I|apply good_get_scopes; apply (w_scopes_no_fuel w)]. }
      intros isc _. eapply good_bind with (Q1 := fun _ => True).
      { destruct (w_truthy w isc); [apply good_set_ctx|apply good_ret; exact I]. }
      intros _ _. eapply good_bind; [apply good_get_value; apply (w_ident_no_fuel w)|]. intros v _. apply IH.
    + destruct (w_value w t); [apply IH|apply good_raise].
    + apply good_ret. exact Hc.
    + eapply good_bind; [apply good_call_argument|]. intros [x|] Hx; [apply good_ret; apply Hx; reflexivity|apply good_raise].
    + apply good_raise.
Qed.

Theorem map_target_is_a_set fuel es s r s' : map_target_top w fuel es s = (RVal r, s') -> w_cls w r = CSet.
Proof.
  unfold map_target_top, map_resolve_target_set. destruct es as [|e [|e2 es]]; try discriminate.
  intros E. destruct (map_target_spec fuel e None s _ s' E) as [_ [_ V]]. apply V. reflexivity.
Qed.

(* ---- wrappers ---- *)
Local Notation scopes_okw := (scopes_ok N (wSC w) store (w_scopes w)).
Definition chain_after (t : N) (sc : option (wSC w)) (st : store) : option (wSC w) :=
  match sc with Some c => Some c | None => match w_scopes w t st with RVal c => Some c | _ => None end end.

Ltac enter_map sc Hv Hs :=
  unfold map_target; cbn [resolve_from_expr]; unfold TargetGen.bind at 1, is_visited at 1; cbn [fst snd]; rewrite Hv;
  unfold TargetGen.bind at 1, visit at 1; cbn [fst snd];
  unfold TargetGen.bind at 1; unfold scopes_ok in Hs; unfold chain_after;
  destruct sc; [|destruct Hs as [c_ Hs]]; unfold get_scopes, TargetGen.ret; cbn [fst snd]; [|rewrite Hs].

Theorem map_through_plain f t b sc v st :
  plain_wrapper N (w_cls w) (w_body w) (w_value w) t b -> existsb (w_eqb w t) v = false -> scopes_okw t sc st ->
  map_target w (S f) t sc (v, st) = map_target w f b sc (t :: v, st).
Proof.
  intros [[Hc Hb]|[[Hc Hb]|[Hc Hb]]] Hv Hs; enter_map sc Hv Hs; rewrite Hc, Hb; reflexivity.
Qed.
Theorem map_set_is_target f t sc v st :
  w_cls w t = CSet -> existsb (w_eqb w t) v = false -> scopes_okw t sc st -> map_target w (S f) t sc (v, st) = (RVal t, (t :: v, st)).
Proof. intros Hc Hv Hs. enter_map sc Hv Hs; rewrite Hc; reflexivity. Qed.

Theorem map_wrappers_transparent ws : forall r sc v st,
  linked N (w_cls w) (w_body w) (w_value w) ws r -> w_cls w r = CSet -> NoDup (ws ++ [r]) -> (forall x, In x (ws ++ [r]) -> ~ In x v) ->
  (forall x, In x (ws ++ [r]) -> scopes_okw x sc st) ->
  map_target w (S (List.length ws)) (hd r ws) sc (v, st) = (RVal r, (r :: rev ws ++ v, st)).
Proof.
  induction ws as [|x rest IH]; intros r sc v st HL Hr HD Hfresh Hok.
  - cbn [hd List.length rev app]. apply map_set_is_target; [exact Hr| |apply Hok; left; reflexivity].
    apply (existsb_false_notin N (w_eqb w) (w_eqb_spec w)), Hfresh. left; reflexivity.
  - cbn [hd List.length]. destruct HL as [Hw HL].
    assert (Hv : existsb (w_eqb w x) v = false) by (apply (existsb_false_notin N (w_eqb w) (w_eqb_spec w)), Hfresh; left; reflexivity).
    assert (Hk : scopes_okw x sc st) by (apply Hok; left; reflexivity).
    rewrite (map_through_plain (S (List.length rest)) x (hd r rest) sc v st Hw Hv Hk).
    inversion HD as [|? ? Hnotin HD']; subst.
    rewrite (IH r sc (x :: v) st HL Hr HD').
    + cbn [rev]. rewrite <- app_assoc. reflexivity.
    + intros y Hy [Hyx|Hyv]; [subst; contradiction|]. apply (Hfresh y); [right; exact Hy|exact Hyv].
    + intros y Hy. apply Hok. right. exact Hy.
Qed.

(* text edits and mapping edits address the same set through any stack of assert / let / parenthesis wrappers *)
Theorem targets_agree_on_wrappers ws r sc v st :
  linked N (w_cls w) (w_body w) (w_value w) ws r -> w_cls w r = CSet -> NoDup (ws ++ [r]) -> (forall x, In x (ws ++ [r]) -> ~ In x v) ->
  (forall x, In x (ws ++ [r]) -> scopes_okw x sc st) ->
  map_target w (S (List.length ws)) (hd r ws) sc (v, st) = target w (S (List.length ws)) (hd r ws) sc (v, st).
Proof.
  intros HL Hr HD Hf Hok. rewrite (map_wrappers_transparent ws r sc v st HL Hr HD Hf Hok).
  symmetry. apply target_wrappers_transparent; assumption.
Qed.

(* ---- under a lambda head (the package idiom `{ pkgs }: … { … }`) ---- *)
Theorem map_through_lambda f t o sc v st :
  w_cls w t = CFunDef -> w_output w t = Some o -> w_cls w o <> CCall -> existsb (w_eqb w t) v = false -> scopes_okw t sc st ->
  map_target w (S f) t sc (v, st) = try_valueerror N store (map_target w f o sc) (raiseV N store) (t :: v, st).
Proof.
  intros Hc Ho Hn Hv Hs. enter_map sc Hv Hs; rewrite Hc, Ho; unfold is_cls; destruct (w_cls w o); try congruence; reflexivity.
Qed.
Lemma plain_not_call_not_set x c : plain_wrapper N (w_cls w) (w_body w) (w_value w) x c -> w_cls w x <> CCall /\ w_cls w x <> CSet.
Proof. intros [[H _]|[[H _]|[H _]]]; rewrite H; split; discriminate. Qed.
Theorem targets_agree_under_lambda t ws r sc v st :
  w_cls w t = CFunDef -> w_output w t = Some (hd r ws) ->
  linked N (w_cls w) (w_body w) (w_value w) ws r -> w_cls w r = CSet -> NoDup (t :: ws ++ [r]) -> (forall x, In x (t :: ws ++ [r]) -> ~ In x v) ->
  (forall x, In x (t :: ws ++ [r]) -> scopes_okw x sc st) ->
  fst (map_target w (S (S (List.length ws))) t sc (v, st)) = RVal r /\ fst (target w (S (S (List.length ws))) t sc (v, st)) = RVal r.
Proof.
  intros Hc Ho HL Hr HD Hfresh Hok.
  assert (Hv : existsb (w_eqb w t) v = false) by (apply (existsb_false_notin N (w_eqb w) (w_eqb_spec w)), Hfresh; left; reflexivity).
  assert (Hk : scopes_okw t sc st) by (apply Hok; left; reflexivity).
  inversion HD as [|? ? Hnotin HD']; subst.
  assert (Hfresh' : forall x, In x (ws ++ [r]) -> ~ In x (t :: v)).
  { intros x Hx [Hxt|Hxv]; [subst; contradiction|]. apply (Hfresh x); [right; exact Hx|exact Hxv]. }
  assert (Hhead : w_cls w (hd r ws) <> CCall).
  { destruct ws as [|x rest]; cbn [hd]; [rewrite Hr; discriminate|]. destruct HL as [Hw _]. apply (plain_not_call_not_set _ _ Hw). }
  split.
  - rewrite (map_through_lambda _ t (hd r ws) sc v st Hc Ho Hhead Hv Hk). unfold try_valueerror.
    rewrite (map_wrappers_transparent ws r sc (t :: v) st HL Hr HD' Hfresh'); [reflexivity|]. intros y Hy. apply Hok. right. exact Hy.
  - destruct ws as [|x rest].
    + cbn [hd List.length] in *. unfold target.
      rewrite (through_lambda_set N (w_eqb w) (wSC w) (w_truthy w) store (w_cls w) (w_body w) (w_value w) (w_output w) (w_argument w) (w_strip w)
                 (w_supports w) (w_scopes w) (w_set_ctx w) (w_attach w) (w_ident_value w) 1 t r sc v st Hc Ho Hr Hv Hk). reflexivity.
    + cbn [hd] in *. destruct (plain_not_call_not_set x (hd r rest) (proj1 HL)) as [Hn1 Hn2]. unfold target.
      rewrite (through_lambda N (w_eqb w) (wSC w) (w_truthy w) store (w_cls w) (w_body w) (w_value w) (w_output w) (w_argument w) (w_strip w)
                 (w_supports w) (w_scopes w) (w_set_ctx w) (w_attach w) (w_ident_value w) (S (List.length (x :: rest))) t x sc v st Hc Ho Hn1 Hn2 Hv Hk).
      assert (Hw : target w (S (List.length (x :: rest))) (hd r (x :: rest)) sc (t :: v, st) = (RVal r, (r :: rev (x :: rest) ++ t :: v, st))).
      { apply target_wrappers_transparent; try assumption. intros y Hy. apply Hok. right. exact Hy. }
      cbn [hd] in Hw. unfold target in Hw. unfold try_valueerror. rewrite Hw. reflexivity.
Qed.

(* ---- stacks that also hold `with` wrappers: the chain handed down differs between the two walks (it does not matter to wrappers), the outcome,
        the visited list and the context store do not ---- *)
Definition wrapper2 (t child : N) : Prop :=
  plain_wrapper N (w_cls w) (w_body w) (w_value w) t child \/ (w_cls w t = CWith /\ w_body w t = Some child).
Fixpoint linked2 (ws : list N) (r : N) : Prop :=
  match ws with [] => True | x :: rest => wrapper2 x (hd r rest) /\ linked2 rest r end.
Fixpoint stack_store (ws : list N) (r : N) (st : store) : store :=
  match ws with
  | [] => st
  | x :: rest => stack_store rest r (match w_cls w x with CWith => w_attach w (hd r rest) x st | _ => st end)
  end.
Definition lookups_total (l : list N) : Prop := forall x, In x l -> forall st', exists c, w_scopes w x st' = RVal c.
Local Notation INST L := (L N (w_eqb w) (wSC w) (w_truthy w) store (w_cls w) (w_body w) (w_value w) (w_output w) (w_argument w) (w_strip w)
                            (w_supports w) (w_scopes w) (w_set_ctx w) (w_attach w) (w_ident_value w)).
Lemma total_ok l x sc st : lookups_total l -> In x l -> scopes_okw x sc st.
Proof. intros H Hx. unfold scopes_ok. destruct sc; [exact I|]. apply (H x Hx st). Qed.

Theorem map_through_with f t b sc v st c :
  w_cls w t = CWith -> w_body w t = Some b -> existsb (w_eqb w t) v = false -> w_scopes w t st = RVal c ->
  exists sc', map_target w (S f) t sc (v, st) = map_target w f b (Some sc') (t :: v, w_attach w b t st).
Proof.
  intros Hc Hb Hv Hs. assert (Hs' : scopes_okw t sc st) by (destruct sc; [exact I|exists c; exact Hs]).
  enter_map sc Hv Hs'; rewrite Hc; unfold TargetGen.bind, get_scopes, do_attach; cbn [fst snd]; rewrite ?Hs; rewrite Hb; eexists; reflexivity.
Qed.

Theorem cli_stack2 ws : forall r sc v st,
  linked2 ws r -> w_cls w r = CSet -> NoDup (ws ++ [r]) -> (forall x, In x (ws ++ [r]) -> ~ In x v) -> lookups_total (ws ++ [r]) ->
  target w (S (List.length ws)) (hd r ws) sc (v, st) = (RVal r, (r :: rev ws ++ v, stack_store ws r st)).
Proof.
  induction ws as [|x rest IH]; intros r sc v st HL Hr HD Hfresh Htot.
  - cbn [hd List.length rev app stack_store]. unfold target. apply (INST set_is_target); [exact Hr| |apply (total_ok [r]); [exact Htot|left; reflexivity]].
    apply (existsb_false_notin N (w_eqb w) (w_eqb_spec w)), Hfresh. left; reflexivity.
  - cbn [hd List.length]. destruct HL as [Hw HL].
    assert (Hv : existsb (w_eqb w x) v = false) by (apply (existsb_false_notin N (w_eqb w) (w_eqb_spec w)), Hfresh; left; reflexivity).
    assert (Hk : scopes_okw x sc st) by (apply (total_ok (x :: rest ++ [r])); [exact Htot|left; reflexivity]).
    inversion HD as [|? ? Hnotin HD']; subst.
    assert (Hfresh' : forall y, In y (rest ++ [r]) -> ~ In y (x :: v)).
    { intros y Hy [Hyx|Hyv]; [subst; contradiction|]. apply (Hfresh y); [right; exact Hy|exact Hyv]. }
    assert (Htot' : lookups_total (rest ++ [r])) by (intros y Hy; apply Htot; right; exact Hy).
    destruct Hw as [Hp|[Hc Hb]].
    + assert (Hstep : target w (S (S (List.length rest))) x sc (v, st) = target w (S (List.length rest)) (hd r rest) sc (x :: v, st)).
      { unfold target. destruct Hp as [[Hc Hb]|[[Hc Hb]|[Hc Hb]]]; [apply (INST through_assert)|apply (INST through_let)|apply (INST through_paren)]; assumption. }
      rewrite Hstep, (IH r sc (x :: v) st HL Hr HD' Hfresh' Htot'). cbn [rev stack_store]. rewrite <- app_assoc.
      replace (match w_cls w x with CWith => w_attach w (hd r rest) x st | _ => st end) with st; [reflexivity|].
      destruct Hp as [[Hc _]|[[Hc _]|[Hc _]]]; rewrite Hc; reflexivity.
    + destruct (Htot x (or_introl eq_refl) st) as [c Hsc]. unfold target.
      rewrite (INST through_with (S (List.length rest)) x (hd r rest) sc v st c Hc Hb Hv Hsc). fold (target w).
      rewrite (IH r _ (x :: v) (w_attach w (hd r rest) x st) HL Hr HD' Hfresh' Htot'). cbn [rev stack_store]. rewrite <- app_assoc, Hc. reflexivity.
Qed.

Theorem map_stack2 ws : forall r sc v st,
  linked2 ws r -> w_cls w r = CSet -> NoDup (ws ++ [r]) -> (forall x, In x (ws ++ [r]) -> ~ In x v) -> lookups_total (ws ++ [r]) ->
  map_target w (S (List.length ws)) (hd r ws) sc (v, st) = (RVal r, (r :: rev ws ++ v, stack_store ws r st)).
Proof.
  induction ws as [|x rest IH]; intros r sc v st HL Hr HD Hfresh Htot.
  - cbn [hd List.length rev app stack_store]. apply map_set_is_target; [exact Hr| |apply (total_ok [r]); [exact Htot|left; reflexivity]].
    apply (existsb_false_notin N (w_eqb w) (w_eqb_spec w)), Hfresh. left; reflexivity.
  - cbn [hd List.length]. destruct HL as [Hw HL].
    assert (Hv : existsb (w_eqb w x) v = false) by (apply (existsb_false_notin N (w_eqb w) (w_eqb_spec w)), Hfresh; left; reflexivity).
    assert (Hk : scopes_okw x sc st) by (apply (total_ok (x :: rest ++ [r])); [exact Htot|left; reflexivity]).
    inversion HD as [|? ? Hnotin HD']; subst.
    assert (Hfresh' : forall y, In y (rest ++ [r]) -> ~ In y (x :: v)).
    { intros y Hy [Hyx|Hyv]; [subst; contradiction|]. apply (Hfresh y); [right; exact Hy|exact Hyv]. }
    assert (Htot' : lookups_total (rest ++ [r])) by (intros y Hy; apply Htot; right; exact Hy).
    destruct Hw as [Hp|[Hc Hb]].
    + rewrite (map_through_plain (S (List.length rest)) x (hd r rest) sc v st Hp Hv Hk).
      rewrite (IH r _ (x :: v) st HL Hr HD' Hfresh' Htot'). cbn [rev stack_store]. rewrite <- app_assoc.
      replace (match w_cls w x with CWith => w_attach w (hd r rest) x st | _ => st end) with st; [reflexivity|].
      destruct Hp as [[Hc _]|[[Hc _]|[Hc _]]]; rewrite Hc; reflexivity.
    + destruct (Htot x (or_introl eq_refl) st) as [c Hsc].
      destruct (map_through_with (S (List.length rest)) x (hd r rest) sc v st c Hc Hb Hv Hsc) as [sc' Hstep]. rewrite Hstep.
      rewrite (IH r _ (x :: v) (w_attach w (hd r rest) x st) HL Hr HD' Hfresh' Htot'). cbn [rev stack_store]. rewrite <- app_assoc, Hc. reflexivity.
Qed.

(* text edits and mapping edits address the same set, enter the same nodes and leave the same contexts behind, through any stack of
   assert / let / parenthesis / with wrappers *)
Theorem targets_agree_on_stacks ws r sc sc' v st :
  linked2 ws r -> w_cls w r = CSet -> NoDup (ws ++ [r]) -> (forall x, In x (ws ++ [r]) -> ~ In x v) -> lookups_total (ws ++ [r]) ->
  map_target w (S (List.length ws)) (hd r ws) sc (v, st) = target w (S (List.length ws)) (hd r ws) sc' (v, st).
Proof. intros HL Hr HD Hf Ht. rewrite (map_stack2 ws r sc v st HL Hr HD Hf Ht), (cli_stack2 ws r sc' v st HL Hr HD Hf Ht). reflexivity. Qed.

(* ---- stacks that also hold let-bound NAMES (`let cfg = { … }; in cfg`): with non-empty chains both walks give the name its context, read its
        value and go on there; the chains (and therefore the stores) differ, the set and the nodes entered do not ---- *)
Definition wrapper3 (t child : N) : Prop :=
  wrapper2 t child \/ (w_cls w t = CIdent /\ forall st', w_ident_value w t st' = RVal child).
Fixpoint linked3 (ws : list N) (r : N) : Prop :=
  match ws with [] => True | x :: rest => wrapper3 x (hd r rest) /\ linked3 rest r end.
Definition lookups_truthy (l : list N) : Prop := forall x, In x l -> forall st', exists c, w_scopes w x st' = RVal c /\ w_truthy w c = true.
Definition chain_ok (sc : option (wSC w)) : Prop := match sc with Some c => w_truthy w c = true | None => True end.

Lemma cli_through_ident f t child sc v st :
  w_cls w t = CIdent -> (forall st', w_ident_value w t st' = RVal child) -> existsb (w_eqb w t) v = false -> chain_ok sc ->
  (forall st', exists c, w_scopes w t st' = RVal c /\ w_truthy w c = true) ->
  exists c st1, w_truthy w c = true /\ target w (S f) t sc (v, st) = target w f child (Some c) (t :: v, st1).
Proof.
  intros Hc Hval Hv Hok Hlk. destruct (Hlk st) as [c0 [Hs0 Ht0]].
  unfold target. cbn [resolve_target_set_from_expr]. unfold TargetGen.bind at 1, is_visited at 1. cbn [fst snd]. rewrite Hv.
  unfold TargetGen.bind at 1, visit at 1. cbn [fst snd]. cbv zeta. unfold TargetGen.bind at 1.
  destruct sc as [c|].
  - cbn in Hok. exists c, (w_set_ctx w t c st). split; [exact Hok|].
    unfold TargetGen.ret. rewrite Hc. unfold resolve_identifier_target, TargetGen.bind, TargetGen.ret, do_set_ctx, get_value. cbn [fst snd]. rewrite Hok. cbn [fst snd]. rewrite Hval. reflexivity.
  - exists c0, (w_set_ctx w t c0 st). split; [exact Ht0|].
    unfold TargetGen.bind, get_scopes, TargetGen.ret. cbn [fst snd]. rewrite Hs0. rewrite Hc.
    unfold resolve_identifier_target, TargetGen.bind, TargetGen.ret, do_set_ctx, get_value. cbn [fst snd]. rewrite Ht0. cbn [fst snd]. rewrite Hval. reflexivity.
Qed.
Lemma map_through_ident f t child sc v st :
  w_cls w t = CIdent -> (forall st', w_ident_value w t st' = RVal child) -> existsb (w_eqb w t) v = false -> chain_ok sc ->
  (forall st', exists c, w_scopes w t st' = RVal c /\ w_truthy w c = true) ->
  exists c st1, w_truthy w c = true /\ map_target w (S f) t sc (v, st) = map_target w f child (Some c) (t :: v, st1).
Proof.
  intros Hc Hval Hv Hok Hlk. destruct (Hlk st) as [c0 [Hs0 Ht0]].
  unfold map_target. cbn [resolve_from_expr]. unfold TargetGen.bind at 1, is_visited at 1. cbn [fst snd]. rewrite Hv.
  unfold TargetGen.bind at 1, visit at 1. cbn [fst snd]. unfold TargetGen.bind at 1.
  destruct sc as [c|].
  - cbn in Hok. exists c, (w_set_ctx w t c st). split; [exact Hok|].
    unfold TargetGen.ret. rewrite Hc. unfold TargetGen.bind, TargetGen.ret, do_set_ctx, get_value. cbn [fst snd]. rewrite Hok. cbn [fst snd]. rewrite Hok. cbn [fst snd]. rewrite Hval. reflexivity.
  - exists c0, (w_set_ctx w t c0 st). split; [exact Ht0|].
    unfold get_scopes, TargetGen.ret. cbn [fst snd]. rewrite Hs0. rewrite Hc.
    unfold TargetGen.bind, TargetGen.ret, do_set_ctx, get_value. cbn [fst snd]. rewrite Ht0. cbn [fst snd]. rewrite Ht0. cbn [fst snd]. rewrite Hval. reflexivity.
Qed.

Lemma truthy_ok x sc st : (forall st', exists c, w_scopes w x st' = RVal c /\ w_truthy w c = true) -> scopes_okw x sc st.
Proof. intros H. unfold scopes_ok. destruct sc; [exact I|]. destruct (H st) as [c [Hc _]]. exists c. exact Hc. Qed.

Lemma cli_step f x child sc v st :
  wrapper3 x child -> existsb (w_eqb w x) v = false -> chain_ok sc -> (forall st', exists c, w_scopes w x st' = RVal c /\ w_truthy w c = true) ->
  exists sc' st1, chain_ok sc' /\ target w (S f) x sc (v, st) = target w f child sc' (x :: v, st1).
Proof.
  intros Hw Hv Hok Hlk. pose proof (truthy_ok x sc st Hlk) as Hk.
  destruct Hw as [[Hp|[Hc Hb]]|[Hc Hval]].
  - exists sc, st. split; [exact Hok|]. unfold target.
    destruct Hp as [[Hc Hb]|[[Hc Hb]|[Hc Hb]]]; [apply (INST through_assert)|apply (INST through_let)|apply (INST through_paren)]; assumption.
  - destruct (Hlk st) as [c [Hsc Ht]]. exists (Some c), (w_attach w child x st). split; [exact Ht|]. unfold target.
    rewrite (INST through_with f x child sc v st c Hc Hb Hv Hsc). unfold or_scopes. rewrite Ht. reflexivity.
  - destruct (cli_through_ident f x child sc v st Hc Hval Hv Hok Hlk) as [c [st1 [Ht E]]]. exists (Some c), st1. split; [exact Ht|exact E].
Qed.
Lemma map_step f x child sc v st :
  wrapper3 x child -> existsb (w_eqb w x) v = false -> chain_ok sc -> (forall st', exists c, w_scopes w x st' = RVal c /\ w_truthy w c = true) ->
  exists sc' st1, chain_ok sc' /\ map_target w (S f) x sc (v, st) = map_target w f child sc' (x :: v, st1).
Proof.
  intros Hw Hv Hok Hlk. pose proof (truthy_ok x sc st Hlk) as Hk. destruct (Hlk st) as [c [Hsc Ht]].
  destruct Hw as [[Hp|[Hc Hb]]|[Hc Hval]].
  - exists sc, st. split; [exact Hok|apply map_through_plain; assumption].
  - exists (Some c), (w_attach w child x st). split; [exact Ht|].
    enter_map sc Hv Hk; rewrite Hc; unfold TargetGen.bind, get_scopes, do_attach; cbn [fst snd]; rewrite ?Hsc; rewrite ?Ht; rewrite Hb; try reflexivity.
  - destruct (map_through_ident f x child sc v st Hc Hval Hv Hok Hlk) as [c1 [st1 [Ht1 E]]]. exists (Some c1), st1. split; [exact Ht1|exact E].
Qed.

Theorem cli_stack3 ws : forall r sc v st,
  linked3 ws r -> w_cls w r = CSet -> NoDup (ws ++ [r]) -> (forall x, In x (ws ++ [r]) -> ~ In x v) -> lookups_truthy (ws ++ [r]) -> chain_ok sc ->
  exists st', target w (S (List.length ws)) (hd r ws) sc (v, st) = (RVal r, (r :: rev ws ++ v, st')).
Proof.
  induction ws as [|x rest IH]; intros r sc v st HL Hr HD Hfresh Htot Hok.
  - exists st. cbn [hd List.length rev app]. unfold target. apply (INST set_is_target); [exact Hr| |apply truthy_ok; apply Htot; left; reflexivity].
    apply (existsb_false_notin N (w_eqb w) (w_eqb_spec w)), Hfresh. left; reflexivity.
  - cbn [hd List.length]. destruct HL as [Hw HL].
    assert (Hv : existsb (w_eqb w x) v = false) by (apply (existsb_false_notin N (w_eqb w) (w_eqb_spec w)), Hfresh; left; reflexivity).
    inversion HD as [|? ? Hnotin HD']; subst.
    destruct (cli_step (S (List.length rest)) x (hd r rest) sc v st Hw Hv Hok (Htot x (or_introl eq_refl))) as [sc' [st1 [Hok' E]]]. rewrite E.
    destruct (IH r sc' (x :: v) st1 HL Hr HD') as [st' E'].
    + intros y Hy [Hyx|Hyv]; [subst; contradiction|]. apply (Hfresh y); [right; exact Hy|exact Hyv].
    + intros y Hy. apply Htot. right. exact Hy.
    + exact Hok'.
    + exists st'. rewrite E'. cbn [rev]. rewrite <- app_assoc. reflexivity.
Qed.
Theorem map_stack3 ws : forall r sc v st,
  linked3 ws r -> w_cls w r = CSet -> NoDup (ws ++ [r]) -> (forall x, In x (ws ++ [r]) -> ~ In x v) -> lookups_truthy (ws ++ [r]) -> chain_ok sc ->
  exists st', map_target w (S (List.length ws)) (hd r ws) sc (v, st) = (RVal r, (r :: rev ws ++ v, st')).
Proof.
  induction ws as [|x rest IH]; intros r sc v st HL Hr HD Hfresh Htot Hok.
  - exists st. cbn [hd List.length rev app]. apply map_set_is_target; [exact Hr| |apply truthy_ok; apply Htot; left; reflexivity].
    apply (existsb_false_notin N (w_eqb w) (w_eqb_spec w)), Hfresh. left; reflexivity.
  - cbn [hd List.length]. destruct HL as [Hw HL].
    assert (Hv : existsb (w_eqb w x) v = false) by (apply (existsb_false_notin N (w_eqb w) (w_eqb_spec w)), Hfresh; left; reflexivity).
    inversion HD as [|? ? Hnotin HD']; subst.
    destruct (map_step (S (List.length rest)) x (hd r rest) sc v st Hw Hv Hok (Htot x (or_introl eq_refl))) as [sc' [st1 [Hok' E]]]. rewrite E.
    destruct (IH r sc' (x :: v) st1 HL Hr HD') as [st' E'].
    + intros y Hy [Hyx|Hyv]; [subst; contradiction|]. apply (Hfresh y); [right; exact Hy|exact Hyv].
    + intros y Hy. apply Htot. right. exact Hy.
    + exact Hok'.
    + exists st'. rewrite E'. cbn [rev]. rewrite <- app_assoc. reflexivity.
Qed.
(* through stacks of assert / let / parenthesis / with wrappers AND let-bound names: the same set, the same nodes entered *)
Theorem targets_agree_through_names ws r sc sc' v st :
  linked3 ws r -> w_cls w r = CSet -> NoDup (ws ++ [r]) -> (forall x, In x (ws ++ [r]) -> ~ In x v) -> lookups_truthy (ws ++ [r]) -> chain_ok sc -> chain_ok sc' ->
  let a := map_target w (S (List.length ws)) (hd r ws) sc (v, st) in let b := target w (S (List.length ws)) (hd r ws) sc' (v, st) in
  fst a = RVal r /\ fst b = RVal r /\ fst (snd a) = fst (snd b).
Proof.
  intros HL Hr HD Hf Ht Hok Hok'. cbv zeta.
  destruct (map_stack3 ws r sc v st HL Hr HD Hf Ht Hok) as [s1 E1]. destruct (cli_stack3 ws r sc' v st HL Hr HD Hf Ht Hok') as [s2 E2].
  rewrite E1, E2. repeat split.
Qed.

(* ---- a call whose argument (parentheses stripped) is the set — `mk { … }`, `pkgs.mkDerivation ({ … })`: for a callee the CLI accepts both walks
        return the argument; for a callee the CLI refuses (`1 { … }`) the CLI raises ValueError while the mapping still returns it (the one place where
        the two copies differ on purpose) ---- *)
Theorem cli_call_set f t a sc v st :
  w_cls w t = CCall -> w_argument w t = Some a -> w_cls w (w_strip w a) = CSet -> existsb (w_eqb w t) v = false -> scopes_okw t sc st ->
  target w (S f) t sc (v, st) = if w_supports w t then (RVal (w_strip w a), (t :: v, st)) else (RErrV, (t :: v, st)).
Proof.
  intros Hc Ha Hs Hv Hk. unfold target.
  cbn [resolve_target_set_from_expr]; unfold TargetGen.bind at 1, is_visited at 1; cbn [fst snd]; rewrite Hv;
  unfold TargetGen.bind at 1, visit at 1; cbn [fst snd]; cbv zeta; unfold TargetGen.bind at 1; unfold scopes_ok in Hk;
  destruct sc; [|destruct Hk as [c_ Hk]]; unfold TargetGen.bind, get_scopes, TargetGen.ret; cbn [fst snd]; [|rewrite Hk];
  rewrite Hc, Ha; unfold is_cls; rewrite Hs; destruct (w_supports w t); reflexivity.
Qed.
Theorem map_call_set f t a sc v st :
  w_cls w t = CCall -> w_argument w t = Some a -> w_cls w (w_strip w a) = CSet -> existsb (w_eqb w t) v = false -> scopes_okw t sc st ->
  map_target w (S f) t sc (v, st) = (RVal (w_strip w a), (t :: v, st)).
Proof.
  intros Hc Ha Hs Hv Hk. enter_map sc Hv Hk; rewrite Hc; unfold TargetGen.bind, call_argument; rewrite Ha; cbn [option_map]; unfold is_cls; rewrite Hs; cbn [cls_eqb andb]; unfold TargetGen.bind, TargetGen.ret; cbn [fst snd]; rewrite Hs; reflexivity.
Qed.
Theorem targets_agree_on_supported_call f t a sc v st :
  w_cls w t = CCall -> w_argument w t = Some a -> w_cls w (w_strip w a) = CSet -> existsb (w_eqb w t) v = false -> scopes_okw t sc st -> w_supports w t = true ->
  map_target w (S f) t sc (v, st) = target w (S f) t sc (v, st).
Proof. intros Hc Ha Hs Hv Hk Hsup. rewrite (cli_call_set f t a sc v st Hc Ha Hs Hv Hk), Hsup. apply map_call_set; assumption. Qed.
Theorem targets_differ_on_refused_callee f t a sc v st :
  w_cls w t = CCall -> w_argument w t = Some a -> w_cls w (w_strip w a) = CSet -> existsb (w_eqb w t) v = false -> scopes_okw t sc st -> w_supports w t = false ->
  fst (target w (S f) t sc (v, st)) = RErrV /\ fst (map_target w (S f) t sc (v, st)) = RVal (w_strip w a).
Proof. intros Hc Ha Hs Hv Hk Hsup. rewrite (cli_call_set f t a sc v st Hc Ha Hs Hv Hk), Hsup, (map_call_set f t a sc v st Hc Ha Hs Hv Hk). split; reflexivity. Qed.
End W.

Definition map_table_run (tb : table) (exprs : list nat) : res nat * nat :=
  let '(r, (_, v)) := map_target_top (table_world tb) (S (S (List.length (t_cls tb)))) exprs ([], 0) in (r, v).
Print Assumptions map_target_is_a_set.
Print Assumptions targets_agree_on_wrappers.
Print Assumptions targets_agree_under_lambda.
Print Assumptions targets_agree_on_stacks.
(* non-vacuity: `with pkgs; let … in { … }` — nodes 0 with, 1 let, 2 set: both walks find node 2 and attach one context *)
Example stacks_demo :
  let tb := {| t_cls := [CWith; CLet; CSet]; t_body := [Some 1; None; None]; t_value := [None; Some 2; None]; t_output := []; t_argument := []; t_strip := [0; 1; 2];
               t_supports := []; t_name := []; t_select := []; t_truthy := [false; true]; t_scopes := [(0, 0, RVal 1)]; t_values := [] |} in
  map_table_run tb [0] = (RVal 2, 1) /\ table_run tb [0] = (RVal 2, 1).
Proof. vm_compute. split; reflexivity. Qed.
Print Assumptions targets_agree_through_names.
(* non-vacuity: `let cfg = { a = 1; }; in cfg` — nodes 0 let, 1 the name, 2 the set it is bound to: both walks give the name a context, read its
   value and find node 2 *)
Example names_demo :
  let tb := {| t_cls := [CLet; CIdent; CSet]; t_body := []; t_value := [Some 1; None; None]; t_output := []; t_argument := []; t_strip := [0; 1; 2];
               t_supports := []; t_name := []; t_select := []; t_truthy := [false; true]; t_scopes := [(0, 0, RVal 1); (1, 0, RVal 1)]; t_values := [(1, 1, RVal 2)] |} in
  map_table_run tb [0] = (RVal 2, 1) /\ table_run tb [0] = (RVal 2, 1).
Proof. vm_compute. split; reflexivity. Qed.
Print Assumptions targets_differ_on_refused_callee.

"""Fail-closed translator: the wrapper traversal of cli/manipulations.py — `_resolve_target_set_from_expr` (with its nested helpers
`_resolve_nested`, `_resolve_call_argument`), `_resolve_identifier_target` and `_resolve_target_set` — -> a fuelled Gallina function in an
exception + state monad over ABSTRACT expression nodes (Dyn/TargetGen.v).  This is the function that decides WHICH attribute set `nima set` /
`nima rm` (and the scoped operations) are allowed to mutate: it looks through assert / let / lambda / with / parentheses / identifiers /
package-constructor calls and must end at exactly one attribute set or fail.

What is abstract (section variables; the theorems hold for every instance): the class of a node, its attributes `body`, `value`, `output`,
`argument` (None when the Python attribute is None), `_strip_parentheses`, `_supports_attrset_argument(call.name)`, `scopes_for_owner` (reads
the context store; may raise), the context store itself with `set_resolution_context` / `attach_resolution_context` as store transformers, and
`Identifier.value` (reads the store; may raise ValueError or another exception).

How Python is read:
 * the state is (visited, store); `visited` is ONE set object handed down to every recursive call (`_visited=visited`), so additions made by a
   call that ended in a caught ValueError stay — the state is threaded, not restored, by `try_valueerror`;
 * default values of keyword parameters of the nested functions (`scopes=scope_chain`) are evaluated when the `def` statement runs, i.e. BEFORE
   `if scope_chain is None: scope_chain = scopes_for_owner(target)` — they are bound to a separate name at the def site;
 * `match target: case C():` is a chain of isinstance tests; the eight classes are pairwise unrelated by inheritance (checked here on the class
   statements of the package), so a `match` on the class tag is the same;
 * passing None where a node is expected (an attribute that is None) makes the callee raise ValueError in every case (`id(None)` is either in
   `visited` or falls to `case _`); `id(None)` is the id of no node, so the visited set is represented without it;
 * `raise ValueError(..) [from exc]` is `raiseV`; `except ValueError` catches exactly `raiseV`; every other exception (`ResolutionError`)
   propagates; running out of fuel is a third outcome the theorems exclude.
Statements accepted: assignment from a pure or monadic expression, tuple assignment from `_resolve_identifier_target`, `if`/`else` (the rest of
the block is duplicated into both arms), `if X is None: <raise/return>` (a match that rebinds X), `if V is None: V = …`, `return`, `raise
ValueError`, `try: return … except ValueError: …`, `visited.add(id(target))`, `attach_resolution_context(B, owner=O)`, `match` on classes.
Anything else -> UNTRANSLATABLE.                                                                           usage: target2v.py REPO"""
import ast, sys, os, re, glob
sys.path.insert(0, os.path.dirname(os.path.abspath(__file__)))
from gap2v import Untranslatable, U, guarded, find_fn

CLS = {'Assertion': 'CAssertion', 'LetExpression': 'CLet', 'FunctionDefinition': 'CFunDef', 'WithStatement': 'CWith', 'Identifier': 'CIdent',
       'Parenthesis': 'CParen', 'AttributeSet': 'CSet', 'FunctionCall': 'CCall'}
ATTRS = {'body', 'value', 'output', 'argument'}

PRELUDE = r'''From Coq Require Import List Bool Arith.
Import ListNotations.
Inductive cls := CAssertion | CLet | CFunDef | CWith | CIdent | CParen | CSet | CCall | COther.
Definition cls_eqb (a b : cls) : bool :=
  match a, b with CAssertion, CAssertion | CLet, CLet | CFunDef, CFunDef | CWith, CWith | CIdent, CIdent | CParen, CParen | CSet, CSet
                | CCall, CCall | COther, COther => true | _, _ => false end.
Inductive res (A : Type) := RVal (a : A) | RErrV | RErrO | RFuel.   (* a value, ValueError, any other exception, out of fuel *)
Arguments RVal {A} a. Arguments RErrV {A}. Arguments RErrO {A}. Arguments RFuel {A}.
Section Target.
Variable N : Type.                                   (* expression nodes (Python objects, compared by identity) *)
Variable N_eqb : N -> N -> bool.
Variable SC : Type.                                  (* scope chains (tuples of Scope) *)
Variable truthy : SC -> bool.                        (* bool(chain): a non-empty tuple *)
Variable store : Type.                               (* the resolution contexts attached to nodes *)
Variable cls_of : N -> cls.
Variables attr_body attr_value attr_output attr_argument : N -> option N.
Variable strip_parens : N -> N.                      (* _strip_parentheses *)
Variable supports_callee : N -> bool.                (* _supports_attrset_argument(call.name), as a function of the call *)
Variable attr_name : N -> option N.                  (* call.name; None when it is a str *)
Variable is_select : N -> bool.                      (* isinstance(x, Select) *)
Variable scopes_for_owner : N -> store -> res SC.    (* reads the store; the chain of a `with` owner resolves its environment and may raise *)
Variable set_ctx : N -> SC -> store -> store.        (* set_resolution_context *)
Variable attach_ctx : N -> N -> store -> store.      (* attach_resolution_context(body, owner=owner) *)
Variable ident_value : N -> store -> res N.          (* Identifier.value under the contexts in force *)
Definition state := (list N * store)%type.           (* the visited set (newest first) and the context store *)
Definition M (A : Type) := state -> res A * state.
Definition ret {A} (a : A) : M A := fun s => (RVal a, s).
Definition raiseV {A} : M A := fun s => (RErrV, s).
Definition out_of_fuel {A} : M A := fun s => (RFuel, s).
Definition bind {A B} (m : M A) (f : A -> M B) : M B :=
  fun s => match m s with (RVal a, s') => f a s' | (RErrV, s') => (RErrV, s') | (RErrO, s') => (RErrO, s') | (RFuel, s') => (RFuel, s') end.
Definition try_valueerror {A} (m : M A) (h : M A) : M A :=
  fun s => match m s with (RErrV, s') => h s' | r => r end.
Definition is_visited (n : N) : M bool := fun s => (RVal (existsb (N_eqb n) (fst s)), s).
Definition visit (n : N) : M unit := fun s => (RVal tt, (n :: fst s, snd s)).
Definition get_scopes (n : N) : M SC := fun s => (scopes_for_owner n (snd s), s).
Definition do_set_ctx (n : N) (sc : SC) : M unit := fun s => (RVal tt, (fst s, set_ctx n sc (snd s))).
Definition do_attach (b o : N) : M unit := fun s => (RVal tt, (fst s, attach_ctx b o (snd s))).
Definition get_value (n : N) : M N := fun s => (ident_value n (snd s), s).
Definition is_cls (n : N) (c : cls) : bool := cls_eqb (cls_of n) c.
Definition or_scopes (a : SC) (b : option SC) : option SC := if truthy a then Some a else b.
'''

IDENT_TARGET_SRC = '''resolved_scopes = preferred_scopes
if resolved_scopes is None:
    for owner in owners:
        owner_scopes = scopes_for_owner(owner)
        if owner_scopes:
            resolved_scopes = owner_scopes
            break
if resolved_scopes:
    set_resolution_context(identifier, resolved_scopes)
return (identifier.value, resolved_scopes)'''
IDENT_TARGET_COQ = '''(* GENERATED (frame matched literally) from cli/manipulations.py:_resolve_identifier_target *)
Fixpoint first_truthy (owners : list N) : M (option SC) :=
  match owners with [] => ret None | o :: r => bind (get_scopes o) (fun sc => if truthy sc then ret (Some sc) else first_truthy r) end.
Definition resolve_identifier_target (identifier : N) (preferred_scopes : option SC) (owners : list N) : M (N * option SC) :=
  bind (match preferred_scopes with None => first_truthy owners | Some _ => ret preferred_scopes end) (fun resolved_scopes =>
  bind (match resolved_scopes with Some sc => if truthy sc then do_set_ctx identifier sc else ret tt | None => ret tt end) (fun _ =>
  bind (get_value identifier) (fun v => ret (v, resolved_scopes)))).
'''
TOP_SRC = '''if not source.expressions:
    raise ValueError('Source contains no expressions')
if len(source.expressions) != 1:
    raise ValueError('Source must contain exactly one top-level expression')
try:
    return _resolve_target_set_from_expr(source.expressions[0])
except ValueError as exc:
    raise ValueError('Top-level expression must be an attribute set or function definition') from exc'''
TOP_COQ = '''(* GENERATED (frame matched literally) from cli/manipulations.py:_resolve_target_set *)
Definition resolve_target_set (fuel : nat) (expressions : list N) : M N :=
  match expressions with
  | [] => raiseV
  | [e] => try_valueerror (resolve_target_set_from_expr fuel e None) raiseV
  | _ => raiseV
  end.
'''

STRIP_SRC = '''while isinstance(expression, Parenthesis):
    expression = expression.value
return expression'''
STRIP_COQ = '''(* GENERATED (frame matched literally) from cli/manipulations.py:_strip_parentheses; a parenthesis without a value does not exist (required field): RErrO *)
Fixpoint strip_parentheses (fuel : nat) (expression : N) : res N :=
  match fuel with O => RFuel | S f =>
    if is_cls expression CParen then match attr_value expression with Some v => strip_parentheses f v | None => RErrO end else RVal expression end.
'''
SUPPORTS_SRC = '''while True:
    if isinstance(callee, str):
        return True
    callee = _strip_parentheses(callee)
    if isinstance(callee, FunctionCall):
        callee = callee.name
        continue
    return isinstance(callee, (FunctionDefinition, Identifier, Select))'''
SUPPORTS_COQ = '''(* GENERATED (frame matched literally) from cli/manipulations.py:_supports_attrset_argument; the callee is None when it is a str *)
Fixpoint supports_attrset_argument (fuel : nat) (callee : option N) : res bool :=
  match fuel with O => RFuel | S f =>
    match callee with None => RVal true | Some c =>
      match strip_parentheses f c with
      | RVal c1 => if is_cls c1 CCall then supports_attrset_argument f (attr_name c1) else RVal (is_cls c1 CFunDef || is_cls c1 CIdent || is_select c1)
      | RErrV => RErrV | RErrO => RErrO | RFuel => RFuel
      end end end.
'''
def body_of(f): return [s for s in f.body if not (isinstance(s, ast.Expr) and isinstance(s.value, ast.Constant))]
def src_of(stmts): return '\n'.join(ast.unparse(s) for s in stmts)
def terminates(stmts): return bool(stmts) and isinstance(stmts[-1], (ast.Return, ast.Raise))

class Ctx:
    """compilation context of one function body: env maps a Python expression text to (Coq term, type); types: N optN optSC SC bool listN"""
    def __init__(self, env, rettype, helpers): self.env = dict(env); self.rettype = rettype; self.helpers = helpers
    def fork(self): return Ctx(self.env, self.rettype, self.helpers)

def pexpr(e, cx):
    """pure expression -> (term, type)"""
    u = ast.unparse(e)
    if u in cx.env: return cx.env[u]
    if isinstance(e, ast.Constant) and e.value is None: return ('None', 'none')
    if isinstance(e, ast.Attribute) and e.attr in ATTRS:
        t, ty = pexpr(e.value, cx)
        if ty != 'N': U('attribute of a non-node', e)
        return ('(attr_%s %s)' % (e.attr, t), 'optN')
    if isinstance(e, ast.Call) and isinstance(e.func, ast.Name) and e.func.id == 'isinstance' and len(e.args) == 2 and not e.keywords:
        t, ty = pexpr(e.args[0], cx); c = ast.unparse(e.args[1])
        if ty != 'N' or c not in CLS: U('isinstance', e)
        return ('(is_cls %s %s)' % (t, CLS[c]), 'bool')
    if isinstance(e, ast.Call) and ast.unparse(e.func) == '_strip_parentheses' and len(e.args) == 1 and not e.keywords:
        t, ty = pexpr(e.args[0], cx)
        if ty != 'N': U('_strip_parentheses of a non-node', e)
        return ('(strip_parens %s)' % t, 'N')
    if isinstance(e, ast.Call) and ast.unparse(e.func) == '_supports_attrset_argument' and len(e.args) == 1 and not e.keywords \
       and isinstance(e.args[0], ast.Attribute) and e.args[0].attr == 'name':
        t, ty = pexpr(e.args[0].value, cx)
        if ty != 'N': U('_supports_attrset_argument', e)
        return ('(supports_callee %s)' % t, 'bool')
    if isinstance(e, ast.UnaryOp) and isinstance(e.op, ast.Not):
        t, ty = pexpr(e.operand, cx)
        if ty != 'bool': U('not of a non-boolean', e)
        return ('(negb %s)' % t, 'bool')
    if isinstance(e, ast.Tuple):
        parts = [pexpr(x, cx) for x in e.elts]
        if any(ty != 'N' for _, ty in parts): U('tuple of non-nodes', e)
        return ('[' + '; '.join(t for t, _ in parts) + ']', 'listN')
    U('expression', e)

def as_optsc(e, cx):
    t, ty = pexpr(e, cx)
    if ty == 'optSC': return t
    if ty == 'none': return 'None'
    if ty == 'SC': return '(Some %s)' % t
    U('not a scope chain', e)

def mcall(e, cx):
    """monadic call -> (term, result type) or None"""
    if not isinstance(e, ast.Call): return None
    fn = ast.unparse(e.func); kw = {k.arg: k.value for k in e.keywords}
    def node_arg(a, k):
        t, ty = pexpr(a, cx)
        if ty == 'N': return k(t)
        if ty == 'optN': return '(match %s with Some n_ => %s | None => raiseV end)' % (t, k('n_'))
        U('node argument', a)
    if fn in ('_resolve_nested', '_resolve_target_set_from_expr') and len(e.args) == 1:
        if fn == '_resolve_nested':
            if set(kw) - {'scopes'}: U('keywords', e)
            sc = as_optsc(kw['scopes'], cx) if 'scopes' in kw else cx.helpers['_resolve_nested']
        else:
            if set(kw) != {'scope_chain', '_visited'} or ast.unparse(kw['_visited']) != 'visited': U('keywords', e)
            sc = as_optsc(kw['scope_chain'], cx)
        return (node_arg(e.args[0], lambda t: '(resolve_target_set_from_expr fuel_ %s %s)' % (t, sc)), 'N')
    if fn == '_resolve_call_argument' and len(e.args) == 1 and '_resolve_call_argument' in cx.helpers:
        if set(kw) - {'scopes'}: U('keywords', e)
        sc = as_optsc(kw['scopes'], cx) if 'scopes' in kw else cx.helpers['_resolve_call_argument']
        t, ty = pexpr(e.args[0], cx)
        if ty != 'N': U('call argument', e)
        return ('(resolve_call_argument %s %s)' % (t, sc), 'optN')
    if fn == '_resolve_identifier_target' and len(e.args) == 1 and set(kw) == {'preferred_scopes', 'owners'}:
        t, ty = pexpr(e.args[0], cx); o, oty = pexpr(kw['owners'], cx)
        if ty != 'N' or oty != 'listN': U('identifier target', e)
        return ('(resolve_identifier_target %s %s %s)' % (t, as_optsc(kw['preferred_scopes'], cx), o), 'N*optSC')
    if fn == 'scopes_for_owner' and len(e.args) == 1 and not kw:
        t, ty = pexpr(e.args[0], cx)
        if ty != 'N': U('scopes_for_owner of a non-node', e)
        return ('(get_scopes %s)' % t, 'SC')
    return None

def ret_of(term, ty, cx):
    """coerce a pure value to the function's return type"""
    if cx.rettype == 'N' and ty == 'N': return '(ret %s)' % term
    if cx.rettype == 'optN' and ty == 'N': return '(ret (Some %s))' % term
    if cx.rettype == 'optN' and ty == 'none': return '(ret None)'
    if cx.rettype == 'optN' and ty == 'optN': return '(ret %s)' % term
    U('return of type %s in a function returning %s' % (ty, cx.rettype))

def mret(e, cx):
    m = mcall(e, cx)
    if m is None: return ret_of(*pexpr(e, cx), cx)
    t, ty = m
    if ty == cx.rettype: return t
    if ty == 'N' and cx.rettype == 'optN': return '(bind %s (fun r_ => ret (Some r_)))' % t
    U('monadic return type', e)

def bindname(s): return re.sub(r'\W', '_', s)

def block(stmts, cx, fallthrough=None):
    """compile a statement list; `fallthrough` is what happens when the end is reached without return/raise (None: not allowed)"""
    if not stmts:
        if fallthrough is None: U('block falls off its end')
        return fallthrough
    s, rest = stmts[0], stmts[1:]
    def k(c=None): return block(rest, c or cx, fallthrough)
    if isinstance(s, ast.Return):
        if rest: U('statements after return')
        return mret(s.value, cx) if s.value is not None else ret_of('None', 'none', cx)
    if isinstance(s, ast.Raise):
        if rest: U('statements after raise')
        if not (isinstance(s.exc, ast.Call) and ast.unparse(s.exc.func) == 'ValueError'): U('raise of something else than ValueError', s)
        return 'raiseV'
    if isinstance(s, ast.Expr) and ast.unparse(s.value) == 'visited.add(id(target))':
        return '(bind (visit target) (fun _ =>\n %s))' % k()
    if isinstance(s, ast.Expr) and isinstance(s.value, ast.Call) and ast.unparse(s.value.func) == 'attach_resolution_context' \
       and len(s.value.args) == 1 and [x.arg for x in s.value.keywords] == ['owner']:
        b, bty = pexpr(s.value.args[0], cx); o, oty = pexpr(s.value.keywords[0].value, cx)
        if oty != 'N': U('attach owner', s)
        if bty == 'optN': return '(match %s with Some b_ => bind (do_attach b_ %s) (fun _ =>\n %s) | None => raiseV end)' % (b, o, k_narrow(s.value.args[0], 'b_', rest, cx, fallthrough))
        if bty == 'N': return '(bind (do_attach %s %s) (fun _ =>\n %s))' % (b, o, k())
        U('attach body', s)
    if isinstance(s, ast.If):
        tu = ast.unparse(s.test)
        # if id(target) in visited: raise
        if tu == 'id(target) in visited' and not s.orelse:
            return '(bind (is_visited target) (fun seen_ => if seen_ then %s else\n %s))' % (block(s.body, cx.fork(), None), k())
        # if X is None: …
        if isinstance(s.test, ast.Compare) and len(s.test.ops) == 1 and isinstance(s.test.ops[0], ast.Is) and ast.unparse(s.test.comparators[0]) == 'None' and not s.orelse:
            xt = ast.unparse(s.test.left); x, xty = pexpr(s.test.left, cx)
            if terminates(s.body):
                if xty != 'optN': U('None test on %s' % xty, s)
                v = bindname(xt) + '_'
                c2 = cx.fork(); c2.env[xt] = (v, 'N')
                return '(match %s with None => %s | Some %s =>\n %s end)' % (x, block(s.body, cx.fork(), None), v, block(rest, c2, fallthrough))
            if len(s.body) == 1 and isinstance(s.body[0], ast.Assign) and ast.unparse(s.body[0].targets[0]) == xt and xty == 'optSC':
                m = mcall(s.body[0].value, cx)
                if m is None or m[1] != 'SC': U('re-assignment of %s' % xt, s)
                return '(bind (match %s with None => bind %s (fun v_ => ret (Some v_)) | Some _ => ret %s end) (fun %s =>\n %s))' % (x, m[0], x, x, k())
            U('None test', s)
        if isinstance(s.test, ast.Compare) and len(s.test.ops) == 1 and isinstance(s.test.ops[0], ast.IsNot) and ast.unparse(s.test.comparators[0]) == 'None' and not s.orelse:
            xt = ast.unparse(s.test.left); x, xty = pexpr(s.test.left, cx)
            if xty != 'optN' or not terminates(s.body): U('not-None test', s)
            v = bindname(xt) + '_'
            c2 = cx.fork(); c2.env[xt] = (v, 'N')
            return '(match %s with Some %s => %s | None =>\n %s end)' % (x, v, block(s.body, c2, None), k())
        c, cty = pexpr(s.test, cx)
        if cty == 'optSC': U('truth value of an optional chain', s)
        if cty != 'bool': U('condition', s.test)
        a = block(list(s.body) + ([] if terminates(s.body) else list(rest)), cx.fork(), fallthrough)
        b = block(list(s.orelse) + ([] if terminates(s.orelse) else list(rest)), cx.fork(), fallthrough)
        return '(if %s then\n %s else\n %s)' % (c, a, b)
    if isinstance(s, ast.Assign) and len(s.targets) == 1:
        tg = s.targets[0]
        if isinstance(tg, ast.Tuple) and [type(x) for x in tg.elts] == [ast.Name, ast.Name]:
            m = mcall(s.value, cx)
            if m is None or m[1] != 'N*optSC': U('tuple assignment', s)
            a, b = tg.elts[0].id, tg.elts[1].id
            c2 = cx.fork(); drop(c2, a); drop(c2, b); c2.env[a] = (a, 'N'); c2.env[b] = (b, 'optSC')
            return "(bind %s (fun '(%s, %s) =>\n %s))" % (m[0], a, b, block(rest, c2, fallthrough))
        if isinstance(tg, ast.Name):
            m = mcall(s.value, cx)
            c2 = cx.fork(); drop(c2, tg.id)
            if m is not None:
                if m[1] not in ('N', 'optN', 'SC'): U('assignment', s)
                c2.env[tg.id] = (tg.id, m[1])
                return '(bind %s (fun %s =>\n %s))' % (m[0], tg.id, block(rest, c2, fallthrough))
            if isinstance(s.value, ast.BoolOp) and isinstance(s.value.op, ast.Or) and len(s.value.values) == 2:
                m = mcall(s.value.values[0], cx)
                if m is None or m[1] != 'SC': U('or', s)
                c2.env[tg.id] = (tg.id, 'optSC')
                return '(bind %s (fun v_ => let %s := or_scopes v_ %s in\n %s))' % (m[0], tg.id, as_optsc(s.value.values[1], cx), block(rest, c2, fallthrough))
            t, ty = pexpr(s.value, cx)
            if ty not in ('N', 'optN', 'optSC', 'bool'): U('assignment of type %s' % ty, s)
            c2.env[tg.id] = (tg.id, ty)
            return '(let %s := %s in\n %s)' % (tg.id, t, block(rest, c2, fallthrough))
        U('assignment target', s)
    if isinstance(s, ast.Try):
        if s.orelse or s.finalbody or len(s.handlers) != 1 or ast.unparse(s.handlers[0].type) != 'ValueError': U('try shape', s)
        if not terminates(s.body) or len(s.body) != 1 or not isinstance(s.body[0], ast.Return): U('try body must be one return', s)
        h = list(s.handlers[0].body)
        return '(try_valueerror %s\n %s)' % (block(s.body, cx.fork(), None), block(h + ([] if terminates(h) else list(rest)), cx.fork(), fallthrough))
    if isinstance(s, ast.Match):
        st, sty = pexpr(s.subject, cx)
        if sty != 'N': U('match subject', s)
        arms = []; seen = set(); default = None
        for c in s.cases:
            if c.guard is not None: U('case guard', s)
            p = c.pattern
            if isinstance(p, ast.MatchClass) and not p.patterns and not p.kwd_patterns and ast.unparse(p.cls) in CLS:
                n = ast.unparse(p.cls)
                if n in seen or default is not None: U('case order', s)
                seen.add(n)
                arms.append('| %s =>\n %s' % (CLS[n], block(list(c.body) + ([] if terminates(c.body) else list(rest)), cx.fork(), fallthrough)))
            elif isinstance(p, ast.MatchAs) and p.pattern is None and p.name is None:
                default = block(list(c.body) + ([] if terminates(c.body) else list(rest)), cx.fork(), fallthrough)
            else: U('case pattern', c.pattern)
        if default is None: default = block(list(rest), cx.fork(), fallthrough)
        if len(seen) < len(CLS) + 1: arms.append('| _ =>\n %s' % default)
        return '(match cls_of %s with\n%s\n end)' % (st, '\n'.join(arms))
    U('statement', s)

def drop(cx, name):
    """forget narrowed facts about a re-assigned variable"""
    for key in [key for key in cx.env if key == name or key.startswith(name + '.')]: del cx.env[key]

def k_narrow(e, v, rest, cx, fallthrough):
    c2 = cx.fork(); c2.env[ast.unparse(e)] = (v, 'N')
    return block(rest, c2, fallthrough)

def check_classes(repo):
    """the eight classes of the match must be pairwise unrelated by inheritance"""
    bases = {}
    for p in glob.glob(repo + '/nix_manipulator/expressions/**/*.py', recursive=True):
        for n in ast.walk(ast.parse(open(p).read())):
            if isinstance(n, ast.ClassDef): bases[n.name] = [ast.unparse(b) for b in n.bases]
    def anc(c, seen=()):
        out = set()
        for b in bases.get(c, []):
            b = b.split('.')[-1]
            if b not in seen: out |= {b} | anc(b, seen + (b,))
        return out
    for c in CLS:
        if c not in bases: U('class %s not found' % c)
        if anc(c) & set(CLS): U('class %s inherits from another class of the match' % c)
    for c, bs in bases.items():
        if c not in CLS and anc(c) & set(CLS): U('class %s derives from a class of the match' % c)

def gen_main(tree, repo):
    check_classes(repo)
    f = find_fn(tree, '_resolve_target_set_from_expr')
    if [a.arg for a in f.args.args] != ['target'] or [a.arg for a in f.args.kwonlyargs] != ['scope_chain', '_visited'] \
       or [ast.unparse(d) for d in f.args.kw_defaults] != ['None', 'None']: U('signature')
    body = body_of(f)
    if ast.unparse(body[0]) != 'visited = _visited or set()': U('visited = _visited or set()')
    cx = Ctx({'target': ('target', 'N'), 'scope_chain': ('scope_chain', 'optSC')}, 'N', {})
    out = []; i = 1; lets = []
    pre = []
    while i < len(body) and not isinstance(body[i], ast.FunctionDef): pre.append(body[i]); i += 1
    defs = []
    while i < len(body) and isinstance(body[i], ast.FunctionDef): defs.append(body[i]); i += 1
    post = body[i:]
    if any(isinstance(n, ast.FunctionDef) for s in post for n in ast.walk(s)): U('nested def after the first statement block')
    # the part after the defs, compiled with the helpers in scope
    inner = []
    for d in defs:
        if [a.arg for a in d.args.kwonlyargs] != ['scopes'] or [ast.unparse(x) for x in d.args.kw_defaults] != ['scope_chain'] or len(d.args.args) != 1 or d.args.defaults: U('nested def signature', d)
        dflt = 'dflt_' + d.name.strip('_')
        inner.append('let %s := scope_chain in' % dflt)            # evaluated when the def statement runs
        cx.helpers[d.name] = dflt
        if d.name == '_resolve_nested':
            if src_of(body_of(d)) != 'return _resolve_target_set_from_expr(expr, scope_chain=scopes, _visited=visited)' or d.args.args[0].arg != 'expr': U('_resolve_nested body')
        elif d.name == '_resolve_call_argument':
            a = d.args.args[0].arg
            c2 = Ctx({a: (a, 'N'), 'scopes': ('scopes', 'optSC')}, 'optN', cx.helpers)
            inner.append('let resolve_call_argument := fun (%s : N) (scopes : option SC) =>\n %s in' % (a, block(body_of(d), c2, None)))
        else: U('unknown nested def %s' % d.name)
    if '_resolve_nested' not in cx.helpers: U('_resolve_nested missing')
    tail = '\n '.join(inner) + '\n ' + block(post, cx, None)
    # `pre` (visited test and add) wraps the defs: defs have no effect, so they commute with the statements before them
    marker = ast.parse('return __TAIL__').body[0]
    class TailCtx(Ctx): pass
    code = block(pre + [ast.Expr(value=ast.Name(id='__TAIL__'))], cx, None) if False else None
    # compile `pre` with the tail as its fall-through
    code = block(pre, cx, '(' + tail + ')')
    return ('Fixpoint resolve_target_set_from_expr (fuel : nat) (target : N) (scope_chain : option SC) {struct fuel} : M N :=\n'
            ' match fuel with O => out_of_fuel | S fuel_ =>\n %s\n end.\n' % code)

def gen_literal(tree, name, src, coq):
    f = find_fn(tree, name)
    if src_of(body_of(f)) != src: U('%s no longer has the matched text' % name)
    return coq

def main(repo):
    tree = ast.parse(open(repo + '/nix_manipulator/cli/manipulations.py').read())
    out = [PRELUDE]
    out.append(guarded('_resolve_identifier_target', lambda: gen_literal(tree, '_resolve_identifier_target', IDENT_TARGET_SRC, IDENT_TARGET_COQ)))
    out.append('(* GENERATED from cli/manipulations.py:_resolve_target_set_from_expr *)\n' + guarded('_resolve_target_set_from_expr', lambda: gen_main(tree, repo)))
    out.append(guarded('_resolve_target_set', lambda: gen_literal(tree, '_resolve_target_set', TOP_SRC, TOP_COQ)))
    out.append(guarded('_strip_parentheses', lambda: gen_literal(tree, '_strip_parentheses', STRIP_SRC, STRIP_COQ)))
    out.append(guarded('_supports_attrset_argument', lambda: gen_literal(tree, '_supports_attrset_argument', SUPPORTS_SRC, SUPPORTS_COQ)))
    out.append('End Target.\n')
    return '\n'.join(out)
if __name__ == '__main__': print(main(sys.argv[1]))

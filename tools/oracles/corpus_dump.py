"""Maintenance helper for tools/mutation_probe.py: run the implementation found on PYTHONPATH over a fixed corpus and print one
JSON object {key: observable}; two runs (unchanged tree / mutant) are compared to find an input that tells them apart.
usage: corpus_dump.py render|edit|resolve"""
import hashlib, json, random, sys, os
sys.path.insert(0, os.path.join(os.path.dirname(os.path.abspath(__file__)), '..', 'suites'))
mode = sys.argv[1]; out = {}
def obs(f):
    try: return f()
    except Exception as e: return 'EXC:' + type(e).__name__
from nix_manipulator import parse
if mode == 'render':
    from matrix_cells import iter_cells, CANON_DOCS
    from gen_docs import DocGen2, PkgGen
    for site, p, lp in iter_cells(): out['|'.join(site)] = obs(lambda: parse(p).rebuild())
    R = random.Random(7); G1 = DocGen2(R); G2 = PkgGen(R)
    for i in range(400):
        d = G1.doc() if i % 2 else G2.doc(); out['doc%d' % i] = obs(lambda: parse(d).rebuild())
        out['doc%d-twice' % i] = obs(lambda: (lambda s: (s.rebuild(), s.rebuild())[1])(parse(d)))
    for k, d in CANON_DOCS.items(): out['canon:' + k] = obs(lambda: parse(d + '\n').rebuild())
elif mode == 'edit':
    from edit_lib import gen_doc, apply, existing_paths, pstr, VALUES, LAYER_NAMES
    R = random.Random(11)
    for i in range(1500):
        text, meta = gen_doc(R, scoped=R.random() < 0.5, quoted=0.15, tiny=0.1, joints=0.3, attrpath_nested=R.random() < 0.3, layer_refs=0.3)
        src = obs(lambda: parse(text))
        if isinstance(src, str): out['e%d' % i] = src; continue
        trace = []
        for step in range(R.randint(1, 4)):
            paths = existing_paths(src.rebuild()) or [('k',)]
            r = R.random()
            if r < 0.25 and meta['layers']: p = '@' * R.randint(1, 3) + R.choice(LAYER_NAMES + ['z'])
            elif r < 0.6: p = pstr(R.choice(paths))
            elif r < 0.8: p = pstr(R.choice(paths)[:-1] + ('n%d' % step,))
            else: p = pstr(R.choice(paths) + ('d%d' % step,))
            op = ('set', p, R.choice(VALUES)) if R.random() < 0.65 else ('rm', p)
            trace.append([op, apply(src, op)])
        out['e%d' % i] = [text, trace, obs(lambda: src.rebuild())]
elif mode == 'resolve':
    from nix_manipulator.expressions import Identifier
    from nix_manipulator.exceptions import ResolutionError
    from nix_manipulator.cli.manipulations import set_value
    import itertools
    R = random.Random(13); N = ['a', 'b', 'c']
    def val(x):
        try:
            v = x.value if isinstance(x, Identifier) else x; return v.rebuild().strip() if hasattr(v, 'rebuild') else repr(v)
        except ResolutionError: return 'RESERR'
    def rnd_bind(depth):
        return ' '.join('%s = %s;' % (k, R.choice([str(R.randrange(9)), R.choice(N), 'rec { %s = %s; }' % (R.choice(N), R.choice(N))] if depth else [str(R.randrange(9)), R.choice(N)])) for k in R.sample(N, R.randint(1, 3)))
    for i in range(1500):
        body = ('rec ' if R.random() < 0.3 else '') + '{ ' + rnd_bind(1) + ' x = %s; }' % R.choice(N)
        wraps = [R.choice(['let %s in ' % rnd_bind(0), 'with { %s }; ' % rnd_bind(0), 'let inherit (s) %s; in ' % R.choice(N), '{ p }: ', '']) for _ in range(R.randint(0, 3))]
        text = 'let s = { a = 1; b = 2; }; in ' + ''.join(wraps) + body
        out['r%d' % i] = [text, obs(lambda: val(parse(text)['x'])), obs(lambda: ' '.join(set_value(parse(text), 'x', '77').split()))]
print(json.dumps(out, default=str))

(* Proofs over the REGENERATED format_trivia / trim_trailing_layout_newline of expressions/trivia.py (Dyn/FmtGen.v, tools/fmt2v.py):
   on lists of comments and layout markers the generated loop computes the F0 model's format_trivia of the list in which every inline
   comment that follows an emitted line has become an own-line comment (the repair F-54) — for every list and indent; where no such
   comment exists (every trivia list the F0 reader produces: checked per converted CST by the render correspondence) it IS the model's. *)
From Coq Require Import List Ascii String Bool Arith Lia.
Import ListNotations.
From F0 Require Import F0s GapLib FmtLib.
From Dyn Require Import FmtGen.
Set Default Timeout 60.

Fixpoint demote (l : list triv) (started : bool) : list triv :=
  match l with
  | [] => []
  | EmptyLine :: r => EmptyLine :: demote r true
  | Linebreak :: r => Linebreak :: demote r started
  | TC c :: r => TC (if started && cinline c then set_inline false c else c) :: demote r true
  end.
Fixpoint late_inline_free (l : list triv) (started : bool) : bool :=
  match l with
  | [] => true
  | EmptyLine :: r => late_inline_free r true
  | Linebreak :: r => late_inline_free r started
  | TC c :: r => negb (started && cinline c) && late_inline_free r true
  end.

Lemma loop_spec l : forall indent istr parts pne,
  format_trivia_loop (map of_triv l) indent istr parts pne true = Some (parts ++ format_trivia (demote l pne) indent).
Proof.
  induction l as [|t r IH]; intros indent istr parts pne; cbn [map format_trivia_loop demote format_trivia].
  - rewrite app_nil_r. reflexivity.
  - destruct t as [| |cm]; cbn [of_triv is_empty_item is_line_item is_comma_item is_cmt_item item_inline item_not_inline item_rebuild].
    + rewrite IH. cbn [demote format_trivia]. change (c 10) with LF. rewrite <- app_assoc. reflexivity.
    + rewrite IH. reflexivity.
    + rewrite andb_true_r. destruct (pne && cinline cm) eqn:E.
      * rewrite IH. cbn [format_trivia]. change (c 10) with LF. rewrite <- !app_assoc. reflexivity.
      * rewrite IH. cbn [format_trivia]. change (c 10) with LF. rewrite <- !app_assoc. reflexivity.
Qed.

Theorem format_trivia_gen_spec l indent :
  format_trivia_gen (map of_triv l) indent = Some (format_trivia (demote l false) indent).
Proof.
  unfold format_trivia_gen. destruct l as [|t r]; [reflexivity|].
  change (map of_triv (t :: r)) with (of_triv t :: map of_triv r) at 1.
  cbv iota beta. change (of_triv t :: map of_triv r) with (map of_triv (t :: r)). rewrite loop_spec. reflexivity.
Qed.

Lemma demote_id l : forall st, late_inline_free l st = true -> demote l st = l.
Proof.
  induction l as [|t r IH]; intros st H; cbn [demote late_inline_free] in *; [reflexivity|].
  destruct t as [| |cm].
  - rewrite IH by exact H. reflexivity.
  - rewrite IH by exact H. reflexivity.
  - apply andb_prop in H. destruct H as [H1 H2]. apply negb_true_iff in H1. rewrite H1, IH by exact H2. reflexivity.
Qed.

Theorem format_trivia_gen_is_model l indent :
  late_inline_free l false = true -> format_trivia_gen (map of_triv l) indent = Some (format_trivia l indent).
Proof. intros H. rewrite format_trivia_gen_spec, demote_id by exact H. reflexivity. Qed.

(* the repaired behaviour itself: a demoted comment is laid out at the structural indent, an inline comment at column 0 *)
Example demotion_matters :
  let cq := {| ck := KLine; ctxt := ["q"%char]; cspace := true; cshebang := false; cinline := true |} in
  let cp := {| ck := KLine; ctxt := ["p"%char]; cspace := true; cshebang := false; cinline := false |} in
  format_trivia_gen (map of_triv [TC cp; TC cq]) 2 = Some (s "  # p"%string ++ [LF] ++ s "  # q"%string ++ [LF])
  /\ format_trivia [TC cp; TC cq] 2 = s "  # p"%string ++ [LF] ++ s "# q"%string ++ [LF].
Proof. split; vm_compute; reflexivity. Qed.

Theorem trim_gen_is_model l r : trim_trailing_layout_newline_gen (map of_triv l) r = trim_trailing l r.
Proof.
  unfold trim_trailing_layout_newline_gen, trim_trailing. rewrite <- map_rev.
  destruct l as [|t0 l0] eqn:El; [reflexivity|]. rewrite <- El. clear El t0 l0.
  assert (Hne : (match map of_triv l with [] => true | _ => false end) = (match l with [] => true | _ => false end)) by (destruct l; reflexivity).
  rewrite Hne. destruct (rev l) as [|t q] eqn:E.
  - destruct l; [reflexivity|]. exfalso. apply (f_equal (@List.length triv)) in E. rewrite rev_length in E. discriminate.
  - assert (Hl : (match l with [] => true | _ => false end) = false) by (destruct l; [discriminate|reflexivity]).
    rewrite Hl. cbn [negb andb map hd_error existsb opt_is orb].
    unfold py_endswith1, ends_nl. change (c 10) with LF.
    destruct t as [| |cm]; cbn [of_triv is_line_item is_empty_item is_layout negb orb andb]; reflexivity.
Qed.

(* the hypothesis of format_trivia_gen_is_model as an executable check over a whole document as the model's reader builds it: every list the
   printer hands to format_trivia (before / after / inner lists, and a binding's value-after list joined with its own) *)
Definition lif0 (l : list triv) : bool := late_inline_free l false.
Fixpoint ast_lif (a : ast) : bool :=
  match a with
  | AAtom _ b x => lif0 b && lif0 x
  | ABind _ v _ b x => ast_lif v && lif0 b && lif0 x && lif0 (a_after v ++ x)
  | ASet vs _ _ i b x => (fix go (l : list ast) : bool := match l with [] => true | y :: r => ast_lif y && go r end) vs && lif0 i && lif0 b && lif0 x
  | AList vs _ i b x => (fix go (l : list ast) : bool := match l with [] => true | y :: r => ast_lif y && go r end) vs && lif0 i && lif0 b && lif0 x
  end.
Definition afile_lif (f : afile) : bool := forallb ast_lif (af_exprs f) && lif0 (af_trailing f).

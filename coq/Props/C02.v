(* C02 — RFC-0166-formatted source is reproduced byte for byte (fragment F0, model level).
   roundtrip f is the model of parse(text f).rebuild() over the typed concrete syntax with explicit gaps that the
   render correspondence converts from the REAL tree-sitter CST; canonical_file is the explicit, evaluable layout
   predicate (item on its own line at the structural indent, single blank lines, one space around =, comment spelling,
   final newline).  Holds for every nesting depth, number of bindings and items, identifiers and literal values. *)
From Coq Require Import List Ascii String Bool Arith.
Import ListNotations.
From F0 Require Import F0s Specs P1 P2 P3g P5 P6 P7 P8 P9 P10 P11 Canon P12 P13 Canonize P14 P15 P16a P16 P17 P18 P19 P20.

Theorem C02_identity : forall f, wf_file f -> canonical_file f = true -> roundtrip f = ftext f.
Proof. exact C02_F0. Qed.
Print Assumptions C02_identity.

(* the same with the decidable domain guard the harness evaluates on every converted file *)
Theorem C02_identity_checked : forall f, wf_fileb f = true -> canonical_file f = true -> roundtrip f = ftext f.
Proof. intros f H. apply C02_F0, wf_fileb_sound, H. Qed.
Print Assumptions C02_identity_checked.

(* non-vacuity: a file with a header comment, nested set and list, end-of-line comment and blank line that meets the
   guard and the layout predicate (the canonical form of P18.demo) *)
Example C02_nonvacuous : wf_fileb (canon_file demo) = true /\ canonical_file (canon_file demo) = true.
Proof. vm_compute. split; reflexivity. Qed.
Print Assumptions C02_nonvacuous.

(* end to end over the external parser (hypotheses validated by the render correspondence on every run) *)
Theorem C02_source : forall ts_parse : str -> option cfile,
  (forall src f, ts_parse src = Some f -> ftext f = src) ->
  (forall src f, ts_parse src = Some f -> wf_file f -> ts_parse (ftext (canon_file f)) = Some (canon_file f)) ->
  forall src f, ts_parse src = Some f -> wf_file f -> canonical_file f = true -> roundtrip f = src.
Proof. exact (fun ts Htiling _ => P20.C02_source ts Htiling). Qed.
Print Assumptions C02_source.

From Coq Require Import ZArith.
From F0 Require Import GapLib.
From Dyn Require Import GapGen GapGenProps.

(* over the REGENERATED gap helpers of expressions/trivia.py: the helpers the reader uses are the model's, for every gap — the generated
   blank-line test, indentation and gap trivia are has_empty_line, indent_from_gap and gap_trivia of F0.F0s, with which the theorems
   above are stated *)
Theorem C02_gap_helpers_are_the_models : forall g t,
  gap_has_empty_line g = has_empty_line g /\ indent_from_gap_gen g = indent_from_gap g /\ append_gap_trivia t g true = t ++ gap_trivia g.
Proof. intros g t. repeat split; [apply gap_has_empty_line_eq | apply indent_from_gap_eq | apply append_gap_trivia_eq]. Qed.
Print Assumptions C02_gap_helpers_are_the_models.

Theorem C02_line_info_offsets : forall pre g post,
  gap_line_info_offsets (pre ++ g ++ post) (Z.of_nat (List.length pre)) (Z.of_nat (List.length pre + List.length g)) =
  if has_nl g then (Z.of_nat (py_count LF g), Some (Z.of_nat (indent_from_gap g))) else (0%Z, None).
Proof. exact line_info_offsets. Qed.
Print Assumptions C02_line_info_offsets.

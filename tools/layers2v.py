"""Fail-closed translator: cli/manipulations.py `_collect_scope_layers`, `_write_scope_layers` and the layer selection of
`set_value` / `remove_value`  ->  Gallina definitions over the record types of Layers/LayerRec.v.

What is translated (everything else in these functions makes the translation FAIL, leaving an UNTRANSLATABLE marker):
  _collect_scope_layers   the outer layer built from `expr.scope` / `state.<field>` when `expr.scope` is non-empty, then one
                          layer per entry of the iterable of the `for` (`state.stack`, possibly wrapped in `reversed`),
                          skipping entries whose "scope" is empty; every dict value must be `X`, `list(X)` with X one of
                          expr.scope, state.<field>, layer[<key>], layer.get(<key>), or the loop's scope variable
  _write_scope_layers     the non-empty branch: which layer and key every field of expr.scope / ScopeState(...) is taken
                          from, and the comprehension that builds `stack` (source slice, filter, field sources).
                          The empty branch must reset expr.scope and expr.scope_state; what it does to expr.before /
                          expr.after (trivia restoration) is NOT modelled.
  set_value / remove_value   the guard `depth > len(layers)` and the index expression used to pick the target layer
usage: layers2v.py REPO  -> Coq text on stdout"""
import ast, sys

FIELDS = ['scope', 'body_before', 'body_after', 'attrpath_order', 'after_let_comment']
class Untranslatable(Exception): pass

def fn(tree, name):
    for n in ast.walk(tree):
        if isinstance(n, ast.FunctionDef) and n.name == name: return n
    raise Untranslatable('function %s not found' % name)

def strip_list(e):
    """list(X) -> X  (a copy is the identity on values)"""
    if isinstance(e, ast.Call) and isinstance(e.func, ast.Name) and e.func.id == 'list' and len(e.args) == 1 and not e.keywords: return e.args[0]
    return e

def src_of(e, env):
    """source of a value: ('expr', 'scope') | ('state', field) | ('layer', key) ; env maps local names to sources / roles"""
    e = strip_list(e)
    if isinstance(e, ast.Name) and e.id in env and isinstance(env[e.id], tuple): return env[e.id]
    if isinstance(e, ast.Attribute) and isinstance(e.value, ast.Name):
        role = env.get(e.value.id)
        if role == 'EXPR' and e.attr == 'scope': return ('expr', 'scope')
        if role == 'STATE' and e.attr in FIELDS + ['stack']: return ('state', e.attr)
    if isinstance(e, ast.Subscript) and isinstance(e.value, ast.Name) and isinstance(e.slice, ast.Constant) and isinstance(e.slice.value, str):
        role = env.get(e.value.id)
        if role in ('LAYER', 'OUTER') and e.slice.value in FIELDS: return ('layer' if role == 'LAYER' else 'outer', e.slice.value)
    if isinstance(e, ast.Call) and isinstance(e.func, ast.Attribute) and e.func.attr == 'get' and isinstance(e.func.value, ast.Name) and len(e.args) == 1 \
       and isinstance(e.args[0], ast.Constant) and not e.keywords:
        role = env.get(e.func.value.id)
        if role in ('LAYER', 'OUTER') and e.args[0].value in FIELDS: return ('layer' if role == 'LAYER' else 'outer', e.args[0].value)
    raise Untranslatable('value source %s' % ast.unparse(e)[:60])

def layer_dict(d, env):
    if not isinstance(d, ast.Dict): raise Untranslatable('layer literal is not a dict')
    out = {}
    for k, v in zip(d.keys, d.values):
        if not (isinstance(k, ast.Constant) and k.value in FIELDS): raise Untranslatable('layer key %s' % ast.unparse(k))
        out[k.value] = src_of(v, env)
    if sorted(out) != sorted(FIELDS): raise Untranslatable('layer literal keys %s' % sorted(out))
    return out

PROJ = {'expr': lambda f: '(e_%s e)' % f, 'state': lambda f: '(s_%s e)' % f, 'layer': lambda f: '(l_%s layer)' % f, 'outer': lambda f: '(l_%s outer)' % f}
def rec(fields): return '{| ' + '; '.join('l_%s := %s' % (f, PROJ[fields[f][0]](fields[f][1])) for f in FIELDS) + ' |}'
def truthy(src): return '(nonempty %s)' % PROJ[src[0]](src[1])

def gen_collect(f):
    if [a.arg for a in f.args.args] != ['expr']: raise Untranslatable('collect signature')
    env = {'expr': 'EXPR'}; body = [s for s in f.body if not (isinstance(s, ast.Expr) and isinstance(s.value, ast.Constant))]
    acc = None; parts = []
    for s in body:
        if isinstance(s, ast.AnnAssign) and isinstance(s.target, ast.Name) and isinstance(s.value, ast.List) and not s.value.elts: acc = s.target.id; continue
        if isinstance(s, ast.Assign) and len(s.targets) == 1 and isinstance(s.targets[0], ast.Name):
            v = s.value
            if isinstance(v, ast.Call) and isinstance(v.func, ast.Name) and v.func.id == 'cast' and len(v.args) == 2: v = v.args[1]
            if isinstance(v, ast.Attribute) and isinstance(v.value, ast.Name) and env.get(v.value.id) == 'EXPR' and v.attr == 'scope_state': env[s.targets[0].id] = 'STATE'; continue
            raise Untranslatable('assignment %s' % ast.unparse(s)[:60])
        if isinstance(s, ast.If) and not s.orelse:
            cond = src_of(s.test, env); lit = None
            for t in s.body:
                if isinstance(t, (ast.AnnAssign, ast.Assign)) and isinstance(t.value, ast.Dict):
                    tgt = t.target if isinstance(t, ast.AnnAssign) else t.targets[0]; lit = (tgt.id, layer_dict(t.value, env))
                elif isinstance(t, ast.Expr) and ast.unparse(t.value) == '%s.append(%s)' % (acc, lit[0] if lit else '?'): pass
                else: raise Untranslatable('outer branch statement %s' % ast.unparse(t)[:60])
            if lit is None: raise Untranslatable('outer branch builds no layer')
            parts.append('(if %s then [%s] else [])' % (truthy(cond), rec(lit[1]))); continue
        if isinstance(s, ast.For) and isinstance(s.target, ast.Name) and not s.orelse:
            it = s.iter; rev = False
            if isinstance(it, ast.Call) and isinstance(it.func, ast.Name) and it.func.id == 'reversed' and len(it.args) == 1: rev = True; it = it.args[0]
            if src_of(it, env) != ('state', 'stack'): raise Untranslatable('loop iterable %s' % ast.unparse(s.iter))
            env2 = dict(env); env2[s.target.id] = 'LAYER'; guard = None; lit = None
            for t in s.body:
                if isinstance(t, ast.Assign) and len(t.targets) == 1 and isinstance(t.targets[0], ast.Name) and not isinstance(t.value, ast.Dict):
                    env2[t.targets[0].id] = src_of(t.value, env2); continue
                if isinstance(t, ast.If) and not t.orelse and len(t.body) == 1 and isinstance(t.body[0], ast.Continue) and isinstance(t.test, ast.UnaryOp) and isinstance(t.test.op, ast.Not):
                    guard = src_of(t.test.operand, env2); continue
                if isinstance(t, (ast.AnnAssign, ast.Assign)) and isinstance(t.value, ast.Dict):
                    tgt = t.target if isinstance(t, ast.AnnAssign) else t.targets[0]; lit = (tgt.id, layer_dict(t.value, env2)); continue
                if isinstance(t, ast.Expr) and lit and ast.unparse(t.value) == '%s.append(%s)' % (acc, lit[0]): continue
                raise Untranslatable('loop statement %s' % ast.unparse(t)[:60])
            if lit is None: raise Untranslatable('loop builds no layer')
            item = '[%s]' % rec(lit[1])
            if guard: item = 'if %s then %s else []' % (truthy(guard), item)
            parts.append('flat_map (fun layer => %s) %s' % (item, '(rev (s_stack e))' if rev else '(s_stack e)')); continue
        if isinstance(s, ast.Return) and isinstance(s.value, ast.Name) and s.value.id == acc: continue
        raise Untranslatable('statement %s' % ast.unparse(s)[:60])
    return 'Definition collect (e : est) : list layer :=\n  ' + ' ++\n  '.join(parts) + '.\n'

def gen_write(f):
    args = [a.arg for a in f.args.args]
    if args[:2] != ['expr', 'layers']: raise Untranslatable('write signature')
    body = [s for s in f.body if not (isinstance(s, ast.Expr) and isinstance(s.value, ast.Constant))]
    if not (isinstance(body[0], ast.If) and ast.unparse(body[0].test) == 'not layers' and isinstance(body[0].body[-1], ast.Return)): raise Untranslatable('empty branch shape')
    resets = {ast.unparse(s.targets[0]): ast.unparse(s.value) for s in ast.walk(body[0]) if isinstance(s, ast.Assign) and len(s.targets) == 1}
    if resets.get('expr.scope') != 'Scope()' or resets.get('expr.scope_state') != 'ScopeState()': raise Untranslatable('empty branch does not reset scope and scope_state')
    env = {'expr': 'EXPR'}; out = {}
    for s in body[1:]:
        if isinstance(s, ast.Assign) and len(s.targets) == 1:
            t, v = s.targets[0], s.value
            if isinstance(t, ast.Name) and ast.unparse(v) == 'layers[0]': env[t.id] = 'OUTER'; continue
            if isinstance(t, ast.Name): env[t.id] = src_of(v, env); continue
            if ast.unparse(t) == 'expr.scope':
                # `X if isinstance(X, Scope) else Scope(X)` or plain X
                if isinstance(v, ast.IfExp): v = v.body
                out['scope'] = src_of(v, env); continue
            if ast.unparse(t) == 'expr.scope_state' and isinstance(v, ast.Call) and ast.unparse(v.func) == 'ScopeState' and not v.args:
                for k in v.keywords:
                    if k.arg in FIELDS[1:]: out[k.arg] = src_of(k.value, env)
                    elif k.arg == 'stack':
                        lc = k.value
                        if not (isinstance(lc, ast.ListComp) and len(lc.generators) == 1 and isinstance(lc.generators[0].target, ast.Name)): raise Untranslatable('stack is not a simple comprehension')
                        g = lc.generators[0]; env2 = dict(env); env2[g.target.id] = 'LAYER'
                        it = ast.unparse(g.iter)
                        if it == 'layers[1:]': srcl = '(tl layers)'
                        elif it == 'layers': srcl = 'layers'
                        else: raise Untranslatable('stack source %s' % it)
                        flt = 'fun layer => true'
                        if len(g.ifs) == 1: flt = 'fun layer => %s' % truthy(src_of(g.ifs[0], env2))
                        elif g.ifs: raise Untranslatable('stack filter')
                        out['stack'] = 'map (fun layer => %s) (filter (%s) %s)' % (rec(layer_dict(lc.elt, env2)), flt, srcl)
                    else: raise Untranslatable('ScopeState keyword %s' % k.arg)
                continue
        raise Untranslatable('statement %s' % ast.unparse(s)[:60])
    if sorted(out) != sorted(FIELDS + ['stack']): raise Untranslatable('write does not set %s' % sorted(set(FIELDS + ['stack']) - set(out)))
    fields = '; '.join(['e_scope := %s' % PROJ[out['scope'][0]](out['scope'][1])] + ['s_%s := %s' % (f, PROJ[out[f][0]](out[f][1])) for f in FIELDS[1:]] + ['s_stack := %s' % out['stack']])
    return ('Definition write (layers : list layer) : est :=\n  match layers with\n  | [] => empty_est\n  | outer :: _ => {| %s |}\n  end.\n' % fields)

def index_expr(e, names):
    """layers[-depth] | layers[len(layers) - depth] | a name bound to `len(layers) - depth`  ->  position from the front"""
    if isinstance(e, ast.Name) and e.id in names: return names[e.id]
    s = ast.unparse(e)
    if s == '-depth': return '(length layers - depth)'
    if s == 'len(layers) - depth': return '(length layers - depth)'
    if s == 'depth - 1': return '(depth - 1)'
    raise Untranslatable('layer index %s' % s)

def gen_pick(f, name):
    guard = None; names = {}; pick = None
    for s in ast.walk(f):
        if isinstance(s, ast.If) and ast.unparse(s.test) in ('depth > len(layers)', 'len(layers) < depth') and any(isinstance(t, ast.Raise) for t in s.body): guard = True
        if isinstance(s, ast.Assign) and len(s.targets) == 1 and isinstance(s.targets[0], ast.Name):
            if s.targets[0].id == 'layer_index': names['layer_index'] = index_expr(s.value, names)
    for s in ast.walk(f):
        if isinstance(s, ast.Assign) and len(s.targets) == 1 and isinstance(s.targets[0], ast.Name) and s.targets[0].id == 'target_layer':
            v = s.value
            if not (isinstance(v, ast.Subscript) and ast.unparse(v.value) == 'layers'): raise Untranslatable('target_layer is not an element of layers')
            pick = index_expr(v.slice, names)
    if not guard: raise Untranslatable('%s: no `depth > len(layers)` refusal' % name)
    if pick is None: raise Untranslatable('%s: target_layer not found' % name)
    return 'Definition %s (layers : list layer) (depth : nat) : option nat :=\n  if Nat.ltb (length layers) depth then None else Some %s.\n' % (name, pick)

def guarded(label, thunk):
    try: return thunk()
    except Untranslatable as e: return '(* UNTRANSLATABLE: %s: %s *)\n' % (label, str(e).replace('*)', '* )'))
    except Exception as e: return '(* UNTRANSLATABLE: %s: %s %s *)\n' % (label, type(e).__name__, str(e).replace('*)', '* )')[:200])

def main(repo):
    tree = ast.parse(open(repo + '/nix_manipulator/cli/manipulations.py').read())
    out = ['(* GENERATED by tools/layers2v.py from cli/manipulations.py *)',
           'From Coq Require Import List Arith Bool. Import ListNotations.', 'From L Require Import LayerRec.', '']
    out.append('(* _collect_scope_layers *)'); out.append(guarded('_collect_scope_layers', lambda: gen_collect(fn(tree, '_collect_scope_layers'))))
    out.append('(* _write_scope_layers (scope fields; the trivia restoration of the empty branch is not modelled) *)'); out.append(guarded('_write_scope_layers', lambda: gen_write(fn(tree, '_write_scope_layers'))))
    out.append('(* layer selection of set_value / remove_value: position from the front of the collected list, None = refused *)')
    out.append(guarded('set_value', lambda: gen_pick(fn(tree, 'set_value'), 'pick_set')))
    out.append(guarded('remove_value', lambda: gen_pick(fn(tree, 'remove_value'), 'pick_rm')))
    return '\n'.join(out)

if __name__ == '__main__':
    print(main(sys.argv[1]))

"""Edit correspondence: random canonical documents x sequences of 1-5 set/rm operations (existing, fresh, too-deep,
attrpath-family paths).  After EVERY call — also the ones that raise — the printed attribute structure of the
implementation (names in attrpath form, order, values) is compared inside Coq with `view` of the heap model
(E.EditModel: parse_doc, m_set, m_rm).   usage: edit_corr.py SEED N OUTDIR PREFIX"""
import json, os, random, re, sys
from common import write_shards
seed, N, outdir, prefix = int(sys.argv[1]), int(sys.argv[2]), sys.argv[3], sys.argv[4]
from gen_docs import DocGen
from nix_manipulator import parse
from nix_manipulator.parser import parse_to_ast
from nix_manipulator.cli.manipulations import set_value, remove_value
def q(t): return '(s "%s")' % t.replace('"', '""')
def qs(l): return '[' + '; '.join(q(x) for x in l) + ']'
def idoc(node):
    items = []
    for c in node.children:
        if c.type != 'binding_set': continue
        for b in c.children:
            if b.type != 'binding': continue
            ap = b.child_by_field_name('attrpath'); val = b.child_by_field_name('expression')
            segs = [a.text.decode() for a in ap.children if a.type != '.']
            v = idoc(val) if val.type in ('attrset_expression', 'rec_attrset_expression') else 'IAtom %s' % q(' '.join(val.text.decode().split()))
            items.append('(%s, %s)' % (qs(segs), v))
    return '(ISet %s [%s])' % ('true' if b'\n' in node.text else 'false', '; '.join(items))
def impl_view(text):
    root = parse_to_ast(text); top = [c for c in root.children if c.type != 'comment'][0]
    def vs(node):
        out = []
        for c in node.children:
            if c.type != 'binding_set': continue
            for b in c.children:
                if b.type != 'binding': continue
                ap = b.child_by_field_name('attrpath'); val = b.child_by_field_name('expression')
                out.append((ap.text.decode(), vs(val) if val.type in ('attrset_expression', 'rec_attrset_expression') else ' '.join(val.text.decode().split())))
        return out
    return vs(top)
def tree(view):
    return 'TS [' + '; '.join('(%s, %s)' % (q(n), tree(v) if isinstance(v, list) else 'TA %s' % q(v)) for n, v in view) + ']'
def allpaths(view, prefix=()):
    o = []
    for n, v in view:
        p = prefix + tuple(n.split('.'))
        for k in range(len(prefix) + 1, len(p) + 1): o.append(p[:k])
        if isinstance(v, list): o += allpaths(v, p)
    return o
def lookup(view, path):
    for n, v in view:
        segs = tuple(n.split('.'))
        if tuple(path[:len(segs)]) == segs:
            if len(path) == len(segs): return v
            if isinstance(v, list):
                r = lookup(v, path[len(segs):])
                if r is not None: return r
    return None
IDENT = re.compile(r"[A-Za-z_][A-Za-z0-9_']*")
G = DocGen(random.Random(seed)); R2 = random.Random(seed + 99)
cases, stats, samples = [], {'ops': 0, 'applied': 0, 'KeyError': 0, 'ValueError': 0, 'set': 0, 'rm': 0, 'attrpath_docs': 0}, []
while len(cases) < N:
    d = G.doc()
    if len(d) > 700: continue
    root = parse_to_ast(d); top = [c for c in root.children if c.type != 'comment'][0]
    try: src = parse(d)
    except ValueError: continue
    v0 = impl_view(src.rebuild()); ops = []; okcase = True; plain = []
    for step in range(R2.randrange(1, 6)):
        view = impl_view(src.rebuild()); paths = sorted(set(allpaths(view)))
        r = R2.random()
        if paths and r < 0.5: p = list(R2.choice(paths))
        elif paths and r < 0.8: p = list(R2.choice(paths))[:-1] + ['fresh%d' % step]
        elif paths: p = list(R2.choice(paths)) + ['deep%d' % step] + (['x'] if R2.random() < 0.3 else [])
        else: p = ['k']
        if any(not IDENT.fullmatch(x) for x in p): okcase = False; break
        op = R2.choice(['set', 'set', 'rm']); val = str(R2.randrange(1000, 2000))
        cur = lookup(view, p)
        if op == 'set' and isinstance(cur, str) and IDENT.fullmatch(cur) and cur not in ('true', 'false', 'null'): continue   # reference redirection: C11
        try:
            o = (set_value(src, '.'.join(p), val) if op == 'set' else remove_value(src, '.'.join(p))); e = 'EOk (%s)' % tree(impl_view(o)); stats['applied'] += 1
        except KeyError: e = 'EKey (%s)' % tree(impl_view(src.rebuild())); stats['KeyError'] += 1
        except ValueError: e = 'EVal (%s)' % tree(impl_view(src.rebuild())); stats['ValueError'] += 1
        stats['ops'] += 1; stats[op] += 1
        ops.append('(%s, %s)' % (('OSet %s %s' % (qs(p), q(val))) if op == 'set' else 'ORm %s' % qs(p), e)); plain.append([op, '.'.join(p), val])
    if okcase and ops:
        cases.append('(%s, %s, [%s])' % (idoc(top), tree(v0), '; '.join(ops)))
        if '.' in ''.join(n for n, _ in v0): stats['attrpath_docs'] += 1
        if len(samples) < 3: samples.append({'doc': d, 'ops': plain})
HDR = 'From Coq Require Import List Ascii String. Import ListNotations.\nFrom E Require Import EditModel EditRun.\nOpen Scope string_scope.\n'
OK = 'Definition ok (c : idoc * tree * list (opk * exp)) : bool := match check c with None => true | Some _ => false end.\n'
write_shards(outdir, prefix, HDR, 'idoc * tree * list (opk * exp)', OK, cases, 16)
json.dump({'stats': stats, 'keys': [], 'distinct_count': len(set(cases)),
           'rule': 'canonical F0 documents (nested/inline sets, lists, attrpath bindings, attrpath families, comments) x 1-5 set/rm on existing, fresh, too-deep paths; view compared after every call incl. refused ones; distinct = distinct (document, op sequence)',
           'samples': samples}, open(os.path.join(outdir, prefix + '_summary.json'), 'w'))
print(len(cases))

"""(re)write MANIFEST.json from the table below; properties without a check are listed under not_applicable"""
import json, os
V = os.path.dirname(os.path.dirname(os.path.abspath(__file__)))
ALL = ['C%02d' % i for i in range(1, 21)]
CHECKS = {
 'C16': dict(technique='Coq proof over an IR regenerated from cli/main.py (cli2v translator), for every library behaviour + subprocess correspondence',
             text='C16_test, C16_set, C16_rm, C16_unknown, C16_terminate hold for every library behaviour, document, path and value over the match arms regenerated from cli/main.py on every run and interpreted by Cli/CliIR.v; the real CLI (both channels) is compared with the interpreted arms inside Coq and the property is stated directly against the observations.',
             note='trusted: Coq kernel, cli2v translator, the Python facts written into the IR interpreter (print, uncaught exception => exit 1, evaluation order); argparse and the two input channels are observed, not modelled (finding F-28 lives there)', ref='6 C16'),
 'C17': dict(technique='Coq proof over a hand-written path/file-system model (abstract directory tree) + in-Coq correspondence on generated layouts',
             text='C17_relative, C17_cwd_independent, C17_absolute, C17_chain (any number of hops, by induction) and C17_errors hold for every directory tree without symlinks, every working directory and every spelling of the entry path; the model (pathlib path algebra, NixPath.resolved_path, physical lookup) is tied to the code by running parse_file(entry)[next]...[id] on generated layouts under varying cwd/spelling and comparing with the model inside Coq, and the property is also stated directly with os.path.realpath.',
             note='trusted: Coq kernel, the hand-written model of pathlib/OS lookup (Small/PathRes.v, PathFS.v); modelled, not verified: NixPath.resolved_path, Import._follow_import, parse_file; symlinks and case-insensitive file systems are outside the model', ref='6 C17'),
 'C12': dict(technique='Coq proof over Gallina regenerated from the Python source (py2v translator) + exhaustive in-Coq function correspondence',
             text='Theorems C12_addressable, C12_written, C12_split_written, C12_written_injective, C12_accepted_wellformed, C12_malformed hold for ALL strings over the definitions regenerated from /repo on every run (_parse_npath, _format_attr_name, _escape_nix_string, _split_attrpath, identifier regex, keyword table) against a hand-written spec of Nix\'s lexer; the one-spelling clause is refuted by theorem (finding F-13, listed). A code change to these functions changes the generated model, so a broken property breaks a proof script.',
             note='trusted: Coq kernel, the py2v translator (validated each run by exhaustive short-string correspondence incl. raise sites), Lex/NixLex.v+NixAttr.v as the meaning of "Nix reads"; binding lookup by written name is covered by the edit model (C05/C19) and the names-roundtrip search, not by these theorems', ref='6 C12'),
}
NA_REASON = 'check not built yet in this session (design in DESIGN.md section 6); will be claimed when its theorems and tie are wired'
m = {
 'version': 1,
 'setup_cmd': 'cd /verif && /venv/bin/python -W ignore tools/setup.py',
 'hooks': {'guard': 'NIMA_VERIF', 'enable': 'no source hooks are needed: instrumentation (rebuild-call counting, object-graph snapshots, registry inspection) wraps the library from the harness',
           'baseline_off_cmd': 'cd /repo && /venv/bin/python -m pytest -ra -q -p no:cacheprovider --timeout=900 --continue-on-collection-errors',
           'source_commits': [], 'add_only': True},
 'engines': [{'name': 'coq-proof', 'path': 'coq/', 'serves_properties': sorted(CHECKS), 'kind_free_text': 'Coq 8.16.1 development: static models/lemmas (make), per-run generated models + Props/Cxx.v'},
             {'name': 'py2v', 'path': 'tools/py2v.py', 'serves_properties': ['C12', 'C09', 'C13'], 'kind_free_text': 'fail-closed Python ast -> Gallina translator'},
             {'name': 'correspondence', 'path': 'tools/suites/', 'serves_properties': sorted(CHECKS), 'kind_free_text': 'implementation vs model on the same inputs, compared inside Coq by vm_compute'},
             {'name': 'search', 'path': 'tools/oracles/', 'serves_properties': sorted(CHECKS), 'kind_free_text': 'property oracles against the implementation (counter-example search; never a proof)'}],
 'checks': [], 'not_applicable': [],
 'notes': 'See DESIGN.md. known_findings.json lists recorded defects (KNOWN-FINDING lines) and fixed: entries.',
}
for p in ALL:
    if p in CHECKS:
        c = CHECKS[p]
        m['checks'].append({'property_id': p, 'quick_cmd': './check %s --tier quick' % p, 'thorough_cmd': './check %s --tier thorough' % p,
                            'evidence_file': 'evidence/%s.json' % p, 'replay_cmd_template': './check %s --replay {path}' % p, 'engine': 'coq-proof',
                            'level_claimed': {'category': 'proof', 'text': c['text'], 'design_ref': c['ref']}, 'level_note': c['note'], 'technique': c['technique']})
    else:
        m['not_applicable'].append({'property_id': p, 'reason': NA_REASON})
json.dump(m, open(os.path.join(V, 'MANIFEST.json'), 'w'), indent=1)
print('checks:', [c['property_id'] for c in m['checks']])

(* C15, purity half: the effect discipline over the mutation sites REGENERATED from /repo (Dyn.EffectsGen), and the
   frame theorem of Small.Effects for the run the discipline describes. *)
From Coq Require Import List String Bool Arith Lia. Import ListNotations.
From Small Require Import Effects.
From Dyn Require Import EffectsGen.
Close Scope string_scope.

(* a site is disciplined when it is on the justified allow list, or its receiver's root is a fresh local and the
   mutated object is that local itself, or a container that was given a fresh value in the same function *)
Definition disciplined (s : site) : bool := s_allow s || (s_root_fresh s && (negb (s_through s) || s_refreshed s)).

(* the obligation of this run: every mutation site reachable from a rebuild method is disciplined *)
Theorem all_sites_disciplined : forallb disciplined sites = true.
Proof. vm_compute. reflexivity. Qed.
(* the translator's own verdicts agree with the definition above, site by site *)
Theorem verdicts_agree : map disciplined sites = py_verdicts.
Proof. vm_compute. reflexivity. Qed.

(* abstraction of the render path as a run over the object heap: the i-th site writes to an object allocated during
   the run when it is disciplined (the translator's trusted step from syntax to heap), to an old object otherwise *)
Definition abs_site (n0 : nat) (i_s : nat * site) : list op :=
  [Alloc (OList []); Append (if disciplined (snd i_s) then n0 + 2 * fst i_s else 0) (VInt 0)].
Fixpoint number {A} (i : nat) (l : list A) : list (nat * A) := match l with [] => [] | x :: t => (i, x) :: number (S i) t end.
Definition summary (n0 : nat) : list op := flat_map (abs_site n0) (number 0 sites).

Lemma summary_ok n0 : forallb (site_ok n0) (summary n0) = true.
Proof.
  unfold summary. pose proof all_sites_disciplined as H. revert H. generalize 0 as i. generalize sites as l.
  induction l as [|s l IH]; intros i H; [reflexivity|]. cbn [forallb] in H. apply andb_prop in H. destruct H as [Hs Hl].
  cbn [number flat_map abs_site app forallb site_ok fst snd]. rewrite Hs. cbn [andb].
  assert (E : Nat.leb n0 (n0 + 2 * i) = true) by (apply Nat.leb_le; lia). rewrite E. apply IH, Hl.
Qed.

(* rebuilding leaves every pre-existing object exactly as it was: for every heap the run starts from *)
Theorem render_path_frame : forall h o, o < nxt h -> get (run h (summary (nxt h))) o = get h o.
Proof. intros h o Ho. apply frame_fresh_writes; [apply summary_ok|exact Ho]. Qed.
Print Assumptions all_sites_disciplined.
Print Assumptions render_path_frame.

(* The look-ups of the edit heap model ARE the look-ups of the source: the functions regenerated on every run from
   cli/manipulations.py by tools/find2v.py (_find_binding, _find_named_binding, _find_attrpath_root), instantiated
   with the heap's observations (every value of a set in the model is a Binding; name_of; nested_of), are equal to
   E.EditModel.find_by_name / find_named / find_root for every state, id list, key and flag. *)
From Coq Require Import List Ascii Bool.
Import ListNotations.
From E Require Import EditModel.
From Dyn Require Import FindGen.

Theorem find_binding_refines s : forall ids key,
  _find_binding nat (fun _ => true) (name_of s) ids key = find_by_name s ids key.
Proof. induction ids as [|i t IH]; intros key; [reflexivity|]. cbn [_find_binding find_by_name andb]. now rewrite IH. Qed.

Theorem find_named_refines s : forall ids key nested,
  _find_named_binding nat (fun _ => true) (name_of s) (nested_of s) ids key nested = find_named s ids key nested.
Proof.
  induction ids as [|i t IH]; intros key nested; [reflexivity|]. cbn [_find_named_binding find_named negb orb]. rewrite IH.
  destruct (streq (name_of s i) key); cbn [negb andb]; [|reflexivity].
  destruct nested as [n|]; cbn [is_none opt_eqb orb]; reflexivity.
Qed.

Theorem find_root_refines s : forall ids root,
  _find_attrpath_root nat (fun _ => true) (name_of s) (nested_of s) ids root = find_root s ids root.
Proof. induction ids as [|i t IH]; intros root; [reflexivity|]. cbn [_find_attrpath_root find_root andb]. now rewrite IH. Qed.

(* what the regenerated look-up returns, for ANY item type: the first item that is a Binding of that name whose nested
   flag matches the request (None = either) *)
Section Spec.
  Variable A : Type.
  Variables (is_binding : A -> bool) (name_ : A -> str) (nested_ : A -> bool).
  Definition wanted (key : str) (nested : option bool) (x : A) : bool :=
    is_binding x && streq (name_ x) key && match nested with None => true | Some n => Bool.eqb (nested_ x) n end.
  Theorem find_named_is_first_match : forall values key nested,
    _find_named_binding A is_binding name_ nested_ values key nested = find (wanted key nested) values.
  Proof.
    induction values as [|x t IH]; intros key nested; [reflexivity|]. cbn [_find_named_binding find]. rewrite IH. unfold wanted.
    destruct (is_binding x), (streq (name_ x) key), nested as [n|]; cbn [negb orb andb is_none opt_eqb]; reflexivity.
  Qed.
End Spec.

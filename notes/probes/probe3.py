import sys, time
sys.path.insert(0,'/repo')
from nix_manipulator import parse
def t(s):
    t0=time.time(); r=parse(s).rebuild(); return time.time()-t0
for n in (8,12,14,16,18):
    print('with', n, round(t("with a; "*n + "{\n x = 1;\n}"),3))
for n in (8,12,14,16,18):
    print('lambda', n, round(t("".join(f"a{i}: " for i in range(n)) + "x"),3))
for n in (8,12,14,16,18):
    print('assert', n, round(t("assert a; "*n + "x"),3))
for n in (8,12,14,16):
    print('formals-lambda', n, round(t("{ a }: "*n + "x"),3))
for n in (50,100,200,400):
    print('paren', n, round(t("("*n + "x" + ")"*n),3))
for n in (50,100,200,400):
    print('list', n, round(t("["*n + "x" + "]"*n),3))
for n in (50,100,200,400):
    print('set', n, round(t("{a="*n + "x" + ";}"*n),3))
for n in (100,200,400,800):
    print('chain', n, round(t(" ++ ".join(["a"]*n)),3))

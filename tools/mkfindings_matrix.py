"""Maintenance tool (run by hand, never by a check): re-derive the site lists of the matrix findings in
known_findings.json from a fresh run of the slot matrix on the CURRENT /repo, using the classification rules below
(one rule per root cause).  Cells that no rule classifies are printed for review and are NOT listed."""
import collections, json, os, subprocess, sys
V = os.path.dirname(os.path.dirname(os.path.abspath(__file__)))
RULES = {   # property -> [(finding id, predicate over [construct, slot, kind, context, detail, input, output], root cause, what fails)]
 'C01': [
  ('F-38', lambda x: x[0] == 'atom' and x[1].startswith('http'), 'mapping.py: tree-sitter\'s uri_expression has no expression class', 'a URI literal (`http://example.org/a?b=c`, deprecated but valid Nix) makes parse raise ValueError on valid input'),
  ('F-21', lambda x: x[1].endswith('|?') and 'raises' in x[4], 'function/definition.py: the formals reader does not expect a comment between a formal name and `?`', 'a comment between a formal parameter name and its `?` default makes parse raise ValueError on valid input'),
  ('F-30', lambda x: 'attrpath' in x[0] and x[1].endswith('|.'), 'binding.py: a line comment inside an attrpath is re-emitted without the line break that ends it', 'a line comment between an attrpath segment and the following dot swallows the rest of the binding: the output does not parse'),
  ('F-20', lambda x: x[0] in ('lambda_at', 'lambda_at_pre', 'lambda_formals_set') and x[1] == 'a|}', 'function/definition.py: multi-line formals are given a trailing comma, which the installed grammar rejects; with a comment after the last formal the comma is not adjacent to the brace', 'a comment after the last formal of a lambda without an ellipsis (plain or @-pattern) yields multi-line formals with a trailing comma that the installed tree-sitter grammar rejects'),
  ('F-49', lambda x: x[3] == 'lead_ws', 'source_code.py:from_cst reads the gaps from the root node\'s text (which starts at the first token) with absolute offsets: in a file that begins with whitespace every gap is read at a shifted position; two existing tests pin a consequence (no final newline for inputs starting with a line break), so the one-line repair cannot be made with the suite unedited', 'in a file that begins with whitespace, line breaks after comments and blank lines are misread: a line comment swallows the code after it (`   (a # c\\n)` becomes `(a # c)`), comments move, layout is not stable'),
 ],
 'C03': [
  ('F-30', lambda x: 'attrpath' in x[0] and 'does not parse' in x[4], 'binding.py: a line comment inside an attrpath is re-emitted without the line break that ends it', 'a line comment between an attrpath segment and the following dot swallows the rest of the binding (the comment absorbs code; the output does not parse)'),
  ('F-40', lambda x: x[2] in ('two_b', 'b_then_eol_c', 'two_own_b'), 'trivia.py/function definition: a second comment on the line of a first one is re-attached (inline to the previous item) or replaces the first', 'two comments in one gap: the first is dropped (after a lambda colon) or the two swap places'),
  ('F-44', lambda x: x[0] in ('let_empty', 'let_empty_set') and x[1] == 'let|in', 'let.py: a binding-less `let in` is elided together with the trivia between `let` and `in`', 'a comment between `let` and `in` of a binding-less let is dropped when the wrapper is elided'),
  ('F-03', lambda x: x[0] in ('empty_formals_at', 'assert_list', 'assert_set', 'select_set', 'inherit_in_let', 'assert', 'assert_multi', 'inherit', 'inherit_multi', 'inherit_from', 'lambda_at', 'lambda_at_pre', 'select', 'select_or', 'let_let_select', 'let_let_assert') or (x[0] == 'dup_attrpath_inherit' and x[1].endswith('|;')), 'comments in the gaps of select paths, `or` defaults, @-patterns, `inherit` heads/tails and after `assert c;` are not captured by the readers (dropped) or are re-attached after the following token', 'a comment in one of the listed gaps is dropped or moves to the other side of a code token'),
  ('F-49', lambda x: x[3] == 'lead_ws', 'source_code.py:from_cst reads the gaps from the root node\'s text (which starts at the first token) with absolute offsets: in a file that begins with whitespace every gap is read at a shifted position; two existing tests pin a consequence (no final newline for inputs starting with a line break), so the one-line repair cannot be made with the suite unedited', 'in a file that begins with whitespace, line breaks after comments and blank lines are misread: a line comment swallows the code after it (`   (a # c\\n)` becomes `(a # c)`), comments move, layout is not stable'),
 ],
 'C06': [
  ('F-45', lambda x: x[0] in ('let_empty', 'let_empty_set') and x[1].startswith('in|'), 'let.py: when a binding-less `let in` is elided the blank line that followed `in` stays in front of the body', 'eliding a binding-less `let in` followed by a blank line leaves that blank line before the body (at the top of a file: before the first token): not a fixed point'),
  ('F-34', lambda x: x[0] == 'select_or', 'select.py: blank lines around a comment before `or` are redistributed on each pass', 'a comment followed by blank lines before the `or` of a select default is not laid out stably (second pass differs)'),
  ('F-49', lambda x: x[3] == 'lead_ws', 'source_code.py:from_cst reads the gaps from the root node\'s text (which starts at the first token) with absolute offsets: in a file that begins with whitespace every gap is read at a shifted position; two existing tests pin a consequence (no final newline for inputs starting with a line break), so the one-line repair cannot be made with the suite unedited', 'in a file that begins with whitespace, line breaks after comments and blank lines are misread: a line comment swallows the code after it (`   (a # c\\n)` becomes `(a # c)`), comments move, layout is not stable'),
 ],
 'C18': [
  ('F-47', lambda x: 'closing delimiter not at' in x[4] and 'more than one' not in x[4] and 'own-line comment' not in x[4], 'inherit.py / binding.py / call.py: a line break inside `inherit ( … )`, a comment inside an attrpath or glued to a function name leaves the closing delimiter on a line of its own at the wrong column', 'a closing `)` or `}` that starts a line is not at the indentation of the line that holds its opener (inherit sources written over two lines, comments inside attrpaths, a comment glued to a call head)'),
  ('F-48', lambda x: x[4] == 'not in spacing normal form: own-line comment not indented with what follows it', 'comments before the closing brace of formals, inside parentheses, after a lambda head / `with` / unary operator, and the second of two comments on one line are printed at column 0 or at the outer indentation', 'an own-line comment is not indented with the structure it belongs to (before `}` of a formals list, inside parentheses, before `:` of a lambda, after `with` / `!` / `-` / `?`, second comment of a pair)'),
  ('F-45', lambda x: x[0] in ('let_empty', 'let_empty_set') and x[1].startswith('in|'), 'let.py: when a binding-less `let in` is elided the blank line that followed `in` stays in front of the body', 'eliding a binding-less `let in` followed by a blank line leaves whitespace before the first token / after `=`'),
  ('F-32', lambda x: x[0] in ('let', 'let_set', 'let_list', 'inherit_in_let', 'let_let', 'let_let_let') or x[0].startswith('let_') or (x[0] == 'nest' and 'let' in x[1].split('>')[1:]), 'binding.py/let.py: a `let` that is not at the top of the file is rendered after the preceding token with its scope indentation kept as spaces', 'a `let … in` expression in a nested position (binding value, parenthesis, lambda body, branch) is emitted with alignment padding before `let`'),
  ('F-22', lambda x: 'more than one blank line' in x[4] or x[0] in ('select', 'attrpath', 'let_let_select') or ('attrpath' in x[0] and x[1].endswith('|.') and x[4].endswith(': tab')) or (x[0] == 'attrpath_interp' and x[1] in ('${|x', 'x|}', '${|y', 'y|}')), 'gap_lines are re-emitted verbatim around binary operators, after `:`, before a formal default, before `}` of formals and around comments there; gaps inside select paths and attrpaths are kept verbatim', 'runs of blank lines survive around binary operators, after a lambda colon, inside formals and select defaults; space runs and tabs inside select paths are kept'),
  ('F-31', lambda x: 'space before :' in x[4], 'function/definition.py: a block comment between the head and `:` is emitted with a space on both sides', 'a block comment between a lambda head and its colon leaves a space before `:`'),
  ('F-29', lambda x: 'more than one space' in x[4] and x[2] in ('inl_b', 'tight_b', 'tight_b_sp', 'two_b'), 'a block comment directly after a token on the same line (opener of an inline container, operator, function name) is laid out as an own-line comment without a line break before it', 'a block comment directly after `{`, `[`, `(`, an operator or a function name is followed by a line break, with a run of spaces before the comment'),
  ('F-49', lambda x: x[3] == 'lead_ws', 'source_code.py:from_cst reads the gaps from the root node\'s text (which starts at the first token) with absolute offsets: in a file that begins with whitespace every gap is read at a shifted position; two existing tests pin a consequence (no final newline for inputs starting with a line break), so the one-line repair cannot be made with the suite unedited', 'in a file that begins with whitespace, line breaks after comments and blank lines are misread: a line comment swallows the code after it (`   (a # c\\n)` becomes `(a # c)`), comments move, layout is not stable'),
 ],
}
kf = json.load(open(os.path.join(V, 'known_findings.json')))
kf['findings'] = [f for f in kf['findings'] if f.get('kind') != 'matrix']
env = dict(os.environ, PYTHONPATH='/repo', PYTHONHASHSEED='0')
for prop, rules in RULES.items():
    out = subprocess.run(['/venv/bin/python', '-W', 'ignore', os.path.join(V, 'tools', 'oracles', 'slot_matrix.py'), prop], capture_output=True, text=True, env=env, cwd=os.path.join(V, 'tools', 'oracles')).stdout
    d = json.loads(out.strip().split('\n')[-1]); un = []
    groups = {r[0]: (collections.defaultdict(set), {}) for r in rules}
    for x in d['failing']:
        for fid, pred, root, what in rules:
            if pred(x):
                groups[fid][0][(x[0], x[1], x[3], x[4])].add(x[2]); groups[fid][1].setdefault('w', {'input': x[5], 'output': x[6], 'detail': x[4]}); break
        else: un.append(x)
    for fid, pred, root, what in rules:
        s, ex = groups[fid]
        if not s: print('NOTE', prop, fid, 'has no failing cell any more'); continue
        kf['findings'].append({'property': prop, 'id': fid, 'status': 'open', 'kind': 'matrix', 'sites': [[c, sl, sorted(k), ctx, det] for (c, sl, ctx, det), k in sorted(s.items())],      # a site = construct, slot, trivia kinds, context AND the kind of failure
                               'witness': ex['w'], 'root_cause': root, 'what_fails': what,
                               'theorem': 'outside the proven fragment F0 (slot-matrix cell); a failing cell that matches no listed site is reported'})
    print(prop, 'cells', d['cells'], 'failing', len(d['failing']), 'unclassified', len(un))
    for x in un[:40]: print('   UNCLASSIFIED', x[:5], repr(x[5])[:90], '->', repr(x[6])[:110])
if '--write' in sys.argv:
    json.dump(kf, open(os.path.join(V, 'known_findings.json'), 'w'), indent=1); print('written')

(* C14 — dictionary laws of the mapping API on the edit heap model (top-level set), and the text/mapping
   disagreement of finding F-17/F-23 as the refutation witness of the coherence clause. *)
From Coq Require Import List Ascii String Bool Arith.
Import ListNotations.
From E Require Import EditModel EditRun EditProofs EditLaws EditFindings.

(* after m[k] = v a lookup of k returns v — overwrite and append branch alike *)
Theorem C14_get_after_set : forall s k v, heap_ok s -> vals_ok s -> getitem (set_setitem s SRoot k v) SRoot k = Some v.
Proof. exact EditLaws.get_after_set. Qed.
Print Assumptions C14_get_after_set.

(* every other key reads as before *)
Theorem C14_get_other_after_set : forall s k v, heap_ok s -> vals_ok s ->
  forall k', streq k' k = false -> getitem (set_setitem s SRoot k v) SRoot k' = getitem s SRoot k'.
Proof. exact EditLaws.get_other_after_set. Qed.
Print Assumptions C14_get_other_after_set.

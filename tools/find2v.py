"""Fail-closed translator: the binding look-ups of cli/manipulations.py (`_find_binding`, `_find_named_binding`,
`_find_attrpath_root`) -> Gallina functions over a list of items of an abstract type with three observations
(is it a Binding, its name, its nested flag).  The edit heap model's find_by_name / find_named / find_root are then
PROVED equal to the regenerated functions (Dyn/FindProps.v), so the model's look-ups are tied to the source by
regeneration and proof rather than by sampling.

Accepted shapes (anything else -> UNTRANSLATABLE):
  return next((x for x in ITER if COND), None)
  for x in ITER:  [if COND: continue]*  [if COND: return x]  ...   return None
ITER is the sequence parameter itself or `<param>.values`.  COND is built from and / or / not,
isinstance(x, Binding), x.name == key, x.name != key, x.nested, <flag> is None, x.nested == <flag>.
usage: find2v.py REPO"""
import ast, sys
class Untranslatable(Exception): pass

def cond(e, x, params):
    if isinstance(e, ast.BoolOp):
        op = ' && ' if isinstance(e.op, ast.And) else ' || '
        return '(' + op.join(cond(v, x, params) for v in e.values) + ')'
    if isinstance(e, ast.UnaryOp) and isinstance(e.op, ast.Not): return '(negb %s)' % cond(e.operand, x, params)
    if isinstance(e, ast.Call) and isinstance(e.func, ast.Name) and e.func.id == 'isinstance' and len(e.args) == 2 \
       and isinstance(e.args[0], ast.Name) and e.args[0].id == x and ast.unparse(e.args[1]) == 'Binding': return '(is_binding %s)' % x
    if isinstance(e, ast.Attribute) and isinstance(e.value, ast.Name) and e.value.id == x and e.attr == 'nested': return '(nested_ %s)' % x
    if isinstance(e, ast.Compare) and len(e.ops) == 1:
        l, r, op = e.left, e.comparators[0], e.ops[0]
        def is_attr(n, a): return isinstance(n, ast.Attribute) and isinstance(n.value, ast.Name) and n.value.id == x and n.attr == a
        if is_attr(l, 'name') and isinstance(r, ast.Name) and params.get(r.id) == 'str':
            if isinstance(op, ast.Eq): return '(streq (name_ %s) %s)' % (x, r.id)
            if isinstance(op, ast.NotEq): return '(negb (streq (name_ %s) %s))' % (x, r.id)
        if isinstance(l, ast.Name) and params.get(l.id) == 'optbool' and isinstance(op, ast.Is) and isinstance(r, ast.Constant) and r.value is None:
            return '(is_none %s)' % l.id
        if is_attr(l, 'nested') and isinstance(r, ast.Name) and params.get(r.id) == 'optbool' and isinstance(op, ast.Eq):
            return '(opt_eqb (nested_ %s) %s)' % (x, r.id)
    raise Untranslatable('condition %s' % ast.unparse(e)[:70])

def iter_ok(e, seq):
    s = ast.unparse(e)
    return s == seq or s == seq + '.values'

def gen(tree, name, seq, params):
    f = next((n for n in ast.walk(tree) if isinstance(n, ast.FunctionDef) and n.name == name), None)
    if f is None: raise Untranslatable('function not found')
    got = [a.arg for a in f.args.args] + [a.arg for a in f.args.kwonlyargs]
    if got != [seq] + list(params): raise Untranslatable('signature %s' % got)
    body = [s for s in f.body if not (isinstance(s, ast.Expr) and isinstance(s.value, ast.Constant))]
    sig = ' '.join('(%s : %s)' % (p, {'str': 'str', 'optbool': 'option bool'}[t]) for p, t in params.items())
    args = ' '.join(params)
    # shape 1: return next((x for x in ITER if COND), None)
    if len(body) == 1 and isinstance(body[0], ast.Return) and isinstance(body[0].value, ast.Call) and ast.unparse(body[0].value.func) == 'next':
        c = body[0].value
        if len(c.args) != 2 or not (isinstance(c.args[1], ast.Constant) and c.args[1].value is None) or not isinstance(c.args[0], ast.GeneratorExp): raise Untranslatable('next(...) shape')
        g = c.args[0]
        if len(g.generators) != 1 or not isinstance(g.generators[0].target, ast.Name) or not isinstance(g.elt, ast.Name) or g.elt.id != g.generators[0].target.id: raise Untranslatable('generator shape')
        x = g.generators[0].target.id
        if not iter_ok(g.generators[0].iter, seq): raise Untranslatable('iterable %s' % ast.unparse(g.generators[0].iter))
        test = ' && '.join(cond(i, x, params) for i in g.generators[0].ifs) or 'true'
        return 'Fixpoint %s (values : list A) %s : option A :=\n  match values with\n  | [] => None\n  | %s :: rest => if %s then Some %s else %s rest %s\n  end.\n' % (name, sig, x, test, x, name, args)
    # shape 2: for loop returning the first hit
    if len(body) == 2 and isinstance(body[0], ast.For) and isinstance(body[0].target, ast.Name) and not body[0].orelse \
       and isinstance(body[1], ast.Return) and isinstance(body[1].value, ast.Constant) and body[1].value.value is None:
        lp = body[0]; x = lp.target.id
        if not iter_ok(lp.iter, seq): raise Untranslatable('iterable %s' % ast.unparse(lp.iter))
        rec = '%s rest %s' % (name, args)
        out = rec        # falling off the loop body continues with the next item
        for s in reversed(lp.body):
            if isinstance(s, ast.If) and not s.orelse and len(s.body) == 1:
                t = s.body[0]
                if isinstance(t, ast.Continue): out = 'if %s then %s else (%s)' % (cond(s.test, x, params), rec, out); continue
                if isinstance(t, ast.Return) and isinstance(t.value, ast.Name) and t.value.id == x: out = 'if %s then Some %s else (%s)' % (cond(s.test, x, params), x, out); continue
            raise Untranslatable('loop statement %s' % ast.unparse(s)[:60])
        return 'Fixpoint %s (values : list A) %s : option A :=\n  match values with\n  | [] => None\n  | %s :: rest => %s\n  end.\n' % (name, sig, x, out)
    raise Untranslatable('function shape')

def guarded(label, thunk):
    try: return thunk()
    except Untranslatable as e: return '(* UNTRANSLATABLE: %s: %s *)\n' % (label, str(e).replace('*)', '* )'))
    except Exception as e: return '(* UNTRANSLATABLE: %s: %s %s *)\n' % (label, type(e).__name__, str(e).replace('*)', '* )')[:200])

def main(repo):
    tree = ast.parse(open(repo + '/nix_manipulator/cli/manipulations.py').read())
    out = ['(* GENERATED by tools/find2v.py from cli/manipulations.py *)',
           'From Coq Require Import List Ascii Bool. Import ListNotations.', 'From E Require Import EditModel.', '',
           'Definition is_none (o : option bool) : bool := match o with None => true | Some _ => false end.',
           'Definition opt_eqb (b : bool) (o : option bool) : bool := match o with Some n => Bool.eqb b n | None => false end.',
           'Section Find.', '  Variable A : Type.', '  Variables (is_binding : A -> bool) (name_ : A -> str) (nested_ : A -> bool).', '']
    out.append(guarded('_find_binding', lambda: gen(tree, '_find_binding', 'target_set', {'key': 'str'})))
    out.append(guarded('_find_named_binding', lambda: gen(tree, '_find_named_binding', 'values', {'key': 'str', 'nested': 'optbool'})))
    out.append(guarded('_find_attrpath_root', lambda: gen(tree, '_find_attrpath_root', 'target_set', {'root': 'str'})))
    out.append('End Find.')
    return '\n'.join(out)

if __name__ == '__main__':
    print(main(sys.argv[1]))

import sys; sys.argv=['x','1','0']
exec(open('/verif/notes/probes/chain_model.py').read().split('# ---------- harness ----------')[0])
top = MSet(True, [[('b', MRef('d'))], [('d', MInt(90))]], [('d', MRef('b'))])
text = show(top) + '\n'; print(text.strip()); sets = {}; collect(top, sets); src = parse(text); reg = {}
for i in range(3):
    scopes_for_owner(reg, top); mv = set_getitem(reg, top, 'd'); m = outcome(ident_value(reg, sets, mv))
    x = src['d']
    try: r = x.value.rebuild().strip()
    except ResolutionError as e: r = str(e)[:30]
    print(i, 'model', m, '| impl', r, '| model chain for the value:', [ (k, i2) for k, _, i2 in reg[mv.id]])

"""C12 search (labelled test): names over every character class are written by `set`, read back from the emitted
text by an independent decoder over the tree-sitter CST, found again by a second `set` and by `rm`.
usage: c12_names.py SEED N   -> JSON on stdout"""
import json, random, sys
from nixread import ts, set_node, attr_tree, bindings
from nix_manipulator import parse
from nix_manipulator.cli.manipulations import set_value, remove_value
seed, N = int(sys.argv[1]), int(sys.argv[2])
R = random.Random(seed)
KW = ['assert', 'else', 'if', 'in', 'inherit', 'let', 'rec', 'then', 'with', 'or']
CH = list('ab_-\'019 .$"\\{}#/*=;:@\n\t\r') + ['é', '→', '\x01', '${', '\\n', "''"]
def name():
    r = R.random()
    if r < 0.15: return R.choice(KW)
    if r < 0.35: return ''.join(R.choice('abcXY_') for _ in range(R.randint(1, 5))) + R.choice(['', "'", '-x', '9'])
    return ''.join(R.choice(CH) for _ in range(R.randint(0, 7)))
def quote(n): return '"' + n.replace('\\', '\\\\').replace('"', '\\"') + '"'
DOCS = ['{ }', '{ x = 1; }', '{\n  x = 1;\n}\n', '{ pkgs }:\n{\n  x = 1;\n}\n', 'let\n  v = 1;\nin\n{\n  x = v;\n}\n']
viol, n_eval, kinds = [], 0, {}
def tree_of(text):
    root = ts(text)
    if root.has_error: return None, None
    s = set_node(root)
    if s is None: return None, None
    return attr_tree(s)
import re
IDENT = re.compile(r"^[A-Za-z_][A-Za-z0-9_']*\Z")
# ---- repeated segments under an attrpath root (fifth round of seeds): a path whose intermediate segment is spelled like its last one
# (`a.b.b`, `a."b c"."b c"`, `a.b.c.b`) addresses exactly that binding; the shorter path next to it is a different one
def spell(n): return n if IDENT.match(n) and n not in KW else quote(n)
for nm in ['b', 'x1', 'b c', 'a.b', 'if', "q'", '9z', 'é', 'b-c']:
    for shape in ('xx', 'xyx'):
        segs = ['a', nm, nm] if shape == 'xx' else ['a', nm, 'mid', nm]
        path = '.'.join(spell(x) for x in segs); short = '.'.join(spell(x) for x in segs[:-1])
        n_eval += 1; kinds['repeated-segment'] = kinds.get('repeated-segment', 0) + 1
        try:
            t1 = set_value(parse('{ a.other = 1; }'), path, '5'); tr1, _ = tree_of(t1)
            if tr1 is None or tr1.get(tuple(segs)) != '5': viol.append({'what': 'a path with a repeated segment is not written as that path', 'path': path, 'text': t1}); continue
            t2 = set_value(parse(t1), path, '6'); tr2, d2 = tree_of(t2)
            if tr2 is None or tr2.get(tuple(segs)) != '6' or d2 or len(tr2) != len(tr1): viol.append({'what': 'a second set with a repeated-segment path does not find the same binding', 'path': path, 'text': t2}); continue
            t3 = remove_value(parse(t2), path); tr3, _ = tree_of(t3)
            if tr3 is None or tuple(segs) in tr3 or tr3.get(('a', 'other')) != '1': viol.append({'what': 'rm with a repeated-segment path does not remove exactly that binding', 'path': path, 'text': t3}); continue
        except Exception as ex:
            viol.append({'what': 'edit with a repeated-segment path raises %s' % type(ex).__name__, 'path': path}); continue
        # the shorter path exists only as a prefix: rm of the LONGER path on a document that has only the shorter binding must be refused
        base = '{ %s = 1; a.other = 2; }' % short
        for op in ('rm', 'set'):
            try:
                d = parse(base); out = remove_value(d, path) if op == 'rm' else set_value(d, path, '7')
                tr, _ = tree_of(out)
                if op == 'rm' or tr is None or tr.get(tuple(segs[:-1])) != '1' and tr.get(tuple(segs)) != '7':
                    viol.append({'what': '%s of a path that runs through an existing leaf is accepted and changes another binding' % op, 'path': path, 'doc': base, 'text': out})
            except (KeyError, ValueError): pass
            except Exception as ex: viol.append({'what': '%s raises %s' % (op, type(ex).__name__), 'path': path, 'doc': base})
# ---- thirteenth round (unconditional): every pattern of quoted and bare segments over two and three positions — quoted at both ends included —
# as an attrpath binding written in the FILE and as one written by the library: a second set finds it (no second definition), rm removes exactly it
import itertools
QSEG = {'q': ['a.b', 'd e', 'x y', 'new-one'], 'b': ['a', 'c', 'k1', "z'"]}
for npos in (2, 3):
    for pat in itertools.product('qb', repeat=npos):
        segs = [QSEG[k][(i * 2 + npos) % len(QSEG[k])] for i, k in enumerate(pat)]
        if len(set(segs)) < len(segs): segs = [x + str(i) if k == 'b' else x + ' %d' % i for i, (x, k) in enumerate(zip(segs, pat))]
        path = '.'.join(spell(x) if k == 'b' else quote(x) for x, k in zip(segs, pat))
        for origin in ('file', 'library'):
            n_eval += 1; kinds['quote-pattern/' + ''.join(pat) + '/' + origin] = kinds.get('quote-pattern/' + ''.join(pat) + '/' + origin, 0) + 1
            try:
                if origin == 'file': t1 = '{ %s = 1; keep = 0; }\n' % path
                else:
                    root0 = spell(segs[0]) if pat[0] == 'b' else quote(segs[0])
                    t1 = set_value(parse('{ %s.keep0 = 0; keep = 0; }\n' % root0), path, '1')
                tr1, d1 = tree_of(t1)
                if tr1 is None or tr1.get(tuple(segs)) != '1' or d1: viol.append({'what': 'a path with quoted and bare segments is not written / read as that path', 'path': path, 'text': t1}); continue
                t2 = set_value(parse(t1), path, '2'); tr2, d2 = tree_of(t2)
                if tr2 is None or tr2.get(tuple(segs)) != '2' or d2 or len(tr2) != len(tr1) or t2.count(' = 2;') != 1:
                    viol.append({'what': 'a second set with the same path does not find the binding (second definition or other binding changed)', 'path': path, 'doc': t1, 'text': t2}); continue
                t3 = remove_value(parse(t1), path); tr3, _ = tree_of(t3)
                if tr3 is None or tuple(segs) in tr3 or tr3.get(('keep',)) != '0' or len(tr3) != len(tr1) - 1: viol.append({'what': 'rm does not remove exactly the addressed binding', 'path': path, 'doc': t1, 'text': t3}); continue
            except Exception as ex:
                viol.append({'what': 'edit through a path with quoted and bare segments raises %s: %s' % (type(ex).__name__, ex), 'path': path, 'origin': origin}); continue
# ---- names that contain the scope marker, addressed WITH a scope selector (eighth round): only the leading @ run selects the layer
from edit_lib import read_layers
for nm in ['user@host', 'a@b', '@x', 'x@', '@', 'a.b@c']:
    for doc_, depth, layer_index in [('let\n  q = 1;\nin\n{\n  x = q;\n}\n', 1, 0), ('let\n  a = 1;\nin\nlet\n  b = 2;\nin\n{\n  c = a;\n}\n', 1, 1), ('let\n  a = 1;\nin\nlet\n  b = 2;\nin\n{\n  c = a;\n}\n', 2, 0)]:
        path = '@' * depth + quote(nm); n_eval += 1; kinds['scoped-at-name'] = kinds.get('scoped-at-name', 0) + 1
        try:
            t1 = set_value(source=parse(doc_), npath=path, value='5'); l1 = read_layers(t1)
            if l1 is None or l1[layer_index].get(quote(nm)) != '5' or any(quote(nm) in L for i, L in enumerate(l1) if i != layer_index):
                viol.append({'what': 'a scoped path whose name contains @ is not written into the selected let layer', 'path': path, 'doc': doc_, 'text': t1}); continue
            t2 = set_value(source=parse(t1), npath=path, value='6'); l2 = read_layers(t2)
            if l2 is None or l2[layer_index].get(quote(nm)) != '6' or sum(len(L) for L in l2) != sum(len(L) for L in l1):
                viol.append({'what': 'a second scoped set with a name that contains @ does not find the same binding', 'path': path, 'doc': doc_, 'text': t2}); continue
            t3 = remove_value(source=parse(t2), npath=path); l3 = read_layers(t3)
            if l3 is None or any(quote(nm) in L for L in l3): viol.append({'what': 'scoped rm with a name that contains @ does not remove the binding', 'path': path, 'doc': doc_, 'text': t3})
        except Exception as ex: viol.append({'what': 'scoped edit with a name that contains @ raises %s' % type(ex).__name__, 'path': path, 'doc': doc_})
# ---- eleventh round: a line feed in a scoped path.  Inside quotes it is part of the name (the same name as the \\n escape spells); outside quotes the
# path is malformed and must be refused, never cut short at the line feed and applied to the binding the first line names
for doc_ in ('{ x = 1; }\n', 'let\n  foo = { };\n  y = 2;\nin\n{ x = foo; }\n', 'let\n  a = 1;\nin\nlet\n  foo = 2;\nin\n{\n  c = a;\n}\n'):
    for raw, esc in [('@"a\nb"', '@"a\\nb"'), ('@foo."k\n.v"', '@foo."k\\n.v"'), ('@@"a\nb"', '@@"a\\nb"'), ('@"\n"', '@"\\n"')]:
        n_eval += 1; kinds['scoped-linefeed'] = kinds.get('scoped-linefeed', 0) + 1
        def go(f, *a):
            try: return ('ok', f(*a))
            except (KeyError, ValueError) as ex: return ('refused', type(ex).__name__)
            except Exception as ex: return ('raises', type(ex).__name__)
        want = go(set_value, parse(doc_), esc, '2'); got = go(set_value, parse(doc_), raw, '2')
        if want[0] == 'raises' or got != want and not (want[0] == got[0] == 'refused'):
            viol.append({'what': 'a scoped path with a raw line feed inside quotes does not do what the \\n escape does', 'path': raw, 'doc': doc_, 'raw': got, 'escaped': want}); continue
        if want[0] == 'ok':
            r1 = go(remove_value, parse(want[1]), raw); r2 = go(remove_value, parse(want[1]), esc)
            if r1 != r2 or r1[0] != 'ok': viol.append({'what': 'scoped rm with a raw line feed inside quotes does not find the binding the \\n escape finds', 'path': raw, 'doc': want[1], 'raw': r1, 'escaped': r2})
    for badp in ('@foo\n.bar', '@foo\n"', '@foo\n', '@@foo\nbar', '@foo\n."q', '@y\n', '@a\nb'):
        n_eval += 1; kinds['scoped-linefeed-malformed'] = kinds.get('scoped-linefeed-malformed', 0) + 1
        for op in ('set', 'rm'):
            try:
                out = set_value(parse(doc_), badp, '3') if op == 'set' else remove_value(parse(doc_), badp)
                viol.append({'what': '%s accepts a scoped path with a line feed outside quotes' % op, 'path': badp, 'doc': doc_, 'text': out})
            except (KeyError, ValueError): pass
            except Exception as ex: viol.append({'what': '%s of a malformed scoped path raises %s' % (op, type(ex).__name__), 'path': badp, 'doc': doc_})
# ---- unconditional core (tenth round: a spelling met only by chance is a spelling missed when the generator changes): every special first name x
# every plain or special second name, two and three segments: written as that path, found by a second set, removed by rm
for first in ['x.y', 'b c', 'if', '9z', 'é', 'a"b', 'a\\b', '${x}', '', ' ', "q'", 'a.b.c', '.']:
    for rest in (['b'], ['k1', 'z'], ['x.y'], ['b', 'c.d'], ["q'"]):
        nm_ = [first] + rest; path = '.'.join(spell(x) if x != '' else '""' for x in nm_)
        for doc_ in ('{ }', '{\n  x = 1;\n}\n'):
            n_eval += 1; kinds['core-paths'] = kinds.get('core-paths', 0) + 1; case = {'doc': doc_, 'path': path, 'names': nm_}
            try:
                o1 = set_value(source=parse(doc_), npath=path, value='7'); t1, d1 = tree_of(o1)
                if t1 is None or t1.get(tuple(nm_)) != '7' or d1: viol.append(dict(case, out=o1, what='Nix reads back %r, expected path %r = 7' % (sorted(t1) if t1 else None, nm_))); continue
                o2 = set_value(source=parse(o1), npath=path, value='8'); t2, d2 = tree_of(o2)
                if t2 is None or t2.get(tuple(nm_)) != '8' or d2 or len(t2) != len(t1): viol.append(dict(case, out=o2, what='second set with the same path did not find the same binding')); continue
                o3 = remove_value(source=parse(o2), npath=path); t3, _ = tree_of(o3)
                if t3 is None or tuple(nm_) in t3: viol.append(dict(case, out=o3, what='rm with the same path did not remove the binding'))
            except Exception as ex: viol.append(dict(case, what='core path raises %s: %s' % (type(ex).__name__, ex)))
# a malformed bare segment after a quoted one is refused like anywhere else
for bad_path in ['"a"..b', '"a".', '"a".1x', '"a".b c', '"a b".', '"a".b..c', '"a"."b".-']:
    n_eval += 1; kinds['malformed-after-quoted'] = kinds.get('malformed-after-quoted', 0) + 1
    try:
        out = set_value(source=parse('{ }'), npath=bad_path, value='1')
        viol.append({'what': 'a malformed path after a quoted segment is accepted', 'path': bad_path, 'doc': '{ }', 'text': out})
    except ValueError: pass
    except Exception as ex: viol.append({'what': 'set raises %s' % type(ex).__name__, 'path': bad_path, 'doc': '{ }'})
for i in range(N):
    names = [name() for _ in range(R.choice([1, 1, 1, 2, 3]))]
    doc = R.choice(DOCS)
    for spelling in ('quoted', 'bare', 'raw', 'mixed'):
        if spelling == 'raw':
            # a segment used verbatim: an identifier (possibly an existing name) plus a suffix; must be refused or read back exactly
            names = [R.choice(['x', 'v', 'ab', 'if', 'a_b']) + R.choice(['\n', ' ', '\t', '-', "'", '\r', '+', '\n\n', '$', '/', 'é', '²', 'ñb', '٣', 'ß']) for _ in names]
            path = '.'.join(names)
        elif spelling == 'bare':
            if not all(IDENT.match(n) for n in names): continue
            path = '.'.join(names)
        elif spelling == 'mixed':
            # seventh round: quoted and bare segments in one path (what one segment needed must not leak into the next)
            if len(names) < 2: names = names + [R.choice(['b', 'x1', "q'", 'a_b'])]
            if R.random() < 0.7: names = [R.choice(['x.y', 'b c', 'if', '9z', 'é'])] + [R.choice(['b', 'k1', "q'"]) for _ in names[1:]]
            path = '.'.join(spell(n) for n in names)
        else:
            path = '.'.join(quote(n) for n in names)
        n_eval += 1
        kinds[spelling + str(len(names))] = kinds.get(spelling + str(len(names)), 0) + 1
        case = {'doc': doc, 'path': path, 'names': names}
        try:
            out1 = set_value(source=parse(doc), npath=path, value='7')
        except Exception as e:
            if spelling == 'raw' and isinstance(e, ValueError): continue      # malformed path rejected: fine
            viol.append(dict(case, what='set refused an addressable name: %s: %s' % (type(e).__name__, e))); continue
        t1, d1 = tree_of(out1)
        if t1 is None:
            viol.append(dict(case, out=out1, what='emitted text does not parse')); continue
        if t1.get(tuple(names)) != '7' or d1:
            viol.append(dict(case, out=out1, what='Nix reads back %r, expected path %r = 7' % (sorted(t1), names))); continue
        try:
            out2 = set_value(source=parse(out1), npath=path, value='8')
            t2, d2 = tree_of(out2)
            if t2 is None or t2.get(tuple(names)) != '8' or d2 or len(t2) != len(t1):
                viol.append(dict(case, out=out2, what='second set with the same path did not find the same binding')); continue
            out3 = remove_value(source=parse(out1), npath=path)
            t3, d3 = tree_of(out3)
            if t3 is None or tuple(names) in t3:
                viol.append(dict(case, out=out3, what='rm with the same path did not remove the binding')); continue
        except Exception as e:
            viol.append(dict(case, what='second set / rm raised %s: %s' % (type(e).__name__, e))); continue
print(json.dumps({'evaluations': n_eval, 'violations': viol[:20], 'n_violations': len(viol), 'distribution': kinds}))

#!/bin/sh
# usage: tools/all_seeds.sh [NAME...] — apply every confirmed seeded change in turn, run the quick check of its property, undo it;
# prints one line per seed: caught / MISSED / patch does not apply.  Evidence of these runs is redirected (try_patch.sh).
cd /verif
names="${*:-$(ls seeded)}"
for n in $names; do
  p=$(echo "$n" | cut -c1-3)
  out=$(TAIL=400 timeout 1800 tools/try_patch.sh /verif/seeded/$n/patch.diff $p 2>&1)
  if echo "$out" | grep -q "patch does not apply"; then echo "$n: PATCH DOES NOT APPLY"
  elif echo "$out" | grep -q "^VIOLATION property=$p"; then echo "$n: caught ($(echo "$out" | grep -c '^VIOLATION') violation lines$(echo "$out" | grep -q 'no-failing-input-found' && echo ', no-failing-input-found'))"
  else echo "$n: MISSED"; fi
done
git -C /repo status --short | head -3

"""C15 search (labelled test).  Purity: for every slot-matrix cell and generated document, a deep snapshot of the
object graph before and after rebuild() is identical and three consecutive rebuilds give the same text; the set of
package functions that actually execute under rebuild() is contained in the statically reachable set the effect
summary was computed for (fail closed).  Determinism: the same texts give the same results serially, from 8 threads,
in shuffled order, under another hash seed and another working directory (subprocesses).
usage: purity_search.py SEED N [--child]"""
import hashlib, json, os, random, subprocess, sys, threading
sys.path.insert(0, os.path.join(os.path.dirname(os.path.abspath(__file__)), '..', 'suites'))
from matrix_cells import iter_cells
from edit_lib import snapshot
from gen_docs import DocGen2, PkgGen, perturb
from nix_manipulator import parse
from nix_manipulator.parser import parse_to_ast
seed, N = int(sys.argv[1]), int(sys.argv[2])
R = random.Random(seed * 19 + 15)
def corpus():
    texts = [p for _, p, _ in iter_cells()]
    step = max(1, len(texts) // max(N, 1)); texts = texts[seed % step::step]
    G0 = DocGen2(R); GP = PkgGen(R)
    for i in range(N // 3):
        d = G0.doc() if i % 2 else GP.doc()
        texts.append(perturb(R, d, parse_to_ast) if i % 4 == 1 else d)
    return [t for t in texts if not parse_to_ast(t).has_error]
def digest(texts):
    h = hashlib.sha256()
    for t in texts:
        try: r = parse(t).rebuild()
        except Exception as e: r = 'EXC:' + type(e).__name__
        h.update(r.encode()); h.update(b'\0')
    return h.hexdigest()
if '--child' in sys.argv:
    print(digest(corpus())); sys.exit(0)
texts = corpus(); viol = []; dist = {'documents': len(texts)}
# ---- dynamic closure: what runs under rebuild() is inside the static summary ----
static = json.loads(subprocess.run([sys.executable, '-W', 'ignore', os.path.join(os.path.dirname(os.path.abspath(__file__)), '..', 'effects2v.py'), os.environ.get('NIMA_REPO', '/repo'), '--json'],
                                   capture_output=True, text=True).stdout)
static_set = {(f, q) for f, q in static['reachable']}
ran = set(); pkg = os.path.join(os.environ.get('NIMA_REPO', '/repo'), 'nix_manipulator') + os.sep
def prof(frame, event, arg):
    if event == 'call':
        fn = frame.f_code.co_filename
        if fn.startswith(pkg): ran.add((os.path.relpath(fn, pkg), frame.f_code.co_qualname))
def safe(t):
    try: return parse(t).rebuild()
    except Exception as e: return 'EXC:' + type(e).__name__
# ---- purity ----
for t in texts:
    try: d = parse(t)
    except Exception: continue
    before = snapshot(d)
    sys.setprofile(prof)
    try: r1 = d.rebuild()
    except Exception as e:
        sys.setprofile(None); continue
    sys.setprofile(None)
    after = snapshot(d)
    if after != before: viol.append({'what': 'rebuild() modified the document (object-graph snapshot differs)', 'input': t}); continue
    r2 = d.rebuild(); r3 = d.rebuild()
    if not (r1 == r2 == r3): viol.append({'what': 'repeated rebuilds of the same document return different text', 'input': t, 'first': r1, 'second': r2}); continue
    if safe(t) != r1: viol.append({'what': 'a fresh parse of the same text rebuilds differently from the first document', 'input': t})
# ---- purity on documents that hold CONSTRUCTED nodes (eighth round): a node built through the construction API and inserted by an edit has
# layout fields still undecided (multiline=None …); rebuilding must not decide them on the node
def constructed():
    from nix_manipulator.expressions.list import NixList
    from nix_manipulator.expressions.set import AttributeSet
    from nix_manipulator.expressions.identifier import Identifier
    from nix_manipulator.expressions.with_statement import WithStatement
    from nix_manipulator.expressions.binding import Binding
    ident = lambda n: Identifier(name=n)
    makers = [lambda: NixList(value=['a', 'b']), lambda: NixList(value=[1]), lambda: NixList(value=[]), lambda: NixList(value=[ident('a'), ident('b'), ident('c')]),
              lambda: WithStatement(environment=ident('pkgs'), body=NixList(value=[ident('a'), ident('b')])), lambda: AttributeSet.from_dict({'x': 1, 'y': [1, 2]}), lambda: AttributeSet.from_dict({}),
              lambda: AttributeSet(values=[Binding(name='k', value=NixList(value=['u', 'v']))]), lambda: {'n': {'m': [1, 2, 3]}}, lambda: [[1, 2], [3]], lambda: 'text', lambda: 1.5]
    for base in ['{\n  name = "x";\n}\n', '{ name = "x"; }\n', 'let\n  v = 1;\nin\n{\n  a = v;\n}\n']:
        for mk in makers:
            d = parse(base); d['deps'] = mk(); yield base, d
for base, d in constructed():
    dist['constructed'] = dist.get('constructed', 0) + 1
    try:
        before = snapshot(d); r1 = d.rebuild(); after = snapshot(d)
        if after != before: viol.append({'what': 'rebuild() modified a document that holds a constructed node (object-graph snapshot differs)', 'input': base, 'text': r1}); continue
        r2 = d.rebuild(); r3 = d.rebuild()
        if not (r1 == r2 == r3): viol.append({'what': 'repeated rebuilds of a document that holds a constructed node return different text', 'input': base, 'first': r1, 'second': r2})
    except Exception as e: viol.append({'what': 'constructed document: %s' % type(e).__name__, 'input': base})
# ---- history with FAILING work (ninth round): a parse_file that raises half-way (a construct the library refuses) must leave nothing behind —
# the next plain parse() of a text with relative paths builds the same tree as in a fresh process state, on this thread and on a worker
def failing_history():
    import tempfile, shutil
    from nix_manipulator.parser import parse_file
    T = tempfile.mkdtemp(prefix='nima-hist-')
    try:
        os.makedirs(os.path.join(T, 'a')); open(os.path.join(T, 'a', 'bad.nix'), 'w').write('{ src = http://example.org/a.tar.gz; }\n'); open(os.path.join(T, 'a', 'cfg.nix'), 'w').write('{ who = "A"; }\n')
        open(os.path.join(T, 'a', 'bad2.nix'), 'w').write('let { body = 1; }\n')
        probes = ['import ./cfg.nix\n', '{\n  p = ./lib/x.nix;\n  q = import ../y.nix;\n}\n']
        import dataclasses
        def spaths(obj, seen=None, depth=0):
            """every source_path in the object graph (the snapshot leaves that field out because it depends on the caller's directory)"""
            seen = seen if seen is not None else set()
            if obj is None or isinstance(obj, (str, int, float, bool, bytes)) or id(obj) in seen or depth > 40 or type(obj).__name__ in ('Node', 'Tree'): return []
            seen.add(id(obj)); out = []
            if hasattr(obj, 'source_path'): out.append(str(getattr(obj, 'source_path')))
            if isinstance(obj, (list, tuple)): out += [x for y in obj for x in spaths(y, seen, depth + 1)]
            elif isinstance(obj, dict): out += [x for y in obj.values() for x in spaths(y, seen, depth + 1)]
            elif dataclasses.is_dataclass(obj): out += [x for f in dataclasses.fields(obj) if f.name not in ('owner', 'node') for x in spaths(getattr(obj, f.name, None), seen, depth + 1)]
            elif hasattr(obj, '__dict__'): out += [x for k_, y in sorted(vars(obj).items()) if k_ not in ('owner', 'node') for x in spaths(y, seen, depth + 1)]
            return out
        def shot(): return [(snapshot(d_), spaths(d_)) for d_ in (parse(t) for t in probes)]
        base = shot()
        for bad_file in ('bad.nix', 'bad2.nix'):
            dist['failing-history'] = dist.get('failing-history', 0) + 1
            try: parse_file(os.path.join(T, 'a', bad_file)); raised = False
            except Exception: raised = True
            if raised and shot() != base: viol.append({'what': 'a parse_file that raised changes what a later parse() of a text with relative paths builds (state leaked from the failed call)', 'input': probes[0], 'earlier': bad_file}); return
        res_ = []
        def worker():
            try: parse_file(os.path.join(T, 'a', 'bad.nix'))
            except Exception: pass
            res_.append(shot())
        th = threading.Thread(target=worker); th.start(); th.join()
        if res_ and res_[0] != base: viol.append({'what': 'on a worker thread a parse_file that raised changes what a later parse() builds', 'input': probes[0], 'earlier': 'bad.nix'})
    finally: shutil.rmtree(T, ignore_errors=True)
failing_history()
def norm(q): return q.replace('.<locals>', '')
ran_n = {(f, norm(q)) for f, q in ran if '<genexpr>' not in q and '<lambda>' not in q and '<listcomp>' not in q}
missing = sorted(ran_n - static_set)
dist['functions_executed_under_rebuild'] = len(ran_n); dist['static_reachable'] = len(static_set)
if missing: viol.append({'what': 'functions executed under rebuild() that the effect summary does not cover: %s' % missing[:6], 'input': ''})
# ---- determinism: threads, order, hash seed, cwd ----
base = digest(texts)
res = [None] * 8
def work(i):
    res[i] = digest(texts)
ths = [threading.Thread(target=work, args=(i,)) for i in range(8)]
[t.start() for t in ths]; [t.join() for t in ths]
if any(r != base for r in res): viol.append({'what': 'results differ between the serial run and 8 concurrent threads', 'input': ''})
sh = texts[:]; random.Random(seed).shuffle(sh)
def safe(t):
    try: return parse(t).rebuild()
    except Exception as e: return 'EXC:' + type(e).__name__
per = {t: safe(t) for t in sh}
if any(safe(t) != per[t] for t in texts[:200]): viol.append({'what': 'result depends on the order of prior work', 'input': ''})
for hs, cwd in (('1', '/'), ('12345', '/tmp')):
    env = dict(os.environ, PYTHONHASHSEED=hs)
    out = subprocess.run([sys.executable, '-W', 'ignore', os.path.abspath(__file__), str(seed), str(N), '--child'], capture_output=True, text=True, env=env, cwd=cwd).stdout.strip().split('\n')[-1]
    dist['subprocess_hashseed_%s' % hs] = out[:12]
    if out != base: viol.append({'what': 'results differ under PYTHONHASHSEED=%s cwd=%s' % (hs, cwd), 'input': ''})
print(json.dumps({'evaluations': len(texts), 'distinct': len(set(texts)), 'distribution': dist, 'violations': viol[:5], 'n_violations': len(viol), 'samples': [{'input': texts[len(texts) // 2]}]}))
